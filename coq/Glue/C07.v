(** Harness glue for C07: from_u32 / encode_utf8 / decoding per block of 256 code points,
    chars / char_indices histories, and the tie of Spec.Utf8 to the real std. *)
From Coq Require Import List ZArith Bool String Ascii.
From KV Require Import Base.Prelude Base.Deque Model.Utf8 Model.Str Model.Chars Spec.Utf8 Glue.Val Glue.C03.
Import ListNotations.
Local Open Scope string_scope.

(** one hex digit by pattern matching (Val.hex_digit goes through unary [nat]: too slow for
    a million code points per run; the two agree, see [hexd_ok]) *)
Definition hexd (z : Z) : ascii :=
  (match z with
   | 0 => "0" | 1 => "1" | 2 => "2" | 3 => "3" | 4 => "4" | 5 => "5" | 6 => "6" | 7 => "7"
   | 8 => "8" | 9 => "9" | 10 => "a" | 11 => "b" | 12 => "c" | 13 => "d" | 14 => "e" | 15 => "f"
   | _ => "?"
   end)%Z%char.
Lemma hexd_ok : forallb (fun z => Ascii.eqb (hexd z) (hex_digit z)) (zs_from 0 16) = true.
Proof. vm_compute. reflexivity. Qed.

(** bytes as hex pairs, by shifts *)
Fixpoint hexb (l : list Z) : string :=
  match l with
  | [] => ""
  | b :: r => String (hexd (Z.shiftr b 4)) (String (hexd (Z.land b 15)) (hexb r))
  end.

(** lower-case hex without leading zeros, by shifts (no division) *)
Fixpoint hex_go (fuel : nat) (z : Z) (acc : string) : string :=
  match fuel with
  | O => acc
  | S f => let acc' := String (hexd (Z.land z 15)) acc in
           if (z <? 16)%Z then acc' else hex_go f (Z.shiftr z 4) acc'
  end.
Definition show_hexZ (z : Z) : string := hex_go 20 z "".

Fixpoint join (sep : string) (l : list string) : string :=
  match l with
  | [] => ""
  | [x] => x
  | x :: r => x ++ sep ++ join sep r
  end.

(* ------------------------------------------------------------------ code-point blocks *)

(** from_u32: only the code points whose result is not [Some n] are listed *)
Definition fu_dev (n : Z) : list string :=
  match from_u32_m n with
  | Some m => if (m =? n)%Z then [] else [show_hexZ n ++ ":" ++ show_hexZ m]
  | None => [show_hexZ n ++ ":N"]
  end.

Definition enc_item (n : Z) : string :=
  if is_scalarb n then hexb (encode_m n) else "-".

(** decode the one-char string of [n] with chars().next() / next_back(); only deviations
    from "yields n and leaves the empty string" are listed *)
Definition dec_show (r : res (option (Z * chars_st))) : string :=
  match r with
  | Ok (Some (c, st)) => show_hexZ c ++ "+" ++ show_Z (zlen (c_this st))
  | Ok None => "N"
  | Panic p => show_panic p
  | OutOfFuel => "!fuel"
  end.
Definition dec_dev (back : bool) (n : Z) : list string :=
  if is_scalarb n then
    let st := chars_init (encode_m n) in
    let r := if back then chars_next_back st else chars_next st in
    match r with
    | Ok (Some (c, st')) =>
        if ((c =? n) && (zlen (c_this st') =? 0))%Z then [] else [show_hexZ n ++ ":" ++ dec_show r]
    | _ => [show_hexZ n ++ ":" ++ dec_show r]
    end
  else [].

Definition c07_cp (start : Z) : string :=
  let ns := zs_from start 256 in
  show_fields
    [("fu", join "," (flat_map fu_dev ns));
     ("enc", join "," (map enc_item ns));
     ("dec", join "," (flat_map (dec_dev false) ns));
     ("decb", join "," (flat_map (dec_dev true) ns))].

(* ------------------------------------------------------------------ iterator histories *)

Fixpoint hist_of (s : string) : list end_ :=
  match s with
  | EmptyString => []
  | String c r => (if Ascii.eqb c "B" then Back else Front) :: hist_of r
  end.

Definition flip (e : end_) : end_ := match e with Front => Back | Back => Front end.

Section Run.
  Variables St Item : Type.
  Variable next next_back : St -> res (option (Item * St)).
  Variable show_item : Item -> string.
  Variable as_str : St -> view.
  (** one entry per step: the item (or N) and where as_str() sits afterwards *)
  (** [copy().rev()] of a state drained from its front = the state drained from its back *)
  Fixpoint drain_back (fuel : nat) (st : St) : option (list string) :=
    match fuel with
    | O => Some []
    | S f =>
        match next_back st with
        | Ok None => Some []
        | Ok (Some (x, st')) => consopt (show_item x) (drain_back f st')
        | _ => None
        end
    end.
  Variable fuel : nat.
  Fixpoint steps (h : list end_) (st : St) : option (list string) :=
    match h with
    | [] => Some []
    | e :: h' =>
      match (match e with Front => next st | Back => next_back st end) with
      | Ok None =>
          match drain_back fuel st with
          | Some d => consopt ("N@" ++ show_v (as_str st) ++ "~R" ++ join "." d) (steps h' st)
          | None => None
          end
      | Ok (Some (x, st')) =>
          match drain_back fuel st' with
          | Some d => consopt ("S(" ++ show_item x ++ ")@" ++ show_v (as_str st') ++ "~R" ++ join "." d) (steps h' st')
          | None => None
          end
      | _ => None
      end
    end.
  Definition show_steps (h : list end_) (st : St) : string :=
    match steps h st with Some l => "[" ++ join "," l ++ "]" | None => "PANIC" end.
End Run.

Definition show_ic (p : Z * Z) : string := show_Z (fst p) ++ ":" ++ show_hexZ (snd p).

Definition c07_iter (s : list Z) (h : list end_) : string :=
  show_fields
    (let fuel := 4%nat in
    [("chars", show_steps _ _ chars_next chars_next_back show_hexZ chars_as_str fuel h (chars_init s));
     ("rchars", show_steps _ _ rchars_next rchars_next_back show_hexZ chars_as_str fuel h (chars_init s));
     ("ci", show_steps _ _ cidx_next cidx_next_back show_ic cidx_as_str fuel h (cidx_init s));
     ("rci", show_steps _ _ rcidx_next rcidx_next_back show_ic cidx_as_str fuel h (cidx_init s))]).

(* ------------------------------------------------------------------ Spec.Utf8 vs std *)

Definition c07_utf8 (l : list Z) : string :=
  if utf8 l then
    show_fields
      [("utf8", "T");
       ("chars", show_list show_hexZ (Spec.Utf8.chars l));
       ("ci", show_list show_ic (char_indices l))]
  else "utf8=F".

(** Spec.encode vs char::encode_utf8 and the std decoder, per block (scalar values only) *)
Definition c07_specenc (start : Z) : string :=
  let ns := zs_from start 256 in
  join "," (map (fun n => if scalarb n then hexb (encode n) else "-") ns).

Definition c07_run (fam : string) (args : list val) : option string :=
  if String.eqb fam "c07.cp" then
    match args with [n] => Some (c07_cp (as_Z n)) | _ => None end
  else if String.eqb fam "c07.fu" then
    match args with [n] => Some (show_opt show_hexZ (from_u32_m (as_Z n))) | _ => None end
  else if String.eqb fam "c07.iter" then
    match args with [s; h] => Some (c07_iter (as_bytes s) (hist_of (as_atom h))) | _ => None end
  else if String.eqb fam "c07.utf8" then
    match args with [l] => Some (c07_utf8 (as_bytes l)) | _ => None end
  else if String.eqb fam "c07.specenc" then
    match args with [n] => Some (c07_specenc (as_Z n)) | _ => None end
  else None.
