(** family <prop>.sig ("valid programs keep compiling", lib/gen/sig.py): the model's answer is
    always "compiles" — the programs are valid by construction (they compile against the source
    the models were written for, and use only what std's counterparts allow). *)
From Coq Require Import List String.
From KV Require Import Glue.Val.
Local Open Scope string_scope.

Definition has_suffix (suf s : string) : bool :=
  let n := String.length s in
  let m := String.length suf in
  if Nat.leb m n then String.eqb (String.substring (n - m) m s) suf else false.

Definition sig_run (fam : string) (args : list val) : option string :=
  if has_suffix ".sig" fam then Some "compiles"
  else if has_suffix ".dbg" fam then Some "same"        (* konst built with its `debug` feature still agrees with std *)
  else if has_suffix ".sigfail" fam then Some "rejected"   (* a result may not outlive what it borrows from *)
  else None.
