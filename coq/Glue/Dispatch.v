(** The single entry point the OCaml driver and the vm_compute cross-check call. *)
From Coq Require Import List String.
From KV Require Import Glue.Val Glue.C04.
Import ListNotations.
Local Open Scope string_scope.

Definition runners : list (string -> list val -> option string) :=
  [c04_run].

Fixpoint first_some (rs : list (string -> list val -> option string)) fam args : option string :=
  match rs with
  | [] => None
  | r :: rs' => match r fam args with Some s => Some s | None => first_some rs' fam args end
  end.

(** model column for one harness line; [!..] marks a line the glue cannot interpret *)
Definition run_line (fam args : string) : string :=
  match parse_args args with
  | None => "!parse"
  | Some vs => match first_some runners fam vs with Some s => s | None => "!family" end
  end.
