(** The single entry point the OCaml driver and the vm_compute cross-check call. *)
From Coq Require Import List String.
From KV Require Import Glue.Val.
From KV Require Import Glue.C01 Glue.C02 Glue.C03 Glue.C04 Glue.C05 Glue.C06 Glue.C07 Glue.C08 Glue.C09 Glue.C10 Glue.C11 Glue.C12 Glue.C13 Glue.C14 Glue.C15 Glue.C16 Glue.C17 Glue.C18 Glue.C19 Glue.C20 Glue.Sig.
Import ListNotations.
Local Open Scope string_scope.

Definition runners : list (string -> list val -> option string) :=
  [c01_run; c02_run; c03_run; c04_run; c05_run; c06_run; c07_run; c08_run; c09_run; c10_run; c11_run; c12_run; c13_run; c14_run; c15_run; c16_run; c17_run; c18_run; c19_run; c20_run; sig_run].

Fixpoint first_some (rs : list (string -> list val -> option string)) fam args : option string :=
  match rs with
  | [] => None
  | r :: rs' => match r fam args with Some s => Some s | None => first_some rs' fam args end
  end.

(** model column for one harness line; [!..] marks a line the glue cannot interpret *)
Definition run_line (fam args : string) : string :=
  match parse_args args with
  | None => "!parse"
  | Some vs => match first_some runners fam vs with Some s => s | None => "!family" end
  end.
