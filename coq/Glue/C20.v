(** Harness glue for C20.

    Families (args -> model column):
      c20.concat       form kind list        str_concat!(list); kind s: list of byte strings,
                                             kind c: list of chars (u32); form [lit] = the
                                             argument is written inline (an inline empty list
                                             hits the macro's literal-[] arm)
      c20.join         form sepkind sep list str_join!(sep, list)
      c20.from_iter    kind list             string::from_iter!(iterator yielding list)
      c20.slice_concat list-of-lists         slice_concat!(T, list) (integers)
      c20.cstr         bytes                 ffi::cstr constructors + conversions
      c20.cstr_err     bytes                 which error from_bytes_with_nul reports
    usize is 64 bits in the harness. *)
From Coq Require Import List ZArith Bool String.
From KV Require Import Base.Prelude Model.Utf8 Model.Utf8Check Model.Concat Model.CStr Glue.Val.
Import ListNotations.
Local Open Scope string_scope.

Definition c20_w : Z := 64.

Definition show_res {A} (f : A -> string) (r : res A) : string :=
  match r with Done a => f a | Panic => "PANIC" | UB => "UB" end.

Definition as_strs (v : val) : list (list Z) := map as_bytes (as_list v).
Definition as_ints (v : val) : list Z := map as_Z (as_list v).

Definition is_lit (form : val) : bool := String.eqb (as_atom form) "lit".
Definition is_nil {A} (l : list A) : bool := match l with [] => true | _ => false end.

Definition c20_concat (form kind l : val) : string :=
  if String.eqb (as_atom kind) "s" then
    let ss := as_strs l in
    show_res show_bytes (str_concat_m c20_w (is_lit form && is_nil ss) (AStr ss))
  else
    let cs := as_ints l in
    show_res show_bytes (str_concat_m c20_w (is_lit form && is_nil cs) (AChar cs)).

Definition c20_join (form sepkind sep l : val) : string :=
  let ss := as_strs l in
  let s := if String.eqb (as_atom sepkind) "s" then SStr (as_bytes sep) else SChar (as_Z sep) in
  show_res show_bytes (str_join_m c20_w (is_lit form && is_nil ss) s ss).

Definition c20_from_iter (kind l : val) : string :=
  let items := if String.eqb (as_atom kind) "s" then map EStr (as_strs l) else map EChr (as_ints l) in
  show_res show_bytes (from_iter_m c20_w items).

Definition c20_slice_concat (l : val) : string :=
  show_res (show_list show_Z) (slice_concat_m c20_w (map as_ints (as_list l))).

(** a CStr is a sub-slice of the argument starting at offset 0 *)
Definition show_cstr (c : list Z) : string := show_view 0 (zlen c).

Definition show_conv {A} (f : A -> string) (r : conv_res A) : string :=
  match r with CDone a => f a | CUnreachable => "PANIC" | CUB => "UB" end.

(** the conversions, applied to the CStr [from_bytes_until_nul] made: its pointer is the
    argument's, so the memory the pointer walk sees is the whole argument *)
Definition c20_conv (bytes : list Z) : string :=
  "(" ++ match to_bytes_with_nul_m bytes with Some s => show_cstr s | None => "UB" end
      ++ "," ++ show_conv show_cstr (to_bytes_m bytes)
      ++ "," ++ show_conv (show_opt show_cstr) (to_str_m bytes) ++ ")".

Definition c20_cstr (bytes : list Z) : string :=
  show_fields
    [("until", show_opt show_cstr (from_bytes_until_nul_m bytes));
     ("with", match from_bytes_with_nul_m bytes with
              | WOk c => "S(" ++ show_cstr c ++ ")"
              | WPanic => "PANIC"
              | _ => "N"
              end);
     ("conv", match from_bytes_until_nul_m bytes with
              | Some _ => "S" ++ c20_conv bytes
              | None => "N"
              end)].

Definition c20_cstr_err (bytes : list Z) : string :=
  match from_bytes_with_nul_m bytes with
  | WOk _ => "ok"
  | WNotNulTerminated => "notterm"
  | WInternalNul p => "interior(" ++ show_Z p ++ ")"
  | WPanic => "PANIC"
  end.

Definition c20_run (fam : string) (args : list val) : option string :=
  if String.eqb fam "c20.concat" then
    match args with [form; kind; l] => Some (c20_concat form kind l) | _ => None end
  else if String.eqb fam "c20.join" then
    match args with [form; sk; sep; l] => Some (c20_join form sk sep l) | _ => None end
  else if String.eqb fam "c20.from_iter" then
    match args with [kind; l] => Some (c20_from_iter kind l) | _ => None end
  else if String.eqb fam "c20.slice_concat" then
    match args with [l] => Some (c20_slice_concat l) | _ => None end
  else if String.eqb fam "c20.cstr" then
    match args with [b] => Some (c20_cstr (as_bytes b)) | _ => None end
  else if String.eqb fam "c20.cstr_err" then
    match args with [b] => Some (c20_cstr_err (as_bytes b)) | _ => None end
  else None.
