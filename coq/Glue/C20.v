(** Harness glue for C20 (stub: no families yet). *)
From Coq Require Import List String.
From KV Require Import Glue.Val.
Definition c20_run (fam : string) (args : list val) : option string := None.
