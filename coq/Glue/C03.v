(** Harness glue for C03: string slicing / char-boundary families. *)
From Coq Require Import List ZArith Bool String.
From KV Require Import Base.Prelude Model.Utf8 Model.Str Glue.Val.
Import ListNotations.
Local Open Scope string_scope.

Definition show_v (v : view) : string := show_view (fst v) (snd v).
Definition show_blame (b : blame) : string :=
  match b with BIndex => "index" | BStart => "start" | BEnd => "end" end.
Definition show_panic (p : panic) : string :=
  match p with
  | PBoundary b i => "PANIC(" ++ show_blame b ++ "," ++ show_Z i ++ ")"
  | POverflow => "PANIC(overflow)"
  end.
Definition show_res {A} (f : A -> string) (r : res A) : string :=
  match r with Ok a => f a | Panic p => show_panic p | OutOfFuel => "!fuel" end.
Definition show_vv (p : view * view) : string := "(" ++ show_v (fst p) ++ "," ++ show_v (snd p) ++ ")".

(** everything that takes one index *)
Definition c03_idx (s : list Z) (i : Z) : string :=
  show_fields
    [("bnd", show_bool (is_char_boundary_m s i));
     ("gu", show_opt show_v (get_up_to_m s i));
     ("gf", show_opt show_v (get_from_m s i));
     ("ut", show_res show_v (str_up_to_m s i));
     ("fr", show_res show_v (str_from_m s i));
     ("sp", show_res show_vv (split_at_m s i))].

(** everything that takes a (start, end) pair *)
Definition c03_rng (s : list Z) (a b : Z) : string :=
  show_fields
    [("gr", show_opt show_v (get_range_m s a b));
     ("rg", show_res show_v (str_range_m s a b))].

Fixpoint zs_from (start : Z) (n : nat) : list Z :=
  match n with O => [] | S k => start :: zs_from (start + 1) k end.

(** one string, every index 0..=len+1, one list per function *)
Definition c03_scan (s : list Z) : string :=
  let idx := zs_from 0 (length s + 2) in
  show_fields
    [("bnd", show_list (fun i => show_bool (is_char_boundary_m s i)) idx);
     ("gu", show_list (fun i => show_opt show_v (get_up_to_m s i)) idx);
     ("gf", show_list (fun i => show_opt show_v (get_from_m s i)) idx);
     ("ut", show_list (fun i => show_res show_v (str_up_to_m s i)) idx);
     ("fr", show_list (fun i => show_res show_v (str_from_m s i)) idx)].

Definition c03_run (fam : string) (args : list val) : option string :=
  if String.eqb fam "c03.idx" then
    match args with [s; i] => Some (c03_idx (as_bytes s) (as_Z i)) | _ => None end
  else if String.eqb fam "c03.rng" then
    match args with [s; a; b] => Some (c03_rng (as_bytes s) (as_Z a) (as_Z b)) | _ => None end
  else if String.eqb fam "c03.scan" then
    match args with [s] => Some (c03_scan (as_bytes s)) | _ => None end
  else None.
