(** Harness glue for C09: range iterators.

    families (args; [prof] is [D] when debug assertions are on, [O] otherwise):
      c09.hist  ty kind a b pat steps via prof   one history ([pat] repeated cyclically for
                                                 [steps] steps) on a..b / a..=b; kind R | RI |
                                                 RR | RIR (the last two after [.rev()])
      c09.pair  ty a b steps prof                the six periodic patterns on both a..b and a..=b
      c09.each  ty kind a b dir via prof         for_each! (dir F) / for_each!(.., rev()) (dir B)
      c09.from  ty a k via prof                  the first k items of a.. (via E: for_each! with
                                                 break, which makes k+1 calls of next)
    [via] names the API route taken by the harness; it affects the model only in c09.from. *)
From Coq Require Import List ZArith Bool Ascii String.
From KV Require Import Base.Prelude Base.Deque Model.Range Glue.Val.
Import ListNotations.
Local Open Scope string_scope.

Definition ty_of (s : string) : option ty :=
  if String.eqb s "u8" then Some (Int 8 false)
  else if String.eqb s "u16" then Some (Int 16 false)
  else if String.eqb s "u32" then Some (Int 32 false)
  else if String.eqb s "u64" then Some (Int 64 false)
  else if String.eqb s "u128" then Some (Int 128 false)
  else if String.eqb s "usize" then Some (Int 64 false)
  else if String.eqb s "i8" then Some (Int 8 true)
  else if String.eqb s "i16" then Some (Int 16 true)
  else if String.eqb s "i32" then Some (Int 32 true)
  else if String.eqb s "i64" then Some (Int 64 true)
  else if String.eqb s "i128" then Some (Int 128 true)
  else if String.eqb s "isize" then Some (Int 64 true)
  else if String.eqb s "char" then Some Char
  else None.

(** kind atom -> (kind, is_forward) *)
Definition kind_of (s : string) : option (kind * bool) :=
  if String.eqb s "R" then Some (KRange, true)
  else if String.eqb s "RI" then Some (KRangeInc, true)
  else if String.eqb s "RR" then Some (KRange, false)
  else if String.eqb s "RIR" then Some (KRangeInc, false)
  else None.

Fixpoint ends_of (s : string) : list end_ :=
  match s with
  | EmptyString => []
  | String c r => (if Ascii.eqb c "B"%char then Back else Front) :: ends_of r
  end.

(** [p] repeated cyclically, [n] steps *)
Fixpoint cycle (n : nat) (p cur : list end_) : list end_ :=
  match n with
  | O => []
  | S n' =>
      match cur with
      | e :: r => e :: cycle n' p r
      | [] => match p with [] => [] | e :: r => e :: cycle n' p r end
      end
  end.

Definition show_out (o : res (option Z)) : string :=
  match o with Ok (Some v) => show_Z v | Ok None => "N" | _ => "PANIC" end.
Definition out_code (o : res (option Z)) : Z :=
  match o with Ok (Some v) => (v mod 65536 + 2)%Z | Ok None => 1%Z | _ => 0%Z end.
(** order-sensitive digest without division: (sum of codes, sum of position * code) *)
Fixpoint out_sums (l : list (res (option Z))) (i s1 s2 : Z) : Z * Z :=
  match l with
  | [] => (s1, s2)
  | o :: r => let c := out_code o in out_sums r (i + 1)%Z (s1 + c)%Z (s2 + i * c)%Z
  end.
(** short runs in full; long ones as #len/sum/weighted sum/first three/last three *)
Definition show_outs (l : list (res (option Z))) : string :=
  if (zlen l <=? 16)%Z then show_items show_out l
  else let '(s1, s2) := out_sums l 1%Z 0%Z 0%Z in
       "#" ++ show_Z (zlen l) ++ "/" ++ show_Z s1 ++ "/" ++ show_Z s2 ++ "/" ++
       show_items show_out (firstn 3 l) ++ "/" ++ show_items show_out (skipn (length l - 3)%nat l).

Definition run_hist (dbg : bool) (t : ty) (kf : kind * bool) (a b : Z) (h : list end_) : string :=
  let '(k, f) := kf in
  show_outs (run_res (it_next dbg t k f) (it_next_back dbg t k f) h (a, b)).

(** the state a history leaves ([None]: it panicked) *)
Fixpoint state_after_res {St} (nx nb : St -> res (option (Z * St))) (h : list end_) (st : St) : option St :=
  match h with
  | [] => Some st
  | e :: h' =>
      match (match e with Front => nx st | Back => nb st end) with
      | Ok None => state_after_res nx nb h' st
      | Ok (Some (_, st')) => state_after_res nx nb h' st'
      | _ => None
      end
  end.
(** [copy().rev()] at that state: [next] and [next_back] exchanged; its first 4 items *)
Definition revat_line (dbg : bool) (t : ty) (kf : kind * bool) (a b : Z) (h : list end_) : string :=
  let '(k, f) := kf in
  let outs := run_res (it_next dbg t k f) (it_next_back dbg t k f) h (a, b) in
  show_outs outs ++ "|" ++
  match state_after_res (it_next dbg t k f) (it_next_back dbg t k f) h (a, b) with
  | None => ""
  | Some st =>
      let '(l, r) := collect_res (it_next dbg t k (negb f)) 4 st in
      match r with
      | Ok _ => show_items show_Z l
      | _ => "PANIC"
      end
  end.

Definition is_dbg (v : val) : bool := String.eqb (as_atom v) "D".

Definition pats : list string := ["F"; "B"; "FB"; "BF"; "FFB"; "BBF"].

Definition pair_fields (dbg : bool) (t : ty) (a b : Z) (steps : nat) : list (string * string) :=
  flat_map (fun kn : string * (kind * bool) =>
    map (fun p : string =>
           (fst kn ++ "." ++ p,
            run_hist dbg t (snd kn) a b (let e := ends_of p in cycle steps e e))) pats)
    [("R", (KRange, true)); ("RI", (KRangeInc, true))].

(** items of a collect followed by how it ended *)
Definition show_collect (r : list Z * res bool) : string :=
  let outs := (map (fun v => Ok (Some v)) (fst r) ++
              match snd r with Ok false => [] | Ok true => [Ok None; Ok None] | _ => [Panic] end)%list in
  "[" ++ show_outs outs ++ "]".

Definition each_fuel : nat := Z.to_nat 400.

Definition c09_run (fam : string) (args : list val) : option string :=
  if String.eqb fam "c09.hist" then
    match args with
    | [t; k; a; b; p; n; _; prof] =>
        match ty_of (as_atom t), kind_of (as_atom k) with
        | Some t', Some k' =>
            let e := ends_of (as_atom p) in
            Some (run_hist (is_dbg prof) t' k' (as_Z a) (as_Z b) (cycle (Z.to_nat (as_Z n)) e e))
        | _, _ => None
        end
    | _ => None
    end
  else if String.eqb fam "c09.revat" then
    match args with
    | [t; k; a; b; p; n; prof] =>
        match ty_of (as_atom t), kind_of (as_atom k) with
        | Some t', Some k' =>
            let e := ends_of (as_atom p) in
            Some (revat_line (is_dbg prof) t' k' (as_Z a) (as_Z b) (cycle (Z.to_nat (as_Z n)) e e))
        | _, _ => None
        end
    | _ => None
    end
  else if String.eqb fam "c09.pair" then
    match args with
    | [t; a; b; n; prof] =>
        match ty_of (as_atom t) with
        | Some t' => Some (show_fields (pair_fields (is_dbg prof) t' (as_Z a) (as_Z b) (Z.to_nat (as_Z n))))
        | None => None
        end
    | _ => None
    end
  else if String.eqb fam "c09.each" then
    match args with
    | [t; k; a; b; d; _; prof] =>
        match ty_of (as_atom t), kind_of (as_atom k) with
        | Some t', Some (k', _) =>
            let f := negb (String.eqb (as_atom d) "B") in
            Some (show_collect (collect_res (it_next (is_dbg prof) t' k' f) each_fuel (as_Z a, as_Z b)))
        | _, _ => None
        end
    | _ => None
    end
  else if String.eqb fam "c09.from" then
    match args with
    | [t; a; k; via; prof] =>
        match ty_of (as_atom t) with
        | Some t' =>
            (* for_each! with a break after k items calls next() k+1 times *)
            let each := String.eqb (as_atom via) "E" in
            let n := Z.to_nat (as_Z k) in
            let r := range_from_take (is_dbg prof) t' (if each then S n else n) (as_Z a) in
            Some (show_collect (match snd r with
                                | Ok _ => ((if each then firstn n (fst r) else fst r), Ok false)
                                | x => (fst r, x)
                                end))
        | None => None
        end
    | _ => None
    end
  else None.
