(** Harness glue for C17: the model's verdict on one generated program.
    Rendering mirrors lib/gen/c17.py (tables KINDS / METHODS, same order). *)
From Coq Require Import List ZArith Bool String.
From KV Require Import Base.Prelude Model.Guards Glue.Val.
Import ListNotations.
Local Open Scope string_scope.

Definition method_table : list (mname * string) :=
  [(Copied, "copied"); (Filter, "filter"); (FilterMap, "filter_map"); (FlatMap, "flat_map");
   (Flatten, "flatten"); (Map, "map"); (TakeWhile, "take_while"); (Rev, "rev"); (Rfind, "rfind");
   (All, "all"); (Any, "any"); (Count, "count"); (Find, "find"); (FindMap, "find_map");
   (Rfold, "rfold"); (Fold, "fold"); (ForEach, "for_each"); (Nth, "nth"); (Next, "next");
   (Position, "position"); (Rposition, "rposition"); (Zip, "zip"); (Enumerate, "enumerate");
   (Take, "take"); (Skip, "skip"); (SkipWhile, "skip_while"); (Other, "other")].

(** (kind, printed name, carries a method name) *)
Definition kind_table : list (dkind * string * bool) :=
  [(KNoParens, "noparens", true); (KRev2, "rev2", true); (KUnsup, "unsup", true);
   (KNotCallable, "notcallable", true); (KUnsupEval, "unsup_eval", true); (KArgs, "args", true);
   (KNoExpr, "noexpr", false); (KClosure, "closure", true); (KFold, "fold", false);
   (KTrailing, "trailing", false); (KPmMethod, "pm_method", false);
   (KPmAfterDefault, "pm_after_default", false); (KPmMore, "pm_more", false);
   (KPmNonLit, "pm_nonlit", false); (KRestStruct, "rest_struct", false);
   (KRestTStruct, "rest_tstruct", false); (KRestTuple, "rest_tuple", false);
   (KE0308, "E0308", false); (KE0027, "E0027", false); (KE0026, "E0026", false);
   (KE0769, "E0769", false); (KE0527, "E0527", false); (KE0528, "E0528", false);
   (KNoMatch, "nomatch", false)].

Definition mname_eqb (a b : mname) : bool :=
  match a, b with
  | Copied, Copied | Filter, Filter | FilterMap, FilterMap | FlatMap, FlatMap | Flatten, Flatten
  | Map, Map | TakeWhile, TakeWhile | Rev, Rev | Rfind, Rfind | All, All | Any, Any | Count, Count
  | Find, Find | FindMap, FindMap | Rfold, Rfold | Fold, Fold | ForEach, ForEach | Nth, Nth
  | Next, Next | Position, Position | Rposition, Rposition | Zip, Zip | Enumerate, Enumerate
  | Take, Take | Skip, Skip | SkipWhile, SkipWhile | Other, Other => true
  | _, _ => false
  end.
Definition dkind_eqb (a b : dkind) : bool :=
  match a, b with
  | KNoParens, KNoParens | KRev2, KRev2 | KUnsup, KUnsup | KNotCallable, KNotCallable
  | KUnsupEval, KUnsupEval | KArgs, KArgs | KNoExpr, KNoExpr | KClosure, KClosure | KFold, KFold
  | KTrailing, KTrailing | KPmMethod, KPmMethod | KPmAfterDefault, KPmAfterDefault
  | KPmMore, KPmMore | KPmNonLit, KPmNonLit | KRestStruct, KRestStruct
  | KRestTStruct, KRestTStruct | KRestTuple, KRestTuple | KE0308, KE0308 | KE0027, KE0027
  | KE0026, KE0026 | KE0769, KE0769 | KE0527, KE0527 | KE0528, KE0528 | KNoMatch, KNoMatch
  | KOther, KOther => true
  | _, _ => false
  end.

Definition has_kind (ds : list diag) (k : dkind) : bool := existsb (fun d => dkind_eqb (fst d) k) ds.
Definition has_diag (ds : list diag) (k : dkind) (m : mname) : bool :=
  existsb (fun d => dkind_eqb (fst d) k && mname_eqb (snd d) m) ds.

(** the recognised guards in table order *)
Definition rendered (ds : list diag) : list string :=
  flat_map (fun e : dkind * string * bool =>
              let '(k, nm, named) := e in
              if named then
                flat_map (fun me : mname * string =>
                            if has_diag ds k (fst me) then [nm ++ "(" ++ snd me ++ ")"] else [])
                         method_table
              else if has_kind ds k then [nm] else [])
           kind_table.

Fixpoint join_plus (l : list string) : string :=
  match l with
  | [] => ""
  | [x] => x
  | x :: r => x ++ "+" ++ join_plus r
  end.

Definition show_verdict (ds : list diag) : string :=
  match ds with
  | [] => "ACCEPT"
  | _ => match rendered ds with
         | [] => "REJECT:other"
         | l => "REJECT:" ++ join_plus l
         end
  end.

(* ------------------------------------------------------------------ parsing the descriptors *)

Fixpoint lookup_name (t : list (mname * string)) (s : string) : mname :=
  match t with
  | [] => Other
  | (m, n) :: r => if String.eqb n s then m else lookup_name r s
  end.

Definition parse_shape (s : string) : option ashape :=
  if String.eqb s "n" then Some NoParens
  else if String.eqb s "e" then Some Empty
  else if String.eqb s "g" then Some Given
  else None.

Fixpoint all_some {A} (l : list (option A)) : option (list A) :=
  match l with
  | [] => Some []
  | Some x :: r => match all_some r with Some r' => Some (x :: r') | None => None end
  | None :: _ => None
  end.

Definition parse_meth (v : val) : option meth :=
  match v with
  | VL [VA n; VA s] => match parse_shape s with Some a => Some (lookup_name method_table n, a) | None => None end
  | _ => None
  end.

Definition parse_pos (s : string) : option pos :=
  if String.eqb s "for_each" then Some PForEach
  else if String.eqb s "collect" then Some PCollect
  else if String.eqb s "eval" then Some PEval
  else None.

Definition parse_pat (v : val) : option pat :=
  match v with
  | VA s =>
      if String.eqb s "s" then Some PStr else if String.eqb s "r" then Some PRaw
      else if String.eqb s "c" then Some PConcat else if String.eqb s "y" then Some PStringify
      else if String.eqb s "w" then Some PWild else if String.eqb s "k" then Some PConst
      else if String.eqb s "q" then Some PPath else if String.eqb s "b" then Some PByteStr
      else if String.eqb s "i" then Some PInt else if String.eqb s "h" then Some PChar
      else if String.eqb s "m" then Some PConcatBad else if String.eqb s "z" then Some PConcatBad
      (* deeply nested / long concat!: non-literal at depth 5 / at the 21st argument; all-literal *)
      else if String.eqb s "n" then Some PConcatBad else if String.eqb s "g" then Some PConcatBad
      else if String.eqb s "d" then Some PConcat else if String.eqb s "l" then Some PConcat
      else None
  | _ => None
  end.

Definition parse_branch (v : val) : option branch :=
  match v with
  | VL [VL ps; VA b; VZ c] =>
      match all_some (map parse_pat ps) with
      | Some ps' =>
          if String.eqb b "e" then Some {| b_pats := ps'; b_body := BExpr; b_comma := negb (c =? 0)%Z |}
          else if String.eqb b "b" then Some {| b_pats := ps'; b_body := BBlock; b_comma := negb (c =? 0)%Z |}
          else None
      | None => None
      end
  | _ => None
  end.

Definition parse_form (s : string) : pm_form :=
  if String.eqb s "find_skip" then FindSkip else if String.eqb s "rfind_skip" then RfindSkip
  else if String.eqb s "strip_prefix" then StripPrefix else if String.eqb s "strip_suffix" then StripSuffix
  else if String.eqb s "trim_start_matches" then TrimStart else if String.eqb s "trim_end_matches" then TrimEnd
  else Bogus.

Definition parse_elem (v : val) : option elem :=
  match v with
  | VZ i => Some (EF i)
  | VA s => if String.eqb s "r" then Some ER else if String.eqb s "a" then Some EA else None
  | _ => None
  end.

Definition parse_dshape (s : string) : option dshape :=
  if String.eqb s "braced" then Some Braced else if String.eqb s "tstruct" then Some TStruct
  else if String.eqb s "tuple" then Some Tuple else if String.eqb s "array" then Some Array
  else None.

(** the generated programs declare one type: struct `Foo` (= name 0) with n fields, or an
    n-tuple / array of n elements; the annotation, when present, is the value's type *)
Definition c17_destructure (sh : dshape) (pk : string) (ann : Z) (es : list elem) (n drop isref : Z)
  : string :=
  let nn := Z.to_nat n in
  let base := match sh with
              | Braced | TStruct => TNamed 0
              | Tuple => TTuple nn
              | Array => TArray nn end in
  let t := if (isref =? 0)%Z then base else TRef base in
  let E := {| fields := fun _ => map Z.of_nat (seq 0 nn);
              impls_drop := fun _ => negb (drop =? 0)%Z;
              tuple_like := fun _ => match sh with TStruct => true | _ => false end |} in
  let d := {| d_shape := sh;
              d_pk := if String.eqb pk "type" then PkType else PkPath;
              d_path := 0;
              d_ann := if (ann =? 0)%Z then None else Some t;
              d_elems := es;
              d_ty := t |} in
  show_verdict (destructure_diags E d).

Definition c17_run (fam : string) (args : list val) : option string :=
  if String.eqb fam "c17.dsl" then
    match args with
    | [VA p; VL ms] =>
        match parse_pos p, all_some (map parse_meth ms) with
        | Some p', Some ms' => Some (show_verdict (dsl_expands p' ms'))
        | _, _ => None
        end
    | _ => None
    end
  else if String.eqb fam "c17.parser_method" then
    match args with
    | [VA f; VA syn; VL body] =>
        if String.eqb syn "p" then
          match all_some (map parse_pat body) with
          | Some ps => Some (show_verdict (pm_expands (parse_form f) (PatsOnly ps)))
          | None => None
          end
        else if String.eqb syn "b" then
          match all_some (map parse_branch body) with
          | Some bs => Some (show_verdict (pm_expands (parse_form f) (Branches bs)))
          | None => None
          end
        else None
    | _ => None
    end
  else if String.eqb fam "c17.destructure" then
    match args with
    | [VA sh; VA pk; VZ ann; VL es; VZ n; VZ drop; VZ isref] =>
        match parse_dshape sh, all_some (map parse_elem es) with
        | Some sh', Some es' => Some (c17_destructure sh' pk ann es' n drop isref)
        | _, _ => None
        end
    | _ => None
    end
  else None.
