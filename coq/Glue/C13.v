(** Harness glue for C13/C14: Parser operation sequences. *)
From Coq Require Import List ZArith Bool String.
From KV Require Import Base.Prelude Model.Parser Glue.Val.
Import ListNotations.
Local Open Scope string_scope.

Definition op_of (v : val) : option pop :=
  match as_list v with
  | VA name :: rest =>
      let a := match rest with x :: _ => x | [] => VZ 0%Z end in
      if String.eqb name "skip" then Some (OSkip (as_Z a))
      else if String.eqb name "skip_back" then Some (OSkipBack (as_Z a))
      else if String.eqb name "trim" then Some OTrim
      else if String.eqb name "trim_start" then Some OTrimStart
      else if String.eqb name "trim_end" then Some OTrimEnd
      else if String.eqb name "trim_matches" then Some (OTrimMatches (as_bytes a))
      else if String.eqb name "trim_start_matches" then Some (OTrimStartMatches (as_bytes a))
      else if String.eqb name "trim_end_matches" then Some (OTrimEndMatches (as_bytes a))
      else if String.eqb name "strip_prefix" then Some (OStripPrefix (as_bytes a))
      else if String.eqb name "strip_suffix" then Some (OStripSuffix (as_bytes a))
      else if String.eqb name "find_skip" then Some (OFindSkip (as_bytes a))
      else if String.eqb name "rfind_skip" then Some (ORFindSkip (as_bytes a))
      else if String.eqb name "split" then Some (OSplit (as_bytes a))
      else if String.eqb name "rsplit" then Some (ORSplit (as_bytes a))
      else if String.eqb name "split_terminator" then Some (OSplitTerminator (as_bytes a))
      else if String.eqb name "rsplit_terminator" then Some (ORSplitTerminator (as_bytes a))
      else if String.eqb name "split_keep" then Some (OSplitKeep (as_bytes a))
      else if String.eqb name "parse_int" then
        Some (OParseInt (as_Z a) (match rest with _ :: b :: _ => as_bool b | _ => false end))
      else if String.eqb name "parse_bool" then Some OParseBool
      else None
  | _ => None
  end.

Fixpoint ops_of (l : list val) : option (list pop) :=
  match l with
  | [] => Some []
  | v :: r => match op_of v, ops_of r with Some o, Some os => Some (o :: os) | _, _ => None end
  end.

Definition show_dir (d : pdir) : string := match d with FromStart => "S" | FromEnd => "E" | FromBoth => "B" end.
Definition show_kind (k : ekind) : string :=
  match k with
  | EParseInteger => "ParseInteger" | EParseBool => "ParseBool" | EFind => "Find" | EStrip => "Strip"
  | ESplitExhausted => "SplitExhausted" | EDelimiterNotFound => "DelimiterNotFound" | EOther => "Other"
  end.
Definition show_value (v : pvalue) : string :=
  match v with
  | VNone => "-"
  | VPiece s => show_bytes s
  | VInt z => show_Z z
  | VBool b => show_bool b
  end.

(** does the parser's remainder sit at [start-base .. end-base] of the original? *)
Definition inv_holds (orig : list Z) (base : Z) (p : parser) : bool :=
  let off := p_start p - base in
  (0 <=? off)%Z && (off + zlen (p_str p) <=? zlen orig)%Z &&
  list_eqb Z.eqb (firstn (length (p_str p)) (skipn (Z.to_nat off) orig)) (p_str p).

Definition show_res (orig : list Z) (base : Z) (r : pres) : string :=
  match r with
  | POk v p =>
      "ok(" ++ show_Z (p_start p) ++ "," ++ show_Z (end_offset p) ++ "," ++ show_bytes (p_str p) ++ ","
            ++ show_dir (p_dir p) ++ "," ++ show_value v ++ "," ++ show_bool (inv_holds orig base p) ++ ","
            ++ show_Z (err_offset (err_new p EOther)) ++ show_dir (e_dir (err_new p EOther)) ++ ")"
  | PErr e => "err(" ++ show_Z (err_offset e) ++ "," ++ show_dir (e_dir e) ++ "," ++ show_kind (e_kind e) ++ ")"
  | PPanic => "PANIC"
  end.

Definition c13_run (fam : string) (args : list val) : option string :=
  match args with
  | [orig; base; ops] =>
      if String.eqb fam "c13.ops" then
        match ops_of (as_list ops) with
        | Some os =>
            let o := as_bytes orig in
            let b := as_Z base in
            let p0 := if (b =? 0)%Z then parser_new o else parser_with_start_offset o b in
            Some (show_list (show_res o b) (run_ops p0 os))
        | None => Some "!ops"
        end
      else None
  | _ => None
  end.
