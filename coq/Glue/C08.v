(** Harness glue for C08: one line per (iterator type, element kind, slice length, size,
    front/back history).  The line carries, for every call of the history, what the call
    returned ([items]), what the opposite call returned on a COPY taken just before
    ([alt], the original must not notice), and the [as_slice()] / [remainder()] view
    before the first and after every call ([rem], only for the types that have one).

    args:  <u|z> <len> <size> <history as a word over F,B>
           u = [u32] elements, z = zero-sized elements (offsets are not observable: [z:len]) *)
From Coq Require Import List ZArith Bool String Ascii.
From KV Require Import Base.Prelude Base.Deque Model.SliceIter Glue.Val.
Import ListNotations.
Local Open Scope string_scope.

Fixpoint hist_of_chars (cs : list ascii) : option (list end_) :=
  match cs with
  | [] => Some []
  | c :: r =>
      match hist_of_chars r with
      | None => None
      | Some h =>
          if Ascii.eqb c "F" then Some (Front :: h)
          else if Ascii.eqb c "B" then Some (Back :: h)
          else None
      end
  end.
Definition hist_of (v : val) : option (list end_) := hist_of_chars (chars_of_string (as_atom v)).

Definition flip_end (e : end_) : end_ := match e with Front => Back | Back => Front end.

Definition show_v (zst : bool) (v : view) : string :=
  if (vlen v =? 0)%Z then "e"
  else if zst then "z:" ++ show_Z (vlen v)
  else show_view (voff v) (vlen v).
Definition show_idx (zst : bool) (i : Z) : string := if zst then "u" else show_Z i.

Section Trace.
  Variables C I : Type.
  Variable nb bb : C -> step I C.
  Variable show_item : I -> string.
  Variable show_rem : iter C -> string.

  Definition show_step (s : step I (iter C)) : option string :=
    match s with
    | Panic => None
    | Stop => Some "N"
    | Yield x _ => Some ("S(" ++ show_item x ++ ")")
    end.

  (** [copy().rev()] of a state, its first [fuel] items drained from the front *)
  Fixpoint drain_front (fuel : nat) (it : iter C) : list string :=
    match fuel with
    | O => []
    | S f =>
        match it_step nb bb Front it with
        | Panic => ["PANIC"]
        | Stop => []
        | Yield x it' => show_item x :: drain_front f it'
        end
    end.
  Fixpoint join_dot (l : list string) : string :=
    match l with [] => "" | [a] => a | a :: r => a ++ "." ++ join_dot r end.
  Definition show_rv (it : iter C) : string := join_dot (drain_front 4 (it_rev (it_copy it))).

  Definition push (a b c d : string) (r : option (list string * list string * list string * list string)) :=
    match r with
    | None => None
    | Some (x, y, z, w) => Some (a :: x, b :: y, c :: z, d :: w)
    end.

  Fixpoint trace (h : list end_) (it : iter C) : option (list string * list string * list string * list string) :=
    match h with
    | [] => Some ([], [], [], [])
    | e :: h' =>
        match show_step (it_step nb bb (flip_end e) (it_copy it)) with
        | None => None
        | Some alt =>
            match it_step nb bb e (it_copy it) with
            | Panic => None
            | Stop => push "N" alt (show_rem it) (show_rv it) (trace h' it)
            | Yield x it' => push ("S(" ++ show_item x ++ ")") alt (show_rem it') (show_rv it') (trace h' it')
            end
        end
    end.

  Definition render (fuel : nat) (with_rem : bool) (h : list end_) (it : option (iter C)) : string :=
    match it with
    | None => "PANIC"
    | Some it =>
        match trace h it with
        | None => "PANIC"
        | Some (items, alts, rems, rvs) =>
            show_fields
              ([("items", show_list (fun s => s) items); ("alt", show_list (fun s => s) alts)] ++
               (if with_rem then [("rem", show_list (fun s => s) (show_rem it :: rems))] else []) ++
               [("rv", show_list (fun s => s) rvs)])
        end
    end.
End Trace.
Arguments render {C I}.

Definition ziota_glue (k : Z) : list Z := map Z.of_nat (seq 0 (Z.to_nat k)).

(** orient: the forward type, or its [.rev()] *)
Definition orient {C} (rv : bool) (o : option C) : option (iter C) :=
  match o with
  | None => None
  | Some c => Some (if rv then it_rev (fwd c) else fwd c)
  end.

Definition no_rem {C} (_ : iter C) : string := "".

Definition c08_kind (kind : string) (zst : bool) (len size : Z) (h : list end_) : option string :=
  let sv := show_v zst in
  let fuel := S (S (Z.to_nat len)) in
  let go_iter rv :=
    render iter_next iter_next_back (show_idx zst) (fun it => sv (iter_as_slice (core it))) fuel true h
      (orient rv (Some (iter_new len))) in
  let go_copied rv :=
    render copied_next copied_next_back (show_idx zst) (fun it => sv (copied_as_slice (core it))) fuel true h
      (orient rv (Some (copied_new (ziota_glue len)))) in
  let go_windows rv :=
    render windows_next windows_next_back sv no_rem fuel false h (orient rv (windows_new len size)) in
  let go_chunks rv :=
    render chunks_next chunks_next_back sv no_rem fuel false h (orient rv (chunks_new len size)) in
  let go_rchunks rv :=
    render rchunks_next rchunks_next_back sv no_rem fuel false h (orient rv (rchunks_new len size)) in
  let go_cexact rv :=
    render chunks_exact_next chunks_exact_next_back sv (fun it => sv (exact_remainder (core it))) fuel true h
      (orient rv (chunks_exact_new len size)) in
  let go_rcexact rv :=
    render rchunks_exact_next rchunks_exact_next_back sv (fun it => sv (exact_remainder (core it))) fuel true h
      (orient rv (rchunks_exact_new len size)) in
  (* ArrayChunksRev has no remainder() *)
  let go_ac rv :=
    render array_chunks_next array_chunks_next_back sv (fun it => sv (array_chunks_remainder (core it)))
      fuel (negb rv) h (orient rv (array_chunks_new len size)) in
  if String.eqb kind "iter" then Some (go_iter false)
  else if String.eqb kind "iter_rev" then Some (go_iter true)
  else if String.eqb kind "iter_copied" then Some (go_copied false)
  else if String.eqb kind "iter_copied_rev" then Some (go_copied true)
  else if String.eqb kind "windows" then Some (go_windows false)
  else if String.eqb kind "windows_rev" then Some (go_windows true)
  else if String.eqb kind "chunks" then Some (go_chunks false)
  else if String.eqb kind "chunks_rev" then Some (go_chunks true)
  else if String.eqb kind "rchunks" then Some (go_rchunks false)
  else if String.eqb kind "rchunks_rev" then Some (go_rchunks true)
  else if String.eqb kind "chunks_exact" then Some (go_cexact false)
  else if String.eqb kind "chunks_exact_rev" then Some (go_cexact true)
  else if String.eqb kind "rchunks_exact" then Some (go_rcexact false)
  else if String.eqb kind "rchunks_exact_rev" then Some (go_rcexact true)
  else if String.eqb kind "array_chunks" then Some (go_ac false)
  else if String.eqb kind "array_chunks_rev" then Some (go_ac true)
  else None.

Definition show_arrays (zst : bool) (n : Z) (a : arrays) : string :=
  show_v zst (mkv (a_off a) (a_cnt a * n)) ++ "*" ++ show_Z (a_cnt a).

Definition c08_as_chunks (zst : bool) (len n : Z) : string :=
  match as_chunks_m len n with
  | None => "PANIC"
  | Some (a, r) => show_fields [("arrs", show_arrays zst n a); ("rem", show_v zst r)]
  end.
Definition c08_as_rchunks (zst : bool) (len n : Z) : string :=
  match as_rchunks_m len n with
  | None => "PANIC"
  | Some (r, a) => show_fields [("rem", show_v zst r); ("arrs", show_arrays zst n a)]
  end.

Definition strip_prefix (p s : string) : option string :=
  if String.prefix p s then Some (String.substring (String.length p) (String.length s - String.length p) s)
  else None.

Definition c08_run (fam : string) (args : list val) : option string :=
  match strip_prefix "c08." fam with
  | None => None
  | Some kind =>
      match args with
      | [e; len; size; hv] =>
          match hist_of hv with
          | None => None
          | Some h => c08_kind kind (String.eqb (as_atom e) "z") (as_Z len) (as_Z size) h
          end
      | [e; len; n] =>
          let zst := String.eqb (as_atom e) "z" in
          if String.eqb kind "as_chunks" then Some (c08_as_chunks zst (as_Z len) (as_Z n))
          else if String.eqb kind "as_rchunks" then Some (c08_as_rchunks zst (as_Z len) (as_Z n))
          else None
      | _ => None
      end
  end.
