(** Harness glue for C10: chain descriptors -> deep embedding, closed closure library. *)
From Coq Require Import List ZArith Bool String.
From KV Require Import Base.Prelude Model.Dsl Model.DslPulls Spec.Dsl Glue.Val.
Import ListNotations.
Local Open Scope Z_scope.

(** every closure of the library looks at its argument through this key
    (the generated Rust closures compute the same number from the item's type) *)
Fixpoint key (v : dval) : Z :=
  match v with
  | DInt z => z
  | DPair a b => key a * 3 + key b
  | _ => 0
  end.

(** take / skip / nth arguments: the model counts in unary [nat], so an argument next to the usize
    limit cannot be built.  Every generated input carries fewer than 65536 elements through any
    adapter, and for such inputs an argument >= 65536 behaves like 65536 (in the std reading:
    Proofs/ClampProofs.v, [firstn_clamp], [skipn_clamp], [nth_error_clamp]; for the model it follows
    from [macro_eq_doc] / [doc_eq_std]).  The std column of every line is computed by the real std
    chain with the TRUE argument, so a wrong clamp would show as model <> std. *)
Definition cnat (a : Z) : nat := Z.to_nat (Z.min a 65536).

Definition zrange (a b : Z) : list dval := map (fun i => DInt (a + Z.of_nat i)) (seq 0 (Z.to_nat (b - a))).

Definition lib_pred (i : Z) (v : dval) : bool :=
  let k := key v in
  if i =? 0 then k mod 2 =? 0 else if i =? 1 then k <? 3 else negb (k =? 1).
Definition lib_map (i : Z) (v : dval) : dval :=
  let k := key v in
  if i =? 0 then DInt (k + 1) else if i =? 1 then DInt (k * 2) else DPair (DInt k) (DInt (k mod 2)).
Definition lib_fmap (i : Z) (v : dval) : option dval :=
  let k := key v in
  if i =? 0 then (if k mod 2 =? 0 then Some (DInt (k / 2)) else None)
  else (if 1 <? k then Some (DInt (k - 1)) else None).
Definition lib_flat (i : Z) (v : dval) : list dval :=
  let k := key v in
  if i =? 0 then zrange 0 (k mod 3) else zrange k (k + 2).
Definition lib_fold (a v : dval) : dval := DInt ((key a * 7 + key v) mod 1000003).

Local Open Scope string_scope.

Fixpoint dval_of (v : val) : dval :=
  match v with
  | VZ z => DInt z
  | VL l => DList (map dval_of l)
  | VA _ => DNone
  end.

Definition arg1 (l : list val) : Z := match l with _ :: a :: _ => as_Z a | _ => 0 end.

Definition adapter_of (zsrc : list dval) (v : val) : option adapter :=
  match as_list v with
  | VA name :: _ =>
      let a := arg1 (as_list v) in
      if String.eqb name "copied" then Some ACopied
      else if String.eqb name "enumerate" then Some AEnumerate
      else if String.eqb name "filter" then Some (AFilter (lib_pred a))
      else if String.eqb name "filter_map" then Some (AFilterMap (lib_fmap a))
      else if String.eqb name "flat_map" then Some (AFlatMap (lib_flat a))
      else if String.eqb name "flatten" then Some AFlatten
      else if String.eqb name "map" then Some (AMap (lib_map a))
      else if String.eqb name "rev" then Some ARev
      else if String.eqb name "skip" then Some (ASkip (cnat a))
      else if String.eqb name "skip_while" then Some (ASkipWhile (lib_pred a))
      else if String.eqb name "take" then Some (ATake (cnat a))
      else if String.eqb name "take_while" then Some (ATakeWhile (lib_pred a))
      else if String.eqb name "zip" then Some (AZip zsrc)
      else None
  | _ => None
  end.

Definition consumer_of (v : val) : option consumer :=
  match as_list v with
  | VA name :: _ =>
      let a := arg1 (as_list v) in
      if String.eqb name "for_each" || String.eqb name "collect" then Some CForEach
      else if String.eqb name "all" then Some (CAll (lib_pred a))
      else if String.eqb name "any" then Some (CAny (lib_pred a))
      else if String.eqb name "count" then Some CCount
      else if String.eqb name "find" then Some (CFind (lib_pred a))
      else if String.eqb name "find_map" then Some (CFindMap (lib_fmap a))
      else if String.eqb name "rfind" then Some (CRFind (lib_pred a))
      else if String.eqb name "fold" then Some (CFold (DInt 0) lib_fold)
      else if String.eqb name "rfold" then Some (CRFold (DInt 0) lib_fold)
      else if String.eqb name "next" then Some CNext
      else if String.eqb name "nth" then Some (CNth (cnat a))
      else if String.eqb name "position" then Some (CPosition (lib_pred a))
      else if String.eqb name "rposition" then Some (CRPosition (lib_pred a))
      else None
  | _ => None
  end.

Fixpoint all_some {A} (l : list (option A)) : option (list A) :=
  match l with
  | [] => Some []
  | Some x :: r => option_map (cons x) (all_some r)
  | None :: _ => None
  end.

Fixpoint show_dval_fuel (fuel : nat) (v : dval) : string :=
  match fuel with
  | O => "?"
  | S f =>
      match v with
      | DInt z => show_Z z
      | DPair a b => "(" ++ show_dval_fuel f a ++ "," ++ show_dval_fuel f b ++ ")"
      | DList l => show_list (show_dval_fuel f) l
      | DNone => "N"
      | DSome x => "S(" ++ show_dval_fuel f x ++ ")"
      end
  end.
Definition show_dval := show_dval_fuel 12.

Definition c10_run (fam : string) (args : list val) : option string :=
  match args with
  | [src; zsrc; ms; cn] =>
      let srcl := as_dlist (dval_of src) in
      match all_some (map (adapter_of (as_dlist (dval_of zsrc))) (as_list ms)), consumer_of cn with
      | Some ads, Some c =>
          if String.eqb fam "c10.eval" then Some (show_dval (macro_sem ads c srcl))
          else if String.eqb fam "c10.spec" then Some (show_dval (std_sem ads c srcl))
          else if String.eqb fam "c10.pull" then Some (show_Z (Z.of_nat (pulled ads c srcl)))
          else None
      | _, _ => if String.eqb fam "c10.eval" || String.eqb fam "c10.spec" || String.eqb fam "c10.pull" then Some "!chain" else None
      end
  | _ => None
  end.
