(** Universal value syntax shared by the Rust harness, the extracted OCaml driver and
    the in-Coq [vm_compute] cross-check.  Everything that turns a harness line into a
    model result lives here in Gallina, so one definition serves extraction and
    [Eval vm_compute].

    args  ::= value { ' ' value }
    value ::= ['-'] digit+ | 'x' hexdigit* | '[' [ value { ',' value } ] ']' | atom
    atom  ::= any other run of characters without separators *)
From Coq Require Import List ZArith Bool Ascii String DecimalString.
Import ListNotations.
Local Open Scope Z_scope.

Inductive val : Type :=
| VZ (z : Z)
| VL (l : list val)
| VA (s : string).

(* ------------------------------------------------------------------ parsing *)

Definition is_digit (c : ascii) : bool :=
  let n := nat_of_ascii c in (Nat.leb 48 n && Nat.leb n 57)%bool.

Definition hex_val (c : ascii) : option Z :=
  let n := Z.of_nat (nat_of_ascii c) in
  if (48 <=? n) && (n <=? 57) then Some (n - 48)
  else if (97 <=? n) && (n <=? 102) then Some (n - 87)
  else if (65 <=? n) && (n <=? 70) then Some (n - 55)
  else None.

Fixpoint digits_to_Z (cs : list ascii) (acc : Z) : option Z :=
  match cs with
  | [] => Some acc
  | c :: cs' => if is_digit c then digits_to_Z cs' (10 * acc + (Z.of_nat (nat_of_ascii c) - 48)) else None
  end.

Fixpoint hex_to_bytes (cs : list ascii) : option (list val) :=
  match cs with
  | [] => Some []
  | a :: b :: cs' =>
      match hex_val a, hex_val b, hex_to_bytes cs' with
      | Some x, Some y, Some r => Some (VZ (x * 16 + y) :: r)
      | _, _, _ => None
      end
  | _ => None
  end.

Fixpoint string_of_chars (cs : list ascii) : string :=
  match cs with [] => EmptyString | c :: r => String c (string_of_chars r) end.
Fixpoint chars_of_string (s : string) : list ascii :=
  match s with EmptyString => [] | String c r => c :: chars_of_string r end.

(** a token (characters in order) to a value *)
Definition tok_to_val (cs : list ascii) : val :=
  match cs with
  | "-"%char :: ds =>
      match ds with
      | [] => VA (string_of_chars cs)
      | _ => match digits_to_Z ds 0 with Some z => VZ (- z) | None => VA (string_of_chars cs) end
      end
  | "x"%char :: hs =>
      match hex_to_bytes hs with Some l => VL l | None => VA (string_of_chars cs) end
  | c :: _ =>
      if is_digit c then
        match digits_to_Z cs 0 with Some z => VZ z | None => VA (string_of_chars cs) end
      else VA (string_of_chars cs)
  | [] => VA EmptyString
  end.

Definition flush (cur : list ascii) (top : list val) : list val :=
  match cur with [] => top | _ => tok_to_val (List.rev cur) :: top end.

(** one pass, structural on the input; [cur] is the current token reversed, [top] the
    current frame reversed, [stack] the enclosing frames *)
Fixpoint parse_go (cs : list ascii) (cur : list ascii) (top : list val) (stack : list (list val))
  : option (list val) :=
  match cs with
  | [] => match stack with [] => Some (List.rev (flush cur top)) | _ => None end
  | c :: cs' =>
      if (Ascii.eqb c " " || Ascii.eqb c ",")%bool then parse_go cs' [] (flush cur top) stack
      else if Ascii.eqb c "[" then parse_go cs' [] [] (flush cur top :: stack)
      else if Ascii.eqb c "]" then
        match stack with
        | [] => None
        | parent :: stack' => parse_go cs' [] (VL (List.rev (flush cur top)) :: parent) stack'
        end
      else parse_go cs' (c :: cur) top stack
  end.

Definition parse_args (s : string) : option (list val) := parse_go (chars_of_string s) [] [] [].

(* ------------------------------------------------------------------ accessors *)

Definition as_Z (v : val) : Z := match v with VZ z => z | _ => 0 end.
Definition as_list (v : val) : list val := match v with VL l => l | _ => [] end.
Definition as_bytes (v : val) : list Z := map as_Z (as_list v).
Definition as_atom (v : val) : string := match v with VA s => s | _ => EmptyString end.
Definition as_bool (v : val) : bool := match v with VZ z => negb (z =? 0) | VA s => String.eqb s "T" | _ => false end.

(* ------------------------------------------------------------------ printing *)
Local Open Scope string_scope.

Definition show_Z (z : Z) : string := NilZero.string_of_int (Z.to_int z).
Definition show_nat (n : nat) : string := show_Z (Z.of_nat n).
Definition show_bool (b : bool) : string := if b then "T" else "F".
Definition show_opt {A} (f : A -> string) (o : option A) : string :=
  match o with Some x => "S(" ++ f x ++ ")" | None => "N" end.
Definition show_pair {A B} (f : A -> string) (g : B -> string) (p : A * B) : string :=
  "(" ++ f (fst p) ++ "," ++ g (snd p) ++ ")".
Fixpoint show_items {A} (f : A -> string) (l : list A) : string :=
  match l with
  | [] => ""
  | [x] => f x
  | x :: r => f x ++ "," ++ show_items f r
  end.
Definition show_list {A} (f : A -> string) (l : list A) : string := "[" ++ show_items f l ++ "]".

Definition hex_digit (z : Z) : ascii :=
  ascii_of_nat (Z.to_nat (if (z <? 10)%Z then (48 + z)%Z else (87 + z)%Z)).
Fixpoint show_hex_items (l : list Z) : string :=
  match l with
  | [] => ""
  | b :: r => String (hex_digit (b / 16)%Z) (String (hex_digit (b mod 16)%Z) (show_hex_items r))
  end.
(** bytes as [x6162..] *)
Definition show_bytes (l : list Z) : string := "x" ++ show_hex_items l.

(** a sub-slice of an argument as offset:len; every empty sub-slice prints as [e]
    (the properties only constrain where NON-empty results sit) *)
Definition show_view (off len : Z) : string :=
  if (len =? 0)%Z then "e" else show_Z off ++ ":" ++ show_Z len.

(** key=value;key=value *)
Fixpoint show_fields (l : list (string * string)) : string :=
  match l with
  | [] => ""
  | [(k, v)] => k ++ "=" ++ v
  | (k, v) :: r => k ++ "=" ++ v ++ ";" ++ show_fields r
  end.
