(** Harness glue for C19.

    c19.opt / c19.res / c19.try :  ty macro form variant x k   ->  v=<value>;log=[events]
      form     E (no closure) | C (inline closure) | P (fn path) | V (closure held in a variable)
               | Z (try_!'s  map_err = || v)
      variant  S | N | SS | SN (Option) ;  O | E (Result)
      events   1 = [$e] evaluated, 2 = eager [$v] evaluated, 10/20/30 (+ argument) = the
               C/P/V closure was called, 5 (+ argument) = the code after try_! ran
    c19.minmax      :  macro form shape kl kr   ->  L | R
    c19.minmaxprim  :  macro ty a b             ->  the value
    c19.rebind      :  macro shape [kinds] variant [payload]  ->  r=..;p=[..];f=[..];x=[..];l=[..] *)
From Coq Require Import List ZArith Bool String.
From KV Require Import Base.Prelude Model.OptRes Model.MinMax Model.Rebind Glue.Val.
Import ListNotations.
Local Open Scope string_scope.

Definition MZ := @M Z.

(* ------------------------------------------------------------------ rendering *)
Definition show_res {A B} (f : A -> string) (g : B -> string) (r : result A B) : string :=
  match r with Ok x => "O(" ++ f x ++ ")" | Err x => "E(" ++ g x ++ ")" end.
Definition show_outcome {A} (f : A -> string) (o : outcome A) : string :=
  match o with Val x => f x | Panic => "PANIC" end.
Definition show_m {A} (f : A -> string) (m : MZ A) : string :=
  show_fields [("v", f (fst m)); ("log", show_list show_Z (snd m))].

(* ------------------------------------------------------------------ the harness's closures *)
Definition form_code (form : string) : Z :=
  if String.eqb form "C" then 10 else if String.eqb form "P" then 20
  else if String.eqb form "V" then 30 else 0.

Definition half (x : Z) : Z := x / 2.      (* Rust [x >> 1] on i64 *)

Definition ev_e {A} (o : A) : MZ A := (o, [1]).
Definition ev_v (k : Z) : MZ Z := (k, [2]).
Definition fb_val (c k : Z) : unit -> MZ Z := fun _ => (k, [c]).
Definition fb_opt (c k : Z) : unit -> MZ (option Z) :=
  fun _ => (if Z.even k then Some k else None, [c]).
Definition fn_map (c k x : Z) : MZ Z := (half x + k, [c; x]).
Definition fn_and_then (c k x : Z) : MZ (option Z) :=
  (if Z.even x then Some (half x + k) else None, [c; x]).
Definition fn_filter (c k x : Z) : MZ bool := (x >? k, [c; x]).
Definition fn_res (c k x : Z) : MZ (result Z Z) :=
  (if Z.even x then Ok (half x + k) else Err (half x - k), [c; x]).

(* ------------------------------------------------------------------ Option macros *)
Definition opt_of (variant : string) (x : Z) : option Z :=
  if String.eqb variant "S" then Some x else None.
Definition optopt_of (variant : string) (x : Z) : option (option Z) :=
  if String.eqb variant "SS" then Some (Some x)
  else if String.eqb variant "SN" then Some None else None.

Definition run_opt (mac form variant : string) (x k : Z) : option string :=
  let c := form_code form in
  let e := ev_e (opt_of variant x) in
  let closure := String.eqb form "C" in
  let sz := show_m show_Z in
  let so := show_m (show_opt show_Z) in
  let sr := show_m (show_res show_Z show_Z) in
  if String.eqb mac "unwrap" then Some (show_m (show_outcome show_Z) (opt_unwrap e))
  else if String.eqb mac "unwrap_or" then Some (sz (opt_unwrap_or e (ev_v k)))
  else if String.eqb mac "unwrap_or_else" then
    Some (sz (if closure then opt_unwrap_or_else_c e (fb_val c k tt) else opt_unwrap_or_else_f e (fb_val c k)))
  else if String.eqb mac "ok_or" then Some (sr (opt_ok_or e (ev_v k)))
  else if String.eqb mac "ok_or_else" then
    Some (sr (if closure then opt_ok_or_else_c e (fb_val c k tt) else opt_ok_or_else_f e (fb_val c k)))
  else if String.eqb mac "map" then
    Some (so (if closure then opt_map_c e (fn_map c k) else opt_map_f e (fn_map c k)))
  else if String.eqb mac "and_then" then
    Some (so (if closure then opt_and_then_c e (fn_and_then c k) else opt_and_then_f e (fn_and_then c k)))
  else if String.eqb mac "or_else" then
    Some (so (if closure then opt_or_else_c e (fb_opt c k tt) else opt_or_else_f e (fb_opt c k)))
  else if String.eqb mac "flatten" then Some (so (opt_flatten (ev_e (optopt_of variant x))))
  else if String.eqb mac "filter" then
    Some (so (if closure then opt_filter_c e (fn_filter c k) else opt_filter_f e (fn_filter c k)))
  else if String.eqb mac "copied" then
    Some (show_fields [("v", show_opt show_Z (opt_copied (opt_of variant x))); ("log", "[]")])
  else None.

(* ------------------------------------------------------------------ Result macros *)
Definition res_of (variant : string) (x : Z) : result Z Z :=
  if String.eqb variant "O" then Ok x else Err x.

Definition run_res (mac form variant : string) (x k : Z) : option string :=
  let c := form_code form in
  let e := ev_e (res_of variant x) in
  let closure := String.eqb form "C" in
  let sz := show_m show_Z in
  let so := show_m (show_opt show_Z) in
  let sr := show_m (show_res show_Z show_Z) in
  if String.eqb mac "unwrap_ctx" then Some (show_m (show_outcome show_Z) (res_unwrap_ctx e))
  else if String.eqb mac "unwrap_or" then Some (sz (res_unwrap_or e (ev_v k)))
  else if String.eqb mac "unwrap_or_else" then
    Some (sz (if closure then res_unwrap_or_else_c e (fn_map c k) else res_unwrap_or_else_f e (fn_map c k)))
  else if String.eqb mac "unwrap_err_or_else" then
    Some (sz (if closure then res_unwrap_err_or_else_c e (fn_map c k) else res_unwrap_err_or_else_f e (fn_map c k)))
  else if String.eqb mac "ok" then Some (so (res_ok e))
  else if String.eqb mac "err" then Some (so (res_err e))
  else if String.eqb mac "map" then
    Some (sr (if closure then res_map_c e (fn_map c k) else res_map_f e (fn_map c k)))
  else if String.eqb mac "map_err" then
    Some (sr (if closure then res_map_err_c e (fn_map c k) else res_map_err_f e (fn_map c k)))
  else if String.eqb mac "and_then" then
    Some (sr (if closure then res_and_then_c e (fn_res c k) else res_and_then_f e (fn_res c k)))
  else if String.eqb mac "or_else" then
    Some (sr (if closure then res_or_else_c e (fn_res c k) else res_or_else_f e (fn_res c k)))
  else None.

(* ------------------------------------------------------------------ try_! / try_opt! *)
Definition k_res (k x : Z) : MZ (result Z Z) := (Ok (half x + k), [5; x]).
Definition k_opt (k x : Z) : MZ (option Z) := (Some (half x + k), [5; x]).

Definition run_try (mac form variant : string) (x k : Z) : option string :=
  let sr := show_m (show_res show_Z show_Z) in
  if String.eqb mac "try" then Some (sr (try_m (ev_e (res_of variant x)) (k_res k)))
  else if String.eqb mac "try_map_err" then
    if String.eqb form "Z"
    then Some (sr (try_map_err0_m (ev_e (res_of variant x)) (k, [11]) (k_res k)))
    else Some (sr (try_map_err_m (ev_e (res_of variant x)) (fun e0 => (half e0 - k, [10; e0])) (k_res k)))
  else if String.eqb mac "try_opt" then
    Some (show_m (show_opt show_Z) (try_opt_m (ev_e (opt_of variant x)) (k_opt k)))
  else None.

(* ------------------------------------------------------------------ min / max *)
Definition key_shape (shape k : Z) : Z :=
  if Z.eqb shape 0 then k else if Z.eqb shape 1 then (- k - 1)%Z
  else if Z.eqb shape 2 then (k mod 3)%Z else 0%Z.
Definition show_side (s : side) : string := match s with L => "L" | R => "R" end.

Definition run_minmax (mac : string) (shape kl kr : Z) : option string :=
  let key := key_shape shape in
  let cmp := fun a b => Z.compare (key a) (key b) in
  if String.eqb mac "min" then Some (show_side (min_m cmp kl kr))
  else if String.eqb mac "max" then Some (show_side (max_m cmp kl kr))
  else if String.eqb mac "min_by" then Some (show_side (min_by_m cmp kl kr))
  else if String.eqb mac "max_by" then Some (show_side (max_by_m cmp kl kr))
  else if String.eqb mac "min_by_key" then Some (show_side (min_by_key_m Z.compare key kl kr))
  else if String.eqb mac "max_by_key" then Some (show_side (max_by_key_m Z.compare key kl kr))
  else None.

Definition run_minmaxprim (mac : string) (a b : Z) : option string :=
  if String.eqb mac "min" then Some (show_Z (pick (min_m Z.compare a b) a b))
  else if String.eqb mac "max" then Some (show_Z (pick (max_m Z.compare a b) a b))
  else None.

(* ------------------------------------------------------------------ rebind *)
Local Open Scope nat_scope.
Definition ty0 : tok := KTy 0.
Definition place_p (i : nat) : list tok := [KIdent i].
Definition place_f (i : nat) : list tok := [KIdent 100; KDot; KIdent i].
Definition place_x (i : nat) : list tok := [KIdent 101; KBracket [KNum i]].
Definition bind_l (i : nat) : tok := KIdent (200 + i).

(** the tokens of the target written at position [i] for a kind atom *)
Definition kind_toks (kind : string) (i : nat) : option (list tok) :=
  if String.eqb kind "P" then Some (place_p i)
  else if String.eqb kind "PT" then Some (place_p i ++ [KColon; ty0])%list
  else if String.eqb kind "D" then Some (place_p 0)
  else if String.eqb kind "F" then Some (place_f i)
  else if String.eqb kind "X" then Some (place_x i)
  else if String.eqb kind "L" then Some [KLet; bind_l i]
  else if String.eqb kind "T" then Some [KLet; bind_l i; KColon; ty0]
  else if String.eqb kind "U" then Some [KUnd]
  else if String.eqb kind "UT" then Some [KUnd; KColon; ty0]
  else None.

Fixpoint kinds_toks (kinds : list string) (i : nat) : option (list tok) :=
  match kinds with
  | [] => Some []
  | [k] => kind_toks k i
  | k :: r =>
      match kind_toks k i, kinds_toks r (S i) with
      | Some a, Some b => Some (a ++ KComma :: b)%list
      | _, _ => None
      end
  end.

(** shape B: the bare single target (one token, optionally [: ty]) ; G: ( targets ) ;
    GC: ( targets , ) *)
Definition build_rpat (shape : string) (kinds : list string) : option rpat :=
  if String.eqb shape "B" then
    match kinds with
    | [k] =>
        match kind_toks k 0 with
        | Some [t] => Some (RP t None)
        | Some [t; KColon; ty] => Some (RP t (Some ty))
        | _ => None
        end
    | _ => None
    end
  else
    match kinds_toks kinds 0 with
    | Some ts =>
        if String.eqb shape "G" then Some (RP (KParen ts) None)
        else if String.eqb shape "GC" then Some (RP (KParen (ts ++ [KComma])%list) None)
        else None
    | None => None
    end.

Definition show_rval (v : rval) : string :=
  match v with VInt z => show_Z z | VTup l => show_list show_Z l end.

Definition six : list nat := [0; 1; 2; 3; 4; 5].
Definition init_store0 : store :=
  (map (fun i => (place_p i, VInt (- (100 + Z.of_nat i))%Z)) six ++
   map (fun i => (place_f i, VInt (- (200 + Z.of_nat i))%Z)) six ++
   map (fun i => (place_x i, VInt (- (300 + Z.of_nat i))%Z)) six)%list.

(** the one-component-tuple cases declare p0 with the tuple type *)
Definition init_store (tup1 : bool) : store :=
  if tup1 then (place_p 0, VTup [(-100)%Z]) :: init_store0 else init_store0.

Definition show_place (st : store) (pl : list tok) : string :=
  match lookup pl st with Some v => show_rval v | None => "?" end.
Definition show_state (tag : string) (st : store) : string :=
  show_fields
    [("r", tag);
     ("p", show_list (fun i => show_place st (place_p i)) six);
     ("f", show_list (fun i => show_place st (place_f i)) six);
     ("x", show_list (fun i => show_place st (place_x i)) six);
     ("l", show_list (fun i => show_opt show_rval (lookup [bind_l i] st)) six)].

Definition run_rebind (mac shape : string) (kinds : list string) (variant : string)
           (payload : list Z) : option string :=
  match build_rpat shape kinds with
  | None => None
  | Some (RP t ty as rp) =>
      let tup1 := String.eqb variant "OT1" || String.eqb variant "ET1" in
      let init_store := init_store tup1 in
      let e : result rval Z :=
        if String.eqb variant "OS" then Ok (VInt (hd 0%Z payload))
        else if String.eqb variant "OT" || String.eqb variant "OT1" then Ok (VTup payload)
        else Err (hd 0%Z payload) in
      let out :=
        if String.eqb mac "rebind_if_ok" then Some (rebind_if_ok_m rp e init_store)
        else if String.eqb mac "try_rebind" then
          match ty with None => Some (try_rebind_m t e init_store) | Some _ => None end
        else None in
      match out with
      | None => None
      | Some (Rebound st) => Some (show_state "ok" st)
      | Some Skipped => Some (show_state "skip" init_store)
      | Some (Returned x) => Some ("r=ret(" ++ show_Z x ++ ")")
      | Some Rejected => Some "r=rejected"
      end
  end.
Local Close Scope nat_scope.

(* ------------------------------------------------------------------ dispatch *)
Definition c19_run (fam : string) (args : list val) : option string :=
  if String.eqb fam "c19.opt" then
    match args with
    | [_; mac; form; variant; x; k] => run_opt (as_atom mac) (as_atom form) (as_atom variant) (as_Z x) (as_Z k)
    | _ => None
    end
  else if String.eqb fam "c19.res" then
    match args with
    | [_; mac; form; variant; x; k] => run_res (as_atom mac) (as_atom form) (as_atom variant) (as_Z x) (as_Z k)
    | _ => None
    end
  else if String.eqb fam "c19.try" then
    match args with
    | [_; mac; form; variant; x; k] => run_try (as_atom mac) (as_atom form) (as_atom variant) (as_Z x) (as_Z k)
    | _ => None
    end
  else if String.eqb fam "c19.minmax" then
    match args with
    | [mac; _; shape; kl; kr] => run_minmax (as_atom mac) (as_Z shape) (as_Z kl) (as_Z kr)
    | _ => None
    end
  else if String.eqb fam "c19.minmaxprim" then
    match args with
    | [mac; _; a; b] => run_minmaxprim (as_atom mac) (as_Z a) (as_Z b)
    | _ => None
    end
  else if String.eqb fam "c19.rebind" then
    match args with
    | [mac; shape; kinds; variant; payload] =>
        run_rebind (as_atom mac) (as_atom shape) (map as_atom (as_list kinds)) (as_atom variant)
                   (map as_Z (as_list payload))
    | _ => None
    end
  else None.
