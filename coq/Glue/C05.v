(** Harness glue for C05 (stub: no families yet). *)
From Coq Require Import List String.
From KV Require Import Glue.Val.
Definition c05_run (fam : string) (args : list val) : option string := None.
