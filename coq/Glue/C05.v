(** Harness glue for C05: one line per (haystack, pattern) carrying the prefix/suffix
    tests, the strips and the three pattern trims; one line per byte string carrying
    the three whitespace trims. *)
From Coq Require Import List ZArith Bool String.
From KV Require Import Base.Prelude Model.Search Model.Trim Model.Utf8 Glue.Val.
Import ListNotations.
Local Open Scope string_scope.

(** a suffix / prefix of [h] as offset:len *)
Definition c05_suffix (h r : list Z) : string := show_view (zlen h - zlen r) (zlen r).
Definition c05_prefix (r : list Z) : string := show_view 0 (zlen r).

(** the model returns [None] only when it runs out of fuel (proved impossible) *)
Definition c05_fuel (f : list Z -> string) (o : option (list Z)) : string :=
  match o with Some r => f r | None => "FUEL" end.

(** [trim_matches]: the result sits after what the start-trim removed *)
Definition c05_trim_both (h n : list Z) : string :=
  match trim_start_matches_m h n with
  | Some l =>
      match trim_end_matches_m l n with
      | Some r => show_view (zlen h - zlen l) (zlen r)
      | None => "FUEL"
      end
  | None => "FUEL"
  end.

Definition c05_pat (h n : list Z) : string :=
  show_fields
    [("sw", show_bool (starts_with_m h n));
     ("ew", show_bool (ends_with_m h n));
     ("sp", show_opt (c05_suffix h) (strip_prefix_m h n));
     ("ss", show_opt c05_prefix (strip_suffix_m h n));
     ("ts", c05_fuel (c05_suffix h) (trim_start_matches_m h n));
     ("te", c05_fuel c05_prefix (trim_end_matches_m h n));
     ("tm", c05_trim_both h n)].

(** whitespace: [bytes_trim] = start (end this): offset = what the start-trim removed
    from the end-trimmed slice *)
Definition c05_ws (s : list Z) : string :=
  let e := bytes_trim_end_m s in
  let b := bytes_trim_m s in
  show_fields
    [("t", show_view (zlen e - zlen b) (zlen b));
     ("ts", c05_suffix s (bytes_trim_start_m s));
     ("te", c05_prefix e)].

Definition c05_run (fam : string) (args : list val) : option string :=
  match args with
  | [h; n] =>
      if String.eqb fam "c05.str" then Some (c05_pat (as_bytes h) (as_bytes n))
      else if String.eqb fam "c05.bytes" then Some (c05_pat (as_bytes h) (as_bytes n))
      else if String.eqb fam "c05.strchar" then Some (c05_pat (as_bytes h) (encode_m (as_Z n)))
      else if String.eqb fam "c05.byteschar" then Some (c05_pat (as_bytes h) (encode_m (as_Z n)))
      else None
  | [s] =>
      if String.eqb fam "c05.ws" then Some (c05_ws (as_bytes s))
      else if String.eqb fam "c05.wsstr" then Some (c05_ws (as_bytes s))
      else None
  | _ => None
  end.
