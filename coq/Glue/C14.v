(** Harness glue for C14: one Parser operation vs the free function; split protocols. *)
From Coq Require Import List ZArith Bool String.
From KV Require Import Base.Prelude Model.Parser Glue.Val Glue.C13.
Import ListNotations.
Local Open Scope string_scope.

Definition show_one (r : pres) : string :=
  match r with
  | POk _ p => "ok(" ++ show_bytes (p_str p) ++ ")"
  | PErr _ => "err"
  | PPanic => "PANIC"
  end.

Definition show_proto (r : pres) : string :=
  match r with
  | POk (VPiece s) _ => show_bytes s
  | POk _ _ => "?"
  | PErr e => show_kind (e_kind e)
  | PPanic => "PANIC"
  end.

Definition proto_op (kind : string) (d : list Z) : option pop :=
  if String.eqb kind "split" then Some (OSplit d)
  else if String.eqb kind "rsplit" then Some (ORSplit d)
  else if String.eqb kind "split_terminator" then Some (OSplitTerminator d)
  else if String.eqb kind "rsplit_terminator" then Some (ORSplitTerminator d)
  else None.

Definition c14_run (fam : string) (args : list val) : option string :=
  if String.eqb fam "c14.free" then
    match args with
    | [s; op] => match op_of op with
                 | Some o => Some (show_one (step (parser_new (as_bytes s)) o))
                 | None => Some "!op"
                 end
    | _ => None
    end
  else if String.eqb fam "c14.split" then
    match args with
    | [s; d; VA kind] =>
        match proto_op kind (as_bytes d) with
        | Some o =>
            let str := as_bytes s in
            Some (show_list show_proto (run_ops (parser_new str) (repeat o (List.length str + 4))))
        | None => Some "!kind"
        end
    | _ => None
    end
  else None.
