(** C07 - placeholder while the proofs are being built. *)
From KV Require Import Base.Prelude Model.Utf8 Model.Str Spec.Utf8.
Theorem C07_placeholder : is_char_boundary_m [] 0 = true.
Proof. reflexivity. Qed.
Print Assumptions C07_placeholder.
