(** C07 - char iteration and char <-> UTF-8 / u32 conversions agree with std.
    Statements only; every proof is [exact <lemma>].

    Vocabulary: a char is its scalar value ([is_scalar]); [encode], [chars],
    [char_indices], [wf_char], [dec_char] are the Unicode Table 3-6 / 3-7 definitions of
    Spec/Utf8.v (tied to char::encode_utf8, str::chars, str::char_indices and
    core::str::from_utf8 by the correspondence run). Iterators are by-value:
    [run next next_back h st] performs the history [h] of Front/Back steps, and
    [deque_run h l] is what popping the deque [l] from those ends yields (Base/Deque.v).
    The primed steps are the model steps with the panic wrapper removed; the
    [.._never_panics] theorems show that nothing is hidden by that.

    NOT YET PROVED: nothing planned for C07 in DESIGN section 4 is missing. *)
From KV Require Import Base.Prelude Base.Deque Model.Utf8 Model.Str Model.Chars Spec.Utf8
  Proofs.Utf8Proofs Proofs.CharsProofs.
From KV Require Import Proofs.RevAnywhereProofs.

(** encoding: konst's shift/mask encoder = Table 3-6, for every char *)
Theorem C07_encode_eq_std : forall c, is_scalar c -> encode_m c = encode c.
Proof. exact encode_scalar. Qed.
(** decoding: the shift/mask decoder inverts it (complete sweep of all code points) ... *)
Theorem C07_decode_encode : forall c, is_scalar c -> string_to_usv_m (encode_m c) = c.
Proof. exact decode_encode_scalar. Qed.
(** ... and computes the scalar value of EVERY well-formed sequence, so the unchecked
    u32 -> char cast at the end of the decoder is sound *)
Theorem C07_decode_wf : forall e, wf_char e = true -> string_to_usv_m e = dec_char e.
Proof. exact usv_eq_dec. Qed.
Theorem C07_decode_scalar : forall e, wf_char e = true -> is_scalar (string_to_usv_m e).
Proof. exact decode_scalar. Qed.
(** Table 3-7 sequences and scalar values correspond one to one *)
Theorem C07_spec_roundtrip_1 : forall e, wf_char e = true ->
  encode (dec_char e) = e /\ is_scalar (dec_char e).
Proof. exact wf_dec_encode. Qed.
Theorem C07_spec_roundtrip_2 : forall c, is_scalar c ->
  wf_char (encode c) = true /\ dec_char (encode c) = c.
Proof. exact encode_wf. Qed.

(** from_u32 succeeds exactly for Unicode scalar values and returns that char *)
Theorem C07_from_u32_iff : forall n, 0 <= n -> (from_u32_m n = Some n <-> is_scalar n).
Proof. exact from_u32_iff. Qed.
Theorem C07_from_u32_some : forall n c, 0 <= n -> from_u32_m n = Some c -> c = n /\ is_scalar n.
Proof. exact from_u32_some. Qed.
Theorem C07_from_u32_none : forall n, 0 <= n -> (from_u32_m n = None <-> ~ is_scalar n).
Proof. exact from_u32_none. Qed.

(** chars / chars().rev(): every interleaving of front and back steps yields std's chars *)
Theorem C07_chars_refines : forall s, utf8 s = true -> forall h,
  run _ _ chars_next' chars_next_back' h (chars_init s) = deque_run h (chars s).
Proof. exact chars_refines. Qed.
Theorem C07_rchars_refines : forall s, utf8 s = true -> forall h,
  run _ _ rchars_next' rchars_next_back' h (chars_init s) = deque_run h (rev (chars s)).
Proof. exact rchars_refines. Qed.
(** char_indices / .rev(): the same with std's (byte offset, char) pairs *)
Theorem C07_char_indices_refines : forall s, utf8 s = true -> forall h,
  run _ _ cidx_next' cidx_next_back' h (cidx_init s) = deque_run h (char_indices s).
Proof. exact char_indices_refines. Qed.
Theorem C07_rchar_indices_refines : forall s, utf8 s = true -> forall h,
  run _ _ rcidx_next' rcidx_next_back' h (cidx_init s) = deque_run h (rev (char_indices s)).
Proof. exact rchar_indices_refines. Qed.

(** reversing AT ANY POINT of the iteration: after any history h1 of front / back steps, the
    reversed iterator (rev() exchanges next and next_back) yields under ANY further history h2
    what popping the reversed rest of std's deque yields *)
Theorem C07_chars_rev_anywhere : forall s, utf8 s = true -> forall h1 h2,
  run _ _ chars_next_back' chars_next' h2 (state_after _ _ chars_next' chars_next_back' h1 (chars_init s))
  = deque_run h2 (rev (deque_rest h1 (chars s))).
Proof. exact chars_rev_anywhere. Qed.
Theorem C07_char_indices_rev_anywhere : forall s, utf8 s = true -> forall h1 h2,
  run _ _ cidx_next_back' cidx_next' h2 (state_after _ _ cidx_next' cidx_next_back' h1 (cidx_init s))
  = deque_run h2 (rev (deque_rest h1 (char_indices s))).
Proof. exact char_indices_rev_anywhere. Qed.

(** no step panics (split_at on a non-boundary, index underflow) or exhausts the model's
    loop bound while the remaining string is valid UTF-8 - an invariant of both steps *)
Theorem C07_chars_never_panics : forall st, chars_inv st ->
  (exists o, chars_next st = Ok o) /\ (exists o, chars_next_back st = Ok o).
Proof. exact chars_never_panics. Qed.
Theorem C07_char_indices_never_panics : forall st, cidx_inv st ->
  (exists o, cidx_next st = Ok o) /\ (exists o, cidx_next_back st = Ok o).
Proof. exact char_indices_never_panics. Qed.

(** as_str(): after any history the remaining string is the undecoded middle of the
    original - between the chars taken from the front and those taken from the back -
    and the returned view sits exactly there *)
Theorem C07_chars_as_str_middle : forall s h, utf8 s = true ->
  let st' := final _ _ chars_next' chars_next_back' h (chars_init s) in
  exists pre post,
    s = pre ++ c_this st' ++ post /\
    chars_as_str st' = (zlen pre, zlen (c_this st')) /\
    utf8 pre = true /\ utf8 (c_this st') = true /\ utf8 post = true /\
    deque_split h (chars s) = (chars pre, chars (c_this st'), chars post).
Proof. exact chars_as_str_middle. Qed.
Theorem C07_char_indices_as_str_middle : forall s h, utf8 s = true ->
  let st' := final _ _ cidx_next' cidx_next_back' h (cidx_init s) in
  exists pre post,
    s = pre ++ i_this st' ++ post /\
    cidx_as_str st' = (zlen pre, zlen (i_this st')) /\
    utf8 pre = true /\ utf8 (i_this st') = true /\ utf8 post = true /\
    deque_split h (chars s) = (chars pre, chars (i_this st'), chars post).
Proof. exact char_indices_as_str_middle. Qed.

(** the hypotheses are satisfiable: "aé锈🧠" with a mixed history *)
Theorem C07_example :
  (utf8 [97; 195; 169; 233; 148; 136; 240; 159; 167; 160] = true) /\
  (chars [97; 195; 169; 233; 148; 136; 240; 159; 167; 160] = [97; 233; 38152; 129504]) /\
  (char_indices [97; 195; 169; 233; 148; 136; 240; 159; 167; 160] = [(0, 97); (1, 233); (3, 38152); (6, 129504)]) /\
  (run _ _ chars_next' chars_next_back' [Back; Front; Front; Back; Back]
     (chars_init [97; 195; 169; 233; 148; 136; 240; 159; 167; 160])
   = [Some 129504; Some 97; Some 233; Some 38152; None]).
Proof. exact chars_example. Qed.

Print Assumptions C07_encode_eq_std.
Print Assumptions C07_decode_encode.
Print Assumptions C07_decode_wf.
Print Assumptions C07_decode_scalar.
Print Assumptions C07_spec_roundtrip_1.
Print Assumptions C07_spec_roundtrip_2.
Print Assumptions C07_from_u32_iff.
Print Assumptions C07_from_u32_some.
Print Assumptions C07_from_u32_none.
Print Assumptions C07_chars_refines.
Print Assumptions C07_rchars_refines.
Print Assumptions C07_char_indices_refines.
Print Assumptions C07_rchar_indices_refines.
Print Assumptions C07_chars_never_panics.
Print Assumptions C07_char_indices_never_panics.
Print Assumptions C07_chars_as_str_middle.
Print Assumptions C07_char_indices_as_str_middle.
Print Assumptions C07_example.
Print Assumptions C07_chars_rev_anywhere.
Print Assumptions C07_char_indices_rev_anywhere.
