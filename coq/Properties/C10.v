(** C10 — iterator-DSL method chains evaluate like the same std Iterator chains.
    Statements only.

    [macro_sem]  : model of the loop nest the macros expand to (Model/Dsl.v)
    [doc_sem]    : its compositional list semantics
    [std_sem]    : the identical chain on std iterators, with the two documented
                   exceptions (enumerate numbers in iteration order, rposition counts from
                   the back) built in.
    Quantification: ALL adapter lists, ALL closures (arbitrary Gallina functions), ALL
    consumers, ALL source lists — no depth or length bound. *)
From KV Require Import Base.Prelude Model.Dsl Spec.Dsl Proofs.DslFusion Proofs.DslStd Model.DslPulls Proofs.DslPullsProofs Proofs.DslPullsAll.

(** step 1: the expansion computes the compositional semantics — every chain, also the
    known-finding class *)
Theorem C10_macro_eq_doc : forall ms c src, macro_sem ms c src = doc_sem ms c src.
Proof. exact macro_eq_doc. Qed.

(** step 2: which equals the std chain unless a reversing method follows a positional
    adapter (take/skip/take_while/skip_while) or a zip whose sides differ in length *)
Theorem C10_doc_eq_std : forall ms c src,
  accepted ms c = true -> no_rev_after_positional ms c src ->
  doc_sem ms c src = std_sem ms c src.
Proof. exact doc_eq_std. Qed.

Theorem C10_dsl_eq_std : forall ms c src,
  accepted ms c = true -> no_rev_after_positional ms c src ->
  macro_sem ms c src = std_sem ms c src.
Proof. exact dsl_eq_std. Qed.

(** chains without any reversing method: no side condition at all *)
Theorem C10_dsl_eq_std_forward : forall ms c src,
  reverses ms c = false -> macro_sem ms c src = std_sem ms c src.
Proof. exact dsl_eq_std_forward. Qed.

(** finding F7 (known finding, shape=reverse-after-positional): outside that class the
    macros reverse the SOURCE *)
Theorem C10_rev_after_take_refuted :
  exists ms c src, accepted ms c = true /\ ~ no_rev_after_positional ms c src /\
                   macro_sem ms c src = DList (ints [4;3]%Z) /\ std_sem ms c src = DList (ints [2;1]%Z).
Proof. exact dsl_rev_after_take_refuted. Qed.
Theorem C10_rev_after_skip_refuted :
  macro_sem [ASkip 1; ARev] CForEach (ints [1;2;3;4]%Z) = DList (ints [3;2;1]%Z) /\
  std_sem [ASkip 1; ARev] CForEach (ints [1;2;3;4]%Z) = DList (ints [4;3;2]%Z).
Proof. exact dsl_rev_after_skip_refuted. Qed.

(** the side-effect half (observe_at: "side effects of iter::for_each! vs the std chain"): how many
    items the loop nest pulls from its source = how often the closures in front of the first
    adapter are evaluated.  Finding F11 (known finding, shape=take-pulls-one-more): behind
    one-for-one adapters [take(n)] pulls min(n+1, len) items where core::iter::Take pulls
    min(n, len): `map(|x| 10 / *x), take(2)` over [1, 2, 0] divides by zero, std yields [10, 5]. *)
Theorem C10_take_pulls : forall pre n src,
  forallb one_to_one pre = true ->
  pulled (pre ++ [ATake n]) CForEach src = Nat.min (S n) (length src).
Proof. exact dsl_take_pulls. Qed.
Theorem C10_take_pulls_eq_std_iff : forall pre n src,
  forallb one_to_one pre = true ->
  (pulled (pre ++ [ATake n]) CForEach src = std_take_pulls n src <-> (length src <= n)%nat).
Proof. exact dsl_take_pulls_eq_std_iff. Qed.
Theorem C10_take_pulls_one_more : forall pre n src,
  forallb one_to_one pre = true -> (n < length src)%nat ->
  pulled (pre ++ [ATake n]) CForEach src = S (std_take_pulls n src).
Proof. exact dsl_take_pulls_one_more. Qed.
Theorem C10_take_pulls_std_refuted :
  exists pre n src, forallb one_to_one pre = true /\
    pulled (pre ++ [ATake n]) CForEach src <> std_take_pulls n src.
Proof. exact dsl_take_pulls_std_refuted. Qed.
Example C10_take_pulls_witness :
  pulled ([ACopied; AMap (fun v => v)] ++ [ATake 2]) CForEach [DInt 1; DInt 2; DInt 0] = 3%nat
  /\ std_take_pulls 2 [DInt 1; DInt 2; DInt 0] = 2%nat.
Proof. exact pulls_witness. Qed.

(** ... and [take] is the only place: a chain that cannot break out of the loop nest (no take,
    take_while, zip) under for_each / collect pulls the whole source, as the std chain does *)
Theorem C10_nostop_pulls_all : forall ms src,
  forallb nostop ms = true -> pulled ms CForEach src = length src.
Proof. exact dsl_nostop_pulls_all. Qed.
Example C10_nostop_witness :
  forallb nostop [ACopied; AFilter (fun _ => true); ASkip 1; AFlatMap (fun v => [v; v]); ARev] = true.
Proof. exact nostop_witness. Qed.

Print Assumptions C10_macro_eq_doc.
Print Assumptions C10_doc_eq_std.
Print Assumptions C10_dsl_eq_std.
Print Assumptions C10_dsl_eq_std_forward.
Print Assumptions C10_rev_after_take_refuted.
Print Assumptions C10_rev_after_skip_refuted.
Print Assumptions C10_take_pulls.
Print Assumptions C10_take_pulls_eq_std_iff.
Print Assumptions C10_take_pulls_one_more.
Print Assumptions C10_take_pulls_std_refuted.
Print Assumptions C10_take_pulls_witness.
Print Assumptions C10_nostop_pulls_all.
Print Assumptions C10_nostop_witness.
