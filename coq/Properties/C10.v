(** C10 — iterator-DSL method chains evaluate like the same std Iterator chains.
    Statements only.

    [macro_sem]  : model of the loop nest the macros expand to (Model/Dsl.v)
    [doc_sem]    : its compositional list semantics
    [std_sem]    : the identical chain on std iterators, with the two documented
                   exceptions (enumerate numbers in iteration order, rposition counts from
                   the back) built in.
    Quantification: ALL adapter lists, ALL closures (arbitrary Gallina functions), ALL
    consumers, ALL source lists — no depth or length bound. *)
From KV Require Import Base.Prelude Model.Dsl Spec.Dsl Proofs.DslFusion Proofs.DslStd.

(** step 1: the expansion computes the compositional semantics — every chain, also the
    known-finding class *)
Theorem C10_macro_eq_doc : forall ms c src, macro_sem ms c src = doc_sem ms c src.
Proof. exact macro_eq_doc. Qed.

(** step 2: which equals the std chain unless a reversing method follows a positional
    adapter (take/skip/take_while/skip_while) or a zip whose sides differ in length *)
Theorem C10_doc_eq_std : forall ms c src,
  accepted ms c = true -> no_rev_after_positional ms c src ->
  doc_sem ms c src = std_sem ms c src.
Proof. exact doc_eq_std. Qed.

Theorem C10_dsl_eq_std : forall ms c src,
  accepted ms c = true -> no_rev_after_positional ms c src ->
  macro_sem ms c src = std_sem ms c src.
Proof. exact dsl_eq_std. Qed.

(** chains without any reversing method: no side condition at all *)
Theorem C10_dsl_eq_std_forward : forall ms c src,
  reverses ms c = false -> macro_sem ms c src = std_sem ms c src.
Proof. exact dsl_eq_std_forward. Qed.

(** finding F7 (known finding, shape=reverse-after-positional): outside that class the
    macros reverse the SOURCE *)
Theorem C10_rev_after_take_refuted :
  exists ms c src, accepted ms c = true /\ ~ no_rev_after_positional ms c src /\
                   macro_sem ms c src = DList (ints [4;3]%Z) /\ std_sem ms c src = DList (ints [2;1]%Z).
Proof. exact dsl_rev_after_take_refuted. Qed.
Theorem C10_rev_after_skip_refuted :
  macro_sem [ASkip 1; ARev] CForEach (ints [1;2;3;4]%Z) = DList (ints [3;2;1]%Z) /\
  std_sem [ASkip 1; ARev] CForEach (ints [1;2;3;4]%Z) = DList (ints [4;3;2]%Z).
Proof. exact dsl_rev_after_skip_refuted. Qed.

Print Assumptions C10_macro_eq_doc.
Print Assumptions C10_doc_eq_std.
Print Assumptions C10_dsl_eq_std.
Print Assumptions C10_dsl_eq_std_forward.
Print Assumptions C10_rev_after_take_refuted.
Print Assumptions C10_rev_after_skip_refuted.
