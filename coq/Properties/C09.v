(** C09 — range iteration yields exactly the values std ranges yield.  (work in progress) *)
From KV Require Import Base.Prelude Base.Deque Model.Range Spec.Range.
