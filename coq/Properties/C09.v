(** C09 — range iteration yields exactly the values std ranges yield.
    Statements only; every proof is [exact <lemma>].

    Vocabulary: [it_next dbg t k fwd] is the [next] method of the iterator type selected by
    [k] (a..b / a..=b) and [fwd] (RangeIter / RangeIterRev, RangeInclusiveIter /
    RangeInclusiveIterRev), [it_next_back] its [next_back]; [dbg] = debug assertions on;
    [run_res nx nb h st] runs the history [h] of Front/Back calls; [deque_run h l] pops the
    list [l] from the named ends ([None] once empty); [Ok] = the call returned (no panic).
    [range_spec a b = [a; a+1; ..; b-1]] (empty when [a >= b]), [range_inc_spec a b =
    [a; ..; b]]; the char specs are the same lists through the rank that closes the surrogate
    gap, and [C09_char_spec_is_scalar_filter] says what that is without ranks.

    All statements hold for EVERY width [w >= 1], both signednesses, every pair of bounds
    (empty and inverted ranges, MIN / MAX endpoints included) and every history.

    NOT YET PROVED: nothing that was planned is missing.  Outside the theorems by
    construction: the 13-way type-witness dispatch (the model takes the type as a
    parameter; the harness exercises all 13 arms), and the std side of RangeFrom at MAX,
    which for char differs from konst without debug assertions (see
    [C09_range_from_at_max]: konst wraps to '\0', std's [Step::forward] for char panics
    in every profile) — reported as a finding, not hidden. *)
From KV Require Import Base.Prelude Base.Deque Model.Range Spec.Range Proofs.RangeProofs.

(* ---------------------------------------------------------------- integers, all widths *)

Theorem C09_range_refines : forall dbg w sg a b h,
  1 <= w -> in_int w sg a = true -> in_int w sg b = true ->
  run_res (it_next dbg (Int w sg) KRange true) (it_next_back dbg (Int w sg) KRange true) h (a, b) =
  map Ok (deque_run h (range_spec a b)).
Proof. exact range_refines. Qed.

Theorem C09_range_inc_refines : forall dbg w sg a b h,
  1 <= w -> in_int w sg a = true -> in_int w sg b = true ->
  run_res (it_next dbg (Int w sg) KRangeInc true) (it_next_back dbg (Int w sg) KRangeInc true) h (a, b) =
  map Ok (deque_run h (range_inc_spec a b)).
Proof. exact range_inc_refines. Qed.

(** after [.rev()] (RangeIterRev / RangeInclusiveIterRev): the reversed list *)
Theorem C09_range_rev_refines : forall dbg w sg a b h,
  1 <= w -> in_int w sg a = true -> in_int w sg b = true ->
  run_res (it_next dbg (Int w sg) KRange false) (it_next_back dbg (Int w sg) KRange false) h (a, b) =
  map Ok (deque_run h (rev (range_spec a b))).
Proof. exact range_rev_refines. Qed.

Theorem C09_range_inc_rev_refines : forall dbg w sg a b h,
  1 <= w -> in_int w sg a = true -> in_int w sg b = true ->
  run_res (it_next dbg (Int w sg) KRangeInc false) (it_next_back dbg (Int w sg) KRangeInc false) h (a, b) =
  map Ok (deque_run h (rev (range_inc_spec a b))).
Proof. exact range_inc_rev_refines. Qed.

(** the hypotheses are satisfiable, at the extreme points too: i8, MIN..=MAX *)
Example C09_hypotheses_satisfiable :
  1 <= 8 /\ in_int 8 true (-128) = true /\ in_int 8 true 127 = true /\
  length (range_inc_spec (-128) 127) = 256%nat.
Proof. vm_compute. repeat split; discriminate. Qed.

(* ---------------------------------------------------------------- char *)

Theorem C09_char_range_refines : forall dbg a b h,
  is_scalar a = true -> is_scalar b = true ->
  run_res (it_next dbg Char KRange true) (it_next_back dbg Char KRange true) h (a, b) =
  map Ok (deque_run h (char_range_spec a b)).
Proof. exact char_range_refines. Qed.

Theorem C09_char_range_inc_refines : forall dbg a b h,
  is_scalar a = true -> is_scalar b = true ->
  run_res (it_next dbg Char KRangeInc true) (it_next_back dbg Char KRangeInc true) h (a, b) =
  map Ok (deque_run h (char_range_inc_spec a b)).
Proof. exact char_range_inc_refines. Qed.

Theorem C09_char_range_rev_refines : forall dbg a b h,
  is_scalar a = true -> is_scalar b = true ->
  run_res (it_next dbg Char KRange false) (it_next_back dbg Char KRange false) h (a, b) =
  map Ok (deque_run h (rev (char_range_spec a b))).
Proof. exact char_range_rev_refines. Qed.

Theorem C09_char_range_inc_rev_refines : forall dbg a b h,
  is_scalar a = true -> is_scalar b = true ->
  run_res (it_next dbg Char KRangeInc false) (it_next_back dbg Char KRangeInc false) h (a, b) =
  map Ok (deque_run h (rev (char_range_inc_spec a b))).
Proof. exact char_range_inc_rev_refines. Qed.

(** the hypotheses are satisfiable on both sides of the surrogate gap, and the range
    across it has exactly the two neighbours of the gap *)
Example C09_char_hypotheses_satisfiable :
  is_scalar 55295 = true /\ is_scalar 57344 = true /\ char_range_inc_spec 55295 57344 = [55295; 57344].
Proof. vm_compute. repeat split. Qed.

(** the rank-based char spec is "the scalar values among a, a+1, ..", in increasing order *)
Theorem C09_char_spec_is_scalar_filter : forall a b,
  is_scalar a = true -> is_scalar b = true ->
  char_range_spec a b = filter is_scalar (range_spec a b) /\
  char_range_inc_spec a b = filter is_scalar (range_inc_spec a b).
Proof. exact (fun a b Ha Hb => conj (char_range_spec_filter a b Ha Hb) (char_range_inc_spec_filter a b Ha Hb)). Qed.

(** which integers [range_spec] lists *)
Theorem C09_range_spec_members : forall a b x, In x (range_spec a b) <-> a <= x < b.
Proof. exact range_spec_In. Qed.

(* ---------------------------------------------------------------- every Step type at once *)

(** no [debug_assert!] fires and the char arm's [opt_unwrap!] never panics, whatever the
    type, the iterator type, the bounds and the history *)
Theorem C09_no_panic : forall dbg t k f h st, wf t -> vstate t st ->
  ~ In Panic (run_res (it_next dbg t k f) (it_next_back dbg t k f) h st) /\
  ~ In DebugPanic (run_res (it_next dbg t k f) (it_next_back dbg t k f) h st).
Proof. exact no_panic. Qed.

(** the loop of [for_each!] / [collect_const!]: all items in order, then [None];
    with [rev()] all items in reverse order *)
Theorem C09_for_each : forall dbg t k fuel st,
  wf t -> vstate t st -> (length (items t k st) < fuel)%nat ->
  collect_res (it_next dbg t k true) fuel st = (items t k st, Ok false) /\
  collect_res (it_next dbg t k false) fuel st = (rev (items t k st), Ok false).
Proof.
  exact (fun dbg t k fuel st Hw Hv Hl =>
           conj (it_collect dbg t k fuel st Hw Hv Hl) (it_collect_rev dbg t k fuel st Hw Hv Hl)).
Qed.

(** [items] is the std list: for integers literally, for char through the rank *)
Theorem C09_items_int : forall w sg k a b,
  items (Int w sg) k (a, b) =
  match k with KRange => range_spec a b | KRangeInc => range_inc_spec a b end.
Proof. exact items_int. Qed.
Theorem C09_items_char : forall k a b,
  items Char k (a, b) =
  match k with KRange => char_range_spec a b | KRangeInc => char_range_inc_spec a b end.
Proof. exact items_char. Qed.

(* ---------------------------------------------------------------- RangeFrom *)

(** every prefix of [a..] that stays below MAX, in every profile *)
Theorem C09_range_from_prefix_int : forall dbg w sg k a,
  1 <= w -> in_int w sg a = true -> a + Z.of_nat k <= max_val (Int w sg) ->
  range_from_take dbg (Int w sg) k a = (range_from_spec a k, Ok true).
Proof. exact range_from_prefix_int. Qed.

Theorem C09_range_from_prefix_char : forall dbg k a,
  is_scalar a = true -> char_idx a + Z.of_nat k <= char_idx 1114111 ->
  range_from_take dbg Char k a = (char_range_from_spec a k, Ok true).
Proof. exact range_from_prefix_char. Qed.

(** the call that yields MAX: panics with debug assertions ([debug_assert!(!overflowed)]),
    otherwise yields MAX and wraps to MIN — for the integer types this is what
    [Step::forward] does in the two profiles *)
Theorem C09_range_from_at_max : forall t, wf t ->
  range_from_next true t (max_val t) = DebugPanic /\
  range_from_next false t (max_val t) = Ok (Some (max_val t, min_val t)).
Proof. exact range_from_at_max. Qed.

(** the char instance of the second half, spelled out: without debug assertions
    [char::MAX..] yields char::MAX and continues at '\0' (std panics here in every profile;
    reported as a finding) *)
Example C09_char_range_from_wraps_without_debug_assertions :
  range_from_take false Char 3 1114110 = ([1114110; 1114111; 0], Ok true).
Proof. vm_compute. reflexivity. Qed.

(** without debug assertions the prefix may run up to and including MAX *)
Theorem C09_range_from_prefix_release : forall t, wf t -> forall k a,
  valid t a -> idx t a + Z.of_nat k <= hi t + 1 ->
  range_from_take false t k a = (map (unidx t) (zseq (idx t a) k), Ok true).
Proof. exact range_from_prefix_release. Qed.

(** with debug assertions: exactly the items below MAX, then the panic *)
Theorem C09_range_from_debug_panics_at_max : forall t, wf t -> forall k a,
  valid t a -> idx t a + Z.of_nat k = hi t ->
  forall extra,
  range_from_take true t (S k + extra) a = (map (unidx t) (zseq (idx t a) k), DebugPanic).
Proof. exact range_from_prefix_debug_panics. Qed.

Print Assumptions C09_range_refines.
Print Assumptions C09_range_inc_refines.
Print Assumptions C09_range_rev_refines.
Print Assumptions C09_range_inc_rev_refines.
Print Assumptions C09_char_range_refines.
Print Assumptions C09_char_range_inc_refines.
Print Assumptions C09_char_range_rev_refines.
Print Assumptions C09_char_range_inc_rev_refines.
Print Assumptions C09_char_spec_is_scalar_filter.
Print Assumptions C09_range_spec_members.
Print Assumptions C09_no_panic.
Print Assumptions C09_for_each.
Print Assumptions C09_items_int.
Print Assumptions C09_items_char.
Print Assumptions C09_range_from_prefix_int.
Print Assumptions C09_range_from_prefix_char.
Print Assumptions C09_range_from_at_max.
Print Assumptions C09_range_from_prefix_release.
Print Assumptions C09_range_from_debug_panics_at_max.
Print Assumptions C09_hypotheses_satisfiable.
Print Assumptions C09_char_hypotheses_satisfiable.
Print Assumptions C09_char_range_from_wraps_without_debug_assertions.
