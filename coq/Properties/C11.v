(** C11 — array-building macros return fully initialised arrays equal to std's.
    Statements only; every proof is [exact <lemma>].

    NOT YET PROVED (stated here so that the gap is visible):
    - nothing of the plan.  (Clone of ArrayBuilder / ArrayConsumer incl. a panicking T::clone
      is proved in Properties/C15.v: C15_history_* .  collect_const! of a DSL chain is proved
      end to end below against Model.Dsl — C11_collect_const_dsl_eq_std.  The miniature loop
      stages_step / chain_items with break/continue inside closures remains a harness-side
      model for the generated early-exit programs.) *)
From KV Require Import Base.Prelude Model.ArrayMacros Model.Ledger Spec.ArrayMacros
  Proofs.ArrayMacrosProofs Proofs.LedgerProofs.
From KV Require Import Model.Dsl Spec.Dsl Proofs.CollectDslProofs Proofs.ArrayLenProofs.
Local Open Scope nat_scope.

(** array::map!: for EVERY closure behaviour (per-evaluation outcomes value / break /
    continue / return / panic, possibly stateful) and EVERY fuel, a run that reaches
    [array_assume_init] has written every slot, has the input's length, and holds in slot i
    a value some evaluation of the body produced for input element i. *)
Theorem C11_map_built_produced : forall (A B : Type) fuel (clo : nat -> A -> ArrayMacros.outcome B) input slots,
  array_map_m fuel clo input = Built slots ->
  exists l, slots = map Some l /\ Forall2 (produced clo) input l.
Proof. exact @map_built_produced. Qed.
Theorem C11_map_built_full : forall (A B : Type) fuel (clo : nat -> A -> ArrayMacros.outcome B) input slots (f : A -> B),
  (forall k x v, clo k x = Value v -> v = f x) ->
  array_map_m fuel clo input = Built slots ->
  fully_init slots /\ slots = map Some (map f input).
Proof. exact @map_built_full. Qed.
Theorem C11_map_built_length : forall (A B : Type) fuel (clo : nat -> A -> ArrayMacros.outcome B) input slots,
  array_map_m fuel clo input = Built slots -> fully_init slots /\ length slots = length input.
Proof. exact @map_built_length. Qed.

(** a body that always evaluates to a value: the macro IS std's map (the k-th evaluation is
    applied to element k, so stateful closures agree too), for every length incl. 0 *)
Theorem C11_map_value_eq_std_indexed : forall (A B : Type) fuel (clo : nat -> A -> ArrayMacros.outcome B) (g : nat -> A -> B) input,
  (forall k x, clo k x = Value (g k x)) -> length input <= fuel ->
  array_map_m fuel clo input = Built (map Some (std_map g input)).
Proof. exact @map_value_eq_std_indexed. Qed.
Theorem C11_map_value_eq_std : forall (A B : Type) fuel (clo : nat -> A -> ArrayMacros.outcome B) (f : A -> B) input,
  (forall k x, clo k x = Value (f x)) -> length input <= fuel ->
  array_map_m fuel clo input = Built (map Some (map f input)).
Proof. exact @map_value_eq_std. Qed.
Example C11_map_value_eq_std_satisfiable :
  array_map_m 3 (fun _ x => Value (x + 1)%Z) [1; 2; 3]%Z = Built [Some 2; Some 3; Some 4]%Z.
Proof. reflexivity. Qed.

(** [continue] never advances the index: it loops (the model says so, for every fuel) *)
Theorem C11_continue_diverges : forall (A B : Type) fuel (clo : nat -> A -> ArrayMacros.outcome B) input,
  (forall k x, clo k x = Continue) -> input <> [] -> array_map_m fuel clo input = Diverged.
Proof. exact @continue_diverges. Qed.
(** the first evaluation that does not yield a value decides the result; it is never Built *)
Theorem C11_exit_decides : forall (A B : Type) k fuel (clo : nat -> A -> ArrayMacros.outcome B) (g : nat -> A -> B) input,
  (forall j x, j < k -> clo j x = Value (g j x)) -> k < length input -> k < fuel ->
  forall x, nth_error input k = Some x ->
  array_map_m fuel clo input =
    match clo k x with
    | Break => Panicked
    | Return => Returned
    | Panic => Panicked
    | _ => array_map_m fuel clo input
    end.
Proof. exact @exit_decides. Qed.
Theorem C11_break_panics : forall (A B : Type) k fuel (clo : nat -> A -> ArrayMacros.outcome B) (g : nat -> A -> B) input x,
  (forall j y, j < k -> clo j y = Value (g j y)) -> k < fuel ->
  nth_error input k = Some x -> clo k x = Break ->
  array_map_m fuel clo input = Panicked.
Proof. exact @break_panics. Qed.

(** array::from_fn! *)
Theorem C11_from_fn_built_full : forall (B : Type) fuel (clo : nat -> nat -> ArrayMacros.outcome B) N slots (f : nat -> B),
  (forall k i v, clo k i = Value v -> v = f i) ->
  array_from_fn_m fuel clo N = Built slots ->
  fully_init slots /\ slots = map Some (map f (seq 0 N)).
Proof. exact @from_fn_built_full. Qed.
Theorem C11_from_fn_eq_std : forall (B : Type) fuel (clo : nat -> nat -> ArrayMacros.outcome B) N (g : nat -> nat -> B),
  (forall k i, clo k i = Value (g k i)) -> N <= fuel ->
  array_from_fn_m fuel clo N = Built (map Some (std_from_fn g N)).
Proof. exact @from_fn_eq_std. Qed.

(** finding F10 (repaired by a fix: commit): array::map! / from_fn! took their loop bound from the
    METHOD call [$array.len()], which a user trait with a [len] method implemented for arrays
    hijacks.  With the array's real length (what the repaired macro reads off the array's type)
    the loop is the model the theorems above are about; with a [len] that reports 0 it returned an
    array none of whose slots was written *)
Theorem C11_array_map_len_real : forall (A B : Type) fuel (clo : nat -> A -> ArrayMacros.outcome B) input,
  array_map_len_m (length input) fuel clo input = array_map_m fuel clo input.
Proof. exact @array_map_len_real. Qed.
Theorem C11_array_map_len_hijack_refuted :
  array_map_len_m 0 5 (fun _ (x : Z) => Value (x + 1)%Z) [1; 2; 3]%Z = Built [None; None; None]
  /\ ~ fully_init (@nil (option Z) ++ [None; None; None]).
Proof. exact array_map_len_hijack_refuted. Qed.

(** collect_const!: a Built result has every slot written by the second pass's items and
    both passes counted the same; a deterministic chain gives exactly std's collect; passes
    that disagree panic (a compile error in the const item) *)
Theorem C11_collect_built_full : forall (A : Type) (items1 items2 : list A) slots,
  collect_const_m items1 items2 = CBuilt slots ->
  fully_init slots /\ slots = map Some items2 /\ length items2 = length items1.
Proof. exact @collect_built_full. Qed.
Theorem C11_collect_two_pass_agree : forall (A : Type) (items : list A),
  collect_const_m items items = CBuilt (map Some (std_collect items)).
Proof. exact @collect_two_pass_agree. Qed.
Theorem C11_collect_disagree_panics : forall (A : Type) (items1 items2 : list A),
  length items1 <> length items2 -> collect_const_m items1 items2 = CPanicked.
Proof. exact @collect_disagree_panics. Qed.

(** collect_const! of an iterator-DSL chain, END TO END (with C10): the two const evaluations
    run the same loop nest ([Model.Dsl.macro_sem] with the for_each/collect consumer), so the
    array is fully written and holds exactly what the identical std chain collects — for every
    adapter list, all closures, every source; outside the known-finding class of C10 (a
    reversing method after take/skip/zip), and with no side condition for chains that do not
    reverse *)
Theorem C11_collect_const_dsl_built : forall ms src,
  collect_const_dsl ms src = CBuilt (map Some (as_dlist (macro_sem ms CForEach src))).
Proof. exact collect_const_dsl_built. Qed.
Theorem C11_collect_const_dsl_eq_std : forall ms src,
  accepted ms CForEach = true -> no_rev_after_positional ms CForEach src ->
  collect_const_dsl ms src = CBuilt (map Some (as_dlist (std_sem ms CForEach src))).
Proof. exact collect_const_dsl_eq_std. Qed.
Theorem C11_collect_const_dsl_eq_std_forward : forall ms src,
  reverses ms CForEach = false ->
  collect_const_dsl ms src = CBuilt (map Some (as_dlist (std_sem ms CForEach src))).
Proof. exact collect_const_dsl_eq_std_forward. Qed.

(** ArrayBuilder: build succeeds iff full; returns the pushes in push order; over-fill
    panics in push (builder unchanged), under-fill panics in build (pushed elements dropped) *)
Theorem C11_builder_build_iff_full : forall b live, b_rep b live ->
  (b_build b = Some (Some live) <-> length live = b_cap b) /\
  (b_build b = Some None <-> length live <> b_cap b).
Proof. exact builder_build_iff_full. Qed.
Theorem C11_builder_order : forall xs,
  exists b, b_pushes (b_new (length xs)) xs = (b, false) /\ b_build b = Some (Some xs).
Proof. exact builder_order. Qed.
Theorem C11_builder_overfill_panics : forall xs y,
  exists b, b_pushes (b_new (length xs)) xs = (b, false) /\ b_push b y = (b, true).
Proof. exact builder_overfill_panics. Qed.
Theorem C11_builder_underfill_panics : forall xs N, length xs < N ->
  exists b, b_pushes (b_new N) xs = (b, false) /\ b_build b = Some None /\
            b_drop b = Some (map Drop xs).
Proof. exact builder_underfill_panics. Qed.
(** the builder invariant is established by [new] and kept by [push] *)
Theorem C11_builder_invariant : forall xs b live, b_rep b live -> length live + length xs <= b_cap b ->
  exists b', b_pushes b xs = (b', false) /\ b_rep b' (live ++ xs) /\ b_cap b' = b_cap b.
Proof. exact b_pushes_rep. Qed.

(** array::map_! / from_fn_!: never read a moved-out or unwritten slot, never diverge; when
    they evaluate to an array it is full and element i is what the i-th evaluation of the
    body produced from input element i *)
Theorem C11_map_by_val_built : forall clo ids,
  match map_by_val clo ids with
  | (r, ev, leak) =>
      r <> MUB /\ r <> MDiverged /\ (r = MReturned -> leak = []) /\
      (forall l, r = MBuilt l ->
         vals_from clo 0 ids l /\ length l = length ids /\ leak = [] /\
         ev = map Hand ids ++ map Hand l)
  end.
Proof. exact map_by_val_built. Qed.
Theorem C11_from_fn_by_val_built : forall clo N,
  match from_fn_by_val clo N with
  | (r, ev, _) =>
      r <> MUB /\ r <> MDiverged /\
      (forall l, r = MBuilt l ->
         length l = N /\ ev = map Hand l /\
         vals_from (fun k _ => clo k (Z.of_nat k)) 0 (repeat 0%Z N) l)
  end.
Proof. exact from_fn_by_val_built. Qed.

(** ... and with a body that always evaluates to a value they complete and ARE std's map /
    from_fn; every input goes to the closure once, in order, every output to the caller *)
Theorem C11_map_by_val_eq_std : forall clo (g : nat -> Z -> Z) ids,
  (forall j x, clo j x = OValue (g j x)) ->
  map_by_val clo ids =
    (MBuilt (std_map g ids), map Hand ids ++ map Hand (std_map g ids), []).
Proof. exact map_by_val_eq_std. Qed.
Theorem C11_from_fn_by_val_eq_std : forall clo (g : nat -> Z -> Z) N,
  (forall j x, clo j x = OValue (g j x)) ->
  from_fn_by_val clo N =
    (MBuilt (map (fun j => g j (Z.of_nat j)) (seq 0 N)),
     map Hand (map (fun j => g j (Z.of_nat j)) (seq 0 N)), []).
Proof. exact from_fn_by_val_eq_std. Qed.

Print Assumptions C11_map_built_produced.
Print Assumptions C11_map_built_full.
Print Assumptions C11_map_built_length.
Print Assumptions C11_map_value_eq_std_indexed.
Print Assumptions C11_map_value_eq_std.
Print Assumptions C11_continue_diverges.
Print Assumptions C11_exit_decides.
Print Assumptions C11_break_panics.
Print Assumptions C11_from_fn_built_full.
Print Assumptions C11_from_fn_eq_std.
Print Assumptions C11_collect_built_full.
Print Assumptions C11_collect_two_pass_agree.
Print Assumptions C11_collect_disagree_panics.
Print Assumptions C11_builder_build_iff_full.
Print Assumptions C11_builder_order.
Print Assumptions C11_builder_overfill_panics.
Print Assumptions C11_builder_underfill_panics.
Print Assumptions C11_builder_invariant.
Print Assumptions C11_map_by_val_built.
Print Assumptions C11_from_fn_by_val_built.
Print Assumptions C11_map_by_val_eq_std.
Print Assumptions C11_from_fn_by_val_eq_std.
Print Assumptions C11_map_value_eq_std_satisfiable.
Print Assumptions C11_collect_const_dsl_built.
Print Assumptions C11_collect_const_dsl_eq_std.
Print Assumptions C11_collect_const_dsl_eq_std_forward.
Print Assumptions C11_array_map_len_real.
Print Assumptions C11_array_map_len_hijack_refuted.
