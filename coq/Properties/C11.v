(** C11 — array-building macros return fully initialised arrays equal to std's.
    Statements only; every proof is [exact <lemma>].  (Builder / map_! / from_fn_!
    statements are appended below once their lemmas are in Proofs/LedgerProofs.v.) *)
From KV Require Import Base.Prelude Model.ArrayMacros Spec.ArrayMacros Proofs.ArrayMacrosProofs.
Local Open Scope nat_scope.

(** array::map!: for EVERY closure behaviour (per-evaluation outcomes value / break /
    continue / return / panic, possibly stateful) and EVERY fuel, a result that reaches
    [array_assume_init] has every slot written, has the input's length, and holds in slot i
    a value the closure produced for input element i. *)
Theorem C11_map_built_produced : forall (A B : Type) fuel (clo : nat -> A -> outcome B) input slots,
  array_map_m fuel clo input = Built slots ->
  exists l, slots = map Some l /\ Forall2 (produced clo) input l.
Proof. exact @map_built_produced. Qed.
Theorem C11_map_built_full : forall (A B : Type) fuel (clo : nat -> A -> outcome B) input slots (f : A -> B),
  (forall k x v, clo k x = Value v -> v = f x) ->
  array_map_m fuel clo input = Built slots ->
  fully_init slots /\ slots = map Some (map f input).
Proof. exact @map_built_full. Qed.
Theorem C11_map_built_length : forall (A B : Type) fuel (clo : nat -> A -> outcome B) input slots,
  array_map_m fuel clo input = Built slots -> fully_init slots /\ length slots = length input.
Proof. exact @map_built_length. Qed.
