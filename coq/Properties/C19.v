(** C19 — placeholder while the harness is brought up. *)
From KV Require Import Base.Prelude Model.OptRes Spec.OptRes Proofs.OptResProofs.
Theorem C19_opt_copied : forall (A : Type) (o : option A), opt_copied o = std_opt_copied o.
Proof. exact (@opt_copied_eq_std). Qed.
Print Assumptions C19_opt_copied.
