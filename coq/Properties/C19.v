(** C19 — Option/Result, rebind and min/max macros equal their std / [?] counterparts.
    Statements only; every proof is [exact <lemma>].

    Reading guide.  [M A = A * list W] is a writer monad: a computation yields a value and the
    log of events it performed; macro arguments ([$e], [$v], closure bodies, calls of a
    function argument) are arbitrary computations, so each [_eq_std] theorem says that the
    macro arm and the std method call produce the same value AND perform the same events in
    the same order, for every payload type and every closure — in particular a lazy
    fallback runs exactly when std would call it and an eager argument is always evaluated.
    [_closure] / [_fn] are the two macro arms (inline [|p| body] vs function argument).
    [call1 e body] / [call2 e v body] is the method call [e.m(..)] / [e.m(v)].

    NOT YET PROVED: nothing planned in DESIGN section 4 (C19) is missing.  Outside the plan and
    not modelled: [let mut x] targets and multi-token [let] patterns (a pattern / a type is
    one token in the model); the comparison used by min!/max! is a parameter here — that
    const_cmp! agrees with [Ord::cmp] is property C16. *)
From KV Require Import Base.Prelude.
From KV Require Import Model.OptRes Spec.OptRes Proofs.OptResProofs.
From KV Require Import Model.MinMax Spec.MinMax Proofs.MinMaxProofs.
From KV Require Import Model.Rebind Spec.Rebind Proofs.RebindProofs.

(* === Option / Result macros = the std method of the same name (value and event log) *)
Theorem C19_opt_unwrap :
  forall (W A : Type) (e : @M W (option A)), opt_unwrap e = call1 e std_opt_unwrap.
Proof. exact (@opt_unwrap_eq_std). Qed.
Theorem C19_opt_unwrap_or :
  forall (W A : Type) (e : @M W (option A)) (v : @M W A), opt_unwrap_or e v = call2 e v std_opt_unwrap_or.
Proof. exact (@opt_unwrap_or_eq_std). Qed.
Theorem C19_opt_unwrap_or_else_closure :
  forall (W A : Type) (e : @M W (option A)) (v : @M W A), opt_unwrap_or_else_c e v = call1 e (std_opt_unwrap_or_else (fun _ => v)).
Proof. exact (@opt_unwrap_or_else_c_eq_std). Qed.
Theorem C19_opt_unwrap_or_else_fn :
  forall (W A : Type) (e : @M W (option A)) (f : unit -> @M W A), opt_unwrap_or_else_f e f = call1 e (std_opt_unwrap_or_else f).
Proof. exact (@opt_unwrap_or_else_f_eq_std). Qed.
Theorem C19_opt_ok_or :
  forall (W A E : Type) (e : @M W (option A)) (v : @M W E), opt_ok_or e v = call2 e v std_opt_ok_or.
Proof. exact (@opt_ok_or_eq_std). Qed.
Theorem C19_opt_ok_or_else_closure :
  forall (W A E : Type) (e : @M W (option A)) (v : @M W E), opt_ok_or_else_c e v = call1 e (std_opt_ok_or_else (fun _ => v)).
Proof. exact (@opt_ok_or_else_c_eq_std). Qed.
Theorem C19_opt_ok_or_else_fn :
  forall (W A E : Type) (e : @M W (option A)) (f : unit -> @M W E), opt_ok_or_else_f e f = call1 e (std_opt_ok_or_else f).
Proof. exact (@opt_ok_or_else_f_eq_std). Qed.
Theorem C19_opt_map_closure :
  forall (W A B : Type) (e : @M W (option A)) (f : A -> @M W B), opt_map_c e f = call1 e (std_opt_map f).
Proof. exact (@opt_map_c_eq_std). Qed.
Theorem C19_opt_and_then_closure :
  forall (W A B : Type) (e : @M W (option A)) (f : A -> @M W (option B)), opt_and_then_c e f = call1 e (std_opt_and_then f).
Proof. exact (@opt_and_then_c_eq_std). Qed.
Theorem C19_opt_map_fn :
  forall (W A B : Type) (e : @M W (option A)) (f : A -> @M W B), opt_map_f e f = call1 e (std_opt_map f).
Proof. exact (@opt_map_f_eq_std). Qed.
Theorem C19_opt_and_then_fn :
  forall (W A B : Type) (e : @M W (option A)) (f : A -> @M W (option B)), opt_and_then_f e f = call1 e (std_opt_and_then f).
Proof. exact (@opt_and_then_f_eq_std). Qed.
Theorem C19_opt_or_else_closure :
  forall (W A : Type) (e : @M W (option A)) (v : @M W (option A)), opt_or_else_c e v = call1 e (std_opt_or_else (fun _ => v)).
Proof. exact (@opt_or_else_c_eq_std). Qed.
Theorem C19_opt_or_else_fn :
  forall (W A : Type) (e : @M W (option A)) (f : unit -> @M W (option A)), opt_or_else_f e f = call1 e (std_opt_or_else f).
Proof. exact (@opt_or_else_f_eq_std). Qed.
Theorem C19_opt_flatten :
  forall (W A : Type) (e : @M W (option (option A))), opt_flatten e = call1 e std_opt_flatten.
Proof. exact (@opt_flatten_eq_std). Qed.
Theorem C19_opt_filter_closure :
  forall (W A : Type) (e : @M W (option A)) (p : A -> @M W bool), opt_filter_c e p = call1 e (std_opt_filter p).
Proof. exact (@opt_filter_c_eq_std). Qed.
Theorem C19_opt_filter_fn :
  forall (W A : Type) (e : @M W (option A)) (p : A -> @M W bool), opt_filter_f e p = call1 e (std_opt_filter p).
Proof. exact (@opt_filter_f_eq_std). Qed.
Theorem C19_opt_copied :
  forall (A : Type) (o : option A), opt_copied o = std_opt_copied o.
Proof. exact (@opt_copied_eq_std). Qed.
Theorem C19_res_unwrap_ctx :
  forall (W A E : Type) (e : @M W (result A E)), res_unwrap_ctx e = call1 e std_res_unwrap.
Proof. exact (@res_unwrap_ctx_eq_std). Qed.
Theorem C19_res_unwrap_or :
  forall (W A E : Type) (e : @M W (result A E)) (v : @M W A), res_unwrap_or e v = call2 e v std_res_unwrap_or.
Proof. exact (@res_unwrap_or_eq_std). Qed.
Theorem C19_res_unwrap_or_else_closure :
  forall (W A E : Type) (e : @M W (result A E)) (f : E -> @M W A), res_unwrap_or_else_c e f = call1 e (std_res_unwrap_or_else f).
Proof. exact (@res_unwrap_or_else_c_eq_std). Qed.
Theorem C19_res_unwrap_err_or_else_closure :
  forall (W A E : Type) (e : @M W (result A E)) (f : A -> @M W E), res_unwrap_err_or_else_c e f = call1 e (std_res_unwrap_err_or_else f).
Proof. exact (@res_unwrap_err_or_else_c_eq_std). Qed.
Theorem C19_res_unwrap_or_else_fn :
  forall (W A E : Type) (e : @M W (result A E)) (f : E -> @M W A), res_unwrap_or_else_f e f = call1 e (std_res_unwrap_or_else f).
Proof. exact (@res_unwrap_or_else_f_eq_std). Qed.
Theorem C19_res_unwrap_err_or_else_fn :
  forall (W A E : Type) (e : @M W (result A E)) (f : A -> @M W E), res_unwrap_err_or_else_f e f = call1 e (std_res_unwrap_err_or_else f).
Proof. exact (@res_unwrap_err_or_else_f_eq_std). Qed.
Theorem C19_res_ok :
  forall (W A E : Type) (e : @M W (result A E)), res_ok e = call1 e std_res_ok.
Proof. exact (@res_ok_eq_std). Qed.
Theorem C19_res_err :
  forall (W A E : Type) (e : @M W (result A E)), res_err e = call1 e std_res_err.
Proof. exact (@res_err_eq_std). Qed.
Theorem C19_res_map_closure :
  forall (W A B E : Type) (e : @M W (result A E)) (f : A -> @M W B), res_map_c e f = call1 e (std_res_map f).
Proof. exact (@res_map_c_eq_std). Qed.
Theorem C19_res_map_err_closure :
  forall (W A E F : Type) (e : @M W (result A E)) (f : E -> @M W F), res_map_err_c e f = call1 e (std_res_map_err f).
Proof. exact (@res_map_err_c_eq_std). Qed.
Theorem C19_res_and_then_closure :
  forall (W A B E : Type) (e : @M W (result A E)) (f : A -> @M W (result B E)), res_and_then_c e f = call1 e (std_res_and_then f).
Proof. exact (@res_and_then_c_eq_std). Qed.
Theorem C19_res_or_else_closure :
  forall (W A E F : Type) (e : @M W (result A E)) (f : E -> @M W (result A F)), res_or_else_c e f = call1 e (std_res_or_else f).
Proof. exact (@res_or_else_c_eq_std). Qed.
Theorem C19_res_map_fn :
  forall (W A B E : Type) (e : @M W (result A E)) (f : A -> @M W B), res_map_f e f = call1 e (std_res_map f).
Proof. exact (@res_map_f_eq_std). Qed.
Theorem C19_res_map_err_fn :
  forall (W A E F : Type) (e : @M W (result A E)) (f : E -> @M W F), res_map_err_f e f = call1 e (std_res_map_err f).
Proof. exact (@res_map_err_f_eq_std). Qed.
Theorem C19_res_and_then_fn :
  forall (W A B E : Type) (e : @M W (result A E)) (f : A -> @M W (result B E)), res_and_then_f e f = call1 e (std_res_and_then f).
Proof. exact (@res_and_then_f_eq_std). Qed.
Theorem C19_res_or_else_fn :
  forall (W A E F : Type) (e : @M W (result A E)) (f : E -> @M W (result A F)), res_or_else_f e f = call1 e (std_res_or_else f).
Proof. exact (@res_or_else_f_eq_std). Qed.
Theorem C19_opt_fallback_lazy :
  forall (W A : Type) (o : option A) (w : list W) (f : unit -> @M W A),
  snd (opt_unwrap_or_else_f (o, w) f) = w ++ match o with Some _ => [] | None => snd (f tt) end.
Proof. exact (@opt_fallback_lazy). Qed.
Theorem C19_opt_fallback_eager :
  forall (W A : Type) (o : option A) (w : list W) (d : A) (wv : list W),
  snd (opt_unwrap_or (o, w) (d, wv)) = w ++ wv.
Proof. exact (@opt_fallback_eager). Qed.
Theorem C19_opt_map_calls :
  forall (W A B : Type) (o : option A) (w : list W) (f : A -> @M W B),
  snd (opt_map_c (o, w) f) = w ++ match o with Some x => snd (f x) | None => [] end.
Proof. exact (@opt_map_calls). Qed.
Theorem C19_opt_filter_calls :
  forall (W A : Type) (o : option A) (w : list W) (p : A -> @M W bool),
  snd (opt_filter_c (o, w) p) = w ++ match o with Some x => snd (p x) | None => [] end /\
  fst (opt_filter_c (o, w) p) = match o with Some x => if fst (p x) then Some x else None | None => None end.
Proof. exact (@opt_filter_calls). Qed.
Theorem C19_res_fallback_lazy :
  forall (W A E : Type) (r : result A E) (w : list W) (f : E -> @M W A),
  snd (res_unwrap_or_else_f (r, w) f) = w ++ match r with Ok _ => [] | Err x => snd (f x) end.
Proof. exact (@res_fallback_lazy). Qed.
Theorem C19_res_fallback_eager :
  forall (W A E : Type) (r : result A E) (w : list W) (d : A) (wv : list W),
  snd (res_unwrap_or (r, w) (d, wv)) = w ++ wv.
Proof. exact (@res_fallback_eager). Qed.
Theorem C19_try_eq_question_mark :
  forall (W A B E : Type) (e : @M W (result A E)) (k : A -> @M W (result B E)),
  try_m e k = question_res (fun x => x) e k.
Proof. exact (@try_eq_question_mark). Qed.
Theorem C19_try_map_err_eq_question_mark :
  forall (W A B E F : Type) (e : @M W (result A E)) (f : E -> @M W F) (k : A -> @M W (result B F)),
  try_map_err_m e f k = question_res (fun x => x) (call1 e (std_res_map_err f)) k.
Proof. exact (@try_map_err_eq_question_mark). Qed.
Theorem C19_try_map_err0_eq_question_mark :
  forall (W A B E F : Type) (e : @M W (result A E)) (v : @M W F) (k : A -> @M W (result B F)),
  try_map_err0_m e v k = question_res (fun x => x) (call1 e (std_res_map_err (fun _ => v))) k.
Proof. exact (@try_map_err0_eq_question_mark). Qed.
Theorem C19_try_opt_eq_question_mark :
  forall (W A B : Type) (e : @M W (option A)) (k : A -> @M W (option B)),
  try_opt_m e k = question_opt e k.
Proof. exact (@try_opt_eq_question_mark). Qed.
Theorem C19_try_continues_iff :
  forall (W A B E : Type) (r : result A E) (w : list W) (k : A -> @M W (result B E)),
  try_m (r, w) k = match r with Ok x => let (b, w') := k x in (b, w ++ w') | Err x => (Err x, w) end.
Proof. exact (@try_continues_iff). Qed.

(* === rebind_if_ok! / try_rebind!: one assignment per component, in order, arity 1..6 *)
Theorem C19_rebind_assigns_all :
  forall ts : list target, Forall wf_target ts -> (1 <= length ts <= 6)%nat ->
  walk (render ts) = Some (steps 0 ts) /\ walk (render ts ++ [KComma]) = Some (steps 0 ts).
Proof. exact (@rebind_assigns_all). Qed.
Theorem C19_rebind_components_in_order :
  forall (ts : list target) (k : nat) (before vals : list Z) (st : store),
  length before = k -> length vals = length ts -> (k <> 0%nat \/ (2 <= length ts)%nat) ->
  exec (steps k ts) (VTup (before ++ vals)) st = Some (assign_each ts vals st).
Proof. exact (@exec_steps). Qed.
Theorem C19_rebind_single_gets_whole :
  forall (t : target) (payload : rval) (st : store),
  exec (steps 0 [t]) payload st = Some (write (lhs_of t) payload st).
Proof. exact (@exec_steps_single). Qed.
Theorem C19_rebind_if_ok_eq_if_let :
  forall (E : Type) (ts : list target) (e : result rval E) (st : store),
  Forall wf_target ts -> (1 <= length ts <= 6)%nat ->
  (forall payload, e = Ok payload -> fits ts payload) ->
  rebind_if_ok_m (RP (KParen (render ts)) None) e st = spec_if_let ts e st /\
  rebind_if_ok_m (RP (KParen (render ts ++ [KComma])) None) e st = spec_if_let ts e st.
Proof. exact (@rebind_if_ok_eq_if_let). Qed.
Theorem C19_try_rebind_eq_question_mark :
  forall (E : Type) (ts : list target) (e : result rval E) (st : store),
  Forall wf_target ts -> (1 <= length ts <= 6)%nat ->
  (forall payload, e = Ok payload -> fits ts payload) ->
  try_rebind_m (KParen (render ts)) e st = spec_question ts e st /\
  try_rebind_m (KParen (render ts ++ [KComma])) e st = spec_question ts e st.
Proof. exact (@try_rebind_eq_question_mark). Qed.
Theorem C19_rebind_bare_forms :
  forall (E : Type) (e : result rval E) (st : store),
  (forall n, rebind_if_ok_m (RP (KIdent n) None) e st = spec_if_let [TgPlace [KIdent n]] e st) /\
  (forall n ty, rebind_if_ok_m (RP (KIdent n) (Some (KTy ty))) e st = spec_if_let [TgPlaceTy n ty] e st) /\
  rebind_if_ok_m (RP KUnd None) e st = spec_if_let [TgWild] e st /\
  (forall ty, rebind_if_ok_m (RP KUnd (Some (KTy ty))) e st = spec_if_let [TgWildTy ty] e st) /\
  (forall n, try_rebind_m (KIdent n) e st = spec_question [TgPlace [KIdent n]] e st) /\
  try_rebind_m KUnd e st = spec_question [TgWild] e st.
Proof. exact (@rebind_bare_eq_if_let). Qed.
Theorem C19_rebind_last_write_wins :
  forall (ts1 ts2 : list target) (t : target) (pl : list tok) (vs1 vs2 : list Z) (v : Z) (st : store),
  length vs1 = length ts1 ->
  lhs_place (lhs_of t) = Some pl ->
  Forall (fun t' => forall pl', lhs_place (lhs_of t') = Some pl' -> toks_eqb pl' pl = false) ts2 ->
  length vs2 = length ts2 ->
  toks_eqb pl pl = true ->
  lookup pl (assign_each (ts1 ++ t :: ts2) (vs1 ++ v :: vs2) st) = Some (VInt v).
Proof. exact (@assign_each_lookup_last). Qed.
Theorem C19_rebind_seven_rejected :
  walk (render [TgWild; TgWild; TgWild; TgWild; TgWild; TgWild; TgWild]) = None.
Proof. exact (@rebind_seven_rejected). Qed.
Theorem C19_rebind_arity3_refuted :
  let ts := [TgPlace [KIdent 0]; TgPlace [KIdent 1]; TgPlace [KIdent 2]] in
  walk_old (render ts) =
    Some [SAssign [KIdent 0] (Field (KNum 0)); SAssign [KIdent 1] (Field (KNum 1));
          SAssign [KIdent 2] (Field KColon)] /\
  walk_old (render ts) <> Some (steps 0 ts) /\
  @rebind_if_ok_with unit tr_old (RP (KParen (render ts)) None) (Ok (VTup [1; 2; 3]%Z)) [] = Rejected /\
  @rebind_if_ok_with unit tr_fixed (RP (KParen (render ts)) None) (Ok (VTup [1; 2; 3]%Z)) [] =
    Rebound [([KIdent 2], VInt 3%Z); ([KIdent 1], VInt 2%Z); ([KIdent 0], VInt 1%Z)] /\
  walk_old (render [TgPlace [KIdent 0]; TgPlace [KIdent 1]]) =
    Some (steps 0 [TgPlace [KIdent 0]; TgPlace [KIdent 1]]).
Proof. exact (@rebind_arity3_refuted). Qed.

(** the hypotheses of the rebind theorems are satisfiable: six targets of six different kinds
    and a six-component payload *)
Example C19_rebind_hypotheses_satisfiable :
  let ts := [TgPlace [KIdent 0]; TgLet (KIdent 1); TgLetTy (KIdent 2) 0; TgWild;
             TgPlace [KIdent 9; KDot; KIdent 4]; TgPlaceTy 5 0] in
  Forall wf_target ts /\ (1 <= length ts <= 6)%nat /\ fits ts (VTup [1; 2; 3; 4; 5; 6]%Z).
Proof.
  cbv zeta. split; [repeat constructor | split; [cbn; lia | exists [1; 2; 3; 4; 5; 6]%Z; split; reflexivity]].
Qed.

(* === min! / max! and their _by / _by_key forms return the argument std::cmp returns *)
Theorem C19_min_eq_std :
  forall (A : Type) (cmp : A -> A -> comparison) (l r : A), min_m cmp l r = std_min cmp l r.
Proof. exact (@min_eq_std). Qed.
Theorem C19_max_eq_std :
  forall (A : Type) (cmp : A -> A -> comparison) (l r : A), max_m cmp l r = std_max cmp l r.
Proof. exact (@max_eq_std). Qed.
Theorem C19_min_by_eq_std :
  forall (A : Type) (f : A -> A -> comparison) (l r : A), min_by_m f l r = std_min_by f l r.
Proof. exact (@min_by_eq_std). Qed.
Theorem C19_max_by_eq_std :
  forall (A : Type) (f : A -> A -> comparison) (l r : A), max_by_m f l r = std_max_by f l r.
Proof. exact (@max_by_eq_std). Qed.
Theorem C19_min_by_key_eq_std :
  forall (A K : Type) (cmpk : K -> K -> comparison) (key : A -> K) (l r : A),
  min_by_key_m cmpk key l r = std_min_by_key cmpk key l r.
Proof. exact (@min_by_key_eq_std). Qed.
Theorem C19_max_by_key_eq_std :
  forall (A K : Type) (cmpk : K -> K -> comparison) (key : A -> K) (l r : A),
  antisym cmpk -> max_by_key_m cmpk key l r = std_max_by_key cmpk key l r.
Proof. exact (@max_by_key_eq_std). Qed.
Theorem C19_max_by_key_needs_antisym :
  exists (cmpk : bool -> bool -> comparison) (key : bool -> bool) l r,
  max_by_key_m cmpk key l r <> std_max_by_key cmpk key l r.
Proof. exact (@max_by_key_needs_antisym). Qed.
Theorem C19_min_family_tie_first :
  forall (A K : Type) (cmp : A -> A -> comparison) (cmpk : K -> K -> comparison) (key : A -> K) (l r : A),
  (cmp l r = Eq -> min_m cmp l r = L /\ min_by_m cmp l r = L) /\
  (cmpk (key l) (key r) = Eq -> min_by_key_m cmpk key l r = L).
Proof. exact (@min_family_tie_first). Qed.
Theorem C19_max_family_tie_second :
  forall (A K : Type) (cmp : A -> A -> comparison) (cmpk : K -> K -> comparison) (key : A -> K) (l r : A),
  antisym cmpk ->
  (cmp l r = Eq -> max_m cmp l r = R /\ max_by_m cmp l r = R) /\
  (cmpk (key l) (key r) = Eq -> max_by_key_m cmpk key l r = R).
Proof. exact (@max_family_tie_second). Qed.
Theorem C19_std_min_by_shapes_agree :
  forall (A : Type) (c : A -> A -> comparison) (v1 v2 : A), antisym c -> std_min_by_lt c v1 v2 = std_min_by c v1 v2.
Proof. exact (@std_min_by_lt_eq). Qed.
Theorem C19_std_max_by_shapes_agree :
  forall (A : Type) (c : A -> A -> comparison) (v1 v2 : A), antisym c -> std_max_by_lt c v1 v2 = std_max_by c v1 v2.
Proof. exact (@std_max_by_lt_eq). Qed.
Theorem C19_min_returns_least :
  forall (A : Type) (c : A -> A -> comparison) (l r : A), antisym c ->
  c (pick (min_m c l r) l r) l <> Gt /\ c (pick (min_m c l r) l r) r <> Gt.
Proof. exact (@min_returns_least). Qed.
Theorem C19_antisym_satisfiable :
  antisym Z.compare.
Proof. exact (@Z_compare_antisym). Qed.

Print Assumptions C19_opt_unwrap.
Print Assumptions C19_opt_unwrap_or.
Print Assumptions C19_opt_unwrap_or_else_closure.
Print Assumptions C19_opt_unwrap_or_else_fn.
Print Assumptions C19_opt_ok_or.
Print Assumptions C19_opt_ok_or_else_closure.
Print Assumptions C19_opt_ok_or_else_fn.
Print Assumptions C19_opt_map_closure.
Print Assumptions C19_opt_and_then_closure.
Print Assumptions C19_opt_map_fn.
Print Assumptions C19_opt_and_then_fn.
Print Assumptions C19_opt_or_else_closure.
Print Assumptions C19_opt_or_else_fn.
Print Assumptions C19_opt_flatten.
Print Assumptions C19_opt_filter_closure.
Print Assumptions C19_opt_filter_fn.
Print Assumptions C19_opt_copied.
Print Assumptions C19_res_unwrap_ctx.
Print Assumptions C19_res_unwrap_or.
Print Assumptions C19_res_unwrap_or_else_closure.
Print Assumptions C19_res_unwrap_err_or_else_closure.
Print Assumptions C19_res_unwrap_or_else_fn.
Print Assumptions C19_res_unwrap_err_or_else_fn.
Print Assumptions C19_res_ok.
Print Assumptions C19_res_err.
Print Assumptions C19_res_map_closure.
Print Assumptions C19_res_map_err_closure.
Print Assumptions C19_res_and_then_closure.
Print Assumptions C19_res_or_else_closure.
Print Assumptions C19_res_map_fn.
Print Assumptions C19_res_map_err_fn.
Print Assumptions C19_res_and_then_fn.
Print Assumptions C19_res_or_else_fn.
Print Assumptions C19_opt_fallback_lazy.
Print Assumptions C19_opt_fallback_eager.
Print Assumptions C19_opt_map_calls.
Print Assumptions C19_opt_filter_calls.
Print Assumptions C19_res_fallback_lazy.
Print Assumptions C19_res_fallback_eager.
Print Assumptions C19_try_eq_question_mark.
Print Assumptions C19_try_map_err_eq_question_mark.
Print Assumptions C19_try_map_err0_eq_question_mark.
Print Assumptions C19_try_opt_eq_question_mark.
Print Assumptions C19_try_continues_iff.
Print Assumptions C19_rebind_assigns_all.
Print Assumptions C19_rebind_components_in_order.
Print Assumptions C19_rebind_single_gets_whole.
Print Assumptions C19_rebind_if_ok_eq_if_let.
Print Assumptions C19_try_rebind_eq_question_mark.
Print Assumptions C19_rebind_bare_forms.
Print Assumptions C19_rebind_last_write_wins.
Print Assumptions C19_rebind_seven_rejected.
Print Assumptions C19_rebind_arity3_refuted.
Print Assumptions C19_min_eq_std.
Print Assumptions C19_max_eq_std.
Print Assumptions C19_min_by_eq_std.
Print Assumptions C19_max_by_eq_std.
Print Assumptions C19_min_by_key_eq_std.
Print Assumptions C19_max_by_key_eq_std.
Print Assumptions C19_max_by_key_needs_antisym.
Print Assumptions C19_min_family_tie_first.
Print Assumptions C19_max_family_tie_second.
Print Assumptions C19_std_min_by_shapes_agree.
Print Assumptions C19_std_max_by_shapes_agree.
Print Assumptions C19_min_returns_least.
Print Assumptions C19_antisym_satisfiable.
Print Assumptions C19_rebind_hypotheses_satisfiable.
