(** C18 — parser_method! behaves like the equivalent chain of Parser method calls;
    the bytes matched for a literal are the bytes rustc gives that literal.
    Statements only; every proof is [exact <lemma>].

    Reading guide.  (1) literal bytes: decoder = Reference semantics, all well-formed
    tokens.  (2) the macro forms on the remainder BYTES: which arm runs and which
    remainder it binds, for all inputs, no hypotheses.  (3) the Parser after the form:
    for UTF-8 shaped remainders and literals Parser::skip / skip_back never round
    (matched_bytes_on_boundaries), so the parser is cut exactly at the remainder of (2),
    and the strip forms are literally the chain of Parser::strip_prefix / strip_suffix
    calls.  For rfind_skip "latest position" is the dual of find_skip under reversal:
    the occurrence that ENDS latest (ties: first listed), see C18_rfind_dual.

    NOT YET PROVED (true of the model as far as the correspondence run shows, omitted
    for time):
    - find_skip / rfind_skip / trim_* restated as chains of Parser::find_skip /
      rfind_skip / trim_*_matches calls (the pieces are here: C18_find_* and
      C18_rfind_* give the selected remainder in terms of occurrences, C18_no_rounding_*
      give the parser; what is missing is only the definition of those Parser methods
      in list vocabulary, which is C13/C14's, and the gluing);
    - a single theorem over the token TREE (string | raw | concat!) — the three cases
      are separate theorems (C18_literal_bytes_eq_rustc, C18_raw_literal_eq,
      C18_concat_eq);
    - stringify!(..) patterns are not modelled (outside the property's statement);
    - the u32 wrap of start_offset is not modelled (C13's). *)
From KV Require Import Base.Prelude Model.Utf8 Model.Literal Model.ParserMethod
  Spec.Search Spec.Literal Spec.ParserMethod Spec.ParserChain
  Proofs.LiteralProofs Proofs.ParserMethodProofs Proofs.ParserChainProofs.
(* ---------------------------------------------------------------- literal bytes *)

(** literal_bytes_eq_rustc: for every string-literal token that is well formed by the
    Reference's grammar ([rustc_string src v]: [src] = the token's characters, [v] = the
    characters it denotes), the proc macro's decoder applied to the token text yields the
    UTF-8 bytes of exactly those characters.  No bound on the literal. *)
Theorem C18_literal_bytes_eq_rustc : forall src v,
  rustc_string src v -> parse_literal (utf8 src) = Some (utf8 v).
Proof. exact parse_literal_string. Qed.
(** the hypothesis is satisfiable, by a token using every production *)
Theorem C18_literal_example :
  rustc_string [34; 97; 92;110; 92;120;52;49; 92;117;123;101;95;57;125; 92;10;32;32; 98; 34]
               [97; 10; 65; 233; 98].
Proof. exact rustc_string_example. Qed.

(** raw_literal_eq: r #^n dquote body dquote #^n denotes its body verbatim, any n, any body *)
Theorem C18_raw_literal_eq : forall n body,
  parse_literal (utf8 (raw_token n body)) = Some (utf8 body).
Proof. exact parse_literal_raw. Qed.

(** concat_eq: concat!(items) (nested or not) denotes the concatenation of its items *)
Theorem C18_concat_eq : forall args vs,
  Forall2 (fun a v => decode_src a = Some v) args vs ->
  decode_src (SConcat args) = Some (concat vs).
Proof. exact decode_concat. Qed.

(** the encoder used for \u{..} values is UTF-8 as tabulated by the Unicode standard *)
Theorem C18_encode_is_utf8 : forall c, 0 <= c <= 1114111 -> encode_m c = utf8_char c.
Proof. exact encode_m_utf8. Qed.

(** finding F6, the two behaviours before the repair (regression witnesses) *)
Theorem C18_old_continuation_refuted :
  let src := [34; 97; 92; 10; 32; 12288; 98; 34] in
  rustc_string src [97; 12288; 98] /\
  parse_string_old (utf8 src) = Some [97; 98] /\
  parse_string (utf8 src) = Some (utf8 [97; 12288; 98]).
Proof. exact old_continuation_refuted. Qed.
Theorem C18_old_underscore_refuted :
  let src := [34; 92;117;123;49;95;70;54;48;48;125; 34] in
  rustc_string src [128512] /\
  parse_string_old (utf8 src) = None /\
  parse_string (utf8 src) = Some (utf8 [128512]).
Proof. exact old_underscore_refuted. Qed.

(* ---------------------------------------------------------------- the macro forms *)
Local Open Scope nat_scope.

(** the generated slice patterns [b0,..,bn, rem @ ..] / [rem @ .., b0,..,bn] match exactly
    the byte strings that start / end with the literal; [rem] is the rest *)
Theorem C18_pattern : forall s lit bytes r,
  pat s lit bytes = Some r <-> splits (end_of s) lit bytes r.
Proof. exact pat_spec. Qed.

(** strip_prefix / strip_suffix: the arm that runs is the FIRST LISTED alternative that
    is a prefix (suffix), [rem] is what is left after it ... *)
Theorem C18_strip_first_listed : forall s arms bytes i r,
  match_arms s arms bytes = Some (i, r) <->
  exists j a, first_listed (fun a => matches (end_of s) a bytes) arms j i a /\
              splits (end_of s) a bytes r.
Proof. exact match_arms_some. Qed.
(** ... and the default arm runs exactly when no alternative is a prefix (suffix) *)
Theorem C18_strip_default : forall s arms bytes,
  match_arms s arms bytes = None <-> none_listed (fun a => matches (end_of s) a bytes) arms.
Proof. exact match_arms_none. Qed.

(** find_skip: the EARLIEST offset at which any alternative occurs, among the
    alternatives occurring there the first listed; the remainder starts after it *)
Theorem C18_find_earliest_then_first_listed : forall arms bytes i r,
  find_loop_start arms bytes = Some (i, r) <->
  exists k j a, first_listed (fun a => occ bytes a k) arms j i a /\
                r = skipn (k + length a) bytes /\
                forall k', k' < k -> none_listed (fun a => occ bytes a k') arms.
Proof. exact find_loop_start_some. Qed.
Theorem C18_find_default : forall arms bytes,
  find_loop_start arms bytes = None <-> forall k, none_listed (fun a => occ bytes a k) arms.
Proof. exact find_loop_start_none. Qed.

(** rfind_skip, the dual: the LATEST offset at which an occurrence of any alternative
    ENDS, among the alternatives ending there the first listed; the remainder ends
    before it *)
Theorem C18_rfind_dual : forall arms bytes i r,
  find_loop_end arms (rev bytes) = Some (i, r) <->
  exists e j a, first_listed (fun a => occ_end bytes a e) arms j i a /\
                r = firstn (e - length a) bytes /\
                forall e', e < e' -> none_listed (fun a => occ_end bytes a e') arms.
Proof. exact find_loop_end_some. Qed.
Theorem C18_rfind_default : forall arms bytes,
  find_loop_end arms (rev bytes) = None <-> forall e, none_listed (fun a => occ_end bytes a e) arms.
Proof. exact find_loop_end_none. Qed.

(** trim_start_matches / trim_end_matches: the while-let computes [trims] (remove the
    first listed alternative that matches until none, or an empty literal, does), with
    the fuel the model gives it, and [trims] is a function *)
Theorem C18_trim_iterated : forall s arms bytes out,
  trim_loop (S (length bytes)) s arms bytes = Some out <-> trims (end_of s) arms bytes out.
Proof. exact trim_loop_iff. Qed.
Theorem C18_trim_terminates : forall s arms bytes,
  exists out, trim_loop (S (length bytes)) s arms bytes = Some out.
Proof. exact trim_loop_fuel. Qed.
Theorem C18_trims_functional : forall e arms bytes o1 o2,
  trims e arms bytes o1 -> trims e arms bytes o2 -> o1 = o2.
Proof. exact trims_functional. Qed.

(* ---------------------------------------------------------------- the Parser after the form *)

(** strip_eq_chain: for UTF-8 shaped remainder and literals, the branch that runs is the
    first listed alternative for which Parser::strip_prefix (strip_suffix) returns Ok,
    and the parser becomes what that call returned ... *)
Theorem C18_strip_eq_chain : forall s brs p i q,
  str_shape (p_rem p) -> arms_shaped (arms_of brs) ->
  (strip_macro s brs p = (Some i, q) <->
   exists j a, first_listed (fun a => exists q', P_strip (end_of s) p a q') (arms_of brs) j i a /\
               P_strip (end_of s) p a q).
Proof. exact strip_macro_some. Qed.
(** ... and the default branch runs, parser unchanged, exactly when every call fails *)
Theorem C18_strip_default_chain : forall s brs p q,
  strip_macro s brs p = (None, q) <->
  q = p /\ none_listed (fun a => exists q', P_strip (end_of s) p a q') (arms_of brs).
Proof. exact strip_macro_none. Qed.

(** matched_bytes_on_boundaries: Parser::skip / skip_back never have to round, in any
    form; the parser is cut exactly at the remainder selected on the bytes
    ([cut]: remainder [r], start_offset advanced by the bytes in front of [r] for the
    forward forms and unchanged for the backward ones, direction set) *)
Theorem C18_no_rounding_strip : forall s brs p,
  str_shape (p_rem p) -> arms_shaped (arms_of brs) ->
  strip_macro s brs p =
  match match_arms s (arms_of brs) (p_rem p) with
  | Some (i, r) => (Some i, cut s p r)
  | None => (None, p)
  end.
Proof. exact strip_macro_cut. Qed.
Theorem C18_no_rounding_find : forall brs p,
  str_shape (p_rem p) -> arms_shaped (arms_of brs) ->
  find_macro AtStart brs p =
  match find_loop_start (arms_of brs) (p_rem p) with
  | Some (i, r) => (Some i, cut AtStart p r)
  | None => (None, p)
  end.
Proof. exact find_macro_start_cut. Qed.
Theorem C18_no_rounding_rfind : forall brs p,
  arms_shaped (arms_of brs) ->
  find_macro AtEnd brs p =
  match find_loop_end (arms_of brs) (rev (p_rem p)) with
  | Some (i, r) => (Some i, cut AtEnd p r)
  | None => (None, p)
  end.
Proof. exact find_macro_end_cut. Qed.
Theorem C18_no_rounding_trim : forall s alts p,
  str_shape (p_rem p) -> arms_shaped (arms_of [alts]) ->
  exists out, trims (end_of s) (arms_of [alts]) (p_rem p) out /\
              trim_macro s alts p = Some (cut s p out).
Proof. exact trim_macro_cut. Qed.

(** the shape hypothesis holds of every &str and of every decoded well-formed literal *)
Theorem C18_utf8_text_is_shaped : forall v, Forall scalar v -> str_shape (utf8 v).
Proof. exact utf8_shape. Qed.
Theorem C18_literal_is_shaped : forall src v,
  rustc_string src v -> exists bytes, parse_literal (utf8 src) = Some bytes /\ str_shape bytes.
Proof. exact literal_shaped. Qed.

Print Assumptions C18_strip_eq_chain.
Print Assumptions C18_strip_default_chain.
Print Assumptions C18_no_rounding_strip.
Print Assumptions C18_no_rounding_find.
Print Assumptions C18_no_rounding_rfind.
Print Assumptions C18_no_rounding_trim.
Print Assumptions C18_utf8_text_is_shaped.
Print Assumptions C18_literal_is_shaped.
Print Assumptions C18_pattern.
Print Assumptions C18_strip_first_listed.
Print Assumptions C18_strip_default.
Print Assumptions C18_find_earliest_then_first_listed.
Print Assumptions C18_find_default.
Print Assumptions C18_rfind_dual.
Print Assumptions C18_rfind_default.
Print Assumptions C18_trim_iterated.
Print Assumptions C18_trim_terminates.
Print Assumptions C18_trims_functional.
Print Assumptions C18_literal_bytes_eq_rustc.
Print Assumptions C18_literal_example.
Print Assumptions C18_raw_literal_eq.
Print Assumptions C18_concat_eq.
Print Assumptions C18_encode_is_utf8.
Print Assumptions C18_old_continuation_refuted.
Print Assumptions C18_old_underscore_refuted.
