(** C18 — parser_method! behaves like the equivalent chain of Parser method calls;
    the bytes matched for a literal are the bytes rustc gives that literal.
    Statements only; every proof is [exact <lemma>].

    Reading guide.  (1) literal bytes: decoder = Reference semantics, all well-formed
    tokens.  (2) the macro forms on the remainder BYTES: which arm runs and which
    remainder it binds, for all inputs, no hypotheses.  (3) the Parser after the form:
    for UTF-8 shaped remainders and literals Parser::skip / skip_back never round
    (matched_bytes_on_boundaries), so the parser is cut exactly at the remainder of (2),
    and the strip forms are literally the chain of Parser::strip_prefix / strip_suffix
    calls.  For rfind_skip "latest position" is the dual of find_skip under reversal:
    the occurrence that ENDS latest (ties: first listed), see C18_rfind_dual.

    (4) the same on the executable model of the real methods, Model.Parser's [Parser.step]
    (C13's record; names of that module are written qualified): [abs] is the macro
    model's view of such a parser (remainder, start_offset, direction); the one field it
    forgets (yielded_last_split) is not touched by any call involved (C18_*_keeps_flag),
    so the equalities are equalities of whole parsers (C18_abs_injective).  [fits] = the
    u32 start_offset does not wrap on this parser (C13's hypothesis; only the forward
    forms move start_offset: [fits_for]).
    Which call wins, read off the expansion (macros/parser_method.rs):
    - strip_*: if-else chain, the first listed alternative whose call returns Ok;
    - find_skip: the scan loop tries every alternative at offset 0, then 1, ..: of the
      alternatives whose Parser::find_skip (called on the SAME parser) returns Ok, the
      one whose match STARTS earliest, ties: first listed.  NOT "longest remainder":
      on "abc" with "abc" | "b" the macro takes "abc" (remainder "") although "b" leaves
      "c" (C18_find_not_longest_remainder);
    - rfind_skip: dually the match that ENDS latest, ties: first listed;
    - trim_*: the loop { strip the first listed alternative whose strip_prefix
      (strip_suffix) returns Ok; stop if none or if that one is empty }, then the
      direction is set (C18_trim_eq_loop); with ONE alternative that is
      Parser::trim_start_matches (trim_end_matches) itself (C18_trim_single_eq_method).
      With several alternatives it is NOT a fixed chain of trim_*_matches calls (one
      pass over the alternatives is not enough: "a" | "b" on "ba.."), hence the loop.
    - the write-back [p = p.skip(n)] / [p.skip_back(n)] every form ends with: the macro
      model's own copies of these two methods are Model.Parser's on byte-valued
      remainders, rounding included (C18_skip_is_parser_skip, .._skip_back_..,
      C18_write_back_is_parser_call).

    NOT YET PROVED:
    - a single theorem over the token TREE (string | raw | concat!) — the three cases
      are separate theorems (C18_literal_bytes_eq_rustc, C18_raw_literal_eq,
      C18_concat_eq);
    - stringify!(..) patterns are not modelled (outside the property's statement);
    - the chain theorems carry C13's no-wrap hypothesis [fits] for the forward forms
      (the macro model's start_offset is a plain Z); what a wrapping start_offset does
      is C13's finding, not restated here;
    - where Model.Parser's skip_back reports the [pos -= 1] underflow (PPanic: the
      remainder starts with a continuation byte and the cut falls inside that run;
      impossible for a &str, C01) the macro model's skip_back_m has no panic value and
      stops at 0; C18_skip_back_is_parser_skip_back therefore speaks of the Ok case. *)
From KV Require Import Base.Prelude Model.Utf8 Model.Literal Model.ParserMethod
  Spec.Search Spec.Literal Spec.ParserMethod Spec.ParserChain
  Proofs.LiteralProofs Proofs.ParserMethodProofs Proofs.ParserChainProofs
  Proofs.ParserMethodChainProofs.
From KV Require Model.Parser.
(* ---------------------------------------------------------------- literal bytes *)

(** literal_bytes_eq_rustc: for every string-literal token that is well formed by the
    Reference's grammar ([rustc_string src v]: [src] = the token's characters, [v] = the
    characters it denotes), the proc macro's decoder applied to the token text yields the
    UTF-8 bytes of exactly those characters.  No bound on the literal. *)
Theorem C18_literal_bytes_eq_rustc : forall src v,
  rustc_string src v -> parse_literal (utf8 src) = Some (utf8 v).
Proof. exact parse_literal_string. Qed.
(** the hypothesis is satisfiable, by a token using every production *)
Theorem C18_literal_example :
  rustc_string [34; 97; 92;110; 92;120;52;49; 92;117;123;101;95;57;125; 92;10;32;32; 98; 34]
               [97; 10; 65; 233; 98].
Proof. exact rustc_string_example. Qed.

(** raw_literal_eq: r #^n dquote body dquote #^n denotes its body verbatim, any n, any body *)
Theorem C18_raw_literal_eq : forall n body,
  parse_literal (utf8 (raw_token n body)) = Some (utf8 body).
Proof. exact parse_literal_raw. Qed.

(** concat_eq: concat!(items) (nested or not) denotes the concatenation of its items *)
Theorem C18_concat_eq : forall args vs,
  Forall2 (fun a v => decode_src a = Some v) args vs ->
  decode_src (SConcat args) = Some (concat vs).
Proof. exact decode_concat. Qed.

(** the encoder used for \u{..} values is UTF-8 as tabulated by the Unicode standard *)
Theorem C18_encode_is_utf8 : forall c, 0 <= c <= 1114111 -> encode_m c = utf8_char c.
Proof. exact encode_m_utf8. Qed.

(** finding F6, the two behaviours before the repair (regression witnesses) *)
Theorem C18_old_continuation_refuted :
  let src := [34; 97; 92; 10; 32; 12288; 98; 34] in
  rustc_string src [97; 12288; 98] /\
  parse_string_old (utf8 src) = Some [97; 98] /\
  parse_string (utf8 src) = Some (utf8 [97; 12288; 98]).
Proof. exact old_continuation_refuted. Qed.
Theorem C18_old_underscore_refuted :
  let src := [34; 92;117;123;49;95;70;54;48;48;125; 34] in
  rustc_string src [128512] /\
  parse_string_old (utf8 src) = None /\
  parse_string (utf8 src) = Some (utf8 [128512]).
Proof. exact old_underscore_refuted. Qed.

(* ---------------------------------------------------------------- the macro forms *)
Local Open Scope nat_scope.

(** the generated slice patterns [b0,..,bn, rem @ ..] / [rem @ .., b0,..,bn] match exactly
    the byte strings that start / end with the literal; [rem] is the rest *)
Theorem C18_pattern : forall s lit bytes r,
  pat s lit bytes = Some r <-> splits (end_of s) lit bytes r.
Proof. exact pat_spec. Qed.

(** strip_prefix / strip_suffix: the arm that runs is the FIRST LISTED alternative that
    is a prefix (suffix), [rem] is what is left after it ... *)
Theorem C18_strip_first_listed : forall s arms bytes i r,
  match_arms s arms bytes = Some (i, r) <->
  exists j a, first_listed (fun a => matches (end_of s) a bytes) arms j i a /\
              splits (end_of s) a bytes r.
Proof. exact match_arms_some. Qed.
(** ... and the default arm runs exactly when no alternative is a prefix (suffix) *)
Theorem C18_strip_default : forall s arms bytes,
  match_arms s arms bytes = None <-> none_listed (fun a => matches (end_of s) a bytes) arms.
Proof. exact match_arms_none. Qed.

(** find_skip: the EARLIEST offset at which any alternative occurs, among the
    alternatives occurring there the first listed; the remainder starts after it *)
Theorem C18_find_earliest_then_first_listed : forall arms bytes i r,
  find_loop_start arms bytes = Some (i, r) <->
  exists k j a, first_listed (fun a => occ bytes a k) arms j i a /\
                r = skipn (k + length a) bytes /\
                forall k', k' < k -> none_listed (fun a => occ bytes a k') arms.
Proof. exact find_loop_start_some. Qed.
Theorem C18_find_default : forall arms bytes,
  find_loop_start arms bytes = None <-> forall k, none_listed (fun a => occ bytes a k) arms.
Proof. exact find_loop_start_none. Qed.

(** rfind_skip, the dual: the LATEST offset at which an occurrence of any alternative
    ENDS, among the alternatives ending there the first listed; the remainder ends
    before it *)
Theorem C18_rfind_dual : forall arms bytes i r,
  find_loop_end arms (rev bytes) = Some (i, r) <->
  exists e j a, first_listed (fun a => occ_end bytes a e) arms j i a /\
                r = firstn (e - length a) bytes /\
                forall e', e < e' -> none_listed (fun a => occ_end bytes a e') arms.
Proof. exact find_loop_end_some. Qed.
Theorem C18_rfind_default : forall arms bytes,
  find_loop_end arms (rev bytes) = None <-> forall e, none_listed (fun a => occ_end bytes a e) arms.
Proof. exact find_loop_end_none. Qed.

(** trim_start_matches / trim_end_matches: the while-let computes [trims] (remove the
    first listed alternative that matches until none, or an empty literal, does), with
    the fuel the model gives it, and [trims] is a function *)
Theorem C18_trim_iterated : forall s arms bytes out,
  trim_loop (S (length bytes)) s arms bytes = Some out <-> trims (end_of s) arms bytes out.
Proof. exact trim_loop_iff. Qed.
Theorem C18_trim_terminates : forall s arms bytes,
  exists out, trim_loop (S (length bytes)) s arms bytes = Some out.
Proof. exact trim_loop_fuel. Qed.
Theorem C18_trims_functional : forall e arms bytes o1 o2,
  trims e arms bytes o1 -> trims e arms bytes o2 -> o1 = o2.
Proof. exact trims_functional. Qed.

(* ---------------------------------------------------------------- the Parser after the form *)

(** strip_eq_chain: for UTF-8 shaped remainder and literals, the branch that runs is the
    first listed alternative for which Parser::strip_prefix (strip_suffix) returns Ok,
    and the parser becomes what that call returned ... *)
Theorem C18_strip_eq_chain : forall s brs p i q,
  str_shape (p_rem p) -> arms_shaped (arms_of brs) ->
  (strip_macro s brs p = (Some i, q) <->
   exists j a, first_listed (fun a => exists q', P_strip (end_of s) p a q') (arms_of brs) j i a /\
               P_strip (end_of s) p a q).
Proof. exact strip_macro_some. Qed.
(** ... and the default branch runs, parser unchanged, exactly when every call fails *)
Theorem C18_strip_default_chain : forall s brs p q,
  strip_macro s brs p = (None, q) <->
  q = p /\ none_listed (fun a => exists q', P_strip (end_of s) p a q') (arms_of brs).
Proof. exact strip_macro_none. Qed.

(** matched_bytes_on_boundaries: Parser::skip / skip_back never have to round, in any
    form; the parser is cut exactly at the remainder selected on the bytes
    ([cut]: remainder [r], start_offset advanced by the bytes in front of [r] for the
    forward forms and unchanged for the backward ones, direction set) *)
Theorem C18_no_rounding_strip : forall s brs p,
  str_shape (p_rem p) -> arms_shaped (arms_of brs) ->
  strip_macro s brs p =
  match match_arms s (arms_of brs) (p_rem p) with
  | Some (i, r) => (Some i, cut s p r)
  | None => (None, p)
  end.
Proof. exact strip_macro_cut. Qed.
Theorem C18_no_rounding_find : forall brs p,
  str_shape (p_rem p) -> arms_shaped (arms_of brs) ->
  find_macro AtStart brs p =
  match find_loop_start (arms_of brs) (p_rem p) with
  | Some (i, r) => (Some i, cut AtStart p r)
  | None => (None, p)
  end.
Proof. exact find_macro_start_cut. Qed.
Theorem C18_no_rounding_rfind : forall brs p,
  arms_shaped (arms_of brs) ->
  find_macro AtEnd brs p =
  match find_loop_end (arms_of brs) (rev (p_rem p)) with
  | Some (i, r) => (Some i, cut AtEnd p r)
  | None => (None, p)
  end.
Proof. exact find_macro_end_cut. Qed.
Theorem C18_no_rounding_trim : forall s alts p,
  str_shape (p_rem p) -> arms_shaped (arms_of [alts]) ->
  exists out, trims (end_of s) (arms_of [alts]) (p_rem p) out /\
              trim_macro s alts p = Some (cut s p out).
Proof. exact trim_macro_cut. Qed.

(** the shape hypothesis holds of every &str and of every decoded well-formed literal *)
Theorem C18_utf8_text_is_shaped : forall v, Forall scalar v -> str_shape (utf8 v).
Proof. exact utf8_shape. Qed.
Theorem C18_literal_is_shaped : forall src v,
  rustc_string src v -> exists bytes, parse_literal (utf8 src) = Some bytes /\ str_shape bytes.
Proof. exact literal_shaped. Qed.

(* ---------------------------------------------------------------- the chains of Model.Parser calls *)
Local Open Scope Z_scope.

(** strip_eq_chain on the executable methods: the if-else chain of
    [Parser.step P (OStripPrefix a)] ([OStripSuffix]) calls; [strip_ok s P a] = the call
    returns Ok *)
Theorem C18_strip_eq_step_chain : forall s brs P i q,
  fits_for s P -> str_shape (Parser.p_str P) -> arms_shaped (arms_of brs) ->
  (strip_macro s brs (abs P) = (Some i, q) <->
   exists j a Q, first_listed (strip_ok s P) (arms_of brs) j i a /\
                 Parser.step P (strip_op s a) = Parser.POk Parser.VNone Q /\ q = abs Q).
Proof. exact strip_macro_step_some. Qed.
Theorem C18_strip_default_step_chain : forall s brs P q,
  fits_for s P ->
  (strip_macro s brs (abs P) = (None, q) <-> q = abs P /\ none_listed (strip_ok s P) (arms_of brs)).
Proof. exact strip_macro_step_none. Qed.
(** the list-vocabulary [P_strip] used above IS the executable method *)
Theorem C18_P_strip_is_step : forall s P a q, fits_for s P ->
  (P_strip (end_of s) (abs P) a q <->
   exists Q, Parser.step P (strip_op s a) = Parser.POk Parser.VNone Q /\ q = abs Q).
Proof. exact P_strip_step. Qed.

(** find_eq_chain.  [find_winner P arms j i a Q]: arm j = (i, a), [Parser::find_skip(a)]
    on P returns [Ok Q], and every other alternative whose call on P returns [Ok Q']
    matched no earlier ([match_start Q' a'] = start_offset of Q' minus the literal's
    length), strictly later if listed before.  The branch that runs is the winner's and
    the parser becomes what the winner's call returned ... *)
Theorem C18_find_eq_chain : forall brs P i q,
  fits P -> str_shape (Parser.p_str P) -> arms_shaped (arms_of brs) ->
  (find_macro AtStart brs (abs P) = (Some i, q) <->
   exists j a Q, find_winner P (arms_of brs) j i a Q /\ q = abs Q).
Proof. exact find_macro_some. Qed.
(** ... and the default branch runs, parser unchanged, exactly when every call fails *)
Theorem C18_find_default_chain : forall brs P q,
  fits P -> str_shape (Parser.p_str P) -> arms_shaped (arms_of brs) ->
  (find_macro AtStart brs (abs P) = (None, q) <->
   q = abs P /\ forall i a, In (i, a) (arms_of brs) ->
                  exists e, Parser.step P (Parser.OFindSkip a) = Parser.PErr e).
Proof. exact find_macro_none. Qed.
(** the winner is unique: the chain determines branch and parser *)
Theorem C18_find_winner_unique : forall P arms j i a Q j2 i2 a2 Q2,
  find_winner P arms j i a Q -> find_winner P arms j2 i2 a2 Q2 ->
  j = j2 /\ i = i2 /\ a = a2 /\ Q = Q2.
Proof. exact find_winner_unique. Qed.
(** the same as an equation between two programs: [find_chain] calls
    [Parser.step P (OFindSkip a)] for every alternative on the same parser and keeps the
    result with the smallest [match_start], the earlier listed on ties *)
Theorem C18_find_eq_chain_program : forall brs P,
  fits P -> str_shape (Parser.p_str P) -> arms_shaped (arms_of brs) ->
  find_macro AtStart brs (abs P) =
  match find_chain P (arms_of brs) with
  | Some (i, _, Q) => (Some i, abs Q)
  | None => (None, abs P)
  end.
Proof. exact find_macro_eq_chain. Qed.
(** it is the earliest START that wins, not the longest remainder *)
Theorem C18_find_not_longest_remainder :
  let P := Parser.parser_new [97; 98; 99] in
  find_macro AtStart [[[97; 98; 99]]; [[98]]] (abs P) = (Some 0%nat, mkP [] 3 FromStart) /\
  Parser.step P (Parser.OFindSkip [98]) =
    Parser.POk Parser.VNone (Parser.mk_parser Parser.FromStart false 2 [99]).
Proof. exact find_not_longest_remainder. Qed.

(** rfind_eq_chain: the same with [Parser::rfind_skip]; the winner's match ENDS latest
    ([match_end Q a] = end offset of Q plus the literal's length), ties: first listed.
    No hypothesis on the remainder or on start_offset (nothing is added to it). *)
Theorem C18_rfind_eq_chain : forall brs P i q,
  arms_shaped (arms_of brs) ->
  (find_macro AtEnd brs (abs P) = (Some i, q) <->
   exists j a Q, rfind_winner P (arms_of brs) j i a Q /\ q = abs Q).
Proof. exact rfind_macro_some. Qed.
Theorem C18_rfind_default_chain : forall brs P q,
  arms_shaped (arms_of brs) ->
  (find_macro AtEnd brs (abs P) = (None, q) <->
   q = abs P /\ forall i a, In (i, a) (arms_of brs) ->
                  exists e, Parser.step P (Parser.ORFindSkip a) = Parser.PErr e).
Proof. exact rfind_macro_none. Qed.
Theorem C18_rfind_winner_unique : forall P arms j i a Q j2 i2 a2 Q2,
  rfind_winner P arms j i a Q -> rfind_winner P arms j2 i2 a2 Q2 ->
  j = j2 /\ i = i2 /\ a = a2 /\ Q = Q2.
Proof. exact rfind_winner_unique. Qed.
Theorem C18_rfind_eq_chain_program : forall brs P,
  arms_shaped (arms_of brs) ->
  find_macro AtEnd brs (abs P) =
  match rfind_chain P (arms_of brs) with
  | Some (i, _, Q) => (Some i, abs Q)
  | None => (None, abs P)
  end.
Proof. exact rfind_macro_eq_chain. Qed.
(** [find_chain] / [rfind_chain] compute the winner, or [None] when every call fails *)
Theorem C18_chain_program_some : forall op score P arms i a Q,
  best_chain op score P arms = Some (i, a, Q) -> exists j, chain_winner op score P arms j i a Q.
Proof. exact best_chain_some. Qed.
Theorem C18_chain_program_none : forall op score P arms,
  best_chain op score P arms = None ->
  forall i a Q, In (i, a) arms -> Parser.step P (op a) <> Parser.POk Parser.VNone Q.
Proof. exact best_chain_none. Qed.
Theorem C18_rfind_winner_is_chain_winner : forall P arms j i a Q,
  chain_winner Parser.ORFindSkip (fun Q a => - match_end Q a) P arms j i a Q <-> rfind_winner P arms j i a Q.
Proof. exact rfind_winner_generic. Qed.

(** trim_eq_loop: the trim forms are the loop [trim_chain] of strip_prefix (strip_suffix)
    calls (first listed alternative that returns Ok; stop when none does or when it is
    the empty literal; then set the direction); the loop always ends *)
Theorem C18_trim_eq_loop : forall s alts P q,
  fits_for s P -> str_shape (Parser.p_str P) -> arms_shaped (arms_of [alts]) ->
  (trim_macro s alts (abs P) = Some q <->
   exists Q, trim_chain s (arms_of [alts]) P Q /\ q = abs Q).
Proof. exact trim_macro_chain. Qed.
Theorem C18_trim_loop_ends : forall s arms P, fits_for s P -> exists Q, trim_chain s arms P Q.
Proof. exact trim_chain_total. Qed.
(** trim_single_eq_method: with one alternative the form is the method itself *)
Theorem C18_trim_single_eq_method : forall s a P,
  fits_for s P -> str_shape (Parser.p_str P) -> str_shape a ->
  exists Q, Parser.step P (trim_op s a) = Parser.POk Parser.VNone Q /\
            trim_macro s [a] (abs P) = Some (abs Q).
Proof. exact trim_macro_single. Qed.

(** the field [abs] forgets is not touched by any call of the chains *)
Theorem C18_find_keeps_flag : forall P a Q,
  Parser.step P (Parser.OFindSkip a) = Parser.POk Parser.VNone Q -> Parser.p_yls Q = Parser.p_yls P.
Proof. exact find_keeps_flag. Qed.
Theorem C18_rfind_keeps_flag : forall P a Q,
  Parser.step P (Parser.ORFindSkip a) = Parser.POk Parser.VNone Q -> Parser.p_yls Q = Parser.p_yls P.
Proof. exact rfind_keeps_flag. Qed.
Theorem C18_strip_keeps_flag : forall s P a Q,
  Parser.step P (strip_op s a) = Parser.POk Parser.VNone Q -> Parser.p_yls Q = Parser.p_yls P.
Proof. exact strip_keeps_flag. Qed.
Theorem C18_trim_keeps_flag : forall s P a Q,
  Parser.step P (trim_op s a) = Parser.POk Parser.VNone Q -> Parser.p_yls Q = Parser.p_yls P.
Proof. exact trim_keeps_flag. Qed.
Theorem C18_trim_loop_keeps_flag : forall s arms P Q,
  trim_chain s arms P Q -> Parser.p_yls Q = Parser.p_yls P.
Proof. exact trim_chain_keeps_flag. Qed.
Theorem C18_abs_injective : forall P Q, abs P = abs Q -> Parser.p_yls P = Parser.p_yls Q -> P = Q.
Proof. exact abs_inj. Qed.
(** the hypotheses are satisfiable: a fresh parser over UTF-8 text shorter than 4 GiB *)
Theorem C18_fits_example : forall s, zlen s < 4294967296 -> fits (Parser.parser_new s).
Proof. exact fits_new. Qed.

(** the write-back of every form is the Parser call the expansion makes: the macro
    model's skip_m / skip_back_m are [Parser.step P (OSkip n)] / [(OSkipBack n)], for
    every n (rounding to a char boundary included), on remainders made of bytes *)
Theorem C18_skip_is_parser_skip : forall P n, fits P -> Forall is_byte (Parser.p_str P) ->
  exists Q, Parser.step P (Parser.OSkip n) = Parser.POk Parser.VNone Q /\
            abs Q = skip_m (abs P) n /\ Parser.p_yls Q = Parser.p_yls P.
Proof. exact skip_m_is_step. Qed.
Theorem C18_skip_back_is_parser_skip_back : forall P n Q, Forall is_byte (Parser.p_str P) ->
  Parser.step P (Parser.OSkipBack n) = Parser.POk Parser.VNone Q ->
  abs Q = skip_back_m (abs P) n /\ Parser.p_yls Q = Parser.p_yls P.
Proof. exact skip_back_m_is_step. Qed.
Theorem C18_write_back_is_parser_call : forall s P r Q,
  fits_for s P -> Forall is_byte (Parser.p_str P) ->
  Parser.step P (match s with
                 | AtStart => Parser.OSkip (zlen (Parser.p_str P) - zlen r)
                 | AtEnd => Parser.OSkipBack (zlen (Parser.p_str P) - zlen r)
                 end) = Parser.POk Parser.VNone Q ->
  abs Q = set_rem s (abs P) r.
Proof. exact set_rem_is_step. Qed.

Print Assumptions C18_skip_is_parser_skip.
Print Assumptions C18_skip_back_is_parser_skip_back.
Print Assumptions C18_write_back_is_parser_call.
Print Assumptions C18_strip_eq_step_chain.
Print Assumptions C18_strip_default_step_chain.
Print Assumptions C18_P_strip_is_step.
Print Assumptions C18_find_eq_chain.
Print Assumptions C18_find_default_chain.
Print Assumptions C18_find_winner_unique.
Print Assumptions C18_find_eq_chain_program.
Print Assumptions C18_find_not_longest_remainder.
Print Assumptions C18_rfind_eq_chain.
Print Assumptions C18_rfind_default_chain.
Print Assumptions C18_rfind_winner_unique.
Print Assumptions C18_rfind_eq_chain_program.
Print Assumptions C18_chain_program_some.
Print Assumptions C18_chain_program_none.
Print Assumptions C18_rfind_winner_is_chain_winner.
Print Assumptions C18_trim_eq_loop.
Print Assumptions C18_trim_loop_ends.
Print Assumptions C18_trim_single_eq_method.
Print Assumptions C18_find_keeps_flag.
Print Assumptions C18_rfind_keeps_flag.
Print Assumptions C18_strip_keeps_flag.
Print Assumptions C18_trim_keeps_flag.
Print Assumptions C18_trim_loop_keeps_flag.
Print Assumptions C18_abs_injective.
Print Assumptions C18_fits_example.
Print Assumptions C18_strip_eq_chain.
Print Assumptions C18_strip_default_chain.
Print Assumptions C18_no_rounding_strip.
Print Assumptions C18_no_rounding_find.
Print Assumptions C18_no_rounding_rfind.
Print Assumptions C18_no_rounding_trim.
Print Assumptions C18_utf8_text_is_shaped.
Print Assumptions C18_literal_is_shaped.
Print Assumptions C18_pattern.
Print Assumptions C18_strip_first_listed.
Print Assumptions C18_strip_default.
Print Assumptions C18_find_earliest_then_first_listed.
Print Assumptions C18_find_default.
Print Assumptions C18_rfind_dual.
Print Assumptions C18_rfind_default.
Print Assumptions C18_trim_iterated.
Print Assumptions C18_trim_terminates.
Print Assumptions C18_trims_functional.
Print Assumptions C18_literal_bytes_eq_rustc.
Print Assumptions C18_literal_example.
Print Assumptions C18_raw_literal_eq.
Print Assumptions C18_concat_eq.
Print Assumptions C18_encode_is_utf8.
Print Assumptions C18_old_continuation_refuted.
Print Assumptions C18_old_underscore_refuted.
