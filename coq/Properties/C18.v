(** C18 — parser_method! behaves like the equivalent chain of Parser method calls;
    the bytes matched for a literal are the bytes rustc gives that literal.
    Statements only; every proof is [exact <lemma>]. *)
From KV Require Import Base.Prelude Model.ParserMethod Proofs.ParserMethodProofs.
Local Open Scope nat_scope.

Theorem C18_pattern_is_prefix : forall lit bytes r,
  pat_start lit bytes = Some r <-> bytes = lit ++ r.
Proof. exact pat_start_spec. Qed.

Print Assumptions C18_pattern_is_prefix.
