(** C18 — parser_method! behaves like the equivalent chain of Parser method calls;
    the bytes matched for a literal are the bytes rustc gives that literal.
    Statements only; every proof is [exact <lemma>]. *)
From KV Require Import Base.Prelude Model.ParserMethod Spec.Search Spec.ParserMethod
  Proofs.ParserMethodProofs.
Local Open Scope nat_scope.

(** the generated slice patterns [b0,..,bn, rem @ ..] / [rem @ .., b0,..,bn] match exactly
    the byte strings that start / end with the literal; [rem] is the rest *)
Theorem C18_pattern : forall s lit bytes r,
  pat s lit bytes = Some r <-> splits (end_of s) lit bytes r.
Proof. exact pat_spec. Qed.

(** strip_prefix / strip_suffix: the arm that runs is the FIRST LISTED alternative that
    is a prefix (suffix), [rem] is what is left after it ... *)
Theorem C18_strip_first_listed : forall s arms bytes i r,
  match_arms s arms bytes = Some (i, r) <->
  exists j a, first_listed (fun a => matches (end_of s) a bytes) arms j i a /\
              splits (end_of s) a bytes r.
Proof. exact match_arms_some. Qed.
(** ... and the default arm runs exactly when no alternative is a prefix (suffix) *)
Theorem C18_strip_default : forall s arms bytes,
  match_arms s arms bytes = None <-> none_listed (fun a => matches (end_of s) a bytes) arms.
Proof. exact match_arms_none. Qed.

(** find_skip: the EARLIEST offset at which any alternative occurs, among the
    alternatives occurring there the first listed; the remainder starts after it *)
Theorem C18_find_earliest_then_first_listed : forall arms bytes i r,
  find_loop_start arms bytes = Some (i, r) <->
  exists k j a, first_listed (fun a => occ bytes a k) arms j i a /\
                r = skipn (k + length a) bytes /\
                forall k', k' < k -> none_listed (fun a => occ bytes a k') arms.
Proof. exact find_loop_start_some. Qed.
Theorem C18_find_default : forall arms bytes,
  find_loop_start arms bytes = None <-> forall k, none_listed (fun a => occ bytes a k) arms.
Proof. exact find_loop_start_none. Qed.

(** rfind_skip, the dual: the LATEST offset at which an occurrence of any alternative
    ENDS, among the alternatives ending there the first listed; the remainder ends
    before it *)
Theorem C18_rfind_dual : forall arms bytes i r,
  find_loop_end arms (rev bytes) = Some (i, r) <->
  exists e j a, first_listed (fun a => occ_end bytes a e) arms j i a /\
                r = firstn (e - length a) bytes /\
                forall e', e < e' -> none_listed (fun a => occ_end bytes a e') arms.
Proof. exact find_loop_end_some. Qed.
Theorem C18_rfind_default : forall arms bytes,
  find_loop_end arms (rev bytes) = None <-> forall e, none_listed (fun a => occ_end bytes a e) arms.
Proof. exact find_loop_end_none. Qed.

(** trim_start_matches / trim_end_matches: the while-let computes [trims] (remove the
    first listed alternative that matches until none, or an empty literal, does), with
    the fuel the model gives it, and [trims] is a function *)
Theorem C18_trim_iterated : forall s arms bytes out,
  trim_loop (S (length bytes)) s arms bytes = Some out <-> trims (end_of s) arms bytes out.
Proof. exact trim_loop_iff. Qed.
Theorem C18_trim_terminates : forall s arms bytes,
  exists out, trim_loop (S (length bytes)) s arms bytes = Some out.
Proof. exact trim_loop_fuel. Qed.
Theorem C18_trims_functional : forall e arms bytes o1 o2,
  trims e arms bytes o1 -> trims e arms bytes o2 -> o1 = o2.
Proof. exact trims_functional. Qed.

Print Assumptions C18_pattern.
Print Assumptions C18_strip_first_listed.
Print Assumptions C18_strip_default.
Print Assumptions C18_find_earliest_then_first_listed.
Print Assumptions C18_find_default.
Print Assumptions C18_rfind_dual.
Print Assumptions C18_rfind_default.
Print Assumptions C18_trim_iterated.
Print Assumptions C18_trim_terminates.
Print Assumptions C18_trims_functional.
