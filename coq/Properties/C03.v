(** C03 - string slicing agrees with std str indexing, including char-boundary rules.
    Statements only; every proof is [exact <lemma>].

    Vocabulary: a string is a [list Z] of bytes with [utf8 s = true] (Unicode Table 3-7,
    Spec/Utf8.v, tied to core::str::from_utf8 by the C07 correspondence); an index is a
    [usize], i.e. [0 <= i] with no upper bound (so usize::MAX and any width are covered);
    a returned [&str] is a view (offset, length) of the argument and [sub s v] its bytes.
    [std_boundary] is str::is_char_boundary defined through the DECODER ("start, end, or
    first byte of a char"), [std_get s a b] is [s.get(a..b)].

    NOT YET PROVED: nothing planned for C03 in DESIGN section 4 is missing. *)
From KV Require Import Base.Prelude Model.Utf8 Model.Str Spec.Utf8 Proofs.Utf8Proofs Proofs.StrProofs.

(** the byte test [(b as i8) >= -0x40] decides std's boundary predicate *)
Theorem C03_boundary_eq_std : forall s i, utf8 s = true -> 0 <= i ->
  is_char_boundary_m s i = std_boundary s i.
Proof. exact boundary_eq_std. Qed.
Theorem C03_boundary_beyond : forall s i, zlen s < i -> is_char_boundary_m s i = false.
Proof. exact boundary_beyond. Qed.
(** the forgiving variant is the strict one with the index clamped to the length *)
Theorem C03_forgiving_clamp : forall s i,
  forgiving_m s i = is_char_boundary_m s (Z.min i (zlen s)).
Proof. exact forgiving_clamp. Qed.

(** fallible getters = str::get, for every index / pair incl. start > end *)
Theorem C03_get_up_to_eq_std : forall s n, utf8 s = true -> 0 <= n ->
  get_up_to_m s n = std_get s 0 n.
Proof. exact get_up_to_eq_std. Qed.
Theorem C03_get_from_eq_std : forall s i, utf8 s = true -> 0 <= i ->
  get_from_m s i = std_get s i (zlen s).
Proof. exact get_from_eq_std. Qed.
Theorem C03_get_range_eq_std : forall s a b, utf8 s = true -> 0 <= a -> 0 <= b ->
  get_range_m s a b = std_get s a b.
Proof. exact get_range_eq_std. Qed.
Theorem C03_get_is_substring : forall s a b v, std_get s a b = Some v ->
  sub s v = firstn (Z.to_nat (b - a)) (skipn (Z.to_nat a) s).
Proof. exact std_get_sub. Qed.

(** clamping variants: beyond the length = the length; on a boundary = std's sub-string;
    strictly inside a character = panic naming that argument *)
Theorem C03_str_up_to_clamped : forall s n, utf8 s = true -> 0 <= n ->
  str_up_to_m s n =
    if zlen s <? n then Ok (0, zlen s)
    else if std_boundary s n then Ok (0, n) else Panic (PBoundary BIndex n).
Proof. exact str_up_to_clamped. Qed.
Theorem C03_str_from_clamped : forall s i, utf8 s = true -> 0 <= i ->
  str_from_m s i =
    if zlen s <? i then Ok empty_view
    else if std_boundary s i then Ok (i, zlen s - i) else Panic (PBoundary BStart i).
Proof. exact str_from_clamped. Qed.
Theorem C03_str_range_clamped : forall s a b, utf8 s = true -> 0 <= a -> 0 <= b ->
  str_range_m s a b =
    if acceptable s a && acceptable s b then
      Ok (let e := Z.min b (zlen s) in if e <? a then empty_view else (a, e - a))
    else if acceptable s a then Panic (PBoundary BEnd b)
    else Panic (PBoundary BStart a).
Proof. exact str_range_clamped. Qed.
Theorem C03_split_at_clamped : forall s i, utf8 s = true -> 0 <= i ->
  split_at_m s i =
    if zlen s <? i then Ok ((0, zlen s), empty_view)
    else if std_boundary s i then Ok ((0, i), (i, zlen s - i)) else Panic (PBoundary BIndex i).
Proof. exact split_at_clamped. Qed.
Theorem C03_views_are_substrings : forall s,
  (forall n, 0 <= n -> sub s (0, n) = firstn (Z.to_nat n) s) /\
  (forall i, 0 <= i <= zlen s -> sub s (i, zlen s - i) = skipn (Z.to_nat i) s) /\
  sub s (0, zlen s) = s.
Proof. intros s. exact (conj (sub_up_to s) (conj (sub_from s) (sub_whole s))). Qed.

(** panic exactly when an in-range index falls strictly inside a multi-byte character *)
Theorem C03_panic_iff_inside_char : forall s i, utf8 s = true -> 0 <= i ->
  ((exists p, str_up_to_m s i = Panic p) <-> inside_char s i) /\
  ((exists p, str_from_m s i = Panic p) <-> inside_char s i) /\
  ((exists p, split_at_m s i = Panic p) <-> inside_char s i).
Proof. exact panic_iff_inside_char. Qed.
Theorem C03_range_panic_iff_inside_char : forall s a b, utf8 s = true -> 0 <= a -> 0 <= b ->
  ((exists p, str_range_m s a b = Panic p) <-> inside_char s a \/ inside_char s b) /\
  (str_range_m s a b = Panic (PBoundary BStart a) <-> inside_char s a) /\
  (str_range_m s a b = Panic (PBoundary BEnd b) <-> ~ inside_char s a /\ inside_char s b).
Proof. exact range_panic_iff_inside_char. Qed.

(** exported for C01: a position is a boundary iff both halves are valid UTF-8 ... *)
Theorem C03_boundary_iff_split : forall s i, utf8 s = true -> 0 <= i <= zlen s ->
  (is_char_boundary_m s i = true <->
   utf8 (firstn (Z.to_nat i) s) && utf8 (skipn (Z.to_nat i) s) = true).
Proof. exact boundary_iff_split. Qed.
(** ... and a valid non-empty needle occurring in a valid haystack starts and ends on boundaries *)
Theorem C03_match_on_boundaries : forall h n p q,
  utf8 h = true -> utf8 n = true -> n <> [] -> h = p ++ n ++ q ->
  is_char_boundary_m h (zlen p) = true /\ is_char_boundary_m h (zlen p + zlen n) = true.
Proof. exact match_on_boundaries. Qed.

(** the hypotheses are satisfiable and every branch is inhabited ("aéb") *)
Theorem C03_examples :
  let s := [97; 195; 169; 98] in
  utf8 s = true /\
  (str_range_m s 3 1 = Ok empty_view) /\ (str_range_m s 1 100 = Ok (1, 3)) /\
  (str_range_m s 2 3 = Panic (PBoundary BStart 2)) /\ (str_range_m s 1 2 = Panic (PBoundary BEnd 2)) /\
  (str_range_m s 2 2 = Panic (PBoundary BStart 2)) /\ (get_range_m s 1 3 = Some (1, 2)) /\
  (get_range_m s 3 1 = None) /\ (split_at_m s 9 = Ok ((0, 4), empty_view)).
Proof. exact (conj eq_refl clamp_examples). Qed.

Print Assumptions C03_boundary_eq_std.
Print Assumptions C03_boundary_beyond.
Print Assumptions C03_forgiving_clamp.
Print Assumptions C03_get_up_to_eq_std.
Print Assumptions C03_get_from_eq_std.
Print Assumptions C03_get_range_eq_std.
Print Assumptions C03_get_is_substring.
Print Assumptions C03_str_up_to_clamped.
Print Assumptions C03_str_from_clamped.
Print Assumptions C03_str_range_clamped.
Print Assumptions C03_split_at_clamped.
Print Assumptions C03_views_are_substrings.
Print Assumptions C03_panic_iff_inside_char.
Print Assumptions C03_range_panic_iff_inside_char.
Print Assumptions C03_boundary_iff_split.
Print Assumptions C03_match_on_boundaries.
Print Assumptions C03_examples.
