(** C20 — concatenation/join macros and CStr conversions equal their std counterparts.
    Statements only; every proof is [exact <lemma>].

    Vocabulary: [flat] = the pieces one after the other (std [concat] / [collect::<String>]),
    [intercalate sep] = std [join], [total_len] = true total length; a char piece / separator
    stands for its UTF-8 encoding [encode_m c] (= std's encoding: property C07, and compared
    with the real std on every run here).  [w] is the width of [usize]; the hypothesis
    [.. < 2 ^ w] says that the result is not longer than [usize::MAX] bytes (otherwise the
    length pre-computation overflows: a panic or a wrap depending on the profile).
    [as_str_m r] is [Done r] when [r] is valid UTF-8 and the macro's "invalid string" panic
    otherwise; [C20_concat_total] / [C20_join_total] / [C20_from_iter_total] show that the panic
    cannot happen: every [&str] is valid UTF-8 and every [char] is a scalar value.

    [utf8_ok] (Model/Utf8Check.v) is the validity test used throughout this file;
    [C20_utf8_ok_is_utf8] proves that it is the same function as the independent
    specification [Spec.Utf8.utf8] (segmentation by the rows of Unicode Table 3-7, the
    vocabulary of C01/C03/C07), and [C20_concat_valid_spec] / [C20_encode_utf8_valid_spec]
    restate the validity theorems with it.

    NOT YET PROVED: nothing of the plan of DESIGN section 4 is missing; the agreement of the
    two UTF-8 validity tests, formerly only tied together by the correspondence runs, is now
    proved ([C20_utf8_ok_is_utf8]).  The iterator-DSL front end of [string::from_iter!] is now tied in as well
    ([C20_from_iter_dsl_eq_std], with C10's theorem).  Outside the plan and not proved here: the
    behaviour when the total length does not fit [usize] (hypothesis [.. < 2 ^ w]). *)
From KV Require Import Base.Prelude Model.Utf8 Model.Utf8Check Model.Concat Model.CStr
  Spec.Concat Proofs.ConcatProofs Proofs.Utf8CheckProofs Proofs.CStrProofs
  Proofs.Utf8EquivProofs.
From KV Require Import Model.Dsl Spec.Dsl Proofs.FromIterDslProofs.

(* ------------------------------------------------------------------ two-pass agreement *)

(** the length [char::len_utf8] pre-computes is the number of bytes [encode_utf8] writes *)
Theorem C20_len_utf8_agrees : forall c, zlen (encode_m c) = len_utf8_m c.
Proof. exact len_utf8_encode. Qed.

(** [concat_sum_lengths] is the true total (str and char pieces) *)
Theorem C20_concat_sum_lengths : forall w arg,
  total_len (arg_bytes arg) < 2 ^ w -> concat_sum_lengths_m w arg = total_len (arg_bytes arg).
Proof. exact concat_sum_lengths_exact. Qed.

(** the fill loop of [concat_strs::<N>], for EVERY N: it panics iff the pieces do not fit;
    otherwise it has written exactly [total] bytes (final [out_i]), and the array is the
    concatenation followed by the untouched zeros *)
Theorem C20_concat_len_agrees : forall es n, 0 <= n ->
  concat_fill es (arr_repeat 0 n) 0 =
  let pieces := map elem_bytes es in
  if total_len pieces <=? n
  then Done (flat pieces ++ arr_repeat 0 (n - total_len pieces), total_len pieces)
  else Panic.
Proof. exact concat_fill_spec. Qed.

(** with N = the pre-computed length the array is exactly the concatenation *)
Theorem C20_concat_strs_exact : forall w arg, total_len (arg_bytes arg) < 2 ^ w ->
  concat_strs_m (concat_sum_lengths_m w arg) arg = Done (flat (arg_bytes arg)).
Proof. exact concat_strs_exact. Qed.

(* ------------------------------------------------------------------ the macros *)

(** [str_concat!] = std [concat] (str pieces) / [collect::<String>] (char pieces),
    including the literal-[] arm, empty lists and empty pieces *)
Theorem C20_concat_eq : forall w lit arg,
  total_len (arg_bytes arg) < 2 ^ w ->
  (lit = true -> arg_elems arg = []) ->
  str_concat_m w lit arg = as_str_m (flat (arg_bytes arg)).
Proof. exact str_concat_eq. Qed.

(** [join_sum_lengths] is the true length of the joined string (str and char separators) *)
Theorem C20_join_sum_lengths : forall w sep slices,
  zlen (intercalate (sep_bytes sep) slices) < 2 ^ w ->
  join_sum_lengths_m w sep slices = zlen (intercalate (sep_bytes sep) slices).
Proof. exact join_sum_lengths_exact. Qed.

(** [join_strs::<N>] for EVERY N *)
Theorem C20_join_strs : forall n sep slices, 0 <= n ->
  let r := intercalate (sep_bytes sep) slices in
  join_strs_m n sep slices =
  if zlen r <=? n then Done (r ++ arr_repeat 0 (n - zlen r)) else Panic.
Proof. exact join_strs_spec. Qed.

(** [str_join!] = std [join]; the empty list gives [""] *)
Theorem C20_join_eq : forall w lit sep slices,
  zlen (intercalate (sep_bytes sep) slices) < 2 ^ w ->
  (lit = true -> slices = []) ->
  str_join_m w lit sep slices = as_str_m (intercalate (sep_bytes sep) slices).
Proof. exact str_join_eq. Qed.

Theorem C20_join_empty : forall w lit sep, str_join_m w lit sep [] = Done [].
Proof. exact str_join_nil. Qed.

(** the two-pass collector with capacity [cap]: only the exact total does not panic *)
Theorem C20_collect_build : forall w cap items, 0 <= cap ->
  total_len (map elem_bytes items) < 2 ^ w ->
  collect_build_m w cap items =
  if total_len (map elem_bytes items) =? cap then Done (flat (map elem_bytes items)) else Panic.
Proof. exact collect_build_spec. Qed.

(** [string::from_iter!] = std [collect::<String>] of the items the iterator yields;
    no uninitialised byte is ever read ([UB] is not a possible outcome) *)
Theorem C20_from_iter_eq : forall w items,
  total_len (map elem_bytes items) < 2 ^ w ->
  from_iter_m w items = as_str_m (flat (map elem_bytes items)).
Proof. exact from_iter_eq. Qed.

(** the re-validation with [from_utf8] cannot panic for str pieces and str separators *)
Theorem C20_concat_utf8 : forall ss,
  Forall (fun s => utf8_ok s = true) ss -> utf8_ok (flat ss) = true.
Proof. exact utf8_ok_flat. Qed.
Theorem C20_join_utf8 : forall sep ss,
  utf8_ok sep = true -> Forall (fun s => utf8_ok s = true) ss ->
  utf8_ok (intercalate sep ss) = true.
Proof. exact utf8_ok_intercalate. Qed.

(** [encode_utf8] of a scalar value is well-formed, so char pieces / separators pass too *)
Theorem C20_encode_utf8_valid : forall c, is_scalar c -> utf8_ok (encode_m c) = true.
Proof. exact utf8_ok_encode. Qed.

(** [utf8_ok] is the well-formedness test of the specification ([Spec.Utf8.utf8], the one
    C01/C03/C07 are stated with): the two independently written tests agree on EVERY list
    of integers (not only on lists of bytes) *)
Theorem C20_utf8_ok_is_utf8 : forall l, utf8_ok l = KV.Spec.Utf8.utf8 l.
Proof. exact utf8_ok_is_utf8. Qed.

(** [C20_concat_utf8] / [C20_join_utf8] / [C20_encode_utf8_valid] in that vocabulary *)
Theorem C20_concat_valid_spec :
  (forall ss, Forall (fun s => KV.Spec.Utf8.utf8 s = true) ss ->
     KV.Spec.Utf8.utf8 (flat ss) = true) /\
  (forall sep ss, KV.Spec.Utf8.utf8 sep = true ->
     Forall (fun s => KV.Spec.Utf8.utf8 s = true) ss ->
     KV.Spec.Utf8.utf8 (intercalate sep ss) = true).
Proof. exact concat_valid_spec. Qed.
Theorem C20_encode_utf8_valid_spec : forall c,
  is_scalar c -> KV.Spec.Utf8.utf8 (encode_m c) = true.
Proof. exact encode_valid_spec. Qed.

(** hence the macros never panic and return exactly std's string: [elem_ok] = a valid
    [&str] or a scalar [char]; [sep_ok] likewise *)
Theorem C20_concat_total : forall w arg,
  Forall elem_ok (arg_elems arg) -> total_len (arg_bytes arg) < 2 ^ w ->
  forall lit, (lit = true -> arg_elems arg = []) ->
  str_concat_m w lit arg = Done (flat (arg_bytes arg)).
Proof. exact str_concat_total. Qed.
Theorem C20_join_total : forall w sep ss,
  sep_ok sep -> Forall (fun s => utf8_ok s = true) ss ->
  zlen (intercalate (sep_bytes sep) ss) < 2 ^ w ->
  forall lit, (lit = true -> ss = []) ->
  str_join_m w lit sep ss = Done (intercalate (sep_bytes sep) ss).
Proof. exact str_join_total. Qed.
Theorem C20_from_iter_total : forall w items,
  Forall elem_ok items -> total_len (map elem_bytes items) < 2 ^ w ->
  from_iter_m w items = Done (flat (map elem_bytes items)).
Proof. exact from_iter_total. Qed.

(** [slice_concat!] = [<[&[T]]>::concat] for every element type ... *)
Theorem C20_slice_concat_eq : forall (A : Type) w (slices : list (list A)),
  total_len slices < 2 ^ w -> slice_concat_m w slices = Done (flat slices).
Proof. exact (@slice_concat_eq). Qed.

(** ... [concat_slices::<T, N>] for EVERY N, including the [N = 0] early return that needs
    no element, and the "no element in any slice" panic *)
Theorem C20_concat_slices : forall (A : Type) n (slices : list (list A)), 0 <= n ->
  concat_slices_m n slices =
  if n =? 0 then Done []
  else match flat slices with
       | [] => Panic
       | first :: _ =>
           if total_len slices <=? n
           then Done (flat slices ++ arr_repeat first (n - total_len slices))
           else Panic
       end.
Proof. exact (@concat_slices_spec). Qed.

(** the hypotheses are satisfiable, and the statements compute *)
Theorem C20_concat_example :
  str_join_m 64 false (SChar 233) [[97]; []; [240; 159; 167; 160; 120]]
  = Done [97; 195; 169; 195; 169; 240; 159; 167; 160; 120].
Proof. exact concat_example. Qed.
Theorem C20_hypotheses_satisfiable :
  let ss := [[97]; []; [240; 159; 167; 160; 120]] in
  sep_ok (SChar 233) /\ Forall (fun s => utf8_ok s = true) ss /\
  zlen (intercalate (sep_bytes (SChar 233)) ss) < 2 ^ 64.
Proof. exact hyps_example. Qed.

(* ------------------------------------------------------------------ CStr *)

(** [from_bytes_until_nul] succeeds iff a nul occurs ... *)
Theorem C20_until_nul_iff : forall bytes,
  (exists c, from_bytes_until_nul_m bytes = Some c) <-> In 0 bytes.
Proof. exact until_nul_ok_iff. Qed.

(** ... and returns the bytes up to and including the FIRST nul *)
Theorem C20_until_nul_result : forall bytes c,
  from_bytes_until_nul_m bytes = Some c <->
  exists pre post, first_nul_split bytes pre post /\ c = pre ++ [0].
Proof. exact until_nul_some. Qed.

Theorem C20_first_nul_unique : forall l pre post pre' post',
  first_nul_split l pre post -> first_nul_split l pre' post' -> pre = pre' /\ post = post'.
Proof. exact first_nul_unique. Qed.

(** [from_bytes_with_nul] succeeds iff the first nul is the last byte, and then returns
    the whole input *)
Theorem C20_with_nul_iff : forall bytes c,
  from_bytes_with_nul_m bytes = WOk c <->
  c = bytes /\ exists pre, bytes = pre ++ [0] /\ ~ In 0 pre.
Proof. exact with_nul_ok_iff. Qed.

(** all four outcomes; the index [bytes[bytes.len() - 1]] never panics *)
Theorem C20_with_nul_spec : forall bytes,
  match from_bytes_with_nul_m bytes with
  | WOk c => c = bytes /\ exists pre, bytes = pre ++ [0] /\ ~ In 0 pre
  | WNotNulTerminated => ~ exists pre, bytes = pre ++ [0]
  | WInternalNul p =>
      exists pre mid, bytes = pre ++ 0 :: mid ++ [0] /\ ~ In 0 pre /\ p = zlen pre
  | WPanic => False
  end.
Proof. exact with_nul_spec. Qed.

Theorem C20_with_nul_iff_until : forall bytes c,
  from_bytes_with_nul_m bytes = WOk c <-> from_bytes_until_nul_m bytes = Some c /\ c = bytes.
Proof. exact with_nul_ok_iff_until. Qed.

(** the pointer walk of [to_bytes_with_nul] recovers exactly the CStr, whatever memory
    follows it; it would be UB only without a terminator *)
Theorem C20_to_bytes_with_nul_roundtrip : forall pre rest, ~ In 0 pre ->
  to_bytes_with_nul_m ((pre ++ [0]) ++ rest) = Some (pre ++ [0]).
Proof. exact to_bytes_with_nul_roundtrip. Qed.
Theorem C20_to_bytes_with_nul_ub : forall mem, to_bytes_with_nul_m mem = None <-> ~ In 0 mem.
Proof. exact to_bytes_with_nul_ub. Qed.

(** [to_bytes] drops the terminator ([unreachable!()] is unreachable); [to_str] is
    [from_utf8] of that *)
Theorem C20_to_bytes_roundtrip : forall pre rest, ~ In 0 pre ->
  to_bytes_m ((pre ++ [0]) ++ rest) = CDone pre.
Proof. exact to_bytes_roundtrip. Qed.
Theorem C20_to_str : forall pre rest, ~ In 0 pre ->
  to_str_m ((pre ++ [0]) ++ rest) = CDone (if utf8_ok pre then Some pre else None).
Proof. exact to_str_roundtrip. Qed.

(** constructor followed by conversion *)
Theorem C20_until_nul_then_to_bytes : forall bytes c,
  from_bytes_until_nul_m bytes = Some c ->
  exists pre post, first_nul_split bytes pre post /\
    to_bytes_with_nul_m bytes = Some c /\ to_bytes_m bytes = CDone pre /\
    to_bytes_with_nul_m c = Some c /\ to_bytes_m c = CDone pre.
Proof. exact until_nul_then_to_bytes. Qed.

(** [string::from_iter!] of an iterator-DSL chain, END TO END (with C10): the items the two const
    evaluations push through the item closure are those of the chain's loop nest, which are the
    items of the identical std chain — so the macro returns std's [collect::<String>] of that
    chain, for every adapter list, all closures and every source outside C10's known-finding
    class (no side condition at all for chains that do not reverse) *)
Theorem C20_from_iter_dsl_eq_std : forall w ms src,
  accepted ms CForEach = true -> no_rev_after_positional ms CForEach src ->
  Forall elem_ok (std_items ms src) -> total_len (map elem_bytes (std_items ms src)) < 2 ^ w ->
  from_iter_dsl w ms src = Done (flat (map elem_bytes (std_items ms src))).
Proof. exact from_iter_dsl_eq_std. Qed.
Theorem C20_from_iter_dsl_eq_std_forward : forall w ms src,
  reverses ms CForEach = false ->
  Forall elem_ok (std_items ms src) -> total_len (map elem_bytes (std_items ms src)) < 2 ^ w ->
  from_iter_dsl w ms src = Done (flat (map elem_bytes (std_items ms src))).
Proof. exact from_iter_dsl_eq_std_forward. Qed.

Print Assumptions C20_len_utf8_agrees.
Print Assumptions C20_concat_sum_lengths.
Print Assumptions C20_concat_len_agrees.
Print Assumptions C20_concat_strs_exact.
Print Assumptions C20_concat_eq.
Print Assumptions C20_join_sum_lengths.
Print Assumptions C20_join_strs.
Print Assumptions C20_join_eq.
Print Assumptions C20_join_empty.
Print Assumptions C20_collect_build.
Print Assumptions C20_from_iter_eq.
Print Assumptions C20_concat_utf8.
Print Assumptions C20_join_utf8.
Print Assumptions C20_encode_utf8_valid.
Print Assumptions C20_utf8_ok_is_utf8.
Print Assumptions C20_concat_valid_spec.
Print Assumptions C20_encode_utf8_valid_spec.
Print Assumptions C20_concat_total.
Print Assumptions C20_join_total.
Print Assumptions C20_from_iter_total.
Print Assumptions C20_slice_concat_eq.
Print Assumptions C20_concat_slices.
Print Assumptions C20_concat_example.
Print Assumptions C20_hypotheses_satisfiable.
Print Assumptions C20_until_nul_iff.
Print Assumptions C20_until_nul_result.
Print Assumptions C20_first_nul_unique.
Print Assumptions C20_with_nul_iff.
Print Assumptions C20_with_nul_spec.
Print Assumptions C20_with_nul_iff_until.
Print Assumptions C20_to_bytes_with_nul_roundtrip.
Print Assumptions C20_to_bytes_with_nul_ub.
Print Assumptions C20_to_bytes_roundtrip.
Print Assumptions C20_to_str.
Print Assumptions C20_until_nul_then_to_bytes.
Print Assumptions C20_from_iter_dsl_eq_std.
Print Assumptions C20_from_iter_dsl_eq_std_forward.
