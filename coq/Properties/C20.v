(** C20 (in progress) *)
From KV Require Import Base.Prelude.
