(** C02 — slice indexing and splitting functions agree with std slice indexing.

    Statements only.  [w] = bit width of usize (any [w >= 1]), [sz] = size_of::<T>() (any
    [sz >= 0], zero-sized types included), [len] = length of the argument,
    [slice_ok w sz len] := 1 <= w /\ 0 <= sz /\ 0 <= len < 2^w /\ len * sz <= isize::MAX
    (what Rust guarantees of every existing slice), [usize_ok w i] := 0 <= i < 2^w.
    The model functions ([Model/Slice.v]) return [Ok result], [UB] (an unsafe precondition
    would be violated) or [Panic]; "= Ok (...)" therefore also says: no UB, no panic.

    NOT YET PROVED: nothing planned for C02 in DESIGN section 4 is missing.  Outside the
    theorems by nature (covered only by the correspondence run): that the hand-written model
    follows the Rust text; that the two instantiations of the macros
    (as_ptr/from_raw_parts vs as_mut_ptr/from_raw_parts_mut) behave alike is a property of
    the model's shape ([C02_mut_same_view] holds by computation) and is tied to the code by
    the harness observing every _mut function through the returned &mut. *)
From KV Require Import Base.Prelude Model.Slice Spec.Slice Proofs.SliceProofs.

(* ---------------- the hypotheses are satisfiable *)

Example C02_hyp_u16 : slice_ok 64 2 8.
Proof. exact slice_ok_u16. Qed.
Example C02_hyp_zst_max_len : slice_ok 64 0 (2 ^ 64 - 1).
Proof. exact slice_ok_zst_max. Qed.
Example C02_hyp_width_1 : slice_ok 1 0 1.
Proof. exact slice_ok_w1. Qed.

(* ---------------- machine arithmetic used by the model *)

Theorem C02_wrap_is_mod : forall w x, 0 <= w -> wrap w x = x mod 2 ^ w.
Proof. exact wrap_mod. Qed.
Print Assumptions C02_wrap_is_mod.

Theorem C02_overflowing_sub : forall w a b,
  0 <= w -> 0 <= a < 2 ^ w -> 0 <= b < 2 ^ w ->
  overflowing_sub w a b = if b <=? a then (a - b, false) else (a - b + 2 ^ w, true).
Proof. exact overflowing_sub_spec. Qed.
Print Assumptions C02_overflowing_sub.

(** the obligation of every [from_raw_parts(ptr.offset(o as isize), n)] site is met whenever
    the run [o, o+n) lies inside the argument, for every element size incl. 0 ... *)
Theorem C02_raw_parts_sound : forall m w sz len o n,
  slice_ok w sz len -> 0 <= o -> 0 <= n -> o + n <= len ->
  raw_parts m w sz len o n = Ok (V o n).
Proof. exact raw_parts_ok. Qed.
Print Assumptions C02_raw_parts_sound.

(** ... and the model does report UB outside it (the UB outcome is not vacuous) *)
Theorem C02_raw_parts_ub : forall m w sz len o n,
  len < o + n -> raw_parts m w sz len o n = UB.
Proof. exact raw_parts_ub. Qed.
Print Assumptions C02_raw_parts_ub.

(* ---------------- fallible getters = std's get *)

Theorem C02_get_eq_std : forall m len i, get_m m len i = Ok (std_get len i).
Proof. exact get_eq_std. Qed.
Print Assumptions C02_get_eq_std.

Theorem C02_get_from_eq_std : forall m w sz len,
  slice_ok w sz len -> forall s, usize_ok w s ->
  get_from_m m w sz len s = Ok (std_get_from len s).
Proof. exact get_from_eq_std. Qed.
Print Assumptions C02_get_from_eq_std.

Theorem C02_get_up_to_eq_std : forall m w sz len,
  slice_ok w sz len -> forall e, usize_ok w e ->
  get_up_to_m m w sz len e = Ok (std_get_up_to len e).
Proof. exact get_up_to_eq_std. Qed.
Print Assumptions C02_get_up_to_eq_std.

(** all [s, e < 2^w], [s > e] included *)
Theorem C02_get_range_eq_std : forall m w sz len s e,
  slice_ok w sz len -> usize_ok w s -> usize_ok w e ->
  get_range_m m w sz len s e = Ok (std_get_range len s e).
Proof. exact get_range_eq_std. Qed.
Print Assumptions C02_get_range_eq_std.

(* ---------------- clamping variants: std's sub-slice when it exists, else the documented one *)

Theorem C02_slice_from_clamped : forall m w sz len,
  slice_ok w sz len -> forall s, usize_ok w s ->
  slice_from_m m w sz len s = Ok (clamped_from len s).
Proof. exact slice_from_clamped. Qed.
Print Assumptions C02_slice_from_clamped.

Theorem C02_slice_up_to_clamped : forall m w sz len,
  slice_ok w sz len -> forall e, usize_ok w e ->
  slice_up_to_m m w sz len e = Ok (clamped_up_to len e).
Proof. exact slice_up_to_clamped. Qed.
Print Assumptions C02_slice_up_to_clamped.

Theorem C02_slice_range_clamped : forall m w sz len s e,
  slice_ok w sz len -> usize_ok w s -> usize_ok w e ->
  slice_range_m m w sz len s e = Ok (clamped_range len s e).
Proof. exact slice_range_clamped. Qed.
Print Assumptions C02_slice_range_clamped.

(** the closed form of DESIGN section 4 (up to which empty slice is returned) *)
Theorem C02_clamped_range_closed_form : forall len s e, 0 <= len -> 0 <= s -> 0 <= e ->
  view_eqv (clamped_range len s e)
           (V (Z.min s (Z.min e len)) (Z.max 0 (Z.min e len - s))).
Proof. exact clamped_range_closed_form. Qed.
Print Assumptions C02_clamped_range_closed_form.

(** "the clamping variants return that same sub-slice when it exists" *)
Theorem C02_clamped_agree_with_std : forall len s e,
  (forall v, std_get_from len s = Some v -> clamped_from len s = v) /\
  (forall v, std_get_up_to len e = Some v -> clamped_up_to len e = v) /\
  (forall v, std_get_range len s e = Some v -> clamped_range len s e = v) /\
  (forall p, std_split_at len s = Some p -> clamped_split_at len s = p).
Proof. exact clamped_agree_with_std. Qed.
Print Assumptions C02_clamped_agree_with_std.

Theorem C02_split_at_total : forall w sz len a,
  slice_ok w sz len -> usize_ok w a ->
  split_at_m w sz len a = Ok (clamped_split_at len a).
Proof. exact split_at_total. Qed.
Print Assumptions C02_split_at_total.

(* ---------------- _mut twins address the same elements *)

Theorem C02_split_at_mut_total : forall w sz len a,
  slice_ok w sz len -> usize_ok w a ->
  split_at_mut_m w sz len a = Ok (clamped_split_at len a).
Proof. exact split_at_mut_total. Qed.
Print Assumptions C02_split_at_mut_total.

(** split_at_mut has its own control flow; it returns what split_at returns *)
Theorem C02_split_at_mut_same : forall w sz len a,
  slice_ok w sz len -> usize_ok w a -> split_at_mut_m w sz len a = split_at_m w sz len a.
Proof. exact split_at_mut_same. Qed.
Print Assumptions C02_split_at_mut_same.

Theorem C02_mut_same_view : forall w sz len i j,
  get_m Mut len i = get_m Shared len i /\
  slice_from_m Mut w sz len i = slice_from_m Shared w sz len i /\
  slice_up_to_m Mut w sz len i = slice_up_to_m Shared w sz len i /\
  get_from_m Mut w sz len i = get_from_m Shared w sz len i /\
  get_up_to_m Mut w sz len i = get_up_to_m Shared w sz len i /\
  slice_range_m Mut w sz len i j = slice_range_m Shared w sz len i j /\
  get_range_m Mut w sz len i j = get_range_m Shared w sz len i j /\
  try_into_array_m Mut w sz len i = try_into_array_m Shared w sz len i.
Proof. exact mut_same_view. Qed.
Print Assumptions C02_mut_same_view.

Theorem C02_ends_eq_std : forall len,
  first_mut_m len = std_first len /\ last_mut_m len = std_last len /\
  split_first_mut_m len = std_split_first len /\ split_last_mut_m len = std_split_last len.
Proof. exact ends_eq_std. Qed.
Print Assumptions C02_ends_eq_std.

(* ---------------- slice -> array, slice -> chunks *)

Theorem C02_try_into_array_eq_std : forall m w sz len N, 0 <= len ->
  try_into_array_m m w sz len N = Ok (std_try_into_array len N).
Proof. exact try_into_array_eq_std. Qed.
Print Assumptions C02_try_into_array_eq_std.

Theorem C02_try_into_array_iff : forall m w sz len N, 0 <= len ->
  (exists v, try_into_array_m m w sz len N = Ok (Some v)) <-> len = N.
Proof. exact try_into_array_iff. Qed.
Print Assumptions C02_try_into_array_iff.

Theorem C02_as_chunks_eq_std : forall w sz len N,
  slice_ok w sz len -> 1 <= N ->
  as_chunks_m w sz len N = Ok (C 0 (len / N), V (len / N * N) (len mod N)).
Proof. exact as_chunks_eq_std. Qed.
Print Assumptions C02_as_chunks_eq_std.

Theorem C02_as_rchunks_eq_std : forall w sz len N,
  slice_ok w sz len -> 1 <= N ->
  as_rchunks_m w sz len N = Ok (V 0 (len mod N), C (len mod N) (len / N)).
Proof. exact as_rchunks_eq_std. Qed.
Print Assumptions C02_as_rchunks_eq_std.

Theorem C02_as_chunks_zero_panics : forall w sz len,
  as_chunks_m w sz len 0 = Panic /\ as_rchunks_m w sz len 0 = Panic.
Proof. exact as_chunks_zero. Qed.
Print Assumptions C02_as_chunks_zero_panics.

(* ---------------- no UB, no panic, results inside the argument (reused by C01) *)

Theorem C02_slice_ops_in_bounds : forall m w sz len i j,
  slice_ok w sz len -> usize_ok w i -> usize_ok w j ->
  ok_inside len (slice_from_m m w sz len i) /\
  ok_inside len (slice_up_to_m m w sz len i) /\
  ok_inside len (slice_range_m m w sz len i j) /\
  ok_inside_opt len (get_from_m m w sz len i) /\
  ok_inside_opt len (get_up_to_m m w sz len i) /\
  ok_inside_opt len (get_range_m m w sz len i j) /\
  ok_inside2 len (split_at_m w sz len i) /\
  ok_inside2 len (split_at_mut_m w sz len i).
Proof. exact slice_ops_in_bounds. Qed.
Print Assumptions C02_slice_ops_in_bounds.

Theorem C02_chunk_ops_in_bounds : forall w sz len N,
  slice_ok w sz len -> 1 <= N ->
  (exists c r, as_chunks_m w sz len N = Ok (c, r) /\ chunks_inside len N c /\ view_inside len r) /\
  (exists r c, as_rchunks_m w sz len N = Ok (r, c) /\ chunks_inside len N c /\ view_inside len r).
Proof. exact chunk_ops_in_bounds. Qed.
Print Assumptions C02_chunk_ops_in_bounds.

(* ---------------- what the views mean on lists *)

(** [sub l v] = the elements a view denotes; a range view is [&l[s..e]] *)
Theorem C02_view_is_range : forall (A : Type) (l : list A) s e,
  sub l (V s (e - s)) = firstn (Z.to_nat (e - s)) (skipn (Z.to_nat s) l).
Proof. exact @sub_range. Qed.
Print Assumptions C02_view_is_range.

Theorem C02_view_eqv_same_elements : forall (A : Type) (l : list A) a b,
  view_eqv a b -> sub l a = sub l b.
Proof. exact @view_eqv_sub. Qed.
Print Assumptions C02_view_eqv_same_elements.

Theorem C02_split_at_is_std : forall (A : Type) (l : list A) a, 0 <= a <= zlen l ->
  let '(p, q) := clamped_split_at (zlen l) a in
  sub l p = firstn (Z.to_nat a) l /\ sub l q = skipn (Z.to_nat a) l.
Proof. exact @split_at_list. Qed.
Print Assumptions C02_split_at_is_std.

(** for every [at] (clamped or not) the two halves concatenate to the whole slice *)
Theorem C02_split_at_concat : forall (A : Type) (l : list A) a, 0 <= a ->
  let '(p, q) := clamped_split_at (zlen l) a in sub l p ++ sub l q = l.
Proof. exact @split_at_concat. Qed.
Print Assumptions C02_split_at_concat.

(** as_chunks: arrays and remainder tile the slice in order; the remainder is shorter than N *)
Theorem C02_as_chunks_tiles : forall len N, 0 <= len -> 1 <= N ->
  let '(c, r) := std_as_chunks len N in
  coff c = 0 /\ off r = ccount c * N /\ off r + vlen r = len /\ 0 <= vlen r < N /\ 0 <= ccount c.
Proof. exact std_as_chunks_tiles. Qed.
Print Assumptions C02_as_chunks_tiles.

Theorem C02_as_rchunks_tiles : forall len N, 0 <= len -> 1 <= N ->
  let '(r, c) := std_as_rchunks len N in
  off r = 0 /\ coff c = vlen r /\ coff c + ccount c * N = len /\ 0 <= vlen r < N /\ 0 <= ccount c.
Proof. exact std_as_rchunks_tiles. Qed.
Print Assumptions C02_as_rchunks_tiles.

Theorem C02_as_chunks_concat : forall (A : Type) (l : list A) N, 1 <= N ->
  let '(c, r) := std_as_chunks (zlen l) N in sub l (chunks_flat N c) ++ sub l r = l.
Proof. exact @as_chunks_concat. Qed.
Print Assumptions C02_as_chunks_concat.

Theorem C02_as_rchunks_concat : forall (A : Type) (l : list A) N, 1 <= N ->
  let '(r, c) := std_as_rchunks (zlen l) N in sub l r ++ sub l (chunks_flat N c) = l.
Proof. exact @as_rchunks_concat. Qed.
Print Assumptions C02_as_rchunks_concat.
Print Assumptions C02_hyp_u16.
Print Assumptions C02_hyp_zst_max_len.
Print Assumptions C02_hyp_width_1.
