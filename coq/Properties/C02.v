(** C02 (placeholder while the correspondence is being set up) *)
From KV Require Import Model.Slice.
