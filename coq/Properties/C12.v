(** C12 — placeholder while the proofs are being written. *)
From KV Require Import Base.Prelude Model.ParseInt Spec.ParseInt.
Theorem C12_smoke : parse_whole_m 8 true [45; 49; 50; 56] = Some (-128).
Proof. vm_compute. reflexivity. Qed.
Print Assumptions C12_smoke.
