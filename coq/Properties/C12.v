(** C12 — integer / bool parsing accepts std's language and returns the same value.
    Statements only; every proof is [exact <lemma>].

    All integer statements hold for EVERY string and EVERY width [w >= 4] (the unsigned twin
    must be able to hold one digit), signed and unsigned: the twelve types are instances.
    The model ([Model/ParseInt.v]) is tied to /repo by the correspondence run; [std_parse] is
    tied to the real [str::parse] by the family [c12.stdspec] of the same run.

    NOT YET PROVED: nothing of the plan of DESIGN section 4 is missing.  (Out of scope here,
    by design: the full [Parser] record with its [u32] [start_offset] and the other parse
    directions — property C13; only the start-direction frame that [parse_*] uses is
    modelled, with an unbounded offset.) *)
From KV Require Import Base.Prelude Model.ParseInt Spec.ParseInt Proofs.ParseIntProofs.

(** Prefix parsing = the number denoted by the LONGEST prefix [-?[0-9]+] ('-' only for signed
    types) together with the unconsumed rest, and an error iff there is no digit or the
    number is not a value of the type.  [prefix_spec] computes in unbounded [Z]. *)
Theorem C12_parse_prefix_correct : forall w, 4 <= w -> forall sg s,
  parse_int_m w sg s =
    match prefix_spec w sg s with
    | Parsed v rest => POk (v, rest)
    | Failed => PErr ParseInteger
    end.
Proof. exact parse_int_m_spec. Qed.

(** ... the same without any function on the right-hand side: success with [(v, rest)]
    exactly when the input is [sign ++ digits ++ rest], digits non-empty, [rest] not
    starting with a digit, and the denoted number in range. *)
Theorem C12_parse_prefix_ok_iff : forall w, 4 <= w -> forall sg s v rest,
  parse_int_m w sg s = POk (v, rest) <->
  exists (neg : bool) ds,
    s = (if neg then [45] else []) ++ ds ++ rest /\
    (neg = true -> sg = true) /\
    ds <> [] /\ Forall digit ds /\ no_leading_digit rest /\
    v = signed_val neg ds /\ in_range w sg v = true.
Proof. exact parse_int_m_ok_iff. Qed.

Theorem C12_parse_prefix_err_iff : forall w, 4 <= w -> forall sg s,
  (exists k, parse_int_m w sg s = PErr k) <->
  match longest_numeric_prefix sg s with
  | None => True
  | Some (neg, ds, _) => in_range w sg (signed_val neg ds) = false
  end.
Proof. exact parse_int_m_err_iff. Qed.

(** Through the Parser: success removes a non-empty prefix and advances the offset by its
    length; a failed parse reports the position the parser was at — nothing is consumed. *)
Theorem C12_parse_err_consumes_nothing : forall w, 4 <= w -> forall sg so s,
  match parser_parse_int w sg (so, s) with
  | FOk v (so', s') =>
      exists consumed, s = consumed ++ s' /\ consumed <> [] /\ so' = so + zlen consumed /\
                       parse_int_m w sg s = POk (v, s')
  | FErr k off => k = ParseInteger /\ off = so /\ parse_int_m w sg s = PErr ParseInteger
  end.
Proof. exact parser_parse_int_frame. Qed.

(** Whole-string parsing = [str::parse] on every string that does not start with '+' ... *)
Theorem C12_parse_whole_eq_std : forall w, 4 <= w -> forall sg s,
  hd_error s <> Some 43 -> parse_whole_m w sg s = std_parse w sg s.
Proof. exact parse_whole_eq_std. Qed.

(** ... and rejects every string that does (std accepts "+5"). *)
Theorem C12_plus_rejected : forall w, 4 <= w -> forall sg r,
  parse_int_m w sg (43 :: r) = PErr ParseInteger /\ parse_whole_m w sg (43 :: r) = None.
Proof. exact plus_rejected. Qed.

(** [std_parse] is the language [[+-]?[0-9]+] with the range check, stated as a relation *)
Theorem C12_std_parse_is_the_grammar : forall w sg s v,
  std_parse w sg s = Some v <-> std_accepts w sg s v.
Proof. exact std_parse_iff_accepts. Qed.

(** Values: any digit string (leading zeros included) parses to the number it denotes iff
    that number is a value of the type; likewise after '-' for signed types; unsigned types
    reject '-' altogether. *)
Theorem C12_parse_whole_digits : forall w, 4 <= w -> forall sg ds,
  ds <> [] -> Forall digit ds ->
  parse_whole_m w sg ds = (if in_range w sg (digits_val ds) then Some (digits_val ds) else None).
Proof. exact parse_whole_digits. Qed.

Theorem C12_parse_whole_minus_digits : forall w, 4 <= w -> forall ds,
  ds <> [] -> Forall digit ds ->
  parse_whole_m w true (45 :: ds) =
    (if in_range w true (- digits_val ds) then Some (- digits_val ds) else None).
Proof. exact parse_whole_minus_digits. Qed.

Theorem C12_unsigned_rejects_minus : forall w, 4 <= w -> forall r,
  parse_whole_m w false (45 :: r) = None.
Proof. exact unsigned_rejects_minus. Qed.

(** The asymmetric end of the signed range: [-2^(w-1)] is accepted (however many leading
    zeros), [2^(w-1)] is rejected, anything below the minimum is rejected, [-0 = 0]. *)
Theorem C12_signed_min_ok : forall w, 4 <= w -> forall ds,
  ds <> [] -> Forall digit ds -> digits_val ds = 2 ^ (w - 1) ->
  parse_whole_m w true (45 :: ds) = Some (- 2 ^ (w - 1)) /\ parse_whole_m w true ds = None.
Proof. exact signed_min_ok. Qed.

Theorem C12_signed_below_min_rejected : forall w, 4 <= w -> forall ds,
  ds <> [] -> Forall digit ds -> 2 ^ (w - 1) < digits_val ds ->
  parse_whole_m w true (45 :: ds) = None.
Proof. exact signed_below_min_rejected. Qed.

Theorem C12_minus_zero : forall w, 4 <= w -> forall ds,
  ds <> [] -> Forall digit ds -> digits_val ds = 0 -> parse_whole_m w true (45 :: ds) = Some 0.
Proof. exact minus_zero. Qed.

(** the hypotheses are satisfiable: "-0128" for i8 *)
Example C12_signed_min_example :
  let ds := [48; 49; 50; 56] in
  ds <> [] /\ Forall digit ds /\ digits_val ds = 2 ^ (8 - 1) /\
  parse_whole_m 8 true (45 :: ds) = Some (-128) /\ parse_whole_m 8 true ds = None.
Proof.
  cbv zeta. split; [discriminate|]. split; [repeat constructor; unfold digit; lia|].
  split; [reflexivity|]. split; vm_compute; reflexivity.
Qed.

(** "Returns the same value", over the whole of every type: every integer [v], printed in
    decimal ([show_int], whose output denotes [v] by [C12_dec_denotes]), parses back to [v]
    when [v] is a value of the type and is rejected otherwise — for all widths at once. *)
Theorem C12_dec_denotes : forall n, 0 <= n ->
  dec n <> [] /\ Forall digit (dec n) /\ digits_val (dec n) = n.
Proof. exact dec_spec. Qed.

Theorem C12_print_parse_roundtrip : forall w, 4 <= w -> forall sg v,
  parse_whole_m w sg (show_int v) = (if in_range w sg v then Some v else None).
Proof. exact parse_show_int. Qed.

Example C12_show_int_example :
  show_int (-128) = [45; 49; 50; 56] /\ show_int 0 = [48] /\ show_int 65535 = [54; 53; 53; 51; 53].
Proof. vm_compute. repeat split. Qed.

(** the width bound is needed: in a 3-bit type the digit 9 itself wraps *)
Theorem C12_width_bound_needed :
  parse_whole_m 3 false [57] = Some 1 /\ std_parse 3 false [57] = None.
Proof. exact width_bound_needed. Qed.

(** bool: prefix parsing accepts exactly the strings starting with "true" / "false",
    whole-string parsing is [str::parse::<bool>], errors consume nothing. *)
Theorem C12_parse_bool_prefix : forall s b rest,
  parse_bool_m s = POk (b, rest) <-> s = (if b then str_true else str_false) ++ rest.
Proof. exact parse_bool_m_ok_iff. Qed.

Theorem C12_parse_bool_err_iff : forall s,
  (exists k, parse_bool_m s = PErr k) <->
  (forall r, s <> str_true ++ r) /\ (forall r, s <> str_false ++ r).
Proof. exact parse_bool_m_err_iff. Qed.

Theorem C12_parse_bool_eq_std : forall s, parse_bool_whole_m s = std_parse_bool s.
Proof. exact parse_bool_whole_eq_std. Qed.

Theorem C12_parse_bool_frame : forall so s,
  match parser_parse_bool (so, s) with
  | FOk b (so', s') =>
      s = (if b then str_true else str_false) ++ s' /\ so' = so + (if b then 4 else 5)
  | FErr k off => k = ParseBool /\ off = so
  end.
Proof. exact parser_parse_bool_frame. Qed.

Print Assumptions C12_parse_prefix_correct.
Print Assumptions C12_parse_prefix_ok_iff.
Print Assumptions C12_parse_prefix_err_iff.
Print Assumptions C12_parse_err_consumes_nothing.
Print Assumptions C12_parse_whole_eq_std.
Print Assumptions C12_plus_rejected.
Print Assumptions C12_std_parse_is_the_grammar.
Print Assumptions C12_parse_whole_digits.
Print Assumptions C12_parse_whole_minus_digits.
Print Assumptions C12_unsigned_rejects_minus.
Print Assumptions C12_signed_min_ok.
Print Assumptions C12_signed_below_min_rejected.
Print Assumptions C12_minus_zero.
Print Assumptions C12_dec_denotes.
Print Assumptions C12_print_parse_roundtrip.
Print Assumptions C12_width_bound_needed.
Print Assumptions C12_parse_bool_prefix.
Print Assumptions C12_parse_bool_err_iff.
Print Assumptions C12_parse_bool_eq_std.
Print Assumptions C12_parse_bool_frame.
Print Assumptions C12_signed_min_example.
Print Assumptions C12_show_int_example.
