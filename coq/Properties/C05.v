(** C05 — prefix/suffix tests, stripping and trimming agree with std.
    Statements only; every proof is [exact <lemma>]. *)
From KV Require Import Base.Prelude Model.Search Spec.Search Proofs.SearchProofs.

Theorem C05_strip_prefix : forall h p r, strip_prefix_m h p = Some r <-> h = p ++ r.
Proof. exact strip_prefix_m_spec. Qed.

Print Assumptions C05_strip_prefix.
