(** C05 — prefix/suffix tests, stripping and trimming agree with std.
    Statements only; every proof is [exact <lemma>].

    Models: Model/Search.v ([strip_prefix_m], [strip_suffix_m], [starts_with_m],
    [ends_with_m] = impl_bytes_function! and its four users) and Model/Trim.v (the
    two-level trimming loops with the at_start rollback, [matches_space!], the
    whitespace trims).  The pattern trims return [option]: [None] means the model's
    loop fuel ran out, and [C05_trim_*_total] prove that this never happens.

    NOT YET PROVED: nothing of the plan in DESIGN.md section 4 (C05) is missing.
    (Outside that plan and not stated here: that the results are valid UTF-8 when the
    arguments are -- that is property C01; and the identification of a [char] pattern
    with its UTF-8 encoding, which is the glue's [encode_m], validated by C07.) *)
From KV Require Import Base.Prelude Model.Search Model.Trim Spec.Search Spec.Trim
  Proofs.SearchProofs Proofs.TrimProofs.
Local Open Scope nat_scope.

(* ------------------------------------------------------------ strip / starts / ends *)

(** [strip_prefix] succeeds exactly when the pattern is a prefix, and returns the rest *)
Theorem C05_strip_prefix : forall h p r, strip_prefix_m h p = Some r <-> h = p ++ r.
Proof. exact strip_prefix_m_spec. Qed.
Theorem C05_strip_prefix_none : forall h p, strip_prefix_m h p = None <-> ~ is_prefix p h.
Proof. exact strip_prefix_m_none. Qed.
(** ... as a function: the result is the suffix view starting at [|p|] *)
Theorem C05_strip_prefix_eq : forall h p,
  strip_prefix_m h p = if prefixb p h then Some (skipn (length p) h) else None.
Proof. exact strip_prefix_eq. Qed.

Theorem C05_strip_suffix : forall h p r, strip_suffix_m h p = Some r <-> h = r ++ p.
Proof. exact strip_suffix_m_spec. Qed.
Theorem C05_strip_suffix_none : forall h p, strip_suffix_m h p = None <-> ~ is_suffix p h.
Proof. exact strip_suffix_m_none. Qed.
Theorem C05_strip_suffix_eq : forall h p,
  strip_suffix_m h p = if suffixb p h then Some (firstn (length h - length p) h) else None.
Proof. exact strip_suffix_eq. Qed.

Theorem C05_starts_with : forall h p, starts_with_m h p = true <-> is_prefix p h.
Proof. exact starts_with_m_spec. Qed.
Theorem C05_ends_with : forall h p, ends_with_m h p = true <-> is_suffix p h.
Proof. exact ends_with_m_spec. Qed.
Theorem C05_starts_with_eq : forall h p, starts_with_m h p = prefixb p h.
Proof. exact starts_with_eq. Qed.
Theorem C05_ends_with_eq : forall h p, ends_with_m h p = suffixb p h.
Proof. exact ends_with_eq. Qed.
(** the boolean tests of the specification mean what their names say *)
Theorem C05_prefixb_spec : forall p h, prefixb p h = true <-> is_prefix p h.
Proof. exact prefixb_spec. Qed.
Theorem C05_suffixb_spec : forall p h, suffixb p h = true <-> is_suffix p h.
Proof. exact suffixb_spec. Qed.

(* ------------------------------------------------------------ pattern trimming *)

(** the loops terminate within the model's fuel, for every input and pattern *)
Theorem C05_trim_start_matches_total : forall h p, exists r, trim_start_matches_m h p = Some r.
Proof. exact trim_start_matches_total. Qed.
Theorem C05_trim_end_matches_total : forall h p, exists r, trim_end_matches_m h p = Some r.
Proof. exact trim_end_matches_total. Qed.
Theorem C05_trim_matches_total : forall h p, exists r, trim_matches_m h p = Some r.
Proof. exact trim_matches_total. Qed.

(** exactly the maximal run of WHOLE repetitions is removed: [h = p^k ++ r] and [r] does not
    start with [p] (a partial trailing repetition is kept: the at_start rollback) *)
Theorem C05_trim_start_matches : forall h p r, p <> [] ->
  (trim_start_matches_m h p = Some r <-> trim_start_spec h p r).
Proof. exact trim_start_matches_correct. Qed.
Theorem C05_trim_end_matches : forall h p r, p <> [] ->
  (trim_end_matches_m h p = Some r <-> trim_end_spec h p r).
Proof. exact trim_end_matches_correct. Qed.
(** both ends: the start is trimmed first, then the end of what is left *)
Theorem C05_trim_matches : forall h p r, p <> [] ->
  (trim_matches_m h p = Some r <-> exists m, trim_start_spec h p m /\ trim_end_spec m p r).
Proof. exact trim_matches_correct. Qed.
Theorem C05_trim_matches_shape : forall h p r, p <> [] -> trim_matches_m h p = Some r ->
  exists j k, h = reps p j ++ r ++ reps p k /\ ~ is_suffix p r /\ ~ is_prefix p (r ++ reps p k).
Proof. exact trim_matches_shape. Qed.

(** the specifications are functional: they name ONE result *)
Theorem C05_trim_start_spec_unique : forall h p r1 r2,
  trim_start_spec h p r1 -> trim_start_spec h p r2 -> r1 = r2.
Proof. exact trim_start_spec_unique. Qed.
Theorem C05_trim_end_spec_unique : forall h p r1 r2,
  trim_end_spec h p r1 -> trim_end_spec h p r2 -> r1 = r2.
Proof. exact trim_end_spec_unique. Qed.

(** an empty pattern removes nothing *)
Theorem C05_trim_start_matches_empty : forall h, trim_start_matches_m h [] = Some h.
Proof. exact trim_start_matches_empty. Qed.
Theorem C05_trim_end_matches_empty : forall h, trim_end_matches_m h [] = Some h.
Proof. exact trim_end_matches_empty. Qed.
Theorem C05_trim_matches_empty : forall h, trim_matches_m h [] = Some h.
Proof. exact trim_matches_empty. Qed.

(** the hypotheses are satisfiable and the rollback is visible: "ababa" / "ab" keeps the
    trailing "a"; "abab" / "aba" removes one repetition and keeps "b" *)
Example C05_trim_example :
  trim_start_matches_m [97; 98; 97; 98; 97]%Z [97; 98]%Z = Some [97%Z] /\
  trim_end_matches_m [97; 98; 97; 98; 97]%Z [98; 97]%Z = Some [97%Z] /\
  trim_start_matches_m [97; 98; 97; 98]%Z [97; 98; 97]%Z = Some [98%Z] /\
  trim_matches_m [97; 98; 97; 98; 97]%Z [97; 98; 97]%Z = Some [98; 97]%Z.
Proof. repeat split. Qed.

(* ------------------------------------------------------------ whitespace trimming *)

(** [matches_space!] is [u8::is_ascii_whitespace] *)
Theorem C05_matches_space : forall b, matches_space b = true <-> ascii_ws b.
Proof. exact matches_space_iff. Qed.

(** [bytes_trim_start] = [trim_ascii_start]: the removed prefix is all whitespace, what is
    left does not begin with whitespace *)
Theorem C05_bytes_trim_start : forall s r, bytes_trim_start_m s = r <-> trim_ascii_start_spec s r.
Proof. exact bytes_trim_start_correct. Qed.
Theorem C05_bytes_trim_end : forall s r, bytes_trim_end_m s = r <-> trim_ascii_end_spec s r.
Proof. exact bytes_trim_end_correct. Qed.
Theorem C05_bytes_trim : forall s r, bytes_trim_m s = r <-> trim_ascii_spec s r.
Proof. exact bytes_trim_correct. Qed.

(** ... and as functions *)
Theorem C05_bytes_trim_start_eq : forall s, bytes_trim_start_m s = drop_while ascii_wsb s.
Proof. exact bytes_trim_start_eq. Qed.
Theorem C05_bytes_trim_end_eq : forall s,
  bytes_trim_end_m s = rev (drop_while ascii_wsb (rev s)).
Proof. exact bytes_trim_end_eq. Qed.
Theorem C05_bytes_trim_eq : forall s,
  bytes_trim_m s = drop_while ascii_wsb (rev (drop_while ascii_wsb (rev s))).
Proof. exact bytes_trim_eq. Qed.

(** konst trims the end first, std the start first: same bytes *)
Theorem C05_bytes_trim_commutes : forall s,
  bytes_trim_m s = bytes_trim_end_m (bytes_trim_start_m s).
Proof. exact bytes_trim_commutes. Qed.

(** regression witness of finding F2 (the byte set used before the repair) *)
Theorem C05_ws_set_refuted :
  exists s, bytes_trim_start_old s <> drop_while ascii_wsb s /\
            bytes_trim_start_m s = drop_while ascii_wsb s.
Proof. exact ws_set_refuted. Qed.

Print Assumptions C05_strip_prefix.
Print Assumptions C05_strip_prefix_none.
Print Assumptions C05_strip_prefix_eq.
Print Assumptions C05_strip_suffix.
Print Assumptions C05_strip_suffix_none.
Print Assumptions C05_strip_suffix_eq.
Print Assumptions C05_starts_with.
Print Assumptions C05_ends_with.
Print Assumptions C05_starts_with_eq.
Print Assumptions C05_ends_with_eq.
Print Assumptions C05_prefixb_spec.
Print Assumptions C05_suffixb_spec.
Print Assumptions C05_trim_start_matches_total.
Print Assumptions C05_trim_end_matches_total.
Print Assumptions C05_trim_matches_total.
Print Assumptions C05_trim_start_matches.
Print Assumptions C05_trim_end_matches.
Print Assumptions C05_trim_matches.
Print Assumptions C05_trim_matches_shape.
Print Assumptions C05_trim_start_spec_unique.
Print Assumptions C05_trim_end_spec_unique.
Print Assumptions C05_trim_start_matches_empty.
Print Assumptions C05_trim_end_matches_empty.
Print Assumptions C05_trim_matches_empty.
Print Assumptions C05_matches_space.
Print Assumptions C05_bytes_trim_start.
Print Assumptions C05_bytes_trim_end.
Print Assumptions C05_bytes_trim.
Print Assumptions C05_bytes_trim_start_eq.
Print Assumptions C05_bytes_trim_end_eq.
Print Assumptions C05_bytes_trim_eq.
Print Assumptions C05_bytes_trim_commutes.
Print Assumptions C05_ws_set_refuted.
Print Assumptions C05_trim_example.
