(** C14 — Parser operations transform the remainder exactly like the string functions.
    Statements only.

    parse_* operations are included: [free_fn] of [OParseInt]/[OParseBool] is the prefix parser of
    Model/ParseInt.v (proved equal to std's grammar in C12). *)
From KV Require Import Base.Prelude Model.Search Spec.Search Spec.Split Model.Parser Proofs.ParserProofs.

(** strip / trim / trim-matches / find-skip / split-once: the operation leaves the remainder
    the free function computes from the previous remainder and succeeds exactly when the
    function finds something; an error carries no parser ([remainder_of] = None) *)
Theorem C14_op_remainder_eq : forall p o,
  has_free_fn o = true ->
  (match o with OSplitTerminator _ | ORSplitTerminator _ => p_yls p = false /\ p_str p <> [] | _ => True end) ->
  remainder_of (step p o) = free_fn o (p_str p).
Proof. exact op_remainder_eq. Qed.

(** repeating split / rsplit with a non-empty delimiter yields exactly str::split's
    (str::rsplit's) pieces followed by a split-exhausted error *)
Theorem C14_split_protocol : forall d, d <> [] -> forall s ps, split_rel d s ps ->
  forall p, p_str p = s -> p_yls p = false ->
  map event_of (run_ops p (repeat (OSplit d) (length ps + 1))) = map EvPiece ps ++ [EvErr ESplitExhausted].
Proof. exact split_protocol. Qed.
Theorem C14_rsplit_protocol : forall d, d <> [] -> forall s ps, rsplit_rel d s ps ->
  forall p, p_str p = s -> p_yls p = false ->
  map event_of (run_ops p (repeat (ORSplit d) (length ps + 1))) = map EvPiece ps ++ [EvErr ESplitExhausted].
Proof. exact rsplit_protocol. Qed.

(** split_terminator / rsplit_terminator yield each piece that is followed (preceded) by a
    delimiter and then fail: SplitExhausted if the input ended (began) with the delimiter,
    DelimiterNotFound otherwise *)
Theorem C14_split_terminator_protocol : forall d, d <> [] -> forall s ps, split_rel d s ps ->
  forall p n, p_str p = s -> p_yls p = false -> (length ps <= n)%nat ->
  map event_of (run_ops p (repeat (OSplitTerminator d) n)) = term_events ps.
Proof. exact split_terminator_protocol. Qed.
Theorem C14_rsplit_terminator_protocol : forall d, d <> [] -> forall s ps, rsplit_rel d s ps ->
  forall p n, p_str p = s -> p_yls p = false -> (length ps <= n)%nat ->
  map event_of (run_ops p (repeat (ORSplitTerminator d) n)) = term_events ps.
Proof. exact rsplit_terminator_protocol. Qed.

(** interleaving with other operations cannot disturb the protocols: only the split family
    touches yielded_last_split *)
Theorem C14_flag_only_set_by_split : forall p o v q,
  is_split_op o = false -> step p o = POk v q -> p_yls q = p_yls p.
Proof. exact flag_only_set_by_split. Qed.

Print Assumptions C14_op_remainder_eq.
Print Assumptions C14_split_protocol.
Print Assumptions C14_rsplit_protocol.
Print Assumptions C14_split_terminator_protocol.
Print Assumptions C14_rsplit_terminator_protocol.
Print Assumptions C14_flag_only_set_by_split.
