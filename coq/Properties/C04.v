(** C04 — pattern search finds the same first / last occurrence as std.
    Statements only; every proof is [exact <lemma>].

    Pattern kinds: a [&str] / [&[u8]] pattern is its bytes (the needle [n] below); a [char]
    pattern is searched as the bytes [encode_m c] that konst's [encode_utf8] writes, and
    [C04_char_pattern] / [C04_char_pattern_rfind] show that this is the search for the UTF-8
    encoding [Spec.Utf8.encode c] of the char (by C07's [encode_eq_std]), a non-empty needle,
    so all the theorems with hypothesis [n <> []] apply to it.

    NOT YET PROVED: nothing for the byte-level search; for char patterns the derived
    operations (find_skip/keep, split_once, ..) are not restated per kind - they follow from
    the generic theorems with [n := encode_m c] and [C04_char_pattern]'s last conjunct. *)
From KV Require Import Base.Prelude Model.Utf8 Model.Search Spec.Search Proofs.SearchProofs
  Proofs.SearchCharProofs.
Local Open Scope nat_scope.

(** forward search reports the LOWEST offset at which the needle occurs ... *)
Theorem C04_find_first : forall h n z,
  find_m h n = Some z <-> exists i, z = Z.of_nat i /\ first_occ h n i.
Proof. exact find_m_some. Qed.
(** ... and absence only when the needle does not occur *)
Theorem C04_find_absent : forall h n, find_m h n = None <-> no_occ h n.
Proof. exact find_m_none. Qed.
Theorem C04_find_empty_pattern : forall h, find_m h [] = Some 0%Z.
Proof. exact find_m_empty. Qed.

(** reverse search reports the HIGHEST offset (non-empty needles) *)
Theorem C04_rfind_last : forall h n z, n <> [] ->
  (rfind_m h n = Some z <-> exists i, z = Z.of_nat i /\ last_occ h n i).
Proof. exact rfind_m_some. Qed.
Theorem C04_rfind_absent : forall h n, n <> [] -> (rfind_m h n = None <-> no_occ h n).
Proof. exact rfind_m_none. Qed.

(** derived operations are consistent with that offset *)
Theorem C04_contains : forall h n, contains_m h n = true <-> exists i, occ h n i.
Proof. exact contains_m_iff. Qed.
Theorem C04_rcontains : forall h n, n <> [] -> (rcontains_m h n = true <-> exists i, occ h n i).
Proof. exact rcontains_m_iff. Qed.

Theorem C04_find_skip : forall h n r, n <> [] ->
  (find_skip_m h n = Some r <-> exists i, first_occ h n i /\ r = skipn (i + length n) h).
Proof. exact find_skip_m_some. Qed.
Theorem C04_find_keep : forall h n r, n <> [] ->
  (find_keep_m h n = Some r <-> exists i, first_occ h n i /\ r = skipn i h).
Proof. exact find_keep_m_some. Qed.
Theorem C04_rfind_skip : forall h n r, n <> [] ->
  (rfind_skip_m h n = Some r <-> exists i, last_occ h n i /\ r = firstn i h).
Proof. exact rfind_skip_m_some. Qed.
Theorem C04_rfind_keep : forall h n r, n <> [] ->
  (rfind_keep_m h n = Some r <-> exists i, last_occ h n i /\ r = firstn (i + length n) h).
Proof. exact rfind_keep_m_some. Qed.
Theorem C04_find_skip_absent : forall h n, n <> [] -> (find_skip_m h n = None <-> no_occ h n).
Proof. exact find_skip_m_none. Qed.
Theorem C04_find_keep_absent : forall h n, n <> [] -> (find_keep_m h n = None <-> no_occ h n).
Proof. exact find_keep_m_none. Qed.
Theorem C04_rfind_skip_absent : forall h n, n <> [] -> (rfind_skip_m h n = None <-> no_occ h n).
Proof. exact rfind_skip_m_none. Qed.
Theorem C04_rfind_keep_absent : forall h n, n <> [] -> (rfind_keep_m h n = None <-> no_occ h n).
Proof. exact rfind_keep_m_none. Qed.
Theorem C04_find_then_empty_pattern : forall h,
  find_skip_m h [] = Some h /\ find_keep_m h [] = Some h /\
  rfind_skip_m h [] = Some h /\ rfind_keep_m h [] = Some h.
Proof. exact find_then_empty. Qed.

Theorem C04_split_once : forall h n a b, n <> [] ->
  (split_once_m h n = Some (a, b) <->
   exists i, first_occ h n i /\ a = firstn i h /\ b = skipn (i + length n) h).
Proof. exact split_once_m_some. Qed.
Theorem C04_rsplit_once : forall h n a b, n <> [] ->
  (rsplit_once_m h n = Some (a, b) <->
   exists i, last_occ h n i /\ a = firstn i h /\ b = skipn (i + length n) h).
Proof. exact rsplit_once_m_some. Qed.
Theorem C04_split_once_absent : forall h n, n <> [] -> (split_once_m h n = None <-> no_occ h n).
Proof. exact split_once_m_none. Qed.
Theorem C04_rsplit_once_absent : forall h n, n <> [] -> (rsplit_once_m h n = None <-> no_occ h n).
Proof. exact rsplit_once_m_none. Qed.

(** char patterns: searching for a char is searching for its UTF-8 encoding, for every
    Unicode scalar value (= every Rust [char]) *)
Theorem C04_char_pattern : forall c, is_scalar c -> forall h,
  (forall z, find_m h (encode_m c) = Some z <->
             exists i, z = Z.of_nat i /\ first_occ h (KV.Spec.Utf8.encode c) i) /\
  (find_m h (encode_m c) = None <-> no_occ h (KV.Spec.Utf8.encode c)) /\
  encode_m c <> [].
Proof. exact char_pattern_find. Qed.
Theorem C04_char_pattern_rfind : forall c, is_scalar c -> forall h,
  (forall z, rfind_m h (encode_m c) = Some z <->
             exists i, z = Z.of_nat i /\ last_occ h (KV.Spec.Utf8.encode c) i) /\
  (rfind_m h (encode_m c) = None <-> no_occ h (KV.Spec.Utf8.encode c)).
Proof. exact char_pattern_rfind. Qed.
(** the hypothesis is satisfiable and the statement computes ('e'-acute in "a" ++ that) *)
Theorem C04_char_pattern_example :
  (is_scalar 233 /\ find_m [97; 195; 169] (encode_m 233) = Some 1 /\
   KV.Spec.Utf8.encode 233 = [195; 169])%Z.
Proof. exact char_pattern_example. Qed.

(** regression witness of finding F1 (the matcher used before the repair) *)
Theorem C04_heuristic_refuted :
  exists h n, heuristic_find h n = None /\ find_m h n = Some 1%Z /\ occ h n 1.
Proof. exact heuristic_find_refuted. Qed.

Print Assumptions C04_find_first.
Print Assumptions C04_find_absent.
Print Assumptions C04_find_empty_pattern.
Print Assumptions C04_rfind_last.
Print Assumptions C04_rfind_absent.
Print Assumptions C04_contains.
Print Assumptions C04_rcontains.
Print Assumptions C04_find_skip.
Print Assumptions C04_find_keep.
Print Assumptions C04_rfind_skip.
Print Assumptions C04_rfind_keep.
Print Assumptions C04_find_skip_absent.
Print Assumptions C04_find_keep_absent.
Print Assumptions C04_rfind_skip_absent.
Print Assumptions C04_rfind_keep_absent.
Print Assumptions C04_find_then_empty_pattern.
Print Assumptions C04_split_once.
Print Assumptions C04_rsplit_once.
Print Assumptions C04_split_once_absent.
Print Assumptions C04_rsplit_once_absent.
Print Assumptions C04_char_pattern.
Print Assumptions C04_char_pattern_rfind.
Print Assumptions C04_char_pattern_example.
Print Assumptions C04_heuristic_refuted.
