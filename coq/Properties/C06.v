(** C06 — string split iterators yield exactly the pieces std's split family yields.
    Statements only.

    Non-empty delimiters (arbitrary byte strings, hence every &str / char delimiter) and the
    EMPTY delimiter (on valid UTF-8: an empty piece, one piece per character [segs], a final
    empty piece) are proved below for every input.  That the re-slicing indices are char
    boundaries (so str_up_to / str_from cannot panic) is C01_find_offset_is_boundary. *)
From KV Require Import Base.Prelude Model.Search Spec.Search Model.Split Spec.Split Proofs.SplitProofs.
From KV Require Import Spec.Utf8 Proofs.SplitEmptyProofs Proofs.SplitRevProofs Proofs.SplitDequeProofs.
From KV Require Base.Deque Proofs.RevAnywhereProofs.
Local Open Scope nat_scope.

(** [split]: running [next] to exhaustion ends within [split_fuel] steps and yields the
    leftmost-occurrence pieces *)
Theorem C06_split_exhaust : forall h d, d <> [] ->
  exists ps, collect split_next (split_fuel h) (split_init h d) = Some ps /\ split_rel d h ps.
Proof. exact split_exhaust. Qed.

(** [rsplit] = [split(..).rev()] = the next_back block: rightmost-occurrence pieces *)
Theorem C06_rsplit_exhaust : forall h d, d <> [] ->
  exists ps, collect split_next_back (split_fuel h) (split_init h d) = Some ps /\ rsplit_rel d h ps.
Proof. exact rsplit_exhaust. Qed.

(** [split_terminator]: split's pieces minus a final empty piece *)
Theorem C06_split_terminator_exhaust : forall h d ps, d <> [] -> split_rel d h ps ->
  collect term_next (split_fuel h) (term_init h d) = Some (drop_last_empty ps).
Proof. exact split_terminator_exhaust. Qed.

(** [rsplit_terminator] (mirrored rule): rsplit's pieces minus the empty piece that
    precedes a leading delimiter *)
Theorem C06_rsplit_terminator_exhaust : forall h d ps, d <> [] -> rsplit_rel d h ps ->
  collect rterm_next (split_fuel h) (term_init h d) = Some (drop_last_empty ps).
Proof. exact rsplit_terminator_exhaust. Qed.

(** the spec relations determine the pieces, and the pieces re-join to the input *)
Theorem C06_split_rel_functional : forall d h ps1 ps2, split_rel d h ps1 -> split_rel d h ps2 -> ps1 = ps2.
Proof. exact split_rel_functional. Qed.
Theorem C06_rsplit_rel_functional : forall d h ps1 ps2, rsplit_rel d h ps1 -> rsplit_rel d h ps2 -> ps1 = ps2.
Proof. exact rsplit_rel_functional. Qed.
Theorem C06_split_rel_join : forall d h ps, split_rel d h ps -> join d ps = h.
Proof. exact split_rel_join. Qed.
Theorem C06_rsplit_rel_join : forall d h ps, rsplit_rel d h ps -> join d (rev ps) = h.
Proof. exact rsplit_rel_join. Qed.

(** at every step the remainder is the not-yet-split part of the input *)
Theorem C06_split_remainder : forall d, d <> [] -> forall k h ps s,
  steps split_next k (mk_split h (SNormal d)) = Some (ps, s) ->
  (s_state s = SNormal d /\ h = concat (map (fun p => p ++ d) ps) ++ s_this s) \/
  (s_state s = SFinished /\ s_this s = [] /\ join d ps = h).
Proof. exact split_remainder. Qed.
Theorem C06_rsplit_remainder : forall d, d <> [] -> forall k h ps s,
  steps split_next_back k (mk_split h (SNormal d)) = Some (ps, s) ->
  (s_state s = SNormal d /\ h = s_this s ++ concat (map (fun p => d ++ p) (rev ps))) \/
  (s_state s = SFinished /\ s_this s = [] /\ join d (rev ps) = h).
Proof. exact rsplit_remainder. Qed.

(** reversing a split iterator AT ANY POINT of its iteration: after k steps from the front the
    reversed iterator (next_back to exhaustion) yields exactly rsplit's pieces of the
    not-yet-split remainder, and nothing once the iteration has finished; dually for rsplit *)
Theorem C06_split_rev_after_steps : forall d, d <> [] -> forall k h ps s,
  steps split_next k (split_init h d) = Some (ps, s) ->
  exists qs, collect split_next_back (split_fuel (s_this s)) s = Some qs /\
    ((s_state s = SNormal d /\ h = concat (map (fun p => p ++ d) ps) ++ s_this s /\ rsplit_rel d (s_this s) qs) \/
     (s_state s = SFinished /\ join d ps = h /\ qs = [])).
Proof. exact split_rev_after_steps. Qed.
Theorem C06_rsplit_rev_after_steps : forall d, d <> [] -> forall k h ps s,
  steps split_next_back k (split_init h d) = Some (ps, s) ->
  exists qs, collect split_next (split_fuel (s_this s)) s = Some qs /\
    ((s_state s = SNormal d /\ h = s_this s ++ concat (map (fun p => d ++ p) (rev ps)) /\ split_rel d (s_this s) qs) \/
     (s_state s = SFinished /\ join d (rev ps) = h /\ qs = [])).
Proof. exact rsplit_rev_after_steps. Qed.

(** BEYOND the property's letter (it constrains exhaustion from one end and reversal): for a
    delimiter whose occurrences cannot overlap — no proper border; every delimiter whose first
    element does not occur again in it, hence every one-character delimiter in UTF-8 — split's
    pieces reversed ARE rsplit's pieces, and a Split iterator refines a deque of pieces under
    EVERY interleaving of front and back steps (std's Split<char> is double-ended for the same
    reason).  For delimiters with a border the two decompositions differ ("aaa" / "aa"), in std
    as well. *)
Theorem C06_unbordered_head_not_in_tail : forall c r, ~ In c r -> unbordered (c :: r).
Proof. exact unbordered_head_not_in_tail. Qed.
Theorem C06_split_rev_is_rsplit : forall d, unbordered d -> forall h ps,
  split_rel d h ps -> rsplit_rel d h (rev ps).
Proof. exact split_rev_is_rsplit. Qed.
Theorem C06_rsplit_rev_is_split : forall d, unbordered d -> forall h qs,
  rsplit_rel d h qs -> split_rel d h (rev qs).
Proof. exact rsplit_rev_is_split. Qed.
Theorem C06_pieces_rel : forall d h, d <> [] -> split_rel d h (pieces d h).
Proof. exact pieces_rel. Qed.
Theorem C06_split_refines_deque : forall d, unbordered d -> forall hist h,
  Deque.run _ _ (fun s => to_opt (split_next s)) (fun s => to_opt (split_next_back s)) hist (split_init h d)
  = Deque.deque_run hist (pieces d h).
Proof. exact split_refines_deque. Qed.
Theorem C06_split_rev_anywhere_deque : forall d, unbordered d -> forall h1 h2 h,
  Deque.run _ _ (fun s => to_opt (split_next_back s)) (fun s => to_opt (split_next s)) h2
      (RevAnywhereProofs.state_after _ _ (fun s => to_opt (split_next s)) (fun s => to_opt (split_next_back s)) h1 (split_init h d))
  = Deque.deque_run h2 (rev (RevAnywhereProofs.deque_rest h1 (pieces d h))).
Proof. exact RevAnywhereProofs.split_rev_anywhere_deque. Qed.
(** the hypothesis is satisfiable: "é" (C3 A9), a 4-byte character, and the history F B F on
    "a,b,c" / "," pops a, c, b *)
Example C06_unbordered_examples : unbordered [195; 169]%Z /\ unbordered [240; 159; 167; 160]%Z /\
  Deque.deque_run [Deque.Front; Deque.Back; Deque.Front; Deque.Front] (pieces [44]%Z [97; 44; 98; 44; 99]%Z)
  = [Some [97]%Z; Some [99]%Z; Some [98]%Z; None].
Proof.
  split; [|split].
  - apply unbordered_head_not_in_tail. cbn. intros [H|[]]; discriminate.
  - apply unbordered_head_not_in_tail. cbn. intros [H|[H|[H|[]]]]; discriminate.
  - vm_compute. reflexivity.
Qed.

(** the empty delimiter: std yields "", every char, "" (split), the same backwards (rsplit),
    and without the final "" for the terminator forms; [segs h = Some es] says h is valid UTF-8
    with characters es *)
Theorem C06_split_empty_exhaust : forall h es, segs h = Some es ->
  collect split_next (split_fuel h) (split_init h []) = Some ([] :: es ++ [[]]).
Proof. exact split_empty_exhaust. Qed.
Theorem C06_rsplit_empty_exhaust : forall h es, segs h = Some es ->
  collect split_next_back (split_fuel h) (split_init h []) = Some ([] :: rev es ++ [[]]).
Proof. exact rsplit_empty_exhaust. Qed.
Theorem C06_split_terminator_empty_exhaust : forall h es, segs h = Some es ->
  collect term_next (split_fuel h) (term_init h []) = Some ([] :: es).
Proof. exact split_terminator_empty_exhaust. Qed.
Theorem C06_rsplit_terminator_empty_exhaust : forall h es, segs h = Some es ->
  collect rterm_next (split_fuel h) (term_init h []) = Some ([] :: rev es).
Proof. exact rsplit_terminator_empty_exhaust. Qed.

Print Assumptions C06_split_empty_exhaust.
Print Assumptions C06_rsplit_empty_exhaust.
Print Assumptions C06_split_terminator_empty_exhaust.
Print Assumptions C06_rsplit_terminator_empty_exhaust.
Print Assumptions C06_split_exhaust.
Print Assumptions C06_rsplit_exhaust.
Print Assumptions C06_split_terminator_exhaust.
Print Assumptions C06_rsplit_terminator_exhaust.
Print Assumptions C06_split_rel_functional.
Print Assumptions C06_rsplit_rel_functional.
Print Assumptions C06_split_rel_join.
Print Assumptions C06_rsplit_rel_join.
Print Assumptions C06_split_remainder.
Print Assumptions C06_rsplit_remainder.
Print Assumptions C06_split_rev_after_steps.
Print Assumptions C06_rsplit_rev_after_steps.
Print Assumptions C06_unbordered_head_not_in_tail.
Print Assumptions C06_split_rev_is_rsplit.
Print Assumptions C06_rsplit_rev_is_split.
Print Assumptions C06_pieces_rel.
Print Assumptions C06_split_refines_deque.
Print Assumptions C06_unbordered_examples.
Print Assumptions C06_split_rev_anywhere_deque.
