From KV Require Import Base.Prelude Model.Ledger.
Theorem C15_tmp : b_as_slice (b_new 0) = Some [].
Proof. reflexivity. Qed.
Print Assumptions C15_tmp.
