(** C15 — by-value array and aggregate APIs move out every element exactly once.
    Statements only; every proof is [exact <lemma>].

    Partial by nature (DESIGN section 7): that [ptr::read] / [assume_init_read] transfer
    ownership and that [ManuallyDrop] / [mem::forget] suppress the implicit drop are Rust
    semantics the ledger model assumes; the drop ledger of the real types is compared with
    the model on every run.

    Proved since the first version (Proofs/LedgerHistoryProofs.v), formerly listed here as
    NOT YET PROVED:
    - the multi-object history theorem, in full generality (any number of consumers,
      builders and clones of either, incl. a panicking T::clone, any op sequence of
      Ledger.run from any well-formed table, ending in drop_all): C15_history_* below.
      The ledger has no event for a push and none for mem::forget of a whole object, so the
      statement names both by replaying the history: [pushed w0 ops] are the identities
      created by pushes, [leaked w0 ops] those owned by an object at the moment an explicit
      OForget is applied to it.  Exactly-once is: (Hand/Drop identities ++ leaked) is a
      permutation of (initial ++ pushed ++ cloned), which has no duplicates; without
      OForget nothing is leaked.
    - map_by_val on the non-completing paths: C15_map_by_val_accounting,
      C15_map_by_val_leak_only_after_break, C15_map_by_val_inputs_exactly_once.
      The same for from_fn_! (inputs not in the ledger): C15_from_fn_by_val_accounting.
    NOT YET PROVED: nothing that this file states; what stays outside any Coq statement is
    the "partial by nature" part above. *)
From Coq Require Import Permutation.
From KV Require Import Base.Prelude Model.Ledger Model.Destructure
  Proofs.LedgerProofs Proofs.DestructureProofs Proofs.LedgerHistoryProofs.
Local Open Scope nat_scope.

(** consumer_inv: the invariant "exactly the slots [taken_front, N - taken_back) are live"
    ([c_rep]) holds initially and is preserved by next / next_back, which are never UB *)
Theorem C15_consumer_inv_new : forall ids, c_rep (c_new ids) ids.
Proof. exact c_new_rep. Qed.
Theorem C15_consumer_inv_empty : forall N, c_rep (c_empty N) [].
Proof. exact c_empty_rep. Qed.
Theorem C15_consumer_next : forall c x r, c_rep c (x :: r) ->
  exists c', c_next c = Some (Some x, c') /\ c_rep c' r /\ c_cap c' = c_cap c.
Proof. exact c_next_rep_cons. Qed.
Theorem C15_consumer_next_exhausted : forall c, c_rep c [] -> c_next c = Some (None, c).
Proof. exact c_next_rep_nil. Qed.
Theorem C15_consumer_next_back : forall c r x, c_rep c (r ++ [x]) ->
  exists c', c_next_back c = Some (Some x, c') /\ c_rep c' r /\ c_cap c' = c_cap c.
Proof. exact c_next_back_rep_snoc. Qed.
Theorem C15_consumer_next_back_exhausted : forall c, c_rep c [] -> c_next_back c = Some (None, c).
Proof. exact c_next_back_rep_nil. Qed.
Theorem C15_consumer_as_slice : forall c live, c_rep c live -> c_as_slice c = Some live.
Proof. exact c_as_slice_rep. Qed.
Theorem C15_consumer_drop : forall c live, c_rep c live -> c_drop c = Some (map Drop live).
Proof. exact c_drop_rep. Qed.

(** consumer_exactly_once: for EVERY history of front/back takes followed by the drop of the
    consumer, the elements are partitioned: the front takes are a prefix of the original
    order, the back takes the reversed suffix, the drop destroys exactly the middle, in
    order; hence every element is handed over or dropped exactly once, none twice, none
    missing, and values arrive in their original order. No step is UB. *)
Theorem C15_consumer_exactly_once : forall h c live, c_rep c live ->
  exists fs bs c' mid,
    c_takes c h = Some (fs, bs, c') /\ c_rep c' mid /\ c_cap c' = c_cap c /\
    live = fs ++ mid ++ rev bs /\
    c_drop c' = Some (map Drop mid).
Proof. exact consumer_takes_partition. Qed.
Example C15_consumer_exactly_once_satisfiable :
  c_takes (c_new [1; 2; 3; 4]%Z) [Fr; Bk; Bk; Fr; Fr] =
  Some ([1; 2]%Z, [4; 3]%Z, mkC (repeat Moved 4) 2 2).
Proof. reflexivity. Qed.

(** builder_exactly_once: pushes are kept in order; [build] hands all of them over when
    full, otherwise (and on drop) exactly the pushed elements are dropped, in order *)
Theorem C15_builder_pushes : forall xs b live, b_rep b live -> length live + length xs <= b_cap b ->
  exists b', b_pushes b xs = (b', false) /\ b_rep b' (live ++ xs) /\ b_cap b' = b_cap b.
Proof. exact b_pushes_rep. Qed.
Theorem C15_builder_build : forall b live, b_rep b live ->
  b_build b = if length live =? b_cap b then Some (Some live) else Some None.
Proof. exact b_build_rep. Qed.
Theorem C15_builder_drop : forall b live, b_rep b live -> b_drop b = Some (map Drop live).
Proof. exact b_drop_rep. Qed.
Theorem C15_builder_overfull_push : forall b live x, b_rep b live -> length live = b_cap b ->
  b_push b x = (b, true).
Proof. exact b_push_rep_full. Qed.

(** map_by_val_exactly_once (completing path): every input is handed to the closure exactly
    once, in order; the outputs are handed to the caller in order; nothing is dropped or
    leaked; and on every path: no UB, no divergence, `return` leaks nothing *)
Theorem C15_map_by_val_completed : forall clo ids,
  match map_by_val clo ids with
  | (r, ev, leak) =>
      r <> MUB /\ r <> MDiverged /\ (r = MReturned -> leak = []) /\
      (forall l, r = MBuilt l ->
         vals_from clo 0 ids l /\ length l = length ids /\ leak = [] /\
         ev = map Hand ids ++ map Hand l)
  end.
Proof. exact map_by_val_built. Qed.

(** history (multi-object): [world_ok] — every object of the table satisfies its
    representation invariant, no identity is owned twice, every owned identity is below the
    fresh-identity counter — holds of the initial tables, is preserved by EVERY op on any
    object (consumer, builder, clone of either; clone with or without a panicking
    T::clone), and no op is UB.  [step_post] is the per-step accounting:
      owned before + created by the step = handed/dropped by the step + owned after + leaked,
      created by the step = its clone identities + its push identity,
      its clone identities are fresh, and the sources of its clones are owned by the table. *)
Theorem C15_history_initial_consumer : forall ids n,
  NoDup ids -> (forall i, In i ids -> (i < n)%Z) -> world_ok (mkW [OC (c_new ids)] n).
Proof. exact world_ok_consumer. Qed.
Theorem C15_history_initial_empty_consumer : forall N n, world_ok (mkW [OC (c_empty N)] n).
Proof. exact world_ok_empty_consumer. Qed.
Theorem C15_history_initial_builder : forall N n, world_ok (mkW [OB (b_new N)] n).
Proof. exact world_ok_builder. Qed.
Theorem C15_history_step_invariant : forall w o, world_ok w ->
  match step w o with
  | StepUB => False
  | StepInvalid => True
  | StepOk w' _ ev => world_ok w' /\ step_post w o w' ev
  end.
Proof. exact step_preserves. Qed.

(** no history reads a moved-out or unwritten slot; the final drop of everything that is
    still alive destroys exactly what the table owns *)
Theorem C15_history_no_ub : forall ops w0, world_ok w0 ->
  run w0 ops <> RunUB /\
  forall w os, run w0 ops = RunOk w os ->
    world_ok w /\ drop_all (w_objs w) = Some (map Drop (world_ids w)).
Proof. exact history_no_ub. Qed.

(** history_exactly_once: for every op sequence over the whole table that ends in dropping
    everything, the identities ever created — initial, pushed, cloned — are pairwise
    distinct, and the Hand/Drop events (plus what an explicit forget of an object leaked)
    are a permutation of them: each occurs exactly once, nothing else occurs *)
Theorem C15_history_created_distinct : forall w0 w ops os fin,
  world_ok w0 -> run w0 ops = RunOk w os -> drop_all (w_objs w) = Some fin ->
  NoDup (world_ids w0 ++ pushed w0 ops ++ cloned (all_events os fin)).
Proof. exact history_created_distinct. Qed.
Theorem C15_history_exactly_once : forall w0 w ops os fin,
  world_ok w0 -> run w0 ops = RunOk w os -> drop_all (w_objs w) = Some fin ->
  Permutation (accounted (all_events os fin) ++ leaked w0 ops)
              (world_ids w0 ++ pushed w0 ops ++ cloned (all_events os fin)).
Proof. exact history_exactly_once. Qed.
Theorem C15_history_exactly_once_count : forall w0 w ops os fin,
  world_ok w0 -> run w0 ops = RunOk w os -> drop_all (w_objs w) = Some fin ->
  forall i,
    (In i (world_ids w0 ++ pushed w0 ops ++ cloned (all_events os fin)) ->
       occ (accounted (all_events os fin)) i + occ (leaked w0 ops) i = 1) /\
    (~ In i (world_ids w0 ++ pushed w0 ops ++ cloned (all_events os fin)) ->
       occ (accounted (all_events os fin)) i + occ (leaked w0 ops) i = 0).
Proof. exact history_exactly_once_count. Qed.
Theorem C15_history_exactly_once_no_forget : forall w0 w ops os fin,
  world_ok w0 -> run w0 ops = RunOk w os -> drop_all (w_objs w) = Some fin ->
  (forall k, ~ In (OForget k) ops) ->
  leaked w0 ops = [] /\ NoDup (accounted (all_events os fin)) /\
  Permutation (accounted (all_events os fin))
              (world_ids w0 ++ pushed w0 ops ++ cloned (all_events os fin)).
Proof. exact history_exactly_once_no_forget. Qed.

(** clone_ids_fresh: the identity a T::clone returns was taken from the counter, is none of
    the initial or pushed identities, and was not handed over, dropped or returned by
    another clone earlier (or later) in the history *)
Theorem C15_history_clone_ids_fresh : forall w0 w ops os fin,
  world_ok w0 -> run w0 ops = RunOk w os -> drop_all (w_objs w) = Some fin ->
  forall pre s n post, all_events os fin = pre ++ Cl s n :: post ->
    (w_next w0 <= n < w_next w)%Z /\
    ~ In n (world_ids w0) /\ ~ In n (pushed w0 ops) /\
    ~ In n (accounted pre) /\ ~ In n (cloned pre) /\ ~ In n (cloned post).
Proof. exact history_clone_ids_fresh. Qed.

(** clone_sources_live: the element a T::clone is called on is an identity created earlier
    in the history (initial, pushed, or returned by an earlier clone) that has not been
    handed over or dropped before the call, and it differs from the identity returned *)
Theorem C15_history_clone_sources_live : forall w0 w ops os fin,
  world_ok w0 -> run w0 ops = RunOk w os -> drop_all (w_objs w) = Some fin ->
  forall pre s n post, all_events os fin = pre ++ Cl s n :: post ->
    In s (world_ids w0 ++ pushed w0 ops ++ cloned pre) /\ ~ In s (accounted pre) /\ (s < n)%Z.
Proof. exact history_clone_sources_live. Qed.

(** the hypotheses are satisfiable: a consumer, its clone, and a clone of the clone whose
    second T::clone panics (the first cloned identity, 6, is dropped by the unwinding) *)
Example C15_history_satisfiable :
  let w0 := mkW [OC (c_new [1; 2; 3]%Z)] 4 in
  let ops := [ONext 0; OClone 0 None; OClone 1 (Some 1); ONextBack 1; ODrop 0] in
  world_ok w0 /\
  exists w os, run w0 ops = RunOk w os /\
    option_map (all_events os) (drop_all (w_objs w)) =
      Some [Hand 1; Cl 2 4; Cl 3 5; Cl 4 6; Drop 6; Hand 5; Drop 2; Drop 3; Drop 4]%Z.
Proof.
  split.
  - apply world_ok_consumer.
    + repeat constructor; cbn; intuition discriminate.
    + cbn. intros i H. intuition lia.
  - eexists. eexists. split; reflexivity.
Qed.

(** map_by_val on EVERY path (completing, break, continue, return, panic), for every
    closure behaviour and input: no clone events; the leak list is exactly [leak_of]
    (the elements after the one on which the body executed break; empty otherwise); a
    non-empty leak comes with the panic of build; and, counted with multiplicity, every
    input identity and every value the body produced is handed over or dropped exactly once
    or is in the leak list *)
Theorem C15_map_by_val_accounting : forall clo ids,
  match map_by_val clo ids with
  | (r, ev, leak) =>
      cloned ev = [] /\ leak = leak_of clo 0 ids /\ (leak <> [] -> r = MPanicked) /\
      forall i, occ (accounted ev) i + occ leak i = occ ids i + occ (produced clo 0 ids) i
  end.
Proof. exact map_by_val_accounting. Qed.
Theorem C15_map_by_val_exactly_once : forall clo ids,
  match map_by_val clo ids with
  | (r, ev, leak) => Permutation (accounted ev ++ leak) (ids ++ produced clo 0 ids)
  end.
Proof. exact map_by_val_exactly_once. Qed.
Theorem C15_map_by_val_leak_only_after_break : forall clo ids,
  match map_by_val clo ids with
  | (r, ev, leak) =>
      is_suffix leak ids /\
      (leak <> [] ->
         r = MPanicked /\
         exists pre x, ids = pre ++ x :: leak /\ passes clo 0 pre /\ clo (length pre) x = OBreak)
  end.
Proof. exact map_by_val_leak_only_after_break. Qed.
Theorem C15_map_by_val_inputs_exactly_once : forall clo ids,
  NoDup ids -> (forall i, In i (produced clo 0 ids) -> ~ In i ids) ->
  match map_by_val clo ids with
  | (r, ev, leak) =>
      forall i, In i ids ->
        (~ In i leak /\ occ (accounted ev) i = 1) \/ (In i leak /\ ~ In i (accounted ev))
  end.
Proof. exact map_by_val_inputs_exactly_once. Qed.
(** from_fn_! on every path: exactly the values the body produced are handed over (when the
    array is built) or dropped (when the loop was left early), each once *)
Theorem C15_from_fn_by_val_accounting : forall clo N,
  match from_fn_by_val clo N with
  | (r, ev, _) =>
      cloned ev = [] /\
      Permutation (accounted ev) (produced (fun k _ => clo k (Z.of_nat k)) 0 (repeat 0%Z N))
  end.
Proof. exact from_fn_by_val_accounting. Qed.
Example C15_map_by_val_break_satisfiable :
  map_by_val (fun k _ => match k with 0 => OValue 10%Z | 1 => OContinue | 2 => OBreak | _ => OPanic end)
             [1; 2; 3; 4; 5]%Z
  = (MPanicked, [Hand 1; Drop 2; Drop 3; Drop 10]%Z, [4; 5]%Z).
Proof. reflexivity. Qed.

(** destructure_exactly_once: every identity of the destructured value is either dropped by
    the statement or owned by exactly one new variable, as often as it occurs in the value;
    the scope end drops exactly what the variables own *)
Theorem C15_destructure_exactly_once : forall kind vals pats r,
  destructure_m kind vals pats = Some r ->
  forall i, cnt (d_imm r) i + cnt (concat (d_bound r)) i = cnt (flat_map dids vals) i /\
            cnt (d_end r) i = cnt (concat (d_bound r)) i.
Proof. exact destructure_exactly_once. Qed.
Theorem C15_destructure_no_duplicates : forall kind vals pats r,
  destructure_m kind vals pats = Some r -> NoDup (flat_map dids vals) ->
  NoDup (d_imm r ++ concat (d_bound r)) /\ NoDup (d_imm r ++ d_end r).
Proof. exact destructure_no_duplicates. Qed.
Theorem C15_underscore_dropped_immediately : forall v, apply_pat PUnder v = Some ([], dids v).
Proof. exact underscore_dropped_immediately. Qed.
Theorem C15_bind_moves_whole_value : forall v, apply_pat PBind v = Some ([dids v], []).
Proof. exact bind_moves_whole_value. Qed.
Theorem C15_all_bind_in_order : forall vals arr,
  reads arr (repeat PBind (length vals)) vals = Some (map dids vals, []).
Proof. exact all_bind_in_order. Qed.

Print Assumptions C15_consumer_inv_new.
Print Assumptions C15_consumer_inv_empty.
Print Assumptions C15_consumer_next.
Print Assumptions C15_consumer_next_exhausted.
Print Assumptions C15_consumer_next_back.
Print Assumptions C15_consumer_next_back_exhausted.
Print Assumptions C15_consumer_as_slice.
Print Assumptions C15_consumer_drop.
Print Assumptions C15_consumer_exactly_once.
Print Assumptions C15_builder_pushes.
Print Assumptions C15_builder_build.
Print Assumptions C15_builder_drop.
Print Assumptions C15_builder_overfull_push.
Print Assumptions C15_map_by_val_completed.
Print Assumptions C15_history_initial_consumer.
Print Assumptions C15_history_initial_empty_consumer.
Print Assumptions C15_history_initial_builder.
Print Assumptions C15_history_step_invariant.
Print Assumptions C15_history_no_ub.
Print Assumptions C15_history_created_distinct.
Print Assumptions C15_history_exactly_once.
Print Assumptions C15_history_exactly_once_count.
Print Assumptions C15_history_exactly_once_no_forget.
Print Assumptions C15_history_clone_ids_fresh.
Print Assumptions C15_history_clone_sources_live.
Print Assumptions C15_history_satisfiable.
Print Assumptions C15_map_by_val_accounting.
Print Assumptions C15_map_by_val_exactly_once.
Print Assumptions C15_map_by_val_leak_only_after_break.
Print Assumptions C15_map_by_val_inputs_exactly_once.
Print Assumptions C15_from_fn_by_val_accounting.
Print Assumptions C15_map_by_val_break_satisfiable.
Print Assumptions C15_destructure_exactly_once.
Print Assumptions C15_destructure_no_duplicates.
Print Assumptions C15_underscore_dropped_immediately.
Print Assumptions C15_bind_moves_whole_value.
Print Assumptions C15_all_bind_in_order.
Print Assumptions C15_consumer_exactly_once_satisfiable.
