(** C15 — by-value array and aggregate APIs move out every element exactly once.
    Statements only; every proof is [exact <lemma>].

    Partial by nature (DESIGN section 7): that [ptr::read] / [assume_init_read] transfer
    ownership and that [ManuallyDrop] / [mem::forget] suppress the implicit drop are Rust
    semantics the ledger model assumes; the drop ledger of the real types is compared with
    the model on every run.

    NOT YET PROVED (stated here so that the gap is visible):
    - the multi-object history theorem: for every op sequence of Ledger.run over consumers,
      builders AND their clones (incl. a panicking T::clone) that ends in drop_all, every
      identity ever created (initial, pushed, cloned) occurs exactly once among Hand/Drop
      events, and clone ids are fresh.  Proved below: the single-consumer form (every
      front/back history followed by drop) and the builder forms (C11); clone
      (c_clone / b_clone) is covered by the correspondence run only.
    - map_by_val on the non-completing paths (break / continue / return / panic): the
      exact accounting "every input identity is handed or dropped exactly once unless it is
      in the leak list, which is non-empty only after break" is checked by the
      correspondence run (all outcome scripts up to length 5/6) but not proved; proved:
      no UB, no divergence, return does not leak, and the completing path. *)
From KV Require Import Base.Prelude Model.Ledger Model.Destructure
  Proofs.LedgerProofs Proofs.DestructureProofs.
Local Open Scope nat_scope.

(** consumer_inv: the invariant "exactly the slots [taken_front, N - taken_back) are live"
    ([c_rep]) holds initially and is preserved by next / next_back, which are never UB *)
Theorem C15_consumer_inv_new : forall ids, c_rep (c_new ids) ids.
Proof. exact c_new_rep. Qed.
Theorem C15_consumer_inv_empty : forall N, c_rep (c_empty N) [].
Proof. exact c_empty_rep. Qed.
Theorem C15_consumer_next : forall c x r, c_rep c (x :: r) ->
  exists c', c_next c = Some (Some x, c') /\ c_rep c' r /\ c_cap c' = c_cap c.
Proof. exact c_next_rep_cons. Qed.
Theorem C15_consumer_next_exhausted : forall c, c_rep c [] -> c_next c = Some (None, c).
Proof. exact c_next_rep_nil. Qed.
Theorem C15_consumer_next_back : forall c r x, c_rep c (r ++ [x]) ->
  exists c', c_next_back c = Some (Some x, c') /\ c_rep c' r /\ c_cap c' = c_cap c.
Proof. exact c_next_back_rep_snoc. Qed.
Theorem C15_consumer_next_back_exhausted : forall c, c_rep c [] -> c_next_back c = Some (None, c).
Proof. exact c_next_back_rep_nil. Qed.
Theorem C15_consumer_as_slice : forall c live, c_rep c live -> c_as_slice c = Some live.
Proof. exact c_as_slice_rep. Qed.
Theorem C15_consumer_drop : forall c live, c_rep c live -> c_drop c = Some (map Drop live).
Proof. exact c_drop_rep. Qed.

(** consumer_exactly_once: for EVERY history of front/back takes followed by the drop of the
    consumer, the elements are partitioned: the front takes are a prefix of the original
    order, the back takes the reversed suffix, the drop destroys exactly the middle, in
    order; hence every element is handed over or dropped exactly once, none twice, none
    missing, and values arrive in their original order. No step is UB. *)
Theorem C15_consumer_exactly_once : forall h c live, c_rep c live ->
  exists fs bs c' mid,
    c_takes c h = Some (fs, bs, c') /\ c_rep c' mid /\ c_cap c' = c_cap c /\
    live = fs ++ mid ++ rev bs /\
    c_drop c' = Some (map Drop mid).
Proof. exact consumer_takes_partition. Qed.
Example C15_consumer_exactly_once_satisfiable :
  c_takes (c_new [1; 2; 3; 4]%Z) [Fr; Bk; Bk; Fr; Fr] =
  Some ([1; 2]%Z, [4; 3]%Z, mkC (repeat Moved 4) 2 2).
Proof. reflexivity. Qed.

(** builder_exactly_once: pushes are kept in order; [build] hands all of them over when
    full, otherwise (and on drop) exactly the pushed elements are dropped, in order *)
Theorem C15_builder_pushes : forall xs b live, b_rep b live -> length live + length xs <= b_cap b ->
  exists b', b_pushes b xs = (b', false) /\ b_rep b' (live ++ xs) /\ b_cap b' = b_cap b.
Proof. exact b_pushes_rep. Qed.
Theorem C15_builder_build : forall b live, b_rep b live ->
  b_build b = if length live =? b_cap b then Some (Some live) else Some None.
Proof. exact b_build_rep. Qed.
Theorem C15_builder_drop : forall b live, b_rep b live -> b_drop b = Some (map Drop live).
Proof. exact b_drop_rep. Qed.
Theorem C15_builder_overfull_push : forall b live x, b_rep b live -> length live = b_cap b ->
  b_push b x = (b, true).
Proof. exact b_push_rep_full. Qed.

(** map_by_val_exactly_once (completing path): every input is handed to the closure exactly
    once, in order; the outputs are handed to the caller in order; nothing is dropped or
    leaked; and on every path: no UB, no divergence, `return` leaks nothing *)
Theorem C15_map_by_val_completed : forall clo ids,
  match map_by_val clo ids with
  | (r, ev, leak) =>
      r <> MUB /\ r <> MDiverged /\ (r = MReturned -> leak = []) /\
      (forall l, r = MBuilt l ->
         vals_from clo 0 ids l /\ length l = length ids /\ leak = [] /\
         ev = map Hand ids ++ map Hand l)
  end.
Proof. exact map_by_val_built. Qed.

(** destructure_exactly_once: every identity of the destructured value is either dropped by
    the statement or owned by exactly one new variable, as often as it occurs in the value;
    the scope end drops exactly what the variables own *)
Theorem C15_destructure_exactly_once : forall kind vals pats r,
  destructure_m kind vals pats = Some r ->
  forall i, cnt (d_imm r) i + cnt (concat (d_bound r)) i = cnt (flat_map dids vals) i /\
            cnt (d_end r) i = cnt (concat (d_bound r)) i.
Proof. exact destructure_exactly_once. Qed.
Theorem C15_destructure_no_duplicates : forall kind vals pats r,
  destructure_m kind vals pats = Some r -> NoDup (flat_map dids vals) ->
  NoDup (d_imm r ++ concat (d_bound r)) /\ NoDup (d_imm r ++ d_end r).
Proof. exact destructure_no_duplicates. Qed.
Theorem C15_underscore_dropped_immediately : forall v, apply_pat PUnder v = Some ([], dids v).
Proof. exact underscore_dropped_immediately. Qed.
Theorem C15_bind_moves_whole_value : forall v, apply_pat PBind v = Some ([dids v], []).
Proof. exact bind_moves_whole_value. Qed.
Theorem C15_all_bind_in_order : forall vals arr,
  reads arr (repeat PBind (length vals)) vals = Some (map dids vals, []).
Proof. exact all_bind_in_order. Qed.

Print Assumptions C15_consumer_inv_new.
Print Assumptions C15_consumer_inv_empty.
Print Assumptions C15_consumer_next.
Print Assumptions C15_consumer_next_exhausted.
Print Assumptions C15_consumer_next_back.
Print Assumptions C15_consumer_next_back_exhausted.
Print Assumptions C15_consumer_as_slice.
Print Assumptions C15_consumer_drop.
Print Assumptions C15_consumer_exactly_once.
Print Assumptions C15_builder_pushes.
Print Assumptions C15_builder_build.
Print Assumptions C15_builder_drop.
Print Assumptions C15_builder_overfull_push.
Print Assumptions C15_map_by_val_completed.
Print Assumptions C15_destructure_exactly_once.
Print Assumptions C15_destructure_no_duplicates.
Print Assumptions C15_underscore_dropped_immediately.
Print Assumptions C15_bind_moves_whole_value.
Print Assumptions C15_all_bind_in_order.
