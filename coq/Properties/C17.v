(** C17 — misused macros are rejected at compile time instead of compiling to unsound code.
    Statements only; every proof is [exact <lemma>] (Proofs/GuardsProofs.v).

    The model (Model/Guards.v) gives, for a macro invocation abstracted to the tokens the guards
    look at, the list of diagnostics its expansion produces; [] = the program compiles.
    (a) token-level guards are modelled as the macro_rules matching they are;
    (b) the type-level guards of destructure! are proved RELATIVE TO three stated behaviours of
        rustc (Section RustcOracle in the proofs file; hypotheses R1_exhaustive_patterns,
        R2_no_ref_coercion, R3_inherent_iff_drop — validated on every run by compiling the
        generated programs), and then closed with the concrete reading of those behaviours that
        the executable model uses.

    FINDING, kept as a theorem ([C17_empty_pattern_unguarded]): the empty patterns `P {}`, `P()`,
    `()`, `[]` expand to a plain `let`, without any guard: `destructure!{() = &()}` and
    `destructure!{F {} = f}` with `impl Drop for F` compile.  Harmless (nothing is moved out),
    but it contradicts the letter of the property; [C17_destructure_accepts_iff] is therefore
    stated for patterns with at least one element.

    NOT YET PROVED: nothing planned in DESIGN section 4 is missing.  Not modelled (outside the
    property's classes): malformed closures / two arguments to take, skip, zip, nth; duplicate
    field names; `x @ ..` inside tuple patterns. *)
From KV Require Import Base.Prelude Model.Guards Spec.Guards Proofs.GuardsProofs.
Import ListNotations.
Local Open Scope nat_scope.

(* ------------------------------------------------------------------ iterator DSL *)

(** for_each!/collect_const!/eval! expand without a diagnostic exactly when at most one method
    reverses, every method is supported at its position (adapters; in eval! then at most one
    consumer, last), argument-less methods are written `m()` and the others `m(<arguments>)` *)
Theorem C17_dsl_accepts_iff : forall p ms,
  dsl_expands p ms = [] <->
  reversing_count ms <= 1 /\ supported_at p ms /\ Forall args_ok ms.
Proof. exact dsl_accepts_iff. Qed.

Theorem C17_dsl_rejects_two_reversals : forall p ms,
  2 <= reversing_count ms -> dsl_expands p ms <> [].
Proof. exact dsl_rejects_two_reversals. Qed.
Theorem C17_dsl_rejects_unsupported : forall p ms a,
  In (Other, a) ms -> dsl_expands p ms <> [].
Proof. exact dsl_rejects_unsupported. Qed.
Theorem C17_dsl_rejects_bad_args : forall p ms x,
  In x ms -> ~ args_ok x -> dsl_expands p ms <> [].
Proof. exact dsl_rejects_bad_args. Qed.
Theorem C17_dsl_rejects_consumer_in_adapter_macro : forall p ms x,
  p <> PEval -> In x ms -> is_consumer (fst x) = true -> dsl_expands p ms <> [].
Proof. exact dsl_rejects_consumer_in_adapter_macro. Qed.

(** control_accepted: the offending element added to ANY accepted chain flips the verdict *)
Theorem C17_dsl_flip_second_reversal : forall p pre x post,
  dsl_expands p (pre ++ post) = [] -> reversing (fst x) = true -> 1 <= reversing_count (pre ++ post) ->
  dsl_expands p (pre ++ x :: post) <> [] /\ dsl_expands p (pre ++ post) = [].
Proof. exact dsl_flip_second_reversal. Qed.
Theorem C17_dsl_flip_unsupported : forall p pre a post,
  dsl_expands p (pre ++ post) = [] ->
  dsl_expands p (pre ++ (Other, a) :: post) <> [] /\ dsl_expands p (pre ++ post) = [].
Proof. exact dsl_flip_unsupported. Qed.
Theorem C17_dsl_flip_consumer_in_adapter_macro : forall p pre x post,
  p <> PEval -> dsl_expands p (pre ++ post) = [] -> is_consumer (fst x) = true ->
  dsl_expands p (pre ++ x :: post) <> [] /\ dsl_expands p (pre ++ post) = [].
Proof. exact dsl_flip_consumer_in_adapter_macro. Qed.
Theorem C17_dsl_flip_args : forall p pre m a a' post,
  dsl_expands p (pre ++ (m, a) :: post) = [] -> a' <> a ->
  dsl_expands p (pre ++ (m, a') :: post) <> [] /\ dsl_expands p (pre ++ (m, a) :: post) = [].
Proof. exact dsl_flip_args. Qed.

(** the hypotheses are satisfiable: a long accepted chain, and its misuses *)
Example C17_dsl_example :
  dsl_expands PEval [(Filter, Given); (Rev, Empty); (Enumerate, Empty); (Rposition, Given)] <> [] /\
  dsl_expands PEval [(Filter, Given); (Rev, Empty); (Enumerate, Empty); (Position, Given)] = [] /\
  dsl_expands PForEach [(Filter, Given); (Rev, Empty); (Enumerate, Empty)] = [].
Proof. repeat split; cbn; discriminate. Qed.

(* ------------------------------------------------------------------ parser_method! *)

(** parser_method! expands without a diagnostic exactly when the method name is known and
    - find_skip / rfind_skip / strip_prefix / strip_suffix: the branches are string-literal
      branches (each followed by a comma unless its body is a block) and then exactly one
      default branch `_ => e`, in last position;
    - trim_start_matches / trim_end_matches: a non-empty `|`-list of string literals *)
Theorem C17_parser_method_accepts_iff : forall f inp, pm_expands f inp = [] <-> pm_ok f inp.
Proof. exact parser_method_accepts_iff. Qed.

Theorem C17_pm_flip_missing_default : forall f init d,
  match_form f -> Forall mid_ok init -> b_pats d = [PWild] ->
  pm_expands f (Branches init) <> [] /\ pm_expands f (Branches (init ++ [d])) = [].
Proof. exact pm_flip_missing_default. Qed.
Theorem C17_pm_flip_misplaced_default : forall f init d b post,
  match_form f -> Forall mid_ok init -> b_pats d = [PWild] -> mid_ok b ->
  pm_expands f (Branches (init ++ d :: b :: post)) <> [] /\ pm_expands f (Branches (init ++ [d])) = [].
Proof. exact pm_flip_misplaced_default. Qed.
Theorem C17_pm_rejects_nonliteral : forall f pre b post d p,
  match_form f -> In p (b_pats b) -> lit_ok p = false ->
  pm_expands f (Branches (pre ++ b :: post ++ [d])) <> [].
Proof. exact pm_rejects_nonliteral. Qed.
Theorem C17_pm_trim_accepts_iff : forall f ps, trim_form f = true ->
  (pm_expands f (PatsOnly ps) = [] <-> ps <> [] /\ Forall (fun p => lit_ok p = true) ps).
Proof. exact pm_trim_accepts_iff. Qed.

(* ------------------------------------------------------------------ destructure! *)

(** relative to ANY type checker with the three stated behaviours *)
Theorem C17_destructure_accepts_iff_relative :
  forall (E : env) (rustc_pat : pshape -> ty -> bool) (rustc_same : ty -> ty -> bool)
         (rustc_probe_inherent : ty -> bool),
    (forall ps t, rustc_pat ps t = true <-> pat_fits E ps (peel t)) ->        (* R1 *)
    (forall a b, rustc_same a b = true <-> a = b) ->                            (* R2 *)
    (forall t, rustc_probe_inherent t = true <-> impls_drop_ty E t) ->          (* R3 *)
    forall d, d_elems d <> [] ->
      (accepts rustc_pat rustc_same rustc_probe_inherent d = true <-> destr_ok E d).
Proof. exact accepts_iff. Qed.

(** closed: destructure! (pattern with at least one element) compiles exactly when the value
    is not a reference, its type does not implement Drop, the pattern lists exactly the
    declared fields / elements, and there is no `..` (one allowed in arrays; at most 16
    elements in tuples and tuple structs); a type annotation must be the value's type *)
Theorem C17_destructure_accepts_iff : forall E d,
  d_elems d <> [] ->
  (destructure_diags E d = [] <->
   rest_ok d /\ (forall a, d_ann d = Some a -> a = d_ty d) /\ is_ref (d_ty d) = false /\
   ~ impls_drop_ty E (d_ty d) /\ fields_match E d (d_ty d)).
Proof. exact destructure_accepts_iff. Qed.

Theorem C17_destructure_rejects_rest : forall E d,
  d_shape d <> Array -> (exists e, In e (d_elems d) /\ is_rest e = true) -> destructure_diags E d <> [].
Proof. exact destructure_rejects_rest. Qed.
Theorem C17_destructure_rest_struct_arm : forall E d,
  d_shape d = Braced -> (exists e, In e (d_elems d) /\ is_rest e = true) ->
  destructure_diags E d = [d0 KRestStruct].
Proof. exact destructure_rest_struct_arm. Qed.
Theorem C17_destructure_rejects_reference : forall E d,
  d_elems d <> [] -> is_ref (d_ty d) = true -> destructure_diags E d <> [].
Proof. exact destructure_rejects_reference. Qed.
Theorem C17_destructure_rejects_drop : forall E d,
  d_elems d <> [] -> impls_drop_ty E (d_ty d) -> destructure_diags E d <> [].
Proof. exact destructure_rejects_drop. Qed.
Theorem C17_destructure_rejects_field_mismatch : forall E d,
  d_elems d <> [] -> ~ fields_match E d (d_ty d) -> destructure_diags E d <> [].
Proof. exact destructure_rejects_field_mismatch. Qed.

(** the finding: empty patterns carry no guard *)
Theorem C17_empty_pattern_unguarded :
  (exists E d, d_elems d = [] /\ is_ref (d_ty d) = true /\ destructure_diags E d = []) /\
  (exists E d, d_elems d = [] /\ impls_drop_ty E (d_ty d) /\ destructure_diags E d = []).
Proof. exact empty_pattern_unguarded. Qed.

Print Assumptions C17_dsl_accepts_iff.
Print Assumptions C17_dsl_rejects_two_reversals.
Print Assumptions C17_dsl_rejects_unsupported.
Print Assumptions C17_dsl_rejects_bad_args.
Print Assumptions C17_dsl_rejects_consumer_in_adapter_macro.
Print Assumptions C17_dsl_flip_second_reversal.
Print Assumptions C17_dsl_flip_unsupported.
Print Assumptions C17_dsl_flip_consumer_in_adapter_macro.
Print Assumptions C17_dsl_flip_args.
Print Assumptions C17_parser_method_accepts_iff.
Print Assumptions C17_pm_flip_missing_default.
Print Assumptions C17_pm_flip_misplaced_default.
Print Assumptions C17_pm_rejects_nonliteral.
Print Assumptions C17_pm_trim_accepts_iff.
Print Assumptions C17_destructure_accepts_iff_relative.
Print Assumptions C17_destructure_accepts_iff.
Print Assumptions C17_destructure_rejects_rest.
Print Assumptions C17_destructure_rest_struct_arm.
Print Assumptions C17_destructure_rejects_reference.
Print Assumptions C17_destructure_rejects_drop.
Print Assumptions C17_destructure_rejects_field_mismatch.
Print Assumptions C17_empty_pattern_unguarded.
Print Assumptions C17_dsl_example.
