(** C17 — placeholder while the proofs are being written *)
From KV Require Import Base.Prelude Model.Guards.
Import ListNotations.
Theorem C17_rev_twice_example : dsl_expands PEval [(Rev, Empty); (Rfind, Given)] = [(KRev2, Rfind)].
Proof. reflexivity. Qed.
Print Assumptions C17_rev_twice_example.
