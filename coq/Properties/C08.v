(** C08 — slice iterators behave like std's double-ended slice iterators.
    Statements only; every proof is [exact <lemma>].

    Reading guide.  [run_m next next_back h it] runs the history [h] (a word over
    Front/Back) on the model iterator [it] and returns [Some] of the list of call results
    ([None] = a call panicked); [deque_run h items] pops the list [items] at the named
    ends.  [X_spec n len] is the closed formula for what std's iterator X yields on a slice
    of [len] elements (Spec/SliceIter.v).  [fwd c] is the forward type, [it_rev (fwd c)]
    the [*Rev] type.  All statements hold for EVERY length, EVERY size >= 1 and EVERY
    history; the element type never occurs (the code is parametric in it), except for
    IterCopied whose items are the element values (abstract type [A], so ZSTs included).

    NOT YET PROVED: nothing of the plan in DESIGN section 4 (C08) is missing.  The
    list-vocabulary reading is direct for chunks and windows ([C08_chunks_contents],
    [C08_windows_contents]); rchunks / the exact variants are reduced to chunks by
    [C08_rchunks_mirror], [C08_mirror_is_reversal], [C08_chunks_exact_cut] rather than
    given their own recursive list functions. *)
From KV Require Import Base.Prelude Base.Deque Model.SliceIter Spec.SliceIter Proofs.SliceIterProofs.

(** ** every interleaving of front/back calls: same items, same order, same end, no panic *)

Theorem C08_iter_refines : forall len h,
  run_m iter_next iter_next_back h (fwd (iter_new len)) = Some (deque_run h (iter_spec len)).
Proof. exact iter_refines. Qed.
Theorem C08_iter_rev_refines : forall len h,
  run_m iter_next iter_next_back h (it_rev (fwd (iter_new len))) = Some (deque_run h (rev (iter_spec len))).
Proof. exact iter_rev_refines. Qed.

Theorem C08_iter_copied_refines : forall (A : Type) (l : list A) h,
  run_m copied_next copied_next_back h (fwd (copied_new l)) = Some (deque_run h l).
Proof. exact copied_refines. Qed.
Theorem C08_iter_copied_rev_refines : forall (A : Type) (l : list A) h,
  run_m copied_next copied_next_back h (it_rev (fwd (copied_new l))) = Some (deque_run h (rev l)).
Proof. exact copied_rev_refines. Qed.

Theorem C08_windows_refines : forall len n h, 1 <= n ->
  exists w, windows_new len n = Some w /\
    run_m windows_next windows_next_back h (fwd w) = Some (deque_run h (windows_spec n len)) /\
    run_m windows_next windows_next_back h (it_rev (fwd w)) = Some (deque_run h (rev (windows_spec n len))).
Proof. exact windows_refines. Qed.

Theorem C08_chunks_refines : forall len n h, 1 <= n -> 0 <= len ->
  exists c, chunks_new len n = Some c /\
    run_m chunks_next chunks_next_back h (fwd c) = Some (deque_run h (chunks_spec n len)) /\
    run_m chunks_next chunks_next_back h (it_rev (fwd c)) = Some (deque_run h (rev (chunks_spec n len))).
Proof. exact chunks_refines. Qed.

Theorem C08_rchunks_refines : forall len n h, 1 <= n -> 0 <= len ->
  exists c, rchunks_new len n = Some c /\
    run_m rchunks_next rchunks_next_back h (fwd c) = Some (deque_run h (rchunks_spec n len)) /\
    run_m rchunks_next rchunks_next_back h (it_rev (fwd c)) = Some (deque_run h (rev (rchunks_spec n len))).
Proof. exact rchunks_refines. Qed.

Theorem C08_chunks_exact_refines : forall len n h, 1 <= n -> 0 <= len ->
  exists e, chunks_exact_new len n = Some e /\
    run_m chunks_exact_next chunks_exact_next_back h (fwd e) = Some (deque_run h (chunks_exact_spec n len)) /\
    run_m chunks_exact_next chunks_exact_next_back h (it_rev (fwd e)) = Some (deque_run h (rev (chunks_exact_spec n len))).
Proof. exact chunks_exact_refines. Qed.

Theorem C08_rchunks_exact_refines : forall len n h, 1 <= n -> 0 <= len ->
  exists e, rchunks_exact_new len n = Some e /\
    run_m rchunks_exact_next rchunks_exact_next_back h (fwd e) = Some (deque_run h (rchunks_exact_spec n len)) /\
    run_m rchunks_exact_next rchunks_exact_next_back h (it_rev (fwd e)) = Some (deque_run h (rev (rchunks_exact_spec n len))).
Proof. exact rchunks_exact_refines. Qed.

Theorem C08_array_chunks_refines : forall len n h, 1 <= n -> 0 <= len ->
  exists a, array_chunks_new len n = Some a /\
    run_m array_chunks_next array_chunks_next_back h (fwd a) = Some (deque_run h (array_chunks_spec n len)) /\
    run_m array_chunks_next array_chunks_next_back h (it_rev (fwd a)) = Some (deque_run h (rev (array_chunks_spec n len))).
Proof. exact array_chunks_refines. Qed.

(** the hypotheses are satisfiable, and the formulas say what one expects *)
Example C08_chunks_example :
  chunks_spec 3 7 = [mkv 0 3; mkv 3 3; mkv 6 1] /\ rchunks_spec 3 7 = [mkv 4 3; mkv 1 3; mkv 0 1] /\
  chunks_exact_spec 3 7 = [mkv 0 3; mkv 3 3] /\ chunks_exact_rem 3 7 = mkv 6 1 /\
  rchunks_exact_spec 3 7 = [mkv 4 3; mkv 1 3] /\ rchunks_exact_rem 3 7 = mkv 0 1 /\
  windows_spec 3 5 = [mkv 0 3; mkv 1 3; mkv 2 3] /\ windows_spec 6 5 = [].
Proof. repeat split. Qed.

(** ** remainder() / as_slice() *)

(** remainder() is what std reports, before and after every history, forward and reversed *)
Theorem C08_chunks_exact_remainder : forall len n h rv, 1 <= n -> 0 <= len ->
  exists e, chunks_exact_new len n = Some e /\
    forall it', final_m chunks_exact_next chunks_exact_next_back h (if rv : bool then it_rev (fwd e) else fwd e) = Some it' ->
                exact_remainder (core it') = chunks_exact_rem n len.
Proof. exact chunks_exact_remainder. Qed.
Theorem C08_rchunks_exact_remainder : forall len n h rv, 1 <= n -> 0 <= len ->
  exists e, rchunks_exact_new len n = Some e /\
    forall it', final_m rchunks_exact_next rchunks_exact_next_back h (if rv : bool then it_rev (fwd e) else fwd e) = Some it' ->
                exact_remainder (core it') = rchunks_exact_rem n len.
Proof. exact rchunks_exact_remainder. Qed.
Theorem C08_array_chunks_remainder : forall len n h, 1 <= n -> 0 <= len ->
  exists a, array_chunks_new len n = Some a /\
    forall it', final_m array_chunks_next array_chunks_next_back h (fwd a) = Some it' ->
                array_chunks_remainder (core it') = array_chunks_rem n len.
Proof. exact array_chunks_remainder_const. Qed.

(** as_slice() after any history is exactly the part of the slice not yet yielded *)
Theorem C08_iter_as_slice : forall len h,
  exists it', final_m iter_next iter_next_back h (fwd (iter_new len)) = Some it' /\
              view_indices (iter_as_slice (core it')) = deque_rest h (iter_spec len).
Proof. exact iter_as_slice_rest. Qed.
Theorem C08_iter_rev_as_slice : forall len h,
  exists it', final_m iter_next iter_next_back h (it_rev (fwd (iter_new len))) = Some it' /\
              rev (view_indices (iter_as_slice (core it'))) = deque_rest h (rev (iter_spec len)).
Proof. exact iter_rev_as_slice_rest. Qed.
Theorem C08_iter_copied_as_slice : forall (A : Type) (l : list A) h,
  exists it', final_m copied_next copied_next_back h (fwd (copied_new l)) = Some it' /\
              sub l (copied_as_slice (core it')) = deque_rest h l.
Proof. exact copied_as_slice_rest. Qed.
Theorem C08_iter_copied_rev_as_slice : forall (A : Type) (l : list A) h,
  exists it', final_m copied_next copied_next_back h (it_rev (fwd (copied_new l))) = Some it' /\
              rev (sub l (copied_as_slice (core it'))) = deque_rest h (rev l).
Proof. exact copied_rev_as_slice_rest. Qed.

(** ** as_chunks / as_rchunks *)
Theorem C08_as_chunks : forall len n, 1 <= n -> 0 <= len ->
  as_chunks_m len n = Some (mk_arrays 0 (len / n), chunks_exact_rem n len).
Proof. exact as_chunks_spec. Qed.
Theorem C08_as_rchunks : forall len n, 1 <= n -> 0 <= len ->
  as_rchunks_m len n = Some (rchunks_exact_rem n len, mk_arrays (len mod n) (len / n)).
Proof. exact as_rchunks_spec. Qed.

(** ** size 0: every constructor panics, like std's *)
Theorem C08_size_zero_panics : forall len,
  windows_new len 0 = None /\ chunks_new len 0 = None /\ rchunks_new len 0 = None /\
  chunks_exact_new len 0 = None /\ rchunks_exact_new len 0 = None /\ array_chunks_new len 0 = None /\
  as_chunks_m len 0 = None /\ as_rchunks_m len 0 = None.
Proof. exact size_zero_panics. Qed.

(** ** rev swaps the two ends — also in mid-stream, after any history [g] *)
Theorem C08_iter_rev_swaps_ends : forall len g h it',
  final_m iter_next iter_next_back g (fwd (iter_new len)) = Some it' ->
  run_m iter_next iter_next_back h (it_rev it') = run_m iter_next iter_next_back (map swap_end h) it'.
Proof. exact iter_rev_swaps. Qed.
Theorem C08_iter_copied_rev_swaps_ends : forall (A : Type) (l : list A) g h it',
  final_m copied_next copied_next_back g (fwd (copied_new l)) = Some it' ->
  run_m copied_next copied_next_back h (it_rev it') = run_m copied_next copied_next_back (map swap_end h) it'.
Proof. exact @copied_rev_swaps. Qed.
Theorem C08_windows_rev_swaps_ends : forall len n g h w it', 1 <= n -> windows_new len n = Some w ->
  final_m windows_next windows_next_back g (fwd w) = Some it' ->
  run_m windows_next windows_next_back h (it_rev it') = run_m windows_next windows_next_back (map swap_end h) it'.
Proof. exact windows_rev_swaps. Qed.
Theorem C08_chunks_rev_swaps_ends : forall len n g h c it', 1 <= n -> 0 <= len -> chunks_new len n = Some c ->
  final_m chunks_next chunks_next_back g (fwd c) = Some it' ->
  run_m chunks_next chunks_next_back h (it_rev it') = run_m chunks_next chunks_next_back (map swap_end h) it'.
Proof. exact chunks_rev_swaps. Qed.
Theorem C08_rchunks_rev_swaps_ends : forall len n g h c it', 1 <= n -> 0 <= len -> rchunks_new len n = Some c ->
  final_m rchunks_next rchunks_next_back g (fwd c) = Some it' ->
  run_m rchunks_next rchunks_next_back h (it_rev it') = run_m rchunks_next rchunks_next_back (map swap_end h) it'.
Proof. exact rchunks_rev_swaps. Qed.
Theorem C08_chunks_exact_rev_swaps_ends : forall len n g h e it', 1 <= n -> 0 <= len -> chunks_exact_new len n = Some e ->
  final_m chunks_exact_next chunks_exact_next_back g (fwd e) = Some it' ->
  run_m chunks_exact_next chunks_exact_next_back h (it_rev it') =
  run_m chunks_exact_next chunks_exact_next_back (map swap_end h) it'.
Proof. exact chunks_exact_rev_swaps. Qed.
Theorem C08_rchunks_exact_rev_swaps_ends : forall len n g h e it', 1 <= n -> 0 <= len -> rchunks_exact_new len n = Some e ->
  final_m rchunks_exact_next rchunks_exact_next_back g (fwd e) = Some it' ->
  run_m rchunks_exact_next rchunks_exact_next_back h (it_rev it') =
  run_m rchunks_exact_next rchunks_exact_next_back (map swap_end h) it'.
Proof. exact rchunks_exact_rev_swaps. Qed.
Theorem C08_array_chunks_rev_swaps_ends : forall g h a it',
  final_m array_chunks_next array_chunks_next_back g (fwd a) = Some it' ->
  run_m array_chunks_next array_chunks_next_back h (it_rev it') =
  run_m array_chunks_next array_chunks_next_back (map swap_end h) it'.
Proof. exact array_chunks_rev_swaps. Qed.

(** popping a reversed deque = popping the deque at the other ends *)
Theorem C08_deque_rev : forall (A : Type) h (l : list A),
  deque_run h (rev l) = deque_run (map swap_end h) l.
Proof. exact @deque_run_rev. Qed.
(** reversing twice gives the iterator back *)
Theorem C08_rev_rev_id : forall C (it : iter C), it_rev (it_rev it) = it.
Proof. exact @it_rev_rev. Qed.

(** ** copy() is a value copy with the same future (independence: the model is a pure
       function of that value; the harness checks it on the real types) *)
Theorem C08_copy_is_value : forall C (it : iter C), it_copy it = it.
Proof. exact @it_copy_id. Qed.
Theorem C08_copy_same_future : forall C I (nb bb : C -> step I C) h it,
  run_m nb bb h (it_copy it) = run_m nb bb h it /\ final_m nb bb h (it_copy it) = final_m nb bb h it.
Proof. exact @copy_same_future. Qed.

(** ** every view the spec lists (hence every view the model yields) lies inside the slice *)
Theorem C08_views_inside : forall n len, 1 <= n -> 0 <= len ->
  Forall (inside len) (windows_spec n len) /\ Forall (inside len) (chunks_spec n len) /\
  Forall (inside len) (rchunks_spec n len) /\ Forall (inside len) (chunks_exact_spec n len) /\
  Forall (inside len) (rchunks_exact_spec n len) /\
  inside len (chunks_exact_rem n len) /\ inside len (rchunks_exact_rem n len).
Proof. exact specs_inside. Qed.

(** ** the formulas read on lists (element type abstract) *)

(** chunks(n) of a list = its first n elements, then chunks(n) of the rest; the chunks tile it *)
Theorem C08_chunks_contents : forall (A : Type) n (l : list A), 1 <= n ->
  map (sub l) (chunks_spec n (zlen l)) = chunks_list (length l) (Z.to_nat n) l.
Proof. exact chunks_contents. Qed.
Theorem C08_chunks_tile : forall (A : Type) n (l : list A), 1 <= n ->
  concat (map (sub l) (chunks_spec n (zlen l))) = l.
Proof. exact chunks_tile. Qed.
(** windows(n) of a list = its first n elements, then windows(n) of its tail *)
Theorem C08_windows_contents : forall (A : Type) n (l : list A), 1 <= n ->
  map (sub l) (windows_spec n (zlen l)) = windows_list (length l) (Z.to_nat n) l.
Proof. exact windows_contents. Qed.
(** rchunks / rchunks_exact = chunks / chunks_exact counted from the other end, and that
    is chunking the reversed list *)
Theorem C08_rchunks_mirror : forall n len,
  rchunks_spec n len = map (mirror len) (chunks_spec n len).
Proof. exact rchunks_is_mirrored_chunks. Qed.
Theorem C08_rchunks_exact_mirror : forall n len, 1 <= n -> 0 <= len ->
  rchunks_exact_spec n len = map (mirror len) (chunks_exact_spec n len) /\
  rchunks_exact_rem n len = mirror len (chunks_exact_rem n len).
Proof. exact rchunks_exact_is_mirrored_chunks_exact. Qed.
Theorem C08_mirror_is_reversal : forall (A : Type) (l : list A) v, inside (zlen l) v ->
  sub (rev l) v = rev (sub l (mirror (zlen l) v)).
Proof. exact @sub_mirror. Qed.
(** chunks_exact = chunks of the slice cut down to a multiple of n; remainder = the rest *)
Theorem C08_chunks_exact_cut : forall n len, 1 <= n -> 0 <= len ->
  chunks_exact_spec n len = chunks_spec n (len / n * n) /\
  chunks_exact_rem n len = mkv (len / n * n) (len - len / n * n).
Proof. exact chunks_exact_is_chunks_of_cut. Qed.

Print Assumptions C08_iter_refines.
Print Assumptions C08_iter_rev_refines.
Print Assumptions C08_iter_copied_refines.
Print Assumptions C08_iter_copied_rev_refines.
Print Assumptions C08_windows_refines.
Print Assumptions C08_chunks_refines.
Print Assumptions C08_rchunks_refines.
Print Assumptions C08_chunks_exact_refines.
Print Assumptions C08_rchunks_exact_refines.
Print Assumptions C08_array_chunks_refines.
Print Assumptions C08_chunks_exact_remainder.
Print Assumptions C08_rchunks_exact_remainder.
Print Assumptions C08_array_chunks_remainder.
Print Assumptions C08_iter_as_slice.
Print Assumptions C08_iter_rev_as_slice.
Print Assumptions C08_iter_copied_as_slice.
Print Assumptions C08_iter_copied_rev_as_slice.
Print Assumptions C08_as_chunks.
Print Assumptions C08_as_rchunks.
Print Assumptions C08_size_zero_panics.
Print Assumptions C08_iter_rev_swaps_ends.
Print Assumptions C08_iter_copied_rev_swaps_ends.
Print Assumptions C08_windows_rev_swaps_ends.
Print Assumptions C08_chunks_rev_swaps_ends.
Print Assumptions C08_rchunks_rev_swaps_ends.
Print Assumptions C08_chunks_exact_rev_swaps_ends.
Print Assumptions C08_rchunks_exact_rev_swaps_ends.
Print Assumptions C08_array_chunks_rev_swaps_ends.
Print Assumptions C08_deque_rev.
Print Assumptions C08_rev_rev_id.
Print Assumptions C08_copy_is_value.
Print Assumptions C08_copy_same_future.
Print Assumptions C08_views_inside.
Print Assumptions C08_chunks_contents.
Print Assumptions C08_chunks_tile.
Print Assumptions C08_windows_contents.
Print Assumptions C08_rchunks_mirror.
Print Assumptions C08_rchunks_exact_mirror.
Print Assumptions C08_mirror_is_reversal.
Print Assumptions C08_chunks_exact_cut.
Print Assumptions C08_chunks_example.
