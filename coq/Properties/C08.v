(** C08 — slice iterators behave like std's double-ended slice iterators (in progress). *)
From KV Require Import Base.Prelude Base.Deque Model.SliceIter.

Theorem C08_copy_is_value : forall C (it : iter C), it_copy it = it.
Proof. intros C [f c]. reflexivity. Qed.

Print Assumptions C08_copy_is_value.
