(** C13 — Parser positions always describe where its remainder sits in the original string.
    Statements only.

    Both halves are proved: the position invariant ([Inv], for arbitrary byte strings) and, for
    valid UTF-8 originals and patterns, that both offsets are CHAR BOUNDARIES of the original
    ([BInv], Proofs/SafetyProofs.v).  parse_u8 .. parse_isize / parse_bool are
    operations of the model ([OParseInt w sg], [OParseBool]; their bodies are Model/ParseInt.v). *)
From KV Require Import Base.Prelude Model.Utf8 Spec.Utf8 Model.Parser Proofs.ParserProofs Proofs.SafetyProofs.

(** [Parser::new] / [with_start_offset] establish the invariant ... *)
Theorem C13_inv_init : forall orig base, bounds orig base -> Inv orig base (parser_with_start_offset orig base).
Proof. exact inv_init. Qed.
Theorem C13_inv_init_new : forall orig, Inv orig 0 (parser_new orig).
Proof. exact inv_init_new. Qed.

(** ... every operation preserves it; a failing operation reports the start offset
    (operations working from the start) or the end offset (from the end) of the parser it was
    called on, and its direction names that end *)
Theorem C13_inv_step : forall orig base p o,
  bounds orig base -> Inv orig base p -> step_post orig base p o (step p o).
Proof. exact inv_step. Qed.

(** hence for EVERY sequence of operations, after every step *)
Theorem C13_inv_reachable : forall orig base, bounds orig base -> forall ops p,
  Inv orig base p -> trace_ok orig base p ops (run_ops p ops).
Proof. exact inv_reachable. Qed.

(** ... and both offsets are character boundaries of the original: [BInv] = [Inv] plus
    [is_char_boundary orig (start - base)] and [is_char_boundary orig (end - base)] *)
Theorem C13_boundaries_init : forall orig base, utf8 orig = true -> bounds orig base ->
  BInv orig base (parser_with_start_offset orig base).
Proof. exact binv_init. Qed.
Theorem C13_boundaries_step : forall orig base p o v q,
  utf8 orig = true -> bounds orig base -> op_pat_valid o -> BInv orig base p ->
  step p o = POk v q -> BInv orig base q.
Proof. exact binv_step. Qed.
Theorem C13_boundaries_reachable : forall orig base, utf8 orig = true -> bounds orig base -> forall ops p,
  ops_valid ops -> BInv orig base p ->
  Forall (fun r => match r with POk _ q => BInv orig base q /\ utf8 (p_str q) = true | _ => True end) (run_ops p ops).
Proof. exact binv_reachable. Qed.
Theorem C13_BInv_gives_Inv : forall orig base p, BInv orig base p -> Inv orig base p.
Proof. exact BInv_Inv. Qed.

(** the hypothesis base + len < 2^32 is necessary: the offsets are u32 *)
Theorem C13_offsets_wrap_refuted : exists base, p_start (parser_with_start_offset [97] base) <> base.
Proof. exact parser_offsets_wrap_refuted. Qed.

Print Assumptions C13_inv_init.
Print Assumptions C13_inv_init_new.
Print Assumptions C13_inv_step.
Print Assumptions C13_inv_reachable.
Print Assumptions C13_boundaries_init.
Print Assumptions C13_boundaries_step.
Print Assumptions C13_boundaries_reachable.
Print Assumptions C13_BInv_gives_Inv.
Print Assumptions C13_offsets_wrap_refuted.
