(** C16 -- comparison functions and macros agree with std equality and ordering.
    Statements only; every proof is [exact <lemma>].

    Reading guide: models return [option] ([None] = the Rust would panic on an index), so
    [f l r = Some (spec l r)] says both "never panics" and "equals the std meaning".
    [lex] = std's lexicographic [Ord::cmp] of slices/strings, [opt_cmp] = None < Some,
    [Z.compare] = the order of every primitive type on its values, [list_eqb]/[=] = [==].
    const_eq!/const_cmp! are, per type, the named function (Model/Cmp.v, const_*_m), so the
    theorems about the named functions cover them.

    NOT YET PROVED: nothing planned in DESIGN section 4 (C16) is missing.

    OBSERVED, outside the quantifier (ranges are quantified as built from boundary values):
    a RangeInclusive that was iterated to exhaustion carries a private [exhausted = true] flag
    which std's derived [==] compares and konst's eq_rangeinc_* / const_eq! cannot read:
    [let mut e = 1u8..=1; e.next();] then [e == (1u8..=1)] is false in std while
    [eq_rangeinc_u8(&e, &(1..=1))], [const_eq!(e, 1..=1)] and
    [const_eq_for!(range_inclusive; e, 1..=1)] are true. *)
From KV Require Import Base.Prelude Model.Cmp Spec.Cmp Proofs.CmpProofs.


(** cmp_bytes / cmp_slice_<T> (and const_cmp! on slices) = std's lexicographic Ord::cmp, and never panic *)
Theorem C16_cmp_slice_eq_lex : forall l r, cmp_slice_m l r = Some (lex Z.compare l r).
Proof. exact cmp_slice_eq_lex. Qed.

(** cmp_str = lexicographic order of the UTF-8 bytes (= str::cmp) *)
Theorem C16_cmp_str_eq_lex : forall l r, cmp_str_m l r = Some (lex Z.compare l r).
Proof. exact cmp_str_eq_lex. Qed.

(** eq_bytes / eq_slice_<T> = list equality *)
Theorem C16_eq_slice_iff_eq : forall l r, eq_slice_m l r = Some true <-> l = r.
Proof. exact eq_slice_iff_eq. Qed.
Theorem C16_eq_slice_false_iff_ne : forall l r, eq_slice_m l r = Some false <-> l <> r.
Proof. exact eq_slice_false_iff_ne. Qed.
Theorem C16_eq_str_iff_eq : forall l r, eq_str_m l r = Some true <-> l = r.
Proof. exact eq_str_iff_eq. Qed.

(** cmp_slice_str / cmp_slice_bytes = lexicographic order of lexicographically ordered items *)
Theorem C16_cmp_slice_of_slices_eq_lex : forall l r, cmp_slice_str_m l r = Some (lex (lex Z.compare) l r).
Proof. exact cmp_slice_str_eq_lex. Qed.
Theorem C16_cmp_slice_bytes_eq_lex : forall l r, cmp_slice_bytes_m l r = Some (lex (lex Z.compare) l r).
Proof. exact cmp_slice_bytes_eq_lex. Qed.
Theorem C16_eq_slice_str_iff_eq : forall l r, eq_slice_str_m l r = Some true <-> l = r.
Proof. exact eq_slice_str_iff_eq. Qed.
Theorem C16_eq_slice_bytes_iff_eq : forall l r, eq_slice_bytes_m l r = Some true <-> l = r.
Proof. exact eq_slice_bytes_iff_eq. Qed.

(** const_cmp_for!(slice; l, r, cmp) with ANY total element comparison = lex of that comparison;
    const_eq_for!(slice; ..) = element-wise equality on equal lengths *)
Theorem C16_const_cmp_for_slice_eq_lex : forall (A : Type) (cmpE : A -> A -> option comparison) (c : A -> A -> comparison),
  (forall x y, cmpE x y = Some (c x y)) -> forall l r, cmp_for_slice_m cmpE l r = Some (lex c l r).
Proof. exact @cmp_for_slice_lex. Qed.
Theorem C16_const_eq_for_slice_eqb : forall (A : Type) (eqE : A -> A -> option bool) (e : A -> A -> bool),
  (forall x y, eqE x y = Some (e x y)) -> forall l r, eq_for_slice_m eqE l r = Some (list_eqb e l r).
Proof. exact @eq_for_slice_eqb. Qed.
Theorem C16_const_cmp_for_slice_prim : forall l r, cmp_for_slice_m prim_cmp_o l r = Some (lex Z.compare l r).
Proof. exact cmp_for_slice_prim. Qed.
Theorem C16_const_eq_for_slice_prim : forall l r, eq_for_slice_m prim_eq_o l r = Some (list_eqb Z.eqb l r).
Proof. exact eq_for_slice_prim. Qed.

(** cmp_option_* and const_cmp_for!(option; ..): None < Some, Some compared by content *)
Theorem C16_option_cmp_eq : forall (A : Type) (cmpE : A -> A -> option comparison) (c : A -> A -> comparison),
  (forall x y, cmpE x y = Some (c x y)) -> forall l r, option_cmp_m cmpE l r = Some (opt_cmp c l r).
Proof. exact @option_cmp_eq. Qed.
Theorem C16_option_eq_eqb : forall (A : Type) (eqE : A -> A -> option bool) (e : A -> A -> bool),
  (forall x y, eqE x y = Some (e x y)) -> forall l r, option_eq_m eqE l r = Some (opt_eqb e l r).
Proof. exact @option_eq_eqb. Qed.
Theorem C16_option_cmp_slice : forall l r, option_cmp_m cmp_slice_m l r = Some (opt_cmp (lex Z.compare) l r).
Proof. exact option_cmp_slice. Qed.
Theorem C16_option_cmp_str : forall l r, option_cmp_m cmp_str_m l r = Some (opt_cmp (lex Z.compare) l r).
Proof. exact option_cmp_str. Qed.
Theorem C16_option_cmp_prim : forall l r, option_cmp_m prim_cmp_o l r = Some (opt_cmp Z.compare l r).
Proof. exact option_cmp_prim. Qed.
Theorem C16_option_cmp_slice_str : forall l r, option_cmp_m cmp_slice_str_m l r = Some (opt_cmp (lex (lex Z.compare)) l r).
Proof. exact option_cmp_slice_str. Qed.
Theorem C16_option_cmp_ordering : forall l r,
  option_cmp_m (fun x y => Some (cmp_ordering_m x y)) l r = Some (opt_cmp ordering_cmp l r).
Proof. exact option_cmp_ordering. Qed.
Theorem C16_option_eq_slice_iff : forall l r, option_eq_m eq_slice_m l r = Some true <-> l = r.
Proof. exact option_eq_slice_iff. Qed.
Theorem C16_option_eq_prim_iff : forall l r, option_eq_m prim_eq_o l r = Some true <-> l = r.
Proof. exact option_eq_prim_iff. Qed.

(** cmp_int! (integers, bool, char, NonZero::get) = the integer order; == is equality *)
Theorem C16_cmp_int_eq_compare : forall l r, cmp_int_m l r = (l ?= r).
Proof. exact cmp_int_eq_compare. Qed.
Theorem C16_prim_eq_iff : forall l r, prim_eq_m l r = true <-> l = r.
Proof. exact prim_eq_iff. Qed.

(** cmp_ordering / eq_ordering (as i8) = Less < Equal < Greater *)
Theorem C16_ordering_cmp_eq : forall a b, cmp_ordering_m a b = ordering_cmp a b.
Proof. exact ordering_cmp_eq. Qed.
Theorem C16_eq_ordering_iff : forall a b, eq_ordering_m a b = true <-> a = b.
Proof. exact eq_ordering_iff. Qed.

(** eq_range_* / eq_rangeinc_* and const_eq_for!(range; ..) = equality of (start, end) *)
Theorem C16_eq_range_iff : forall l r, eq_range_m l r = true <-> l = r.
Proof. exact eq_range_iff. Qed.
Theorem C16_const_eq_for_range_prim : forall l r, eq_for_range_m prim_eq_o l r = Some (eq_range_m l r).
Proof. exact eq_for_range_prim. Qed.

(** generic order laws: the lexicographic order over a lawful element order is lawful, so is
    None < Some, and a lawful comparison with a correct equality test has every law of the
    property text (total, antisymmetric, transitive, cmp = Equal <-> eq) *)
Theorem C16_lex_lawful : forall (A : Type) (cmpA : A -> A -> comparison), lawful cmpA -> lawful (lex cmpA).
Proof. exact @lawful_lex. Qed.
Theorem C16_opt_lawful : forall (A : Type) (cmpA : A -> A -> comparison), lawful cmpA -> lawful (opt_cmp cmpA).
Proof. exact @lawful_opt. Qed.
Theorem C16_lex_order_laws : forall (A : Type) (cmpA : A -> A -> comparison), lawful cmpA ->
  forall e : A -> A -> bool, (forall x y, e x y = true <-> x = y) -> order_laws cmpA e.
Proof. exact @order_laws_of_lawful. Qed.

(** the hypotheses are satisfiable: integers, then lists of integers, lists of lists *)
Theorem C16_lawful_Zcompare : lawful Z.compare.
Proof. exact lawful_Zcompare. Qed.
Theorem C16_lawful_lexZ : lawful (lex Z.compare).
Proof. exact lawful_lexZ. Qed.
Theorem C16_lawful_ordering : lawful ordering_cmp.
Proof. exact lawful_ordering_cmp. Qed.

(** lex read without recursion: less = proper prefix, or smaller at the first difference *)
Theorem C16_lex_lt_iff : forall l r, lex Z.compare l r = Lt <-> lex_lt_spec Z.lt l r.
Proof. exact lexZ_lt_iff. Qed.
Theorem C16_lex_lt_iff_generic : forall (A : Type) (cmpA : A -> A -> comparison), lawful cmpA ->
  forall l r, lex cmpA l r = Lt <-> lex_lt_spec (fun x y => cmpA x y = Lt) l r.
Proof. exact @lex_lt_iff. Qed.

(** the models themselves: total functions (never panic) whose results satisfy all order laws *)
Theorem C16_slice_order_laws : model_order_laws cmp_slice_m eq_slice_m.
Proof. exact slice_order_laws. Qed.
Theorem C16_str_order_laws : model_order_laws cmp_str_m eq_str_m.
Proof. exact str_order_laws. Qed.
Theorem C16_for_slice_order_laws : model_order_laws (cmp_for_slice_m prim_cmp_o) (eq_for_slice_m prim_eq_o).
Proof. exact for_slice_order_laws. Qed.
Theorem C16_slice_str_order_laws : model_order_laws cmp_slice_str_m eq_slice_str_m.
Proof. exact slice_str_order_laws. Qed.
Theorem C16_slice_bytes_order_laws : model_order_laws cmp_slice_bytes_m eq_slice_bytes_m.
Proof. exact slice_bytes_order_laws. Qed.
Theorem C16_prim_order_laws : model_order_laws prim_cmp_o prim_eq_o.
Proof. exact prim_order_laws. Qed.
Theorem C16_ordering_order_laws : model_order_laws (fun x y => Some (cmp_ordering_m x y)) (fun x y => Some (eq_ordering_m x y)).
Proof. exact ordering_order_laws. Qed.
Theorem C16_option_slice_order_laws : model_order_laws (option_cmp_m cmp_slice_m) (option_eq_m eq_slice_m).
Proof. exact option_slice_order_laws. Qed.
Theorem C16_option_str_order_laws : model_order_laws (option_cmp_m cmp_str_m) (option_eq_m eq_str_m).
Proof. exact option_str_order_laws. Qed.
Theorem C16_option_prim_order_laws : model_order_laws (option_cmp_m prim_cmp_o) (option_eq_m prim_eq_o).
Proof. exact option_prim_order_laws. Qed.
Theorem C16_option_slice_str_order_laws : model_order_laws (option_cmp_m cmp_slice_str_m) (option_eq_m eq_slice_str_m).
Proof. exact option_slice_str_order_laws. Qed.
Theorem C16_option_slice_bytes_order_laws : model_order_laws (option_cmp_m cmp_slice_bytes_m) (option_eq_m eq_slice_bytes_m).
Proof. exact option_slice_bytes_order_laws. Qed.
Theorem C16_option_ordering_order_laws : model_order_laws (option_cmp_m (fun x y => Some (cmp_ordering_m x y)))
                   (option_eq_m (fun x y => Some (eq_ordering_m x y))).
Proof. exact option_ordering_order_laws. Qed.

(** cmp = Equal exactly when eq, stated directly on the models *)
Theorem C16_cmp_eq_iff_eq_slice : forall l r, cmp_slice_m l r = Some Eq <-> eq_slice_m l r = Some true.
Proof. exact cmp_eq_iff_eq_slice. Qed.
Theorem C16_cmp_eq_iff_eq_str : forall l r, cmp_str_m l r = Some Eq <-> eq_str_m l r = Some true.
Proof. exact cmp_eq_iff_eq_str. Qed.
Theorem C16_cmp_eq_iff_eq_slice_str : forall l r, cmp_slice_str_m l r = Some Eq <-> eq_slice_str_m l r = Some true.
Proof. exact cmp_eq_iff_eq_slice_str. Qed.

(** assertc_eq! panics exactly when the values differ, assertc_ne! exactly when they are equal *)
Theorem C16_assertc_eq_panics_iff_ne : forall l r, exists b, const_eq_str_m l r = Some b /\
  (assertc_eq_panics_m b = true <-> l <> r) /\ (assertc_ne_panics_m b = true <-> l = r).
Proof. exact assertc_str_panics_iff. Qed.
Theorem C16_assertc_prim_panics_iff : forall l r,
  (assertc_eq_panics_m (const_eq_prim_m l r) = true <-> l <> r) /\
  (assertc_ne_panics_m (const_eq_prim_m l r) = true <-> l = r).
Proof. exact assertc_prim_panics_iff. Qed.

(** regression witness of finding F4 (the length-first comparison used before the repair) *)
Theorem C16_length_first_refuted : cmp_slice_length_first [2] [1; 1] = Some Lt /\
  lex Z.compare [2] [1; 1] = Gt /\ cmp_slice_m [2] [1; 1] = Some Gt.
Proof. exact length_first_refuted. Qed.

(** user types ([impl_cmp!]): a [try_equal!] chain is the lexicographic product of the field
    comparisons, and the product of lawful field orders is lawful *)
Theorem C16_try_equal_lexprod : forall a k, try_equal_m (Some a) (Some k) = Some (lexprod a k).
Proof. exact try_equal_lexprod. Qed.
Theorem C16_pair_lawful : forall (A B : Type) (cA : A -> A -> comparison) (cB : B -> B -> comparison),
  lawful cA -> lawful cB -> lawful (pair_cmp cA cB).
Proof. exact @lawful_pair. Qed.

Print Assumptions C16_cmp_slice_eq_lex.
Print Assumptions C16_cmp_str_eq_lex.
Print Assumptions C16_eq_slice_iff_eq.
Print Assumptions C16_eq_slice_false_iff_ne.
Print Assumptions C16_eq_str_iff_eq.
Print Assumptions C16_cmp_slice_of_slices_eq_lex.
Print Assumptions C16_cmp_slice_bytes_eq_lex.
Print Assumptions C16_eq_slice_str_iff_eq.
Print Assumptions C16_eq_slice_bytes_iff_eq.
Print Assumptions C16_const_cmp_for_slice_eq_lex.
Print Assumptions C16_const_eq_for_slice_eqb.
Print Assumptions C16_const_cmp_for_slice_prim.
Print Assumptions C16_const_eq_for_slice_prim.
Print Assumptions C16_option_cmp_eq.
Print Assumptions C16_option_eq_eqb.
Print Assumptions C16_option_cmp_slice.
Print Assumptions C16_option_cmp_str.
Print Assumptions C16_option_cmp_prim.
Print Assumptions C16_option_cmp_slice_str.
Print Assumptions C16_option_cmp_ordering.
Print Assumptions C16_option_eq_slice_iff.
Print Assumptions C16_option_eq_prim_iff.
Print Assumptions C16_cmp_int_eq_compare.
Print Assumptions C16_prim_eq_iff.
Print Assumptions C16_ordering_cmp_eq.
Print Assumptions C16_eq_ordering_iff.
Print Assumptions C16_eq_range_iff.
Print Assumptions C16_const_eq_for_range_prim.
Print Assumptions C16_lex_lawful.
Print Assumptions C16_opt_lawful.
Print Assumptions C16_lex_order_laws.
Print Assumptions C16_lawful_Zcompare.
Print Assumptions C16_lawful_lexZ.
Print Assumptions C16_lawful_ordering.
Print Assumptions C16_lex_lt_iff.
Print Assumptions C16_lex_lt_iff_generic.
Print Assumptions C16_slice_order_laws.
Print Assumptions C16_str_order_laws.
Print Assumptions C16_for_slice_order_laws.
Print Assumptions C16_slice_str_order_laws.
Print Assumptions C16_slice_bytes_order_laws.
Print Assumptions C16_prim_order_laws.
Print Assumptions C16_ordering_order_laws.
Print Assumptions C16_option_slice_order_laws.
Print Assumptions C16_option_str_order_laws.
Print Assumptions C16_option_prim_order_laws.
Print Assumptions C16_option_slice_str_order_laws.
Print Assumptions C16_option_slice_bytes_order_laws.
Print Assumptions C16_option_ordering_order_laws.
Print Assumptions C16_cmp_eq_iff_eq_slice.
Print Assumptions C16_cmp_eq_iff_eq_str.
Print Assumptions C16_cmp_eq_iff_eq_slice_str.
Print Assumptions C16_assertc_eq_panics_iff_ne.
Print Assumptions C16_assertc_prim_panics_iff.
Print Assumptions C16_length_first_refuted.
Print Assumptions C16_try_equal_lexprod.
Print Assumptions C16_pair_lawful.
