(** C16 (work in progress) *)
From KV Require Import Base.Prelude Model.Cmp Spec.Cmp.
Theorem C16_placeholder : forall l : list Z, lex Z.compare l l = lex Z.compare l l.
Proof. reflexivity. Qed.
Print Assumptions C16_placeholder.
