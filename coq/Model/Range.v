(** Executable model of konst's range iterators
    (konst_kernel/src/step_kk.rs, konst_kernel/src/into_iter/range_into_iter.rs,
    the [iterator_shared!] macro of konst_kernel/src/macros/into_iter_macros.rs and
    [into_iter_macro!] of konst_kernel/src/into_iter.rs), as the code is in /repo now.

    Values of all 13 [Step] types are plain [Z]; the type is a parameter
    [ty := Int w signed | Char] (the Rust code dispatches on a type witness
    [StepWitness<T>] with one arm per type; the 12 integer arms expand the same
    [code_for_step!(int, ..)] text, the 13th the [char] text).  Wrap-around arithmetic
    ([overflowing_add] / [overflowing_sub]) is explicit; panics are result constructors. *)
From KV Require Import Base.Prelude Base.Deque.

Inductive res (A : Type) : Type :=
| Ok (a : A)
| Panic            (* unconditional panic ([opt_unwrap!] on [None]) *)
| DebugPanic.      (* [debug_assert!] failing: only with debug assertions on *)
Arguments Ok {A} a.
Arguments Panic {A}.
Arguments DebugPanic {A}.

Definition bind {A B} (r : res A) (f : A -> res B) : res B :=
  match r with Ok a => f a | Panic => Panic | DebugPanic => DebugPanic end.

(* ------------------------------------------------------------------ the Step types *)

Inductive ty : Type :=
| Int (w : Z) (signed : bool)      (* u8..u128, usize, i8..i128, isize *)
| Char.

(** 2^w, computed by shifting ([two_p_equiv : two_p w = 2 ^ w]) *)
Definition pow2 (w : Z) : Z := two_p w.

(** [Step::MIN_VAL] ([get_min!]: [<$ty>::MIN], ['\0'] for char) and [Step::MAX_VAL] *)
Definition min_val (t : ty) : Z :=
  match t with
  | Int w false => 0
  | Int w true => - pow2 (w - 1)
  | Char => 0
  end.
Definition max_val (t : ty) : Z :=
  match t with
  | Int w false => pow2 w - 1
  | Int w true => pow2 (w - 1) - 1
  | Char => 1114111                     (* 0x10FFFF *)
  end.

Definition in_int (w : Z) (signed : bool) (x : Z) : bool :=
  (min_val (Int w signed) <=? x) && (x <=? max_val (Int w signed)).

(** two's-complement wrap of a mathematical integer into the type *)
Definition wrap_int (w : Z) (signed : bool) (x : Z) : Z :=
  if signed then (x + pow2 (w - 1)) mod pow2 w - pow2 (w - 1) else x mod pow2 w.

(** [a.overflowing_add(b)], [a.overflowing_sub(b)] *)
Definition overflowing_add (w : Z) (signed : bool) (a b : Z) : Z * bool :=
  (wrap_int w signed (a + b), negb (in_int w signed (a + b))).
Definition overflowing_sub (w : Z) (signed : bool) (a b : Z) : Z * bool :=
  (wrap_int w signed (a - b), negb (in_int w signed (a - b))).

(** konst_kernel::chr::from_u32 *)
Definition char_from_u32 (n : Z) : option Z :=
  if (n <? 55296) || ((57344 <=? n) && (n <=? 1114111)) then Some n else None.

(* ------------------------------------------------------------------ step_kk.rs *)

Record step_ret : Type := mk_step {
  finished_inclusive : bool;
  finished_exclusive : bool;
  overflowed : bool;
  next_val : Z
}.

(** [increment(start, end)]: [code_for_step!(int, increment, ..)] /
    [code_for_step!(char, increment, ..)].  In the char arm [num + 1] is u32 arithmetic
    on [num <= 0x10FFFE] (the two other cases are matched first), so it cannot wrap. *)
Definition increment (t : ty) (start end_ : Z) : res step_ret :=
  match t with
  | Int w sg =>
      let '(next, ov) := overflowing_add w sg start 1 in
      Ok (mk_step (end_ <? start) (end_ <=? start) ov next)
  | Char =>
      let '(next_num, ov) :=
        if start =? 55295 then (57344, false)            (* 0xD7FF => 0xE000 *)
        else if start =? 1114111 then (0, true)          (* 0x10FFFF => (0, true) *)
        else (start + 1, false) in
      match char_from_u32 next_num with                  (* opt_unwrap! *)
      | None => Panic
      | Some next => Ok (mk_step (end_ <? start) (end_ <=? start) ov next)
      end
  end.

(** [decrement(start, end)]; in the char arm [num - 1] has [num >= 1] *)
Definition decrement (t : ty) (start end_ : Z) : res step_ret :=
  match t with
  | Int w sg =>
      let '(next, ov) := overflowing_sub w sg end_ 1 in
      Ok (mk_step (end_ <? start) (end_ <=? start) ov next)
  | Char =>
      let '(next_num, ov) :=
        if end_ =? 0 then (1114111, true)                (* 0 => (0x10FFFF, true) *)
        else if end_ =? 57344 then (55295, false)        (* 0xE000 => 0xD7FF *)
        else (end_ - 1, false) in
      match char_from_u32 next_num with
      | None => Panic
      | Some next => Ok (mk_step (end_ <? start) (end_ <=? start) ov next)
      end
  end.

(* ------------------------------------------------------------------ range_into_iter.rs *)

(** state of RangeIter / RangeIterRev / RangeInclusiveIter / RangeInclusiveIterRev:
    the two fields [(start, end)] *)
Definition rstate : Type := (Z * Z)%type.
Definition step_result : Type := res (option (Z * rstate)).

(** [int_range_shared!]: the [next(self)] block *)
Definition range_next (t : ty) (st : rstate) : step_result :=
  let '(start, end_) := st in
  bind (increment t start end_) (fun r =>
    if finished_exclusive r then Ok None
    else Ok (Some (start, (next_val r, end_)))).

(** [int_range_shared!]: the [next_back] block (with its [debug_assert!(!overflowed)]) *)
Definition range_next_back (dbg : bool) (t : ty) (st : rstate) : step_result :=
  let '(start, end_) := st in
  bind (decrement t start end_) (fun r =>
    if finished_exclusive r then Ok None
    else if dbg && overflowed r then DebugPanic
    else Ok (Some (next_val r, (start, next_val r)))).

(** [int_range_inc_shared!]: [next(self)]; an exhausted iterator is encoded as
    [(MAX_VAL, MIN_VAL)] when the last item was [MAX_VAL] *)
Definition range_inc_next (t : ty) (st : rstate) : step_result :=
  let '(start, end_) := st in
  bind (increment t start end_) (fun r =>
    if finished_inclusive r then Ok None
    else Ok (Some (start,
                   if overflowed r then (max_val t, min_val t) else (next_val r, end_)))).

(** [int_range_inc_shared!]: [next_back] *)
Definition range_inc_next_back (t : ty) (st : rstate) : step_result :=
  let '(start, end_) := st in
  bind (decrement t start end_) (fun r =>
    if finished_inclusive r then Ok None
    else Ok (Some (end_,
                   if overflowed r then (max_val t, min_val t) else (start, next_val r)))).

(** RangeFromIter::next: [increment(self.start, T::MAX_VAL)], [debug_assert!(!overflowed)] *)
Definition range_from_next (dbg : bool) (t : ty) (start : Z) : res (option (Z * Z)) :=
  bind (increment t start (max_val t)) (fun r =>
    if dbg && overflowed r then DebugPanic
    else Ok (Some (start, next_val r))).

(** The four double-ended iterator types.  [iterator_shared!] gives the [*Rev] types the
    same fields and swaps the two blocks ([__choose!]); [rev()] moves the fields over
    unchanged; [copy()] is the identity on the fields; [const_into_iter] of
    [Range]/[RangeInclusive] (by value or by reference) copies [start]/[end]. *)
Inductive kind : Type := KRange | KRangeInc.

Definition it_next (dbg : bool) (t : ty) (k : kind) (forward : bool) (st : rstate) : step_result :=
  match k, forward with
  | KRange, true => range_next t st
  | KRange, false => range_next_back dbg t st
  | KRangeInc, true => range_inc_next t st
  | KRangeInc, false => range_inc_next_back t st
  end.
Definition it_next_back (dbg : bool) (t : ty) (k : kind) (forward : bool) (st : rstate) : step_result :=
  it_next dbg t k (negb forward) st.

(* ------------------------------------------------------------------ running histories *)

Section Run.
  Context {St : Type}.
  Variable nx nb : St -> res (option (Z * St)).

  (** a history of front/back steps; a panic ends the run (the harness stops there).
      After [None] the caller still holds the state it called the method on. *)
  Fixpoint run_res (h : list end_) (st : St) : list (res (option Z)) :=
    match h with
    | [] => []
    | e :: h' =>
        match (match e with Front => nx st | Back => nb st end) with
        | Ok None => Ok None :: run_res h' st
        | Ok (Some (x, st')) => Ok (Some x) :: run_res h' st'
        | Panic => [Panic]
        | DebugPanic => [DebugPanic]
        end
    end.

  (** [for_each!] / [while let Some((x, next)) = it.next()]: all items until [None];
      the second component says how the loop ended ([Ok true] = ran out of fuel) *)
  Fixpoint collect_res (fuel : nat) (st : St) : list Z * res bool :=
    match fuel with
    | O => ([], Ok true)
    | S f =>
        match nx st with
        | Ok None => ([], Ok false)
        | Ok (Some (x, st')) => let '(l, r) := collect_res f st' in (x :: l, r)
        | Panic => ([], Panic)
        | DebugPanic => ([], DebugPanic)
        end
    end.
End Run.

(** the first [k] items of [start..] (or up to the panic) *)
Definition range_from_take (dbg : bool) (t : ty) (k : nat) (start : Z) : list Z * res bool :=
  collect_res (range_from_next dbg t) k start.
