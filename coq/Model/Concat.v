(** Executable models of konst's compile-time concatenation machinery:

    - konst_kernel/src/string/string_for_konst.rs:
        [__ElemDispatch::{len, as_bytesable}], [__SepArg::len], [concat_sum_lengths],
        [concat_strs], [join_sum_lengths], [join_strs], [ArrayStr::as_str] and the macros
        [string_concat!] (= [konst::string::str_concat!]), [string_join!]
        (= [str_join!]), [str_from_iter!] (= [konst::string::from_iter!]);
    - konst_kernel/src/collect_const.rs: [__collect_const_iter_with!] / [__iter_collect_const!]
        (the two-pass collector: ComputeLength, then BuildArray) as instantiated by
        [str_from_iter!];
    - konst_kernel/src/slice/slice_for_konst.rs: [slice::concat_sum_lengths],
        [concat_slices], [first_elem], [try_into_array_func] and the macro [slice_concat!].

    Conventions.  A [&str] / [&[u8]] is a [list Z]; a [char] is its scalar value ([Z]).
    An array [[T; N]] is a list of length N; [out[i] = v] is [arr_set], whose [None] is
    the index-out-of-bounds panic.  [usize] additions that can wrap ([sum += len]) are
    written with an explicit [wrap w] (the behaviour of a build without overflow checks;
    with overflow checks the same situation panics -- the theorems are stated under the
    hypothesis that the true total is below [2^w], where both agree).  [out_i += 1] after
    a successful write to [out[out_i]] cannot wrap ([out_i < N <= usize::MAX]) and is
    plain.  [for_range!{i in 0..s.len() => .. s[i] ..}] over a slice is structural
    recursion on the list. *)
From KV Require Import Base.Prelude Model.Utf8 Model.Utf8Check.

(** outcome of a (const-evaluated) computation *)
Inductive res (A : Type) : Type :=
| Done (a : A)
| Panic           (* panic!/assert!/index out of bounds: a compile error in const context *)
| UB.             (* assume_init of an uninitialised cell *)
Arguments Done {A} a.
Arguments Panic {A}.
Arguments UB {A}.

Definition bind {A B} (r : res A) (f : A -> res B) : res B :=
  match r with Done a => f a | Panic => Panic | UB => UB end.

Definition wrap (w x : Z) : Z := x mod 2 ^ w.

(* ------------------------------------------------------------------ arrays *)

Fixpoint set_nth {A} (l : list A) (n : nat) (v : A) : option (list A) :=
  match l, n with
  | [], _ => None
  | _ :: r, O => Some (v :: r)
  | x :: r, S n' => match set_nth r n' v with Some r' => Some (x :: r') | None => None end
  end.

(** [out[i] = v] on an array; [None] = index out of bounds *)
Definition arr_set {A} (l : list A) (i : Z) (v : A) : option (list A) :=
  if i <? 0 then None else set_nth l (Z.to_nat i) v.

(** [[v; N]] *)
Definition arr_repeat {A} (v : A) (n : Z) : list A := repeat v (Z.to_nat n).

(** the inner loop shared by every fill:
      for_range!{i in 0..slice.len() => out[out_i] = slice[i]; out_i += 1;} *)
Fixpoint write_elems {A} (slice out : list A) (out_i : Z) : res (list A * Z) :=
  match slice with
  | [] => Done (out, out_i)
  | x :: slice' =>
      match arr_set out out_i x with
      | Some out' => write_elems slice' out' (out_i + 1)
      | None => Panic
      end
  end.

(** [sum += len_i] over a list of lengths *)
Fixpoint sum_lens (w : Z) (lens : list Z) (sum : Z) : Z :=
  match lens with
  | [] => sum
  | n :: r => sum_lens w r (wrap w (sum + n))
  end.

(* ------------------------------------------------------------------ elements *)

(** [char::len_utf8] (std) *)
Definition len_utf8_m (c : Z) : Z :=
  if c <? 128 then 1 else if c <? 2048 then 2 else if c <? 65536 then 3 else 4.

(** what [__ElemDispatch] wraps: a [&'static str] or a [char] (by value or by reference:
    the [& *] instantiation of [__ref_unref_impls!] only dereferences) *)
Inductive elem : Type :=
| EStr (s : list Z)
| EChr (c : Z).

(** [__ElemDispatch::len]: [str::len] / [char::len_utf8] *)
Definition elem_len (e : elem) : Z :=
  match e with EStr s => zlen s | EChr c => len_utf8_m c end.

(** [__ElemDispatch::as_bytesable] followed by [.as_bytes()]:
    the str itself / [encode_utf8(c)] then [Utf8Encoded::as_bytes] *)
Definition elem_bytes (e : elem) : list Z :=
  match e with EStr s => s | EChr c => encode_m c end.

(** [__StrConcatArg] *)
Inductive concat_arg : Type :=
| AChar (cs : list Z)
| AStr (ss : list (list Z)).

(** [__with_str_concat_slices!]: both arms run the same code on [slices] *)
Definition arg_elems (a : concat_arg) : list elem :=
  match a with AChar cs => map EChr cs | AStr ss => map EStr ss end.

(* ------------------------------------------------------------------ str_concat! *)

(** [concat_sum_lengths] *)
Definition concat_sum_lengths_m (w : Z) (arg : concat_arg) : Z :=
  sum_lens w (map elem_len (arg_elems arg)) 0.

(** the outer loop of [concat_strs] *)
Fixpoint concat_fill (es : list elem) (out : list Z) (out_i : Z) : res (list Z * Z) :=
  match es with
  | [] => Done (out, out_i)
  | e :: es' =>
      bind (write_elems (elem_bytes e) out out_i) (fun '(out', i') => concat_fill es' out' i')
  end.

(** [concat_strs::<N>]: the bytes of the returned [ArrayStr<N>] *)
Definition concat_strs_m (n : Z) (arg : concat_arg) : res (list Z) :=
  bind (concat_fill (arg_elems arg) (arr_repeat 0 n) 0) (fun '(out, _) => Done out).

(** [ArrayStr::as_str]: [from_utf8] or panic "bug: konst made an invalid string" *)
Definition as_str_m (a : list Z) : res (list Z) :=
  if utf8_ok a then Done a else Panic.

(** [string_concat!]: the first arm matches a literal [[]] / [&[]] and yields [""];
    otherwise LEN = concat_sum_lengths(ARGS), CONC = concat_strs::<LEN>(ARGS), CONC.as_str() *)
Definition str_concat_m (w : Z) (literal_empty : bool) (arg : concat_arg) : res (list Z) :=
  if literal_empty then Done []
  else bind (concat_strs_m (concat_sum_lengths_m w arg) arg) as_str_m.

(* ------------------------------------------------------------------ str_join! *)

(** [__SepArg] *)
Inductive sep_arg : Type :=
| SChar (c : Z)
| SStr (s : list Z).

(** [__SepArg::len] *)
Definition sep_len (s : sep_arg) : Z :=
  match s with SChar c => len_utf8_m c | SStr s => zlen s end.

(** [join_sum_lengths]; [slice.len() - 1] cannot wrap in the non-empty branch *)
Definition join_sum_lengths_m (w : Z) (sep : sep_arg) (slice : list (list Z)) : Z :=
  match slice with
  | [] => 0
  | _ :: _ =>
      wrap w (concat_sum_lengths_m w (AStr slice) + wrap w (sep_len sep * (zlen slice - 1)))
  end.

(** [let sep = match sep { Char(c) => encode_utf8(c).as_str(), Str(s) => s }] then [.as_bytes()] *)
Definition sep_bytes (s : sep_arg) : list Z :=
  match s with SChar c => encode_m c | SStr s => s end.

(** for_range!{si in 0..rem_slices.len() => write_str!{sep} write_str!{rem_slices[si]}} *)
Fixpoint join_rem (sep : list Z) (rem : list (list Z)) (out : list Z) (out_i : Z) : res (list Z * Z) :=
  match rem with
  | [] => Done (out, out_i)
  | s :: rem' =>
      bind (write_elems sep out out_i) (fun '(o1, i1) =>
      bind (write_elems s o1 i1) (fun '(o2, i2) => join_rem sep rem' o2 i2))
  end.

(** [join_strs::<N>] *)
Definition join_strs_m (n : Z) (sep : sep_arg) (slices : list (list Z)) : res (list Z) :=
  let out := arr_repeat 0 n in
  let sepb := sep_bytes sep in
  match slices with
  | first :: rem_slices =>
      bind (write_elems first out 0) (fun '(o1, i1) =>
      bind (join_rem sepb rem_slices o1 i1) (fun '(o2, _) => Done o2))
  | [] => Done out
  end.

(** [string_join!] *)
Definition str_join_m (w : Z) (literal_empty : bool) (sep : sep_arg) (slice : list (list Z)) : res (list Z) :=
  if literal_empty then Done []
  else bind (join_strs_m (join_sum_lengths_m w sep slice) sep slice) as_str_m.

(* ------------------------------------------------------------------ string::from_iter! *)

(** the item closure of [str_from_iter!] in BuildArray mode:
      let mut i = written_length; let mut j = 0;
      while j < item_len { array[i] = MaybeUninit::new(bytes[j]); i += 1; j += 1; } *)
Definition write_cells (bytes : list Z) (array : list (option Z)) (written_length : Z)
  : res (list (option Z)) :=
  bind (write_elems (map (@Some Z) bytes) array written_length) (fun '(a, _) => Done a).

(** [__iter_collect_const!{@each ..}] run for every item the iterator yields:
      if let BuildArray(..) = cmd { $elem_initer }   $length += $elem_length; *)
Fixpoint collect_loop (w : Z) (build : bool) (items : list elem)
         (array : list (option Z)) (length : Z) : res (list (option Z) * Z) :=
  match items with
  | [] => Done (array, length)
  | item :: items' =>
      bind (if build then write_cells (elem_bytes item) array length else Done array)
           (fun array' => collect_loop w build items' array' (wrap w (length + elem_len item)))
  end.

(** [array_assume_init]: reading an uninitialised cell is UB *)
Fixpoint assume_init (a : list (option Z)) : res (list Z) :=
  match a with
  | [] => Done []
  | Some b :: r => bind (assume_init r) (fun r' => Done (b :: r'))
  | None :: _ => UB
  end.

(** [__func_zxe7hgbnjs(CollectorCmd::ComputeLength)]: CAP = 0, nothing is written *)
Definition collect_count_m (w : Z) (items : list elem) : res Z :=
  bind (collect_loop w false items [] 0) (fun '(_, n) => Done n).

(** [__func_zxe7hgbnjs(CollectorCmd::BuildArray)] with CAP = [cap] *)
Definition collect_build_m (w : Z) (cap : Z) (items : list elem) : res (list Z) :=
  bind (collect_loop w true items (arr_repeat None cap) 0) (fun '(array, n) =>
    if n =? cap then assume_init array else Panic (* "initialization was skipped somehow" *)).

(** [str_from_iter!]: COUNT, ARR: [u8; COUNT], then [from_utf8] or panic
    "created string isn't UTF8".  [items] is what the iterator yields, in order. *)
Definition from_iter_m (w : Z) (items : list elem) : res (list Z) :=
  bind (collect_count_m w items) (fun count =>
  bind (collect_build_m w count items) as_str_m).

(* ------------------------------------------------------------------ slice_concat! *)

Section SliceConcat.
  Context {A : Type}.

  (** [slice::concat_sum_lengths] *)
  Definition slice_sum_lengths_m (w : Z) (slices : list (list A)) : Z :=
    sum_lens w (map (@zlen A) slices) 0.

  (** [first_elem]: the first element of the first non-empty slice, or
      panic "there was no element in any slice" *)
  Fixpoint first_elem_m (slices : list (list A)) : res A :=
    match slices with
    | [] => Panic
    | s :: r => match s with first :: _ => Done first | [] => first_elem_m r end
    end.

  (** the outer loop of [concat_slices] *)
  Fixpoint slices_fill (slices : list (list A)) (out : list A) (out_i : Z) : res (list A * Z) :=
    match slices with
    | [] => Done (out, out_i)
    | s :: r => bind (write_elems s out out_i) (fun '(o, i) => slices_fill r o i)
    end.

  (** [concat_slices::<T, N>]: [try_into_array_func::<T, N>(&[])] is [Ok] iff [0 == N] *)
  Definition concat_slices_m (n : Z) (slices : list (list A)) : res (list A) :=
    if 0 =? n then Done []
    else
      bind (first_elem_m slices) (fun first =>
      bind (slices_fill slices (arr_repeat first n) 0) (fun '(out, _) => Done out)).

  (** [slice_concat!] *)
  Definition slice_concat_m (w : Z) (slices : list (list A)) : res (list A) :=
    concat_slices_m (slice_sum_lengths_m w slices) slices.
End SliceConcat.
