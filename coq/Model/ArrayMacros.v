(** C11 — the array-building macros of konst_kernel.

    Anchors: konst_kernel/src/macros/array_macros.rs ([__array_map], [array_map!],
    [array_from_fn!]), konst_kernel/src/collect_const.rs ([__collect_const_iter_with],
    [__iter_collect_const]), konst_kernel/src/iter/combinator_methods.rs (the loop the
    iterator DSL expands to).  The by-value macros ([map_!], [from_fn_!]) and the
    [ArrayBuilder] are in Model/Ledger.v.

    A [[MaybeUninit<T>; N]] is a [list (option B)]: [None] = never written. *)
From KV Require Import Base.Prelude.
Local Open Scope nat_scope.

(** what one evaluation of the closure body does *)
Inductive outcome (B : Type) : Type :=
| Value (v : B)      (* the block evaluates to v *)
| Break | Continue   (* unlabelled break / continue: they bind to the macro's own loop *)
| Return             (* returns from the function around the macro call *)
| Panic.
Arguments Value {B} v.
Arguments Break {B}.
Arguments Continue {B}.
Arguments Return {B}.
Arguments Panic {B}.

Inductive ares (B : Type) : Type :=
| Built (slots : list (option B))   (* reached [array_assume_init(out)] with these slots *)
| Panicked | Returned
| Diverged                          (* out of fuel *)
| OutOfBounds.                      (* an index outside the arrays: never happens (proved) *)
Arguments Built {B} slots.
Arguments Panicked {B}.
Arguments Returned {B}.
Arguments Diverged {B}.
Arguments OutOfBounds {B}.

Fixpoint set_nth {A} (l : list A) (k : nat) (v : A) : list A :=
  match l, k with
  | [], _ => []
  | _ :: r, O => v :: r
  | x :: r, S k' => x :: set_nth r k' v
  end.

Section ArrayMap.
  Context {A B : Type}.

  (** [$crate::__::assert!($i == len); array_assume_init(out)] *)
  Definition after_loop (len i : nat) (out : list (option B)) : ares B :=
    if i =? len then Built out else Panicked.

  (** [while $i < len { let $pat = $get_input; out[$i] = MaybeUninit::new($mapper); $i += 1; }]
      [clo calls x]: the [calls]-th evaluation of the closure body (it is inlined in the loop,
      so at run time it may depend on state it mutates), on input [x].  One unit of fuel per
      evaluation. *)
  Fixpoint amap_loop (fuel : nat) (clo : nat -> A -> outcome B) (input : list A)
      (i calls : nat) (out : list (option B)) : ares B :=
    match fuel with
    | O => if i <? length input then Diverged else after_loop (length input) i out
    | S fuel' =>
        if i <? length input then
          match nth_error input i with
          | None => OutOfBounds
          | Some x =>
              match clo calls x with
              | Value v =>
                  if i <? length out
                  then amap_loop fuel' clo input (S i) (S calls) (set_nth out i (Some v))
                  else OutOfBounds
              | Break => after_loop (length input) i out
              | Continue => amap_loop fuel' clo input i (S calls) out
              | Return => Returned
              | Panic => Panicked
              end
          end
        else after_loop (length input) i out
    end.

  (** [array::map!(input, closure)] *)
  Definition array_map_m (fuel : nat) (clo : nat -> A -> outcome B) (input : list A) : ares B :=
    amap_loop fuel clo input 0 0 (repeat None (length input)).

  (** The macro as it was before the repair of finding F10: [let len = $array.len();] is a METHOD
      call, so [len] is whatever a [len] method in scope at the call site returns for the array
      type ([len_reported]); the output array still has the array's real length.  The repaired
      macro takes N from the array's type ([array_len]), which is [length input]. *)
  Fixpoint amap_loop_len (len_reported : nat) (fuel : nat) (clo : nat -> A -> outcome B) (input : list A)
      (i calls : nat) (out : list (option B)) : ares B :=
    match fuel with
    | O => if i <? len_reported then Diverged else after_loop len_reported i out
    | S fuel' =>
        if i <? len_reported then
          match nth_error input i with
          | None => OutOfBounds
          | Some x =>
              match clo calls x with
              | Value v =>
                  if i <? length out
                  then amap_loop_len len_reported fuel' clo input (S i) (S calls) (set_nth out i (Some v))
                  else OutOfBounds
              | Break => after_loop len_reported i out
              | Continue => amap_loop_len len_reported fuel' clo input i (S calls) out
              | Return => Returned
              | Panic => Panicked
              end
          end
        else after_loop len_reported i out
    end.
  Definition array_map_len_m (len_reported fuel : nat) (clo : nat -> A -> outcome B) (input : list A) : ares B :=
    amap_loop_len len_reported fuel clo input 0 0 (repeat None (length input)).
End ArrayMap.

(** [array::from_fn!(closure)]: [__array_map] over [[(); N]] with [$get_input = i] *)
Definition array_from_fn_m {B} (fuel : nat) (clo : nat -> nat -> outcome B) (N : nat) : ares B :=
  array_map_m fuel clo (seq 0 N).

(* ------------------------------------------------------------------ collect_const! *)

(** The iterator DSL expands a chain to ONE loop
      [loop { item = match iter.next() { Some.. , None => break }; stage..; each }]
    in which every adapter is a few statements, so [break]/[continue] inside a closure act
    on that loop.  A miniature of it (enough for the generated collect_const! programs):
    closures are data. *)
Inductive exit_kind : Type := XNone | XBreak | XContinue.
(** a closure: leaves early with [cl_exit] when its argument equals [cl_trig]; otherwise
    evaluates body number [cl_body] with parameter [cl_par] *)
Record closure : Type := mkCl { cl_exit : exit_kind; cl_trig : Z; cl_body : nat; cl_par : Z }.

Definition pred_body (body : nat) (par x : Z) : bool :=
  match body with
  | 0 => (x mod 2 =? 0)%Z
  | 1 => (x <? par)%Z
  | 2 => negb (x =? par)%Z
  | _ => true
  end.
Definition map_body (body : nat) (par x : Z) : Z :=
  match body with
  | 0 => (x + par)%Z
  | 1 => (x * 2)%Z
  | _ => x
  end.

Inductive stage : Type :=
| SFilter (c : closure) | SMap (c : closure)
| STake (n : nat) | SSkip (n : nat)
| STakeWhile (c : closure) | SSkipWhile (c : closure) (still : bool).

Inductive flow : Type := FEmit (v : Z) | FContinue | FBreak.

Definition cl_early (c : closure) (x : Z) : option flow :=
  if (x =? cl_trig c)%Z then
    match cl_exit c with XNone => None | XBreak => Some FBreak | XContinue => Some FContinue end
  else None.

(** push one item through the stages; returns the updated stages (their counters) *)
Fixpoint stages_step (st : list stage) (x : Z) : list stage * flow :=
  match st with
  | [] => ([], FEmit x)
  | s :: r =>
      match s with
      | SFilter c =>
          match cl_early c x with
          | Some f => (st, f)
          | None => if pred_body (cl_body c) (cl_par c) x
                    then let '(r', f) := stages_step r x in (s :: r', f)
                    else (st, FContinue)
          end
      | SMap c =>
          match cl_early c x with
          | Some f => (st, f)
          | None => let '(r', f) := stages_step r (map_body (cl_body c) (cl_par c) x) in (s :: r', f)
          end
      | STake n =>
          match n with
          | O => (st, FBreak)
          | S n' => let '(r', f) := stages_step r x in (STake n' :: r', f)
          end
      | SSkip n =>
          match n with
          | O => let '(r', f) := stages_step r x in (s :: r', f)
          | S n' => (SSkip n' :: r, FContinue)
          end
      | STakeWhile c =>
          match cl_early c x with
          | Some f => (st, f)
          | None => if pred_body (cl_body c) (cl_par c) x
                    then let '(r', f) := stages_step r x in (s :: r', f)
                    else (st, FBreak)
          end
      | SSkipWhile c still =>
          (* still = still && pred(item): the closure only runs while still skipping *)
          if still then
            match cl_early c x with
            | Some f => (st, f)
            | None => if pred_body (cl_body c) (cl_par c) x
                      then (st, FContinue)
                      else let '(r', f) := stages_step r x in (SSkipWhile c false :: r', f)
            end
          else let '(r', f) := stages_step r x in (s :: r', f)
      end
  end.

(** the items that reach [@each], in order *)
Fixpoint chain_items (st : list stage) (src : list Z) : list Z :=
  match src with
  | [] => []
  | x :: r =>
      match stages_step st x with
      | (st', FEmit v) => v :: chain_items st' r
      | (st', FContinue) => chain_items st' r
      | (_, FBreak) => []
      end
  end.

Inductive cres (A : Type) : Type :=
| CBuilt (slots : list (option A))
| CPanicked.        (* in a const item: a compile error *)
Arguments CBuilt {A}. Arguments CPanicked {A}.

(** the [ComputeLength] call: the array has CAP = 0 slots and is never written;
    [@each] only does [length += 1] *)
Definition compute_length {A} (items : list A) : nat := length items.

(** the [BuildArray] call: [@each] does [array[length] = item; length += 1]; an index
    outside the array panics.  The item type is arbitrary (the harness uses integers, the
    iterator-DSL theorems the DSL's universal values). *)
Fixpoint build_loop {A} (items : list A) (arr : list (option A)) (len : nat) : option (list (option A) * nat) :=
  match items with
  | [] => Some (arr, len)
  | x :: r => if len <? length arr then build_loop r (set_nth arr len (Some x)) (S len) else None
  end.

Definition build_array {A} (cap : nat) (items : list A) : cres A :=
  match build_loop items (repeat None cap) 0 with
  | None => CPanicked
  | Some (arr, len) => if len =? cap then CBuilt arr else CPanicked   (* assert!(length == CAP) *)
  end.

(** [collect_const!]: two const evaluations of the same function; [items1] / [items2] are
    what the chain yields in the first / second one *)
Definition collect_const_m {A} (items1 items2 : list A) : cres A :=
  build_array (compute_length items1) items2.
