(** Executable models of [string::chars] / [string::char_indices] and their reversed forms
    (konst/src/string/chars_methods.rs, after expansion of [iterator_shared!]).

    By-value iterators: [next : state -> res (option (item * state))].
    The Rust state is [this: &str] (a sub-string of the argument) and, for CharIndices,
    [start_offset: usize]; the model keeps the bytes of [this] plus [base] = where [this]
    starts inside the string the iterator was created from (the pointer of [as_str()]).
    A char is its scalar value ([string_to_char] = [from_u32_unchecked(string_to_usv(s))],
    a transmute). *)
From KV Require Import Base.Prelude Model.Utf8 Model.Str.

(** shared body of the forward step:
    [if this.is_empty() { return None }
     let split_at = __find_next_char_boundary(this.as_bytes(), 0);
     let (prev, next) = string::split_at(this, split_at);]  then [string_to_char(prev)].
    Result: (char, split_at, view of the new [this]). *)
Definition front_step (this : list Z) : res (option (Z * Z * view)) :=
  match this with
  | [] => Ok None
  | _ =>
    match find_next_m this 0 with
    | Ok k =>
      match split_at_m this k with
      | Ok (p, n) => Ok (Some (string_to_usv_m (sub this p), k, n))
      | Panic e => Panic e
      | OutOfFuel => OutOfFuel
      end
    | Panic e => Panic e
    | OutOfFuel => OutOfFuel
    end
  end.

(** shared body of the backward step:
    [let split_at = __find_prev_char_boundary(this.as_bytes(), this.len());
     let (prev, next) = string::split_at(this, split_at);] then [string_to_char(next)];
    the new [this] is [prev]. *)
Definition back_step (this : list Z) : res (option (Z * Z * view)) :=
  match this with
  | [] => Ok None
  | _ =>
    match find_prev_m this (zlen this) with
    | Ok k =>
      match split_at_m this k with
      | Ok (p, n) => Ok (Some (string_to_usv_m (sub this n), k, p))
      | Panic e => Panic e
      | OutOfFuel => OutOfFuel
      end
    | Panic e => Panic e
    | OutOfFuel => OutOfFuel
    end
  end.

(* ---------------------------------------------------------------- Chars / RChars *)

Record chars_st : Type := { c_this : list Z; c_base : Z }.

Definition chars_init (s : list Z) : chars_st := {| c_this := s; c_base := 0 |}.

Definition chars_move (st : chars_st) (v : view) : chars_st :=
  {| c_this := sub (c_this st) v; c_base := c_base st + fst v |}.

Definition chars_next (st : chars_st) : res (option (Z * chars_st)) :=
  match front_step (c_this st) with
  | Ok None => Ok None
  | Ok (Some (c, _, n)) => Ok (Some (c, chars_move st n))
  | Panic e => Panic e
  | OutOfFuel => OutOfFuel
  end.
Definition chars_next_back (st : chars_st) : res (option (Z * chars_st)) :=
  match back_step (c_this st) with
  | Ok None => Ok None
  | Ok (Some (c, _, p)) => Ok (Some (c, chars_move st p))
  | Panic e => Panic e
  | OutOfFuel => OutOfFuel
  end.
(** [Chars::as_str]: the view of the not yet iterated part *)
Definition chars_as_str (st : chars_st) : view := (c_base st, zlen (c_this st)).

(** [RChars]: same fields ([rev] only changes the type); [next] is the other block *)
Definition rchars_next := chars_next_back.
Definition rchars_next_back := chars_next.

(* ---------------------------------------------------------------- CharIndices / RCharIndices *)

Record cidx_st : Type := { i_this : list Z; i_base : Z; i_off : Z (* start_offset *) }.

Definition cidx_init (s : list Z) : cidx_st := {| i_this := s; i_base := 0; i_off := 0 |}.

Definition cidx_next (st : cidx_st) : res (option ((Z * Z) * cidx_st)) :=
  match front_step (i_this st) with
  | Ok None => Ok None
  | Ok (Some (c, k, n)) =>
      Ok (Some ((i_off st, c),
                {| i_this := sub (i_this st) n; i_base := i_base st + fst n; i_off := i_off st + k |}))
  | Panic e => Panic e
  | OutOfFuel => OutOfFuel
  end.
Definition cidx_next_back (st : cidx_st) : res (option ((Z * Z) * cidx_st)) :=
  match back_step (i_this st) with
  | Ok None => Ok None
  | Ok (Some (c, k, p)) =>
      Ok (Some ((i_off st + k, c),
                {| i_this := sub (i_this st) p; i_base := i_base st + fst p; i_off := i_off st |}))
  | Panic e => Panic e
  | OutOfFuel => OutOfFuel
  end.
Definition cidx_as_str (st : cidx_st) : view := (i_base st, zlen (i_this st)).

Definition rcidx_next := cidx_next_back.
Definition rcidx_next_back := cidx_next.
