(** Executable models of konst's string split iterators
    (konst/src/string/splitting.rs, split_terminator_items.rs) and of the two
    char-boundary scanners they use (konst_kernel/src/string.rs).

    A [&str] is its byte list.  The iterators are by-value state machines
    [next : st -> option (piece * st)].  [str_up_to] / [str_from] / [split_at] are
    modelled as [firstn] / [skipn]: the indices handed to them here are always
    match positions or scanner results, and that those are char boundaries (so the
    real functions do not panic) is an obligation of C01/C03, not of this file. *)
From KV Require Import Base.Prelude Model.Search Model.Utf8.

(* ------------------------------------------------------------ boundary scanners *)

(** [(b as i8) >= -0x40] (b is not a UTF-8 continuation byte) is [Model.Utf8.byte_is_boundary] *)

(** number of leading continuation bytes *)
Fixpoint count_cont (l : list Z) : nat :=
  match l with
  | b :: r => if byte_is_boundary b then O else S (count_cont r)
  | [] => O
  end.

(** [__find_next_char_boundary(bytes, 0)]: position += 1 until a (forgiving) boundary *)
Definition next_boundary (bytes : list Z) : nat :=
  match bytes with
  | [] => 1
  | _ :: r => S (count_cont r)
  end.

(** [__find_prev_char_boundary(bytes, bytes.len())]: saturating_sub(1), then step back
    over continuation bytes; [None] = the [position -= 1] underflow (all bytes are
    continuation bytes; impossible for valid UTF-8) *)
Definition prev_boundary (bytes : list Z) : option nat :=
  match bytes with
  | [] => Some O
  | _ => let k := count_cont (rev bytes) in
         if Nat.ltb k (length bytes) then Some (length bytes - 1 - k)%nat else None
  end.

(* ------------------------------------------------------------ Split / RSplit *)

Inductive sstate : Type :=
| SNormal (delim : list Z)
| SEmptyStart
| SEmptyCont
| SFinished.

Record split_st : Type := mk_split { s_this : list Z; s_state : sstate }.

(** [string::split] *)
Definition split_init (this delim : list Z) : split_st :=
  mk_split this (match delim with [] => SEmptyStart | _ => SNormal delim end).

Inductive step_res (A : Type) : Type :=
| Yield (piece : list Z) (st : A)
| Done
| StepPanic.
Arguments Yield {A}. Arguments Done {A}. Arguments StepPanic {A}.

(** the [next] block of [split_shared!] (this is [Split::next] and [RSplit::next_back]) *)
Definition split_next (s : split_st) : step_res split_st :=
  let this := s_this s in
  match s_state s with
  | SNormal d =>
      match find_m this d with
      | Some pos =>
          Yield (firstn (Z.to_nat pos) this)
                (mk_split (skipn (Z.to_nat (pos + zlen d)) this) (SNormal d))
      | None => Yield this (mk_split [] SFinished)
      end
  | SEmptyStart => Yield [] (mk_split this SEmptyCont)
  | SEmptyCont =>
      let st' := match this with [] => SFinished | _ => SEmptyCont end in
      let n := next_boundary this in
      Yield (firstn n this) (mk_split (skipn n this) st')
  | SFinished => Done
  end.

(** the [next_back] block (this is [Split::next_back] and [RSplit::next]) *)
Definition split_next_back (s : split_st) : step_res split_st :=
  let this := s_this s in
  match s_state s with
  | SNormal d =>
      match rfind_m this d with
      | Some pos =>
          Yield (skipn (Z.to_nat (pos + zlen d)) this)
                (mk_split (firstn (Z.to_nat pos) this) (SNormal d))
      | None => Yield this (mk_split [] SFinished)
      end
  | SEmptyStart => Yield [] (mk_split this SEmptyCont)
  | SEmptyCont =>
      let st' := match this with [] => SFinished | _ => SEmptyCont end in
      match prev_boundary this with
      | Some n => Yield (skipn n this) (mk_split (firstn n this) st')
      | None => StepPanic
      end
  | SFinished => Done
  end.

(* ------------------------------------------------------------ SplitTerminator *)

Inductive tstate : Type :=
| TNormal (delim : list Z)
| TEmptyStart
| TEmptyCont.

Record term_st : Type := mk_term { t_this : list Z; t_state : tstate }.

Definition term_init (this delim : list Z) : term_st :=
  mk_term this (match delim with [] => TEmptyStart | _ => TNormal delim end).

(** [SplitTerminator::next] *)
Definition term_next (s : term_st) : step_res term_st :=
  let this := t_this s in
  match t_state s with
  | TEmptyStart => Yield [] (mk_term this TEmptyCont)
  | st =>
      match this with
      | [] => Done
      | _ =>
          match st with
          | TNormal d =>
              let '(nxt, ret) :=
                match find_m this d with
                | Some pos => (pos + zlen d, pos)
                | None => (zlen this, zlen this)
                end in
              Yield (firstn (Z.to_nat ret) this) (mk_term (skipn (Z.to_nat nxt) this) st)
          | _ =>
              let n := next_boundary this in
              Yield (firstn n this) (mk_term (skipn n this) st)
          end
      end
  end.

(** [RSplitTerminator::next] *)
Definition rterm_next (s : term_st) : step_res term_st :=
  let this := t_this s in
  match t_state s with
  | TEmptyStart => Yield [] (mk_term this TEmptyCont)
  | st =>
      match this with
      | [] => Done
      | _ =>
          match st with
          | TNormal d =>
              let '(nxt, ret) :=
                match rfind_m this d with
                | Some pos => (pos, pos + zlen d)
                | None => (0, 0)
                end in
              Yield (skipn (Z.to_nat ret) this) (mk_term (firstn (Z.to_nat nxt) this) st)
          | _ =>
              match prev_boundary this with
              | Some n => Yield (skipn n this) (mk_term (firstn n this) st)
              | None => StepPanic
              end
          end
      end
  end.

(* ------------------------------------------------------------ running to exhaustion *)

(** pieces yielded by repeated [next] (at most [fuel] steps); [None] on a panic or when
    the fuel runs out before [Done] *)
Fixpoint collect {A} (next : A -> step_res A) (fuel : nat) (s : A) : option (list (list Z)) :=
  match fuel with
  | O => None
  | S f =>
      match next s with
      | Done => Some []
      | StepPanic => None
      | Yield p s' => option_map (cons p) (collect next f s')
      end
  end.

(** fuel that always suffices: every step but the first/last consumes a byte *)
Definition split_fuel (h : list Z) : nat := length h + 3.
