(** The side-effect half of the iterator DSL: HOW MANY items the generated loop nest takes from
    its source.  Every closure in front of the first adapter is evaluated once per pulled item, so
    this number is what a side-effecting (or panicking) closure observes.

    [pulled] counts the iterations of the outermost loop of [Dsl.run_loop]: the item on which some
    layer breaks out of every loop ([LStop], or the consumer's early exit) HAS been pulled. *)
From KV Require Import Base.Prelude Model.Dsl.

Fixpoint fold_stop_count {X} (step : X -> dval -> X * bool) (x : X) (l : list dval) : nat :=
  match l with
  | [] => 0
  | v :: l' => let '(x1, b) := step x v in if b then 1 else S (fold_stop_count step x1 l')
  end.

Definition pulled (ms : list adapter) (c : consumer) (src : list dval) : nat :=
  let d0 := reverses ms c in
  fold_stop_count (push (cstep c) ms d0) (map init_cell ms, cinit c) (dirlist d0 src).

(** adapters that hand every item on, one for one, and keep no variable *)
Definition one_to_one (a : adapter) : bool :=
  match a with AMap _ | ACopied => true | _ => false end.

(** what the one-for-one adapters [pre] make of an item *)
Fixpoint apply_pre (pre : list adapter) (v : dval) : dval :=
  match pre with
  | [] => v
  | AMap f :: pre' => apply_pre pre' (f v)
  | _ :: pre' => apply_pre pre' v
  end.

(** core::iter::Take::next: `if self.n != 0 { self.n -= 1; self.iter.next() } else { None }` --
    after n items nothing more is asked of the inner iterator; one-for-one adapters in front of it
    ask their source exactly as often as they are asked. *)
Definition std_take_pulls (n : nat) (src : list dval) : nat := Nat.min n (length src).
