(** Executable model of what [parser_method!] expands to
    (konst/src/macros/parser_method.rs) and of the two Parser methods the expansion
    calls (konst/src/parsing/non_parsing_methods.rs: skip, skip_back).

    Hand expansion of

      parser_method!{p, strip_prefix; "a" | "b" => e0, "c" => e1, _ => d}

    (parser_method! -> __priv_pa_normalize_branches! -> __priv_pa_strip_prefix!):

      match p.remainder().as_bytes() {
          [97, rem @ ..] | [98, rem @ ..] => { p = p.skip(p.remainder().len() - rem.len()); e0 }
          [99, rem @ ..]                  => { p = p.skip(p.remainder().len() - rem.len()); e1 }
          _ => d,
      }

    The slice patterns come from the proc macros __priv_bstr_start!(rem, LIT) =
    [b0, b1, .., rem @ ..] and __priv_bstr_end!(rem, LIT) = [rem @ .., b0, b1, ..]
    where b0 b1 .. are the bytes of the decoded literal (Model/Literal.v).
    strip_suffix / rfind_skip / trim_end_matches use the [_end] pattern and
    [skip_back].  find_skip / rfind_skip wrap the same [match] in a loop that drops
    one byte from the front / back of [bytes] when no arm matches and runs the
    default when [bytes] is empty; trim_* is
      while let P0 | P1 | .. = bytes { if rem.len() == bytes.len() { break } else { bytes = rem } }
      p = p.skip(p.remainder().len() - bytes.len());

    The Parser is kept as (remainder bytes, start_offset, parse_direction); the full
    record is property C13's.  start_offset is a plain Z (the u32 bookkeeping is C13's). *)
From KV Require Import Base.Prelude.

Inductive pdir : Type := FromStart | FromEnd | FromBoth.

Record parser : Type := mkP { p_rem : list Z; p_off : Z; p_dir : pdir }.

(** [!byte_is_char_boundary!(b)] : [(b as i8) < -0x40] *)
Definition is_cont (b : Z) : bool := (128 <=? b) && (b <? 192).

(** [while !__is_char_boundary_bytes(bytes, n) { n += 1 }] seen from the bytes at and
    after position n: how many further bytes are skipped *)
Fixpoint round_up (rest : list Z) : nat :=
  match rest with
  | [] => O
  | b :: t => if is_cont b then S (round_up t) else O
  end.

(** Parser::skip *)
Definition skip_m (p : parser) (n : Z) : parser :=
  let bytes := p_rem p in
  let bc :=
    if zlen bytes <? n then length bytes
    else (Z.to_nat n + round_up (skipn (Z.to_nat n) bytes))%nat in
  mkP (skipn bc bytes) (p_off p + Z.of_nat bc) FromStart.

(** [__is_char_boundary_bytes(bytes, pos)] *)
Definition is_boundary_at (bytes : list Z) (pos : nat) : bool :=
  match skipn pos bytes with
  | [] => (pos =? length bytes)%nat
  | b :: _ => negb (is_cont b)
  end.

(** [while !__is_char_boundary_bytes(bytes, pos) { pos -= 1 }]; at pos = 0 on a
    continuation byte the Rust would underflow, which cannot happen for a &str *)
Fixpoint round_down (bytes : list Z) (pos : nat) : nat :=
  match pos with
  | O => O
  | S k => if is_boundary_at bytes pos then pos else round_down bytes k
  end.

(** Parser::skip_back *)
Definition skip_back_m (p : parser) (n : Z) : parser :=
  let bytes := p_rem p in
  let pos := Z.to_nat (Z.max 0 (zlen bytes - n)) in        (* saturating_sub *)
  mkP (firstn (round_down bytes pos) bytes) (p_off p) FromEnd.

(* ------------------------------------------------------------------------- *)
(** the slice pattern [[b0, .., bn, rem @ ..]]: the binding of [rem] if it matches *)
Fixpoint pat_start (lit bytes : list Z) : option (list Z) :=
  match lit with
  | [] => Some bytes
  | b :: lit' =>
      match bytes with
      | [] => None
      | x :: bytes' => if x =? b then pat_start lit' bytes' else None
      end
  end.

(** [[rem @ .., b0, .., bn]]: the same on the reversed lists *)
Definition pat_end (lit bytes : list Z) : option (list Z) :=
  option_map (@rev Z) (pat_start (rev lit) (rev bytes)).

Inductive side : Type := AtStart | AtEnd.

Definition pat (s : side) : list Z -> list Z -> option (list Z) :=
  match s with AtStart => pat_start | AtEnd => pat_end end.

(** the arms of the generated [match], in order: every alternative of every branch,
    tagged with the index of its branch.  (Alternatives of an or-pattern are tried
    left to right and bind [rem] from the first one that matches.) *)
Fixpoint arms_from (i : nat) (brs : list (list (list Z))) : list (nat * list Z) :=
  match brs with
  | [] => []
  | alts :: t => map (fun a => (i, a)) alts ++ arms_from (S i) t
  end.
Definition arms_of (brs : list (list (list Z))) : list (nat * list Z) := arms_from O brs.

(** the [match bytes { arms.. }] without its default arm: (branch index, rem) *)
Fixpoint match_arms (s : side) (arms : list (nat * list Z)) (bytes : list Z)
  : option (nat * list Z) :=
  match arms with
  | [] => None
  | (i, lit) :: t =>
      match pat s lit bytes with
      | Some r => Some (i, r)
      | None => match_arms s t bytes
      end
  end.

(** __priv_pa_bytes_accessor!(set, ..): p = p.skip(..) / p.skip_back(..) *)
Definition set_rem (s : side) (p : parser) (r : list Z) : parser :=
  let n := zlen (p_rem p) - zlen r in
  match s with AtStart => skip_m p n | AtEnd => skip_back_m p n end.

(** result of a match-like form: which branch ran ([None] = the default) and the parser *)
Definition outcome : Type := (option nat * parser)%type.

(** __priv_pa_strip_prefix / __priv_pa_strip_suffix *)
Definition strip_macro (s : side) (brs : list (list (list Z))) (p : parser) : outcome :=
  match match_arms s (arms_of brs) (p_rem p) with
  | Some (i, r) => (Some i, set_rem s p r)
  | None => (None, p)
  end.

(** the scan loop of __priv_pa_find_skip_either, forward: [if let [_, brem @ ..] = bytes] *)
Fixpoint find_loop_start (arms : list (nat * list Z)) (bytes : list Z) : option (nat * list Z) :=
  match match_arms AtStart arms bytes with
  | Some x => Some x
  | None =>
      match bytes with
      | _ :: brem => find_loop_start arms brem
      | [] => None
      end
  end.

(** backward: [if let [brem @ .., _] = bytes]; [rbytes] is [bytes] reversed *)
Fixpoint find_loop_end (arms : list (nat * list Z)) (rbytes : list Z) : option (nat * list Z) :=
  match match_arms AtEnd arms (rev rbytes) with
  | Some x => Some x
  | None =>
      match rbytes with
      | _ :: rbrem => find_loop_end arms rbrem
      | [] => None
      end
  end.

Definition find_loop (s : side) (arms : list (nat * list Z)) (bytes : list Z) : option (nat * list Z) :=
  match s with
  | AtStart => find_loop_start arms bytes
  | AtEnd => find_loop_end arms (rev bytes)
  end.

(** __priv_pa_find_skip / __priv_pa_rfind_skip *)
Definition find_macro (s : side) (brs : list (list (list Z))) (p : parser) : outcome :=
  match find_loop s (arms_of brs) (p_rem p) with
  | Some (i, r) => (Some i, set_rem s p r)
  | None => (None, p)
  end.

(** the [while let] of __priv_pa_trim_matches_inner; [None] = out of fuel
    (never with fuel > length bytes: trim_loop_fuel) *)
Fixpoint trim_loop (fuel : nat) (s : side) (arms : list (nat * list Z)) (bytes : list Z)
  : option (list Z) :=
  match fuel with
  | O => None
  | S f =>
      match match_arms s arms bytes with
      | Some (_, r) => if zlen r =? zlen bytes then Some bytes else trim_loop f s arms r
      | None => Some bytes
      end
  end.

(** __priv_pa_trim_start_matches / __priv_pa_trim_end_matches ([alts]: the patterns) *)
Definition trim_macro (s : side) (alts : list (list Z)) (p : parser) : option parser :=
  match trim_loop (S (length (p_rem p))) s (arms_of [alts]) (p_rem p) with
  | Some bytes => Some (set_rem s p bytes)
  | None => None
  end.
