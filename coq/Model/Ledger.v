(** C15 (and the builder half of C11) — ledger model of konst's by-value array APIs.

    Anchors: konst/src/array/array_consumer.rs, konst/src/array/array_builder.rs,
    konst/src/array/__array_macros_2.rs (map_!, from_fn_!).

    An element is an identity (a [Z]).  A [MaybeUninit<T>] slot is [Live id] (initialised
    and owned by the container) or [Moved] (never written, or already read out with
    [assume_init_read] / [ptr::read]).  Reading a [Moved] slot is what would be undefined
    behaviour in the Rust (double move / read of uninitialised memory): every function that
    reads slots returns an [option] whose [None] means exactly that.

    Events are what a drop ledger can see: [Hand id] (the element was given to the caller),
    [Drop id] (its destructor ran), [Cl src new] ([Clone::clone] of [src] returned [new]).

    Indices are [nat] (they index lists that exist; [N - taken_front - taken_back] cannot
    underflow under the invariant proved in Proofs/LedgerProofs.v). *)
From KV Require Import Base.Prelude.
Local Open Scope nat_scope.

Inductive slot : Type := Live (i : Z) | Moved.
Inductive event : Type := Hand (i : Z) | Drop (i : Z) | Cl (src new : Z).

Definition read_slot (s : list slot) (k : nat) : option Z :=
  match nth_error s k with Some (Live i) => Some i | _ => None end.

Fixpoint set_slot (s : list slot) (k : nat) (v : slot) : list slot :=
  match s, k with
  | [], _ => []
  | _ :: r, O => v :: r
  | x :: r, S k' => x :: set_slot r k' v
  end.

(** the ids of [len] consecutive slots starting at [k]; all of them must be initialised *)
Fixpoint read_range (s : list slot) (k len : nat) : option (list Z) :=
  match len with
  | O => Some []
  | S len' =>
      match read_slot s k, read_range s (S k) len' with
      | Some i, Some r => Some (i :: r)
      | _, _ => None
      end
  end.

(* ------------------------------------------------------------------ ArrayConsumer *)

Record consumer : Type := mkC { c_slots : list slot; c_tf : nat; c_tb : nat }.

(** [ArrayConsumer::new(array)] *)
Definition c_new (ids : list Z) : consumer := mkC (map Live ids) 0 0.
(** [ArrayConsumer::empty()] *)
Definition c_empty (N : nat) : consumer := mkC (repeat Moved N) N 0.

Definition c_cap (c : consumer) : nat := length (c_slots c).
(** [slice_len]: [N - taken_front - taken_back] *)
Definition c_len (c : consumer) : nat := c_cap c - c_tf c - c_tb c.
Definition c_is_empty (c : consumer) : bool := c_len c =? 0.

(** [as_slice]: [from_raw_parts(array.as_ptr().add(taken_front), slice_len)] *)
Definition c_as_slice (c : consumer) : option (list Z) :=
  read_range (c_slots c) (c_tf c) (c_len c).

(** [next]: outer [None] = UB, inner [None] = the iterator is exhausted *)
Definition c_next (c : consumer) : option (option Z * consumer) :=
  if c_is_empty c then Some (None, c)
  else match read_slot (c_slots c) (c_tf c) with
       | Some i => Some (Some i, mkC (set_slot (c_slots c) (c_tf c) Moved) (S (c_tf c)) (c_tb c))
       | None => None
       end.

Definition c_next_back (c : consumer) : option (option Z * consumer) :=
  if c_is_empty c then Some (None, c)
  else let index := c_cap c - c_tb c - 1 in
       match read_slot (c_slots c) index with
       | Some i => Some (Some i, mkC (set_slot (c_slots c) index Moved) (c_tf c) (S (c_tb c)))
       | None => None
       end.

(** [Drop]: [drop_in_place(slice_from_raw_parts_mut(ptr.add(taken_front), slice_len))] *)
Definition c_drop (c : consumer) : option (list event) :=
  option_map (map Drop) (read_range (c_slots c) (c_tf c) (c_len c)).

(** [Clone]: [this = {uninit, taken_front: 0, taken_back: N}];
    [for (i, elem) in self.as_slice().iter().cloned().enumerate()
       { this.array[i] = new(elem); this.taken_back -= 1 }].
    [n] is the next fresh identity; [bomb = Some j] makes the j-th [T::clone] call panic
    (the partially built [this] is then dropped by unwinding).  The [bool] says "panicked". *)
Fixpoint c_clone_loop (src : list Z) (i : nat) (this : consumer) (n : Z) (bomb : option nat)
    (ev : list event) : consumer * Z * list event * bool :=
  match src with
  | [] => (this, n, ev, false)
  | x :: r =>
      match bomb with
      | Some O => (this, n, ev, true)
      | _ =>
          c_clone_loop r (S i)
            (mkC (set_slot (c_slots this) i (Live n)) (c_tf this) (c_tb this - 1))
            (n + 1)%Z (option_map pred bomb) (ev ++ [Cl x n])
      end
  end.

(** result: the clone (or [None] when a [T::clone] panicked), the next fresh id, events *)
Definition c_clone (c : consumer) (n : Z) (bomb : option nat)
    : option (option consumer * Z * list event) :=
  match c_as_slice c with
  | None => None
  | Some src =>
      match c_clone_loop src 0 (mkC (repeat Moved (c_cap c)) 0 (c_cap c)) n bomb [] with
      | (this, n', ev, false) => Some (Some this, n', ev)
      | (this, n', ev, true) =>
          match c_drop this with
          | Some d => Some (None, n', ev ++ d)
          | None => None
          end
      end
  end.

(* ------------------------------------------------------------------ ArrayBuilder *)

Record builder : Type := mkB { b_slots : list slot; b_inited : nat }.

Definition b_new (N : nat) : builder := mkB (repeat Moved N) 0.
Definition b_cap (b : builder) : nat := length (b_slots b).
Definition b_len (b : builder) : nat := b_inited b.
Definition b_is_full (b : builder) : bool := b_inited b =? b_cap b.
Definition b_as_slice (b : builder) : option (list Z) := read_range (b_slots b) 0 (b_inited b).

(** [push]: [assert!(inited < N)]; the [bool] says "panicked" (then [val] is dropped by
    unwinding and the builder is unchanged) *)
Definition b_push (b : builder) (x : Z) : builder * bool :=
  if b_inited b <? b_cap b
  then (mkB (set_slot (b_slots b) (b_inited b) (Live x)) (S (b_inited b)), false)
  else (b, true).

(** [build]: [assert!(is_full())], then the whole array is read out.
    outer [None] = UB (an unwritten element would be returned), inner [None] = panic *)
Definition b_build (b : builder) : option (option (list Z)) :=
  if b_is_full b then option_map Some (read_range (b_slots b) 0 (b_cap b)) else Some None.

(** [Drop]: [drop_in_place(slice_from_raw_parts_mut(ptr, inited))] *)
Definition b_drop (b : builder) : option (list event) :=
  option_map (map Drop) (read_range (b_slots b) 0 (b_inited b)).

(** [Clone]: [this = new(); for elem in self.as_slice() { this.push(elem.clone()) }] *)
Fixpoint b_clone_loop (src : list Z) (this : builder) (n : Z) (bomb : option nat)
    (ev : list event) : builder * Z * list event * bool :=
  match src with
  | [] => (this, n, ev, false)
  | x :: r =>
      match bomb with
      | Some O => (this, n, ev, true)
      | _ =>
          match b_push this n with
          | (this', false) => b_clone_loop r this' (n + 1)%Z (option_map pred bomb) (ev ++ [Cl x n])
          | (this', true) => (this', (n + 1)%Z, ev ++ [Cl x n; Drop n], true)
          end
      end
  end.

Definition b_clone (b : builder) (n : Z) (bomb : option nat)
    : option (option builder * Z * list event) :=
  match b_as_slice b with
  | None => None
  | Some src =>
      match b_clone_loop src (b_new (b_cap b)) n bomb [] with
      | (this, n', ev, false) => Some (Some this, n', ev)
      | (this, n', ev, true) =>
          match b_drop this with
          | Some d => Some (None, n', ev ++ d)
          | None => None
          end
      end
  end.

(* ------------------------------------------------------------------ histories *)

(** a little world of live objects, so that clones can be operated on too *)
Inductive obj : Type := OC (c : consumer) | OB (b : builder) | Gone.
Record world : Type := mkW { w_objs : list obj; w_next : Z }.

Inductive op : Type :=
| ONext (k : nat) | ONextBack (k : nat)
| OClone (k : nat) (bomb : option nat)
| ODrop (k : nat)
| OAssertEmpty (k : nat)
| OForget (k : nat)
| OPush (k : nat)
| OBuild (k : nat).

Inductive ret : Type :=
| RUnit | RPanic | RNone | RSome (i : Z) | RArr (l : list Z) | RNew (k : nat).

Inductive step_res : Type :=
| StepOk (w : world) (r : ret) (ev : list event)
| StepUB            (* the Rust would have read a moved-out / unwritten slot *)
| StepInvalid.      (* no such live object, or the op is not one of its methods *)

Definition get_obj (w : world) (k : nat) : obj := nth k (w_objs w) Gone.
Fixpoint set_nth {A} (l : list A) (k : nat) (v : A) : list A :=
  match l, k with
  | [], _ => []
  | _ :: r, O => v :: r
  | x :: r, S k' => x :: set_nth r k' v
  end.
Definition set_obj (w : world) (k : nat) (o : obj) : world :=
  mkW (set_nth (w_objs w) k o) (w_next w).

Definition obj_drop (o : obj) : option (list event) :=
  match o with OC c => c_drop c | OB b => b_drop b | Gone => Some [] end.

Definition step (w : world) (o : op) : step_res :=
  match o with
  | ONext k =>
      match get_obj w k with
      | OC c => match c_next c with
                | None => StepUB
                | Some (None, c') => StepOk (set_obj w k (OC c')) RNone []
                | Some (Some i, c') => StepOk (set_obj w k (OC c')) (RSome i) [Hand i]
                end
      | _ => StepInvalid
      end
  | ONextBack k =>
      match get_obj w k with
      | OC c => match c_next_back c with
                | None => StepUB
                | Some (None, c') => StepOk (set_obj w k (OC c')) RNone []
                | Some (Some i, c') => StepOk (set_obj w k (OC c')) (RSome i) [Hand i]
                end
      | _ => StepInvalid
      end
  | OClone k bomb =>
      match get_obj w k with
      | OC c => match c_clone c (w_next w) bomb with
                | None => StepUB
                | Some (Some c', n', ev) =>
                    StepOk (mkW (w_objs w ++ [OC c']) n') (RNew (length (w_objs w))) ev
                | Some (None, n', ev) => StepOk (mkW (w_objs w) n') RPanic ev
                end
      | OB b => match b_clone b (w_next w) bomb with
                | None => StepUB
                | Some (Some b', n', ev) =>
                    StepOk (mkW (w_objs w ++ [OB b']) n') (RNew (length (w_objs w))) ev
                | Some (None, n', ev) => StepOk (mkW (w_objs w) n') RPanic ev
                end
      | Gone => StepInvalid
      end
  | ODrop k =>
      match get_obj w k with
      | Gone => StepInvalid
      | o => match obj_drop o with
             | None => StepUB
             | Some ev => StepOk (set_obj w k Gone) RUnit ev
             end
      end
  | OAssertEmpty k =>
      (* assert!(self.is_empty()); mem::forget(self)  -- a failed assert drops [self] *)
      match get_obj w k with
      | OC c => if c_is_empty c then StepOk (set_obj w k Gone) RUnit []
                else match c_drop c with
                     | None => StepUB
                     | Some ev => StepOk (set_obj w k Gone) RPanic ev
                     end
      | _ => StepInvalid
      end
  | OForget k =>
      match get_obj w k with
      | Gone => StepInvalid
      | _ => StepOk (set_obj w k Gone) RUnit []
      end
  | OPush k =>
      match get_obj w k with
      | OB b => let x := w_next w in
                match b_push b x with
                | (b', false) => StepOk (mkW (set_nth (w_objs w) k (OB b')) (x + 1)%Z) RUnit []
                | (_, true) => StepOk (mkW (w_objs w) (x + 1)%Z) RPanic [Drop x]
                end
      | _ => StepInvalid
      end
  | OBuild k =>
      match get_obj w k with
      | OB b => match b_build b with
                | None => StepUB
                | Some (Some l) => StepOk (set_obj w k Gone) (RArr l) (map Hand l)
                | Some None => match b_drop b with
                               | None => StepUB
                               | Some ev => StepOk (set_obj w k Gone) RPanic ev
                               end
                end
      | _ => StepInvalid
      end
  end.

(** the object an op addresses *)
Definition op_target (o : op) : nat :=
  match o with
  | ONext k | ONextBack k | OClone k _ | ODrop k | OAssertEmpty k | OForget k | OPush k | OBuild k => k
  end.

(** what the harness looks at after every op: [as_slice] of the addressed object
    (for a builder also [len()] and [is_full()]) *)
Inductive view : Type := VGone | VC (l : list Z) | VB (l : list Z) (len : nat) (full : bool).
Definition obj_view (o : obj) : option view :=
  match o with
  | OC c => option_map VC (c_as_slice c)
  | OB b => option_map (fun l => VB l (b_len b) (b_is_full b)) (b_as_slice b)
  | Gone => Some VGone
  end.

(** drop every object that is still alive, in index order (end of the history) *)
Fixpoint drop_all (os : list obj) : option (list event) :=
  match os with
  | [] => Some []
  | o :: r => match obj_drop o, drop_all r with
              | Some a, Some b => Some (a ++ b)
              | _, _ => None
              end
  end.

(** one observation per op: result, the slice after it, and the events it caused *)
Definition obs : Type := (ret * view * list event)%type.

Inductive run_res : Type :=
| RunOk (w : world) (os : list obs)
| RunUB | RunInvalid.

Fixpoint run (w : world) (ops : list op) : run_res :=
  match ops with
  | [] => RunOk w []
  | o :: r =>
      match step w o with
      | StepUB => RunUB
      | StepInvalid => RunInvalid
      | StepOk w' rt ev =>
          match obj_view (get_obj w' (op_target o)) with
          | None => RunUB
          | Some sl =>
              match run w' r with
              | RunOk w'' os => RunOk w'' ((rt, sl, ev) :: os)
              | other => other
              end
          end
      end
  end.

(** every event of a finished history, in order *)
Definition all_events (os : list obs) (final : list event) : list event :=
  flat_map (fun o => snd o) os ++ final.

(** the ids an event list accounts for (handed over or dropped), in order *)
Fixpoint accounted (ev : list event) : list Z :=
  match ev with
  | [] => []
  | Hand i :: r => i :: accounted r
  | Drop i :: r => i :: accounted r
  | Cl _ _ :: r => accounted r
  end.
(** the ids created by clones *)
Fixpoint cloned (ev : list event) : list Z :=
  match ev with
  | [] => []
  | Cl _ n :: r => n :: cloned r
  | _ :: r => cloned r
  end.
Fixpoint handed (ev : list event) : list Z :=
  match ev with
  | [] => []
  | Hand i :: r => i :: handed r
  | _ :: r => handed r
  end.
Fixpoint dropped (ev : list event) : list Z :=
  match ev with
  | [] => []
  | Drop i :: r => i :: dropped r
  | _ :: r => dropped r
  end.

(* ------------------------------------------------------------------ map_! / from_fn_! *)

(** what the closure body does on one call.  [OValue y]: it consumes its argument and
    evaluates to the element [y]; the others leave the loop body early (the argument, bound
    by the closure's pattern, is then dropped by scope exit). *)
Inductive outcome : Type := OValue (y : Z) | OBreak | OContinue | OReturn | OPanic.

Inductive mres : Type :=
| MBuilt (l : list Z)      (* the macro evaluated to this array *)
| MPanicked | MReturned
| MDiverged                (* out of fuel *)
| MUB.

(** [__array_map2__with_parsed_closure]:
      match ArrayConsumer::new($array) { mut consumer => {
        let mut builder = ArrayBuilder::new();
        while let Some(elem) = consumer.next() {
            let elem = ManuallyDrop::into_inner(elem);
            let $pattern = elem;
            let mapped = $mapper;
            builder.push(mapped);
        }
        mem::forget(consumer);
        builder.build() } }
    [clo k x]: the k-th evaluation of the closure body, on element [x].
    [track]: whether input elements appear in the ledger ([false] for the [()] elements of
    from_fn_!).  Locals are dropped innermost first: the pattern binding, then [builder],
    then [consumer].  Returns the result, the events and the ids leaked by [mem::forget]. *)
Definition in_ev (track : bool) (e : event) : list event := if track then [e] else [].

Definition map_finish (c : consumer) (b : builder) (ev : list event) : mres * list event * list Z :=
  (* mem::forget(consumer); builder.build() *)
  match c_as_slice c with
  | None => (MUB, ev, [])
  | Some leak =>
      match b_build b with
      | None => (MUB, ev, leak)
      | Some (Some l) => (MBuilt l, ev ++ map Hand l, leak)
      | Some None => match b_drop b with
                     | None => (MUB, ev, leak)
                     | Some d => (MPanicked, ev ++ d, leak)
                     end
      end
  end.

Definition map_unwind (r : mres) (track : bool) (x : Z) (c : consumer) (b : builder) (ev : list event)
    : mres * list event * list Z :=
  match b_drop b, c_drop c with
  | Some db, Some dc => (r, ev ++ in_ev track (Drop x) ++ db ++ (if track then dc else []), [])
  | _, _ => (MUB, ev, [])
  end.

Fixpoint map_loop (fuel : nat) (clo : nat -> Z -> outcome) (track : bool) (k : nat)
    (c : consumer) (b : builder) (ev : list event) : mres * list event * list Z :=
  match fuel with
  | O => (MDiverged, ev, [])
  | S fuel' =>
      match c_next c with
      | None => (MUB, ev, [])
      | Some (None, c') => map_finish c' b ev
      | Some (Some x, c') =>
          match clo k x with
          | OValue y =>
              match b_push b y with
              | (b', false) => map_loop fuel' clo track (S k) c' b' (ev ++ in_ev track (Hand x))
              | (_, true) =>
                  (* push panicked: [mapped] is dropped, then builder, then consumer *)
                  match b_drop b, c_drop c' with
                  | Some db, Some dc =>
                      (MPanicked, ev ++ in_ev track (Hand x) ++ [Drop y] ++ db ++ (if track then dc else []), [])
                  | _, _ => (MUB, ev, [])
                  end
              end
          | OBreak => map_finish c' b (ev ++ in_ev track (Drop x))
          | OContinue => map_loop fuel' clo track (S k) c' b (ev ++ in_ev track (Drop x))
          | OReturn => map_unwind MReturned track x c' b ev
          | OPanic => map_unwind MPanicked track x c' b ev
          end
      end
  end.

(** array::map_!(ids, closure) *)
Definition map_by_val (clo : nat -> Z -> outcome) (ids : list Z) : mres * list event * list Z :=
  map_loop (S (length ids)) clo true 0 (c_new ids) (b_new (length ids)) [].

(** array::from_fn_!(closure): the consumer holds N [()]s; the closure sees the counter [i],
    incremented before the body runs, i.e. the number of earlier calls *)
Definition from_fn_by_val (clo : nat -> Z -> outcome) (N : nat) : mres * list event * list Z :=
  map_loop (S N) (fun k _ => clo k (Z.of_nat k)) false 0 (c_new (repeat 0%Z N)) (b_new N) [].
