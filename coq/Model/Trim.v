(** Executable models of konst's trimming functions
    (konst/src/slice/slice_const_methods.rs: [__bytes_trim_start_matches],
    [__bytes_trim_end_matches], [__bytes_trim_matches], [matches_space!],
    [bytes_trim], [bytes_trim_start], [bytes_trim_end]; konst/src/string.rs wrappers
    are the same functions on the bytes of the [&str]).

    The prefix/suffix functions ([__bytes_strip_prefix], [__bytes_strip_suffix],
    [__bytes_start_with], [__bytes_end_with], i.e. [impl_bytes_function!]) are modelled
    in Model/Search.v ([strip_prefix_m], [strip_suffix_m], [starts_with_m],
    [ends_with_m]).

    A byte slice is a [list Z]; a result is the list of its bytes.  Every result of
    a start-trim is a suffix of the argument, of an end-trim a prefix, so its position
    is determined by its length (the glue prints offset:len computed that way).
    Loops that peel from the END of a slice are the same loop on the reversed list. *)
From KV Require Import Base.Prelude.

(* ---------------------------------------------------------------- pattern trimming *)

(** the ['inner] loop of [__bytes_trim_start_matches]:

      'inner: loop { match (this, matched) {
          ([], [_, ..]) => return at_start,
          ([b, rem @ ..], [bm, remm @ ..]) =>
              if *b == *bm { this = rem; matched = remm; } else { return at_start; }
          _ => break 'inner,
      } }

    [None] = "return at_start" (roll back the partial repetition),
    [Some this'] = the loop was left through [break] with the rest of the slice. *)
Fixpoint trim_inner (this matched : list Z) {struct matched} : option (list Z) :=
  match matched with
  | [] => Some this
  | bm :: remm =>
      match this with
      | [] => None
      | b :: rem => if b =? bm then trim_inner rem remm else None
      end
  end.

(** the outer loop; one unit of fuel per iteration.  [None] = fuel exhausted
    (never happens with the fuel given below: [trim_start_outer_fuel]).

      loop {
          let at_start = this;
          match (this, matched) {            // matched == needle here
              ([b, rem @ ..], [bm, remm @ ..]) if *b == *bm => { this = rem; matched = remm; }
              _ => return this,
          }
          'inner: ...
          matched = needle;
      } *)
Fixpoint trim_start_outer (fuel : nat) (this needle : list Z) : option (list Z) :=
  match fuel with
  | O => None
  | S fuel' =>
      match this, needle with
      | b :: rem, bm :: remm =>
          if b =? bm then
            match trim_inner rem remm with
            | Some this' => trim_start_outer fuel' this' needle
            | None => Some this                      (* return at_start *)
            end
          else Some this
      | _, _ => Some this
      end
  end.

(** [__bytes_trim_start_matches]; [None] = the model ran out of fuel *)
Definition trim_start_matches_m (this needle : list Z) : option (list Z) :=
  match needle with
  | [] => Some this                                  (* if needle.is_empty() { return this } *)
  | _ => trim_start_outer (S (length this)) this needle
  end.

(** [__bytes_trim_end_matches]: the mirrored loops *)
Definition trim_end_matches_m (this needle : list Z) : option (list Z) :=
  option_map (@rev Z) (trim_start_matches_m (rev this) (rev needle)).

(** [__bytes_trim_matches]: [let ltrim = start(this, needle); end(ltrim, needle)] *)
Definition trim_matches_m (this needle : list Z) : option (list Z) :=
  match trim_start_matches_m this needle with
  | Some ltrim => trim_end_matches_m ltrim needle
  | None => None
  end.

(* ---------------------------------------------------------------- whitespace trimming *)

(** [matches_space!]: [matches!(b, b'\t' | b'\n' | b'\x0C' | b'\r' | b' ')] *)
Definition matches_space (b : Z) : bool :=
  (b =? 9) || (b =? 10) || (b =? 12) || (b =? 13) || (b =? 32).

(** [bytes_trim_start]: [loop { match this { [b, rem @ ..] if matches_space!(b) => this = rem,
                                             _ => return this } }] *)
Fixpoint bytes_trim_start_m (this : list Z) : list Z :=
  match this with
  | b :: rem => if matches_space b then bytes_trim_start_m rem else this
  | [] => this
  end.

(** [bytes_trim_end]: the mirrored loop *)
Definition bytes_trim_end_m (this : list Z) : list Z :=
  rev (bytes_trim_start_m (rev this)).

(** [bytes_trim]: [bytes_trim_start(bytes_trim_end(this))] *)
Definition bytes_trim_m (this : list Z) : list Z :=
  bytes_trim_start_m (bytes_trim_end_m this).

(* ---------------------------------------------------------------- the pre-fix byte set *)

(** [matches_space!] as it was before the repair of finding F2 (no form feed);
    kept as the regression witness ([ws_set_refuted]). *)
Definition matches_space_old (b : Z) : bool :=
  (b =? 9) || (b =? 10) || (b =? 13) || (b =? 32).

Fixpoint bytes_trim_start_old (this : list Z) : list Z :=
  match this with
  | b :: rem => if matches_space_old b then bytes_trim_start_old rem else this
  | [] => this
  end.
