(** Executable model of konst's iterator DSL ([iter::eval!], [for_each!], [collect_const!]):
    konst_kernel/src/iter.rs (__cim_preprocess_methods), iter/combinator_methods.rs
    (__call_iter_methods, __cim_output_layer, __cim_flat_map, __cim_break) and
    iter/iter_eval_macro.rs (__iter_eval consumers), collect_const.rs.

    Deep embedding.  Items are universal values [dval]; closures are Gallina functions
    (theorems quantify over ALL closures; the harness uses a closed library).

    What the expansion does, and how it is modelled:
    - the pre-pass hoists ONE variable per zip / enumerate / take / skip / skip_while
      (and the consumer's variables) to the outermost layer: the [cell] list, one cell per
      adapter in order ([CUnit] for adapters without a variable), shared by all nested loops;
    - the SOURCE is stepped with [next_back] iff some reversing method (rev, rfind, rfold,
      rposition) occurs anywhere ([reverses]); the direction used for the sub-iterators of
      zip / flat_map / flatten starts at that value and is toggled by each [rev] ([dir]);
    - one loop nest: every source item is pushed through the adapters ([push]); an adapter
      lets it through, drops it ([continue]), or breaks out of ALL loops ([__cim_break]:
      take, take_while, zip exhaustion); flat_map / flatten run a nested loop over the inner
      iterator with the remaining adapters, sharing the hoisted cells;
    - the consumer's code sits in the innermost body ([sink]) and may break out too. *)
From KV Require Import Base.Prelude Base.Deque.

Inductive dval : Type :=
| DInt (z : Z)
| DPair (a b : dval)
| DList (l : list dval)
| DNone
| DSome (v : dval).

Definition as_dlist (v : dval) : list dval := match v with DList l => l | _ => [] end.

Inductive adapter : Type :=
| ACopied
| AEnumerate
| AFilter (p : dval -> bool)
| AFilterMap (f : dval -> option dval)
| AFlatMap (f : dval -> list dval)
| AFlatten
| AMap (f : dval -> dval)
| ARev
| ASkip (n : nat)
| ASkipWhile (p : dval -> bool)
| ATake (n : nat)
| ATakeWhile (p : dval -> bool)
| AZip (src : list dval).

Inductive consumer : Type :=
| CForEach                                  (* for_each / collect: the items, in order *)
| CAll (p : dval -> bool)
| CAny (p : dval -> bool)
| CCount
| CFind (p : dval -> bool)
| CFindMap (f : dval -> option dval)
| CRFind (p : dval -> bool)
| CFold (a : dval) (f : dval -> dval -> dval)
| CRFold (a : dval) (f : dval -> dval -> dval)
| CNext
| CNth (n : nat)
| CPosition (p : dval -> bool)
| CRPosition (p : dval -> bool).

(** hoisted variables *)
Inductive cell : Type :=
| CUnit
| CNat (n : nat)
| CBool (b : bool)
| CZip (l : list dval).

Definition init_cell (a : adapter) : cell :=
  match a with
  | AZip src => CZip src
  | AEnumerate => CNat 0
  | ATake n => CNat n
  | ASkip n => CNat n
  | ASkipWhile _ => CBool true
  | _ => CUnit
  end.

(** is this a reversing method ([next_back] in the pre-pass table)? *)
Definition adapter_reverses (a : adapter) : bool := match a with ARev => true | _ => false end.
Definition consumer_reverses (c : consumer) : bool :=
  match c with CRFind _ | CRFold _ _ | CRPosition _ => true | _ => false end.
Definition reverses (ms : list adapter) (c : consumer) : bool :=
  existsb adapter_reverses ms || consumer_reverses c.

(** [iter.next()] / [iter.next_back()] on a sub-iterator over [l] *)
Definition pop (dir : bool) (l : list dval) : option (dval * list dval) :=
  if dir then pop_back l else match l with [] => None | x :: r => Some (x, r) end.
(** the order in which a sub-iterator over [l] is traversed *)
Definition dirlist (dir : bool) (l : list dval) : list dval := if dir then rev l else l.

(** what one adapter does with one item *)
Inductive lres : Type :=
| LSkip (c' : cell)                      (* continue *)
| LStop                                  (* break out of every loop *)
| LEmit (c' : cell) (v' : dval)          (* hand v' to the next adapter *)
| LInner (c' : cell) (ws : list dval).   (* nested loop over ws with the remaining adapters *)

Definition local (a : adapter) (dir : bool) (c : cell) (v : dval) : lres :=
  match a, c with
  | ACopied, _ => LEmit c v
  | AEnumerate, CNat i => LEmit (CNat (S i)) (DPair (DInt (Z.of_nat i)) v)
  | AFilter p, _ => if p v then LEmit c v else LSkip c
  | AFilterMap f, _ => match f v with Some x => LEmit c x | None => LSkip c end
  | AFlatMap f, _ => LInner c (dirlist dir (f v))
  | AFlatten, _ => LInner c (dirlist dir (as_dlist v))
  | AMap f, _ => LEmit c (f v)
  | ARev, _ => LEmit c v
  | ASkip _, CNat n => match n with O => LEmit c v | S k => LSkip (CNat k) end
  | ASkipWhile p, CBool b => if b && p v then LSkip (CBool true) else LEmit (CBool false) v
  | ATake _, CNat n => match n with O => LStop | S k => LEmit (CNat k) v end
  | ATakeWhile p, _ => if p v then LEmit c v else LStop
  | AZip _, CZip zs => match pop dir zs with
                       | Some (e, zs') => LEmit (CZip zs') (DPair v e)
                       | None => LStop
                       end
  | _, _ => LStop                        (* ill-formed cell: unreachable from [init_cell] *)
  end.

(** direction seen by the adapters after [a] *)
Definition ndir (a : adapter) (dir : bool) : bool := if adapter_reverses a then negb dir else dir.

(** fold with early exit *)
Fixpoint fold_stop {X} (step : X -> dval -> X * bool) (x : X) (l : list dval) : X * bool :=
  match l with
  | [] => (x, false)
  | v :: l' => let '(x1, b) := step x v in if b then (x1, true) else fold_stop step x1 l'
  end.

Section Push.
  Variable S : Type.
  Variable step : S -> dval -> S * bool.      (* the consumer's loop body *)

  (** push one item through the adapters [ms] and into the consumer *)
  Fixpoint push (ms : list adapter) (dir : bool) (x : list cell * S) (v : dval) {struct ms}
    : (list cell * S) * bool :=
    match ms with
    | [] => let '(s', b) := step (snd x) v in ((fst x, s'), b)
    | a :: ms' =>
        match fst x with
        | [] => (x, true)
        | c :: st' =>
            match local a dir c v with
            | LSkip c' => ((c' :: st', snd x), false)
            | LStop => (x, true)
            | LEmit c' v' =>
                let '((st'', s'), b) := push ms' (ndir a dir) (st', snd x) v' in
                ((c' :: st'', s'), b)
            | LInner c' ws =>
                let '((st'', s'), b) := fold_stop (push ms' (ndir a dir)) (st', snd x) ws in
                ((c' :: st'', s'), b)
            end
        end
    end.

  (** the whole loop nest over the (already direction-adjusted) source *)
  Definition run_loop (ms : list adapter) (dir : bool) (s0 : S) (src : list dval) : S :=
    snd (fst (fold_stop (push ms dir) (map init_cell ms, s0) src)).
End Push.
Arguments push {S}. Arguments run_loop {S}.

(* ------------------------------------------------------------------ consumers *)

Definition dbool (b : bool) : dval := DInt (if b then 1 else 0).
Definition dopt (o : option dval) : dval := match o with Some v => DSome v | None => DNone end.

(** every consumer as (initial variables, loop body, final value); the variable layouts
    follow __iter_eval *)
Inductive cstate : Type :=
| KItems (l : list dval)
| KBool (b : bool)
| KNat (n : nat)
| KOpt (o : option dval)
| KAcc (a : dval)
| KNth (n : nat) (ret : option dval)
| KPos (i : nat) (ret : option nat).

Definition cinit (c : consumer) : cstate :=
  match c with
  | CForEach => KItems []
  | CAll _ => KBool true
  | CAny _ => KBool false
  | CCount => KNat 0
  | CFind _ | CFindMap _ | CRFind _ | CNext => KOpt None
  | CFold a _ | CRFold a _ => KAcc a
  | CNth n => KNth n None
  | CPosition _ | CRPosition _ => KPos 0 None
  end.

Definition cstep (c : consumer) (k : cstate) (v : dval) : cstate * bool :=
  match c, k with
  | CForEach, KItems l => (KItems (l ++ [v]), false)
  | CAll p, KBool b => if p v then (k, false) else (KBool false, true)
  | CAny p, KBool b => if p v then (KBool true, true) else (k, false)
  | CCount, KNat n => (KNat (S n), false)
  | CFind p, KOpt _ | CRFind p, KOpt _ => if p v then (KOpt (Some v), true) else (k, false)
  | CFindMap f, KOpt _ => match f v with Some x => (KOpt (Some x), true) | None => (KOpt None, false) end
  | CFold _ f, KAcc a | CRFold _ f, KAcc a => (KAcc (f a v), false)
  | CNext, KOpt _ => (KOpt (Some v), true)
  | CNth _, KNth n r => match n with O => (KNth O (Some v), true) | S m => (KNth m r, false) end
  | CPosition p, KPos i r | CRPosition p, KPos i r =>
      if p v then (KPos i (Some i), true) else (KPos (S i) r, false)
  | _, _ => (k, true)
  end.

Definition cresult (k : cstate) : dval :=
  match k with
  | KItems l => DList l
  | KBool b => dbool b
  | KNat n => DInt (Z.of_nat n)
  | KOpt o => dopt o
  | KAcc a => a
  | KNth _ r => dopt r
  | KPos _ r => dopt (option_map (fun i => DInt (Z.of_nat i)) r)
  end.

(** what an invocation evaluates to *)
Definition macro_sem (ms : list adapter) (c : consumer) (src : list dval) : dval :=
  let d0 := reverses ms c in
  cresult (run_loop (cstep c) ms d0 (cinit c) (dirlist d0 src)).

(** the macros reject a second reversing method at compile time (__assert_first_rev) *)
Definition rev_count (ms : list adapter) (c : consumer) : nat :=
  length (filter adapter_reverses ms) + (if consumer_reverses c then 1 else 0).
Definition accepted (ms : list adapter) (c : consumer) : bool := Nat.leb (rev_count ms c) 1.
