(** C15 — [destructure!] (konst/src/macros/destructuring.rs) as the list of reads its
    expansion performs.

    The expansion wraps the value in [ManuallyDrop] and then executes, in the order the
    user listed the fields / elements, one statement per field:
        [let PATTERN = ptr::read_unaligned(&raw mut ptr->FIELD);]       (structs)
        [let PATTERN = ptr::read(&raw mut ptr->N);]                     (tuples)
        [let PATTERN = ptr::read(ptr.add(i)); i += 1;]                    (array elements)
        [let PATTERN = ptr::read(ptr.add(i) as *mut [T; K]); i += K;]     ([rest @ ..] / [..])
    A [let] with an irrefutable pattern moves the bound parts into the new variables; what
    the pattern does not bind ([_], or [..] in an array pattern, which the macro turns into
    [_]) stays in the temporary and is dropped at the end of that statement.  Variables are
    dropped at the end of the scope in reverse order of declaration.

    Values are trees of element identities; [dids] is the order in which Rust drops the
    elements of one value (fields in declaration order, array elements by index). *)
From KV Require Import Base.Prelude.
Local Open Scope nat_scope.

Inductive dval : Type := DLeaf (i : Z) | DNode (l : list dval).

Fixpoint dids (v : dval) : list Z :=
  match v with
  | DLeaf i => [i]
  | DNode l => flat_map dids l
  end.

Inductive dpat : Type :=
| PBind                     (* an identifier: binds the whole value *)
| PUnder                    (* [_] *)
| PNest (l : list dpat)     (* a nested tuple / struct / array pattern listing every part *)
| PRestBind                 (* [rest @ ..]  (top level of an array pattern only) *)
| PRestSkip.                (* [..]         (top level of an array pattern only) *)

(** one [let PATTERN = <value just read>;]: (variables declared, ids dropped at the [;]) *)
Fixpoint apply_pat (p : dpat) (v : dval) : option (list (list Z) * list Z) :=
  match p with
  | PBind => Some ([dids v], [])
  | PUnder => Some ([], dids v)
  | PNest ps =>
      match v with
      | DLeaf _ => None
      | DNode vs =>
          (fix go (ps : list dpat) (vs : list dval) : option (list (list Z) * list Z) :=
             match ps, vs with
             | [], [] => Some ([], [])
             | p :: ps', v :: vs' =>
                 match apply_pat p v, go ps' vs' with
                 | Some (b1, d1), Some (b2, d2) => Some (b1 ++ b2, d1 ++ d2)
                 | _, _ => None
                 end
             | _, _ => None
             end) ps vs
      end
  | PRestBind | PRestSkip => None
  end.

(** the statements of the expansion, in order; [arr] says whether rest patterns are allowed *)
Fixpoint reads (arr : bool) (pats : list dpat) (vals : list dval) : option (list (list Z) * list Z) :=
  match pats with
  | [] => match vals with [] => Some ([], []) | _ => None end
  | PRestBind :: ps =>
      if arr && (length ps <=? length vals) then
        let k := length vals - length ps in
        match reads false ps (skipn k vals) with
        | Some (b, d) => Some (flat_map dids (firstn k vals) :: b, d)
        | None => None
        end
      else None
  | PRestSkip :: ps =>
      if arr && (length ps <=? length vals) then
        let k := length vals - length ps in
        match reads false ps (skipn k vals) with
        | Some (b, d) => Some (b, flat_map dids (firstn k vals) ++ d)
        | None => None
        end
      else None
  | p :: ps =>
      match vals with
      | [] => None
      | v :: vs =>
          match apply_pat p v, reads arr ps vs with
          | Some (b1, d1), Some (b2, d2) => Some (b1 ++ b2, d1 ++ d2)
          | _, _ => None
          end
      end
  end.

Record dres : Type := mkD {
  d_imm : list Z;            (* dropped while the destructure! statement runs, in order *)
  d_bound : list (list Z);   (* the variables it declares, in order, with the ids each owns *)
  d_end : list Z             (* dropped when the scope ends, in order *)
}.

(** kind 0 tuple, 1 tuple struct, 2 braced struct, 3 #[repr(packed)] struct, 4 array.
    [vals] are the fields in the order the pattern lists them. [None]: the pattern does not
    fit the value (rustc rejects the program). *)
Definition destructure_m (kind : nat) (vals : list dval) (pats : list dpat) : option dres :=
  match reads (kind =? 4) pats vals with
  | None => None
  | Some (b, d) => Some (mkD d b (concat (rev b)))
  end.
