(** Executable model of konst's integer / bool parsing.

    Rust anchors (konst 0.3.16, as in /repo now):
    - konst/src/parsing/primitive_parsing.rs : [parse_integer!] (arms [@parse_signed signed],
      [@parse_signed unsigned], the digit loop, [@apply_sign signed/unsigned]) expanded inside
      [try_parsing! {self, FromStart, ret; ..}], and [Parser::parse_bool];
    - konst/src/primitive/parse.rs : [define_parse_methods!] whole-string wrappers
      ([parse_u8] .. [parse_isize], [parse_bool]);
    - konst/src/parsing/get_parser.rs : [StdParser::<T>::parse_with] = [parser.parse_T()].

    One model serves the twelve integer types: it is parameterised by the bit width [w] of the
    type and by [sg] (signed?).  The accumulator lives in the UNSIGNED twin type of width [w];
    every operation that can wrap is written with an explicit [mod 2^w] ([ty_mod]) and an explicit
    overflow flag, exactly as [overflowing_mul] / [overflowing_add] return them.

    A [&str] is its list of bytes ([list Z]).  *)
From KV Require Import Base.Prelude.

Inductive err_kind : Type := ParseInteger | ParseBool.

Inductive pres (A : Type) : Type :=
| POk (a : A)
| PErr (k : err_kind).
Arguments POk {A} a.
Arguments PErr {A} k.

(** the pattern [b'0'..=b'9'] *)
Definition is_digit (b : Z) : bool := (48 <=? b) && (b <=? 57).

(** An integer type as the parsing code sees it: signedness and the two constants
    [2^BITS] (one more than the unsigned twin's MAX) and [2^(BITS-1)] ([<$type>::MIN as $uns]).
    Carrying the constants (instead of recomputing [2^w] at every arithmetic step) only
    matters for the speed of the extracted model. *)
Record int_ty : Type := { ty_signed : bool; ty_mod : Z; ty_half : Z }.
Definition int_ty_of (w : Z) (sg : bool) : int_ty :=
  {| ty_signed := sg; ty_mod := 2 ^ w; ty_half := 2 ^ (w - 1) |}.

(** [x as $uns]: reduction modulo [2^BITS].  (The test in front is the identity of [mod] on
    values already in range, lemma [wrap_mod]; it spares the extracted model a long division
    per arithmetic step.) *)
Definition wrap (t : int_ty) (x : Z) : Z :=
  if (0 <=? x) && (x <? ty_mod t) then x else x mod ty_mod t.

Lemma wrap_mod t x : wrap t x = x mod ty_mod t.
Proof.
  unfold wrap. destruct ((0 <=? x) && (x <? ty_mod t)) eqn:E; [|reflexivity].
  symmetry. apply Z.mod_small. lia.
Qed.

(** [a.overflowing_mul(b)] and [a.overflowing_add(b)] in the unsigned twin type *)
Definition overflowing_mul (t : int_ty) (a b : Z) : Z * bool := (wrap t (a * b), ty_mod t <=? a * b).
Definition overflowing_add (t : int_ty) (a b : Z) : Z * bool := (wrap t (a + b), ty_mod t <=? a + b).

(** [u as $type] (unsigned -> signed of the same width): two's complement reinterpretation *)
Definition as_signed (t : int_ty) (u : Z) : Z := if u <? ty_half t then u else u - ty_mod t.
(** [x.wrapping_neg()] in the signed type *)
Definition wrapping_neg (t : int_ty) (x : Z) : Z := as_signed t (wrap t (- x)).

(** [while let [byte @ b'0'..=b'9', rem @ ..] = bytes { .. }]
    [None] = [throw!(ErrorKind::ParseInteger)] from inside the loop;
    [Some (num, bytes)] = the loop ended normally with these values of the two variables. *)
Fixpoint digit_loop (t : int_ty) (num : Z) (bytes : list Z) : option (Z * list Z) :=
  match bytes with
  | byte :: rem =>
      if is_digit byte then
        let '(next_mul, overflowed_mul) := overflowing_mul t num 10 in
        let '(next_add, overflowed_add) := overflowing_add t next_mul (wrap t (byte - 48)) in
        if overflowed_mul || overflowed_add then None
        else digit_loop t next_add rem
      else Some (num, bytes)
  | [] => Some (num, bytes)
  end.

(** [@parse_signed signed]: [if let [b'-', rem @ ..] = bytes { bytes = rem; true } else { false }]
    ([@parse_signed unsigned] has no sign arm: [sign] is not even bound) *)
Definition sign_arm (sg : bool) (bytes : list Z) : bool * list Z :=
  if sg then
    match bytes with
    | byte :: rem => if byte =? 45 then (true, rem) else (false, bytes)
    | [] => (false, bytes)
    end
  else (false, bytes).

(** [@parse_signed unsigned]: the first digit is mandatory *)
Definition first_digit (t : int_ty) (bytes : list Z) : option (Z * list Z) :=
  match bytes with
  | byte :: rem => if is_digit byte then Some (wrap t (byte - 48), rem) else None
  | [] => None
  end.

(** [@apply_sign]: [None] = [throw!(ErrorKind::ParseInteger)] *)
Definition apply_sign (t : int_ty) (isneg : bool) (num : Z) : option Z :=
  if ty_signed t then
    let max_pos := ty_half t - 1 in          (* <$type>::MAX as $uns *)
    let max_neg := ty_half t in              (* <$type>::MIN as $uns *)
    if isneg then
      if num <=? max_neg then Some (wrapping_neg t (as_signed t num)) else None
    else
      if num <=? max_pos then Some (as_signed t num) else None
  else Some num.

(** [string::str_from(s, n)] on the byte list (here [n] is always a char boundary: only ASCII
    bytes have been consumed) *)
Definition str_from (s : list Z) (n : Z) : list Z := skipn (Z.to_nat n) s.

(** The body of [parse_integer!]: value and the new [parser.str]. *)
Definition parse_int_t (t : int_ty) (s : list Z) : pres (Z * list Z) :=
  let '(isneg, bytes) := sign_arm (ty_signed t) s in
  match first_digit t bytes with
  | None => PErr ParseInteger
  | Some (num, bytes) =>
      match digit_loop t num bytes with
      | None => PErr ParseInteger
      | Some (num, bytes) =>
          match apply_sign t isneg num with
          | None => PErr ParseInteger
          | Some v => POk (v, str_from s (zlen s - zlen bytes))
          end
      end
  end.

(** ... for the type of width [w] *)
Definition parse_int_m (w : Z) (sg : bool) (s : list Z) : pres (Z * list Z) :=
  parse_int_t (int_ty_of w sg) s.

(** a slice pattern made of byte literals followed by [..]: [[b't', b'r', b'u', b'e', ..]] *)
Fixpoint starts_with (bytes lit : list Z) {struct lit} : bool :=
  match lit with
  | [] => true
  | c :: lit' =>
      match bytes with
      | b :: bytes' => (b =? c) && starts_with bytes' lit'
      | [] => false
      end
  end.

(** [Parser::parse_bool] body *)
Definition parse_bool_m (s : list Z) : pres (bool * list Z) :=
  if starts_with s [116; 114; 117; 101] then POk (true, str_from s 4)
  else if starts_with s [102; 97; 108; 115; 101] then POk (false, str_from s 5)
  else PErr ParseBool.

(** The part of the [try_parsing! {self, FromStart, ret; ..}] frame that this property
    observes: a parser is [(start_offset, str)]; on success [start_offset] advances by the
    number of bytes removed from the front; the error is built from the pre-operation copy,
    so its offset is the OLD [start_offset].  (The full record, the [u32] width of
    [start_offset] and the other directions belong to the Parser model of C13.) *)
Definition parser : Type := (Z * list Z)%type.

Inductive fres (A : Type) : Type :=
| FOk (ret : A) (p : parser)
| FErr (k : err_kind) (offset : Z).
Arguments FOk {A} ret p.
Arguments FErr {A} k offset.

Definition try_parsing_start {A} (p : parser) (body : list Z -> pres (A * list Z)) : fres A :=
  let '(so, s) := p in
  match body s with
  | POk (ret, s') => FOk ret (so + (zlen s - zlen s'), s')
  | PErr k => FErr k so
  end.

Definition parser_parse_int_t (t : int_ty) (p : parser) := try_parsing_start p (parse_int_t t).
Definition parser_parse_int (w : Z) (sg : bool) (p : parser) := parser_parse_int_t (int_ty_of w sg) p.
Definition parser_parse_bool (p : parser) := try_parsing_start p parse_bool_m.

(** [primitive::parse_*]:
    [match Parser::new(s).parse_x() { Ok((num, parser)) if parser.is_empty() => Ok(num), _ => Err(..) }] *)
Definition parse_whole_t (t : int_ty) (s : list Z) : option Z :=
  match parse_int_t t s with
  | POk (num, []) => Some num
  | _ => None
  end.
Definition parse_whole_m (w : Z) (sg : bool) (s : list Z) : option Z :=
  parse_whole_t (int_ty_of w sg) s.

Definition parse_bool_whole_m (s : list Z) : option bool :=
  match parse_bool_m s with
  | POk (b, []) => Some b
  | _ => None
  end.
