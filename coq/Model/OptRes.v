(** Executable model of konst's Option / Result macros and of try_! / try_opt!
    (konst_kernel/src/macros/option_macros_.rs, result_macros_.rs, konst/src/option.rs,
    konst/src/result.rs, konst/src/macros/unwrapping.rs), one Gallina function per
    macro ARM, following the expansion token by token.

    Effects.  Every macro argument that is an expression ([$e], [$v], a closure body, the
    call of a function argument) is a computation in a writer monad [M A = A * list W]: the
    log records, in evaluation order, every event the argument performs (the harness logs
    the evaluation of [$e], of an eager [$v] and every closure call with its argument).
    "Evaluates the fallback exactly when std would call it" is therefore equality of logs.

    Argument forms.  An inline closure [|p| body] is expanded by the macro into
    [let p = x; body] (the body is spliced into the match arm); a function argument [f] is
    expanded into the call [f(x)].  Both are modelled as a Gallina function [A -> M B], but
    they are different macro arms, hence different definitions ([_c] = closure arm,
    [_f] = function arm). *)
From KV Require Import Base.Prelude.

Inductive result (T E : Type) : Type :=
| Ok (x : T)
| Err (e : E).
Arguments Ok {T E} x.
Arguments Err {T E} e.

(** a value or a panic ([unwrap!], [unwrap_ctx!]) *)
Inductive outcome (A : Type) : Type :=
| Val (a : A)
| Panic.
Arguments Val {A} a.
Arguments Panic {A}.

Section Writer.
  Context {W : Type}.

  Definition M (A : Type) : Type := (A * list W)%type.
  Definition ret {A} (x : A) : M A := (x, []).
  Definition bind {A B} (m : M A) (k : A -> M B) : M B :=
    let (a, w) := m in let (b, w') := k a in (b, w ++ w').
  Definition tell (w : W) : M unit := (tt, [w]).
End Writer.

Notation "x <- m ;; k" := (bind m (fun x => k))
  (at level 61, m at next level, right associativity).

Section Macros.
  Context {W : Type}.
  Notation M := (@M W).
  Context {A B E F : Type}.

  (* ---------------------------------------------------------------- option_macros_.rs *)

  (** [match $e { Some(x) => x, None => panic!(..) }] *)
  Definition opt_unwrap (e : M (option A)) : M (outcome A) :=
    o <- e ;; ret (match o with Some x => Val x | None => Panic end).

  (** [match ($e, $v) { (Some(x), _) => x, (None, value) => value }] : the tuple is built
      first, so [$e] and then [$v] are both evaluated whatever the variant *)
  Definition opt_unwrap_or (e : M (option A)) (v : M A) : M A :=
    p <- (o <- e ;; d <- v ;; ret (o, d)) ;;
    ret (match p with (Some x, _) => x | (None, value) => value end).

  (** arm [($e:expr, || $v:expr)] : [match $e { Some(x) => x, None => $v }] *)
  Definition opt_unwrap_or_else_c (e : M (option A)) (v : M A) : M A :=
    o <- e ;; match o with Some x => ret x | None => v end.
  (** arm [($e:expr, $v:expr)] : [None => $v()] *)
  Definition opt_unwrap_or_else_f (e : M (option A)) (f : unit -> M A) : M A :=
    o <- e ;; match o with Some x => ret x | None => f tt end.

  (** [match ($e, $v) { (Some(x), _) => Ok(x), (None, value) => Err(value) }] *)
  Definition opt_ok_or (e : M (option A)) (v : M E) : M (result A E) :=
    p <- (o <- e ;; d <- v ;; ret (o, d)) ;;
    ret (match p with (Some x, _) => Ok x | (None, value) => Err value end).

  Definition opt_ok_or_else_c (e : M (option A)) (v : M E) : M (result A E) :=
    o <- e ;; match o with Some x => ret (Ok x) | None => x <- v ;; ret (Err x) end.
  Definition opt_ok_or_else_f (e : M (option A)) (f : unit -> M E) : M (result A E) :=
    o <- e ;; match o with Some x => ret (Ok x) | None => x <- f tt ;; ret (Err x) end.

  (** [match $opt { Some($param) => Some($mapper), None => None }] *)
  Definition opt_map_c (e : M (option A)) (f : A -> M B) : M (option B) :=
    o <- e ;; match o with Some x => y <- f x ;; ret (Some y) | None => ret None end.
  (** [Some(x) => Some($function(x))] *)
  Definition opt_map_f (e : M (option A)) (f : A -> M B) : M (option B) :=
    o <- e ;; match o with Some x => y <- f x ;; ret (Some y) | None => ret None end.

  Definition opt_and_then_c (e : M (option A)) (f : A -> M (option B)) : M (option B) :=
    o <- e ;; match o with Some x => f x | None => ret None end.
  Definition opt_and_then_f (e : M (option A)) (f : A -> M (option B)) : M (option B) :=
    o <- e ;; match o with Some x => f x | None => ret None end.

  (** [match $opt { Some(x) => x, None => None }] *)
  Definition opt_flatten (e : M (option (option A))) : M (option A) :=
    o <- e ;; ret (match o with Some x => x | None => None end).

  Definition opt_or_else_c (e : M (option A)) (v : M (option A)) : M (option A) :=
    o <- e ;; match o with Some x => ret (Some x) | None => v end.
  Definition opt_or_else_f (e : M (option A)) (f : unit -> M (option A)) : M (option A) :=
    o <- e ;; match o with Some x => ret (Some x) | None => f tt end.

  (** [match $e { Some(x) if { let $param = &x; $v } => Some(x), _ => None }] : the guard
      runs only in the [Some] case; a false guard falls through to the wildcard arm *)
  Definition opt_filter_c (e : M (option A)) (p : A -> M bool) : M (option A) :=
    o <- e ;;
    match o with
    | Some x => g <- p x ;; if g then ret (Some x) else ret None
    | None => ret None
    end.
  (** [Some(x) if $function(&x) => Some(x), _ => None] *)
  Definition opt_filter_f (e : M (option A)) (p : A -> M bool) : M (option A) :=
    o <- e ;;
    match o with
    | Some x => g <- p x ;; if g then ret (Some x) else ret None
    | None => ret None
    end.

  (** konst/src/option.rs [copied] : [Some(x) => Some( *x ), None => None]
      (a shared reference is modelled by the value it points to) *)
  Definition opt_copied (o : option A) : option A :=
    match o with Some x => Some x | None => None end.

  (* ---------------------------------------------------------------- result_macros_.rs *)

  (** [match $e { Ok(x) => x, Err(e) => e.panic() }] *)
  Definition res_unwrap_ctx (e : M (result A E)) : M (outcome A) :=
    r <- e ;; ret (match r with Ok x => Val x | Err _ => Panic end).

  (** [match ($res, $v) { (Ok(x), _) => x, (Err(_), value) => value }] *)
  Definition res_unwrap_or (e : M (result A E)) (v : M A) : M A :=
    p <- (r <- e ;; d <- v ;; ret (r, d)) ;;
    ret (match p with (Ok x, _) => x | (Err _, value) => value end).

  Definition res_unwrap_or_else_c (e : M (result A E)) (f : E -> M A) : M A :=
    r <- e ;; match r with Ok x => ret x | Err x => f x end.
  Definition res_unwrap_or_else_f (e : M (result A E)) (f : E -> M A) : M A :=
    r <- e ;; match r with Ok x => ret x | Err x => f x end.

  Definition res_unwrap_err_or_else_c (e : M (result A E)) (f : A -> M E) : M E :=
    r <- e ;; match r with Ok x => f x | Err x => ret x end.
  Definition res_unwrap_err_or_else_f (e : M (result A E)) (f : A -> M E) : M E :=
    r <- e ;; match r with Ok x => f x | Err x => ret x end.

  Definition res_ok (e : M (result A E)) : M (option A) :=
    r <- e ;; ret (match r with Ok x => Some x | Err _ => None end).
  Definition res_err (e : M (result A E)) : M (option E) :=
    r <- e ;; ret (match r with Ok _ => None | Err x => Some x end).

  Definition res_and_then_c (e : M (result A E)) (f : A -> M (result B E)) : M (result B E) :=
    r <- e ;; match r with Ok x => f x | Err x => ret (Err x) end.
  Definition res_and_then_f (e : M (result A E)) (f : A -> M (result B E)) : M (result B E) :=
    r <- e ;; match r with Ok x => f x | Err x => ret (Err x) end.

  Definition res_map_c (e : M (result A E)) (f : A -> M B) : M (result B E) :=
    r <- e ;; match r with Ok x => y <- f x ;; ret (Ok y) | Err x => ret (Err x) end.
  Definition res_map_f (e : M (result A E)) (f : A -> M B) : M (result B E) :=
    r <- e ;; match r with Ok x => y <- f x ;; ret (Ok y) | Err x => ret (Err x) end.

  Definition res_map_err_c (e : M (result A E)) (f : E -> M F) : M (result A F) :=
    r <- e ;; match r with Ok x => ret (Ok x) | Err x => y <- f x ;; ret (Err y) end.
  Definition res_map_err_f (e : M (result A E)) (f : E -> M F) : M (result A F) :=
    r <- e ;; match r with Ok x => ret (Ok x) | Err x => y <- f x ;; ret (Err y) end.

  Definition res_or_else_c (e : M (result A E)) (f : E -> M (result A F)) : M (result A F) :=
    r <- e ;; match r with Ok x => ret (Ok x) | Err x => f x end.
  Definition res_or_else_f (e : M (result A E)) (f : E -> M (result A F)) : M (result A F) :=
    r <- e ;; match r with Ok x => ret (Ok x) | Err x => f x end.

  (* ---------------------------------------------------------------- unwrapping.rs *)

  (** A function body [{ let x = try_!($e); REST }] : [k] is REST (the code after the
      macro, which only runs when the macro did not [return]). *)

  (** arm [($e:expr)] : [match $e { Ok(x) => x, Err(e) => return Err(e) }] *)
  Definition try_m (e : M (result A E)) (k : A -> M (result B E)) : M (result B E) :=
    r <- e ;; match r with Ok x => k x | Err x => ret (Err x) end.

  (** arm [($e:expr, map_err = |$pati| $v)] :
      [match $e { Ok(x) => x, Err{0: $pati, ..} => return Err($v) }] *)
  Definition try_map_err_m (e : M (result A E)) (f : E -> M F) (k : A -> M (result B F))
    : M (result B F) :=
    r <- e ;; match r with Ok x => k x | Err x => y <- f x ;; ret (Err y) end.
  (** the same arm with the optional parameter absent, [map_err = || $v] :
      [Err{..} => return Err($v)] *)
  Definition try_map_err0_m (e : M (result A E)) (v : M F) (k : A -> M (result B F))
    : M (result B F) :=
    r <- e ;; match r with Ok x => k x | Err _ => y <- v ;; ret (Err y) end.

  (** [match $opt { Some(x) => x, None => return None }] *)
  Definition try_opt_m (e : M (option A)) (k : A -> M (option B)) : M (option B) :=
    o <- e ;; match o with Some x => k x | None => ret None end.

End Macros.
