(** Executable model of konst's slice iterators (konst 0.3.16 as in /repo):

      konst_kernel/src/into_iter/slice_into_iter.rs   Iter, IterRev, IterCopied, IterCopiedRev
      konst/src/slice/slice_iter_methods.rs           Windows, Chunks, RChunks, ChunksExact,
                                                      RChunksExact, ArrayChunks (+ *Rev)
      konst/src/slice/slice_as_chunks.rs              as_chunks, as_rchunks
      konst_kernel/src/macros/into_iter_macros.rs     iterator_shared! (copy / rev / next /
                                                      next_back, is_forward switch)
      konst_kernel/src/slice.rs                       slice_from, slice_up_to (saturating)

    A slice handed to a constructor is the view (0, len) of itself; every sub-slice the
    code forms is a view (offset, length) in ELEMENTS relative to that slice.  The element
    type never occurs: the Rust code is generic in [T] and never looks at an element (so
    zero-sized types are covered); the one place a value is read ([*elem] in IterCopied)
    is modelled over an abstract element type.

    [usize] arithmetic: every subtraction that could underflow and every division whose
    divisor could be zero is written with [usub]/[udiv]/[urem], which PANIC (overflow
    checks / division by zero); the theorems show that no reachable state panics, so the
    wrapping behaviour of a release build is never observed either.  Additions and
    multiplications are bounded by the slice length and cannot wrap. *)
From KV Require Import Base.Prelude Base.Deque.

Record view : Type := mkv { voff : Z; vlen : Z }.

(** result of one [next]/[next_back] call: [None], [Some((item, iter))], or a panic *)
Inductive step (I S : Type) : Type :=
| Stop
| Yield (x : I) (s : S)
| Panic.
Arguments Stop {I S}.
Arguments Yield {I S} x s.
Arguments Panic {I S}.

Definition usub (a b : Z) : option Z := if a <? b then None else Some (a - b).
Definition udiv (a b : Z) : option Z := if b =? 0 then None else Some (a / b).
Definition urem (a b : Z) : option Z := if b =? 0 then None else Some (a mod b).
Definition saturating_sub (a b : Z) : Z := if a <? b then 0 else a - b.

(** konst_kernel::slice::slice_from — [__slice_from_impl!]: on overflow of
    [len - start] return the static [&[]] *)
Definition empty_static : view := mkv 0 0.
Definition slice_from (s : view) (start : Z) : view :=
  if vlen s <? start then empty_static else mkv (voff s + start) (vlen s - start).
(** konst_kernel::slice::slice_up_to — on overflow return the slice itself *)
Definition slice_up_to (s : view) (n : Z) : view :=
  if vlen s <? n then s else mkv (voff s) n.
(** konst::slice::split_at *)
Definition split_at (s : view) (at_ : Z) : view * view := (slice_up_to s at_, slice_from s at_).

Definition some_if_nonempty (s : view) : option view :=
  if vlen s =? 0 then None else Some s.

(* ------------------------------------------------------------------------------------ *)
(** * iterator_shared!  — the part every iterator type gets from the macro.

    [$next_block] / [$next_back_block] are the two blocks written at the use site; the
    forward type runs them as [next]/[next_back], the [*Rev] type the other way round
    ([__choose!($is_forward ..)]).  [rev] re-labels the same fields, [copy] rebuilds the
    same fields. *)
Section Shared.
  Variables C I : Type.
  Variable next_block next_back_block : C -> step I C.

  Record iter : Type := mk_iter { is_forward : bool; core : C }.

  Definition lift (fwd : bool) (s : step I C) : step I iter :=
    match s with
    | Stop => Stop
    | Yield x c => Yield x (mk_iter fwd c)
    | Panic => Panic
    end.

  Definition it_next (it : iter) : step I iter :=
    lift (is_forward it)
      (if is_forward it then next_block (core it) else next_back_block (core it)).
  Definition it_next_back (it : iter) : step I iter :=
    lift (is_forward it)
      (if is_forward it then next_back_block (core it) else next_block (core it)).
  Definition it_rev (it : iter) : iter := mk_iter (negb (is_forward it)) (core it).
  Definition it_copy (it : iter) : iter := mk_iter (is_forward it) (core it).

  Definition it_step (e : end_) (it : iter) : step I iter :=
    match e with Front => it_next it | Back => it_next_back it end.

  (** a history of front/back calls.  A call that returns [None] consumes the iterator it
      was called on; the caller goes on with the copy it kept.  [None] = some call panicked *)
  Fixpoint run_m (h : list end_) (it : iter) : option (list (option I)) :=
    match h with
    | [] => Some []
    | e :: h' =>
        match it_step e (it_copy it) with
        | Panic => None
        | Stop => option_map (cons None) (run_m h' it)
        | Yield x it' => option_map (cons (Some x)) (run_m h' it')
        end
    end.

  (** the iterator the caller holds after the history *)
  Fixpoint final_m (h : list end_) (it : iter) : option iter :=
    match h with
    | [] => Some it
    | e :: h' =>
        match it_step e (it_copy it) with
        | Panic => None
        | Stop => final_m h' it
        | Yield _ it' => final_m h' it'
        end
    end.
End Shared.
Arguments mk_iter {C}.
Arguments is_forward {C}.
Arguments core {C}.
Arguments it_next {C I}.
Arguments it_next_back {C I}.
Arguments it_rev {C}.
Arguments it_copy {C}.
Arguments it_step {C I}.
Arguments run_m {C I}.
Arguments final_m {C I}.

(* ------------------------------------------------------------------------------------ *)
(** * Iter / IterRev: items are references, observed as the index of the element *)
Definition iter_new (len : Z) : view := mkv 0 len.
(** [if let [elem, rem @ ..] = self.slice] *)
Definition iter_next (s : view) : step Z view :=
  if vlen s <=? 0 then Stop else Yield (voff s) (mkv (voff s + 1) (vlen s - 1)).
(** [if let [rem @ .., elem] = self.slice] *)
Definition iter_next_back (s : view) : step Z view :=
  if vlen s <=? 0 then Stop else Yield (voff s + vlen s - 1) (mkv (voff s) (vlen s - 1)).
Definition iter_as_slice (s : view) : view := s.

(** * IterCopied / IterCopiedRev: items are the element VALUES; the state is the remaining
      slice with its contents (element type abstract) *)
Section Copied.
  Variable A : Type.
  (** remaining slice = view + the elements it covers *)
  Record cslice : Type := mk_cslice { c_view : view; c_elems : list A }.
  Definition copied_new (l : list A) : cslice := mk_cslice (mkv 0 (zlen l)) l.
  Definition copied_next (s : cslice) : step A cslice :=
    match c_elems s with
    | x :: r => Yield x (mk_cslice (mkv (voff (c_view s) + 1) (vlen (c_view s) - 1)) r)
    | [] => Stop
    end.
  Definition copied_next_back (s : cslice) : step A cslice :=
    match rev (c_elems s) with
    | x :: r => Yield x (mk_cslice (mkv (voff (c_view s)) (vlen (c_view s) - 1)) (rev r))
    | [] => Stop
    end.
  Definition copied_as_slice (s : cslice) : view := c_view s.
End Copied.
Arguments mk_cslice {A}.
Arguments c_view {A}.
Arguments c_elems {A}.
Arguments copied_new {A}.
Arguments copied_next {A}.
Arguments copied_next_back {A}.
Arguments copied_as_slice {A}.

(* ------------------------------------------------------------------------------------ *)
(** * Windows *)
Record windows : Type := mk_windows { w_slice : view; w_size : Z }.
(** [None] = the constructor panicked ([assert!(size != 0)]) *)
Definition windows_new (len size : Z) : option windows :=
  if size =? 0 then None else Some (mk_windows (mkv 0 len) size).
Definition windows_next (w : windows) : step view windows :=
  if vlen (w_slice w) <? w_size w then Stop
  else
    let up_to := slice_up_to (w_slice w) (w_size w) in
    Yield up_to (mk_windows (slice_from (w_slice w) 1) (w_size w)).
Definition windows_next_back (w : windows) : step view windows :=
  let len := vlen (w_slice w) in
  if len <? w_size w then Stop
  else
    match usub len (w_size w) with
    | None => Panic
    | Some d =>
        let up_to := slice_from (w_slice w) d in
        match usub len 1 with
        | None => Panic
        | Some l1 => Yield up_to (mk_windows (slice_up_to (w_slice w) l1) (w_size w))
        end
    end.

(* ------------------------------------------------------------------------------------ *)
(** * Chunks and RChunks share their fields: [slice: Option<&[T]>], [chunk_size] *)
Record chunks : Type := mk_chunks { c_slice : option view; c_size : Z }.
Definition chunks_new (len size : Z) : option chunks :=
  if size =? 0 then None else Some (mk_chunks (some_if_nonempty (mkv 0 len)) size).

Definition chunks_next (c : chunks) : step view chunks :=
  match c_slice c with
  | None => Stop
  | Some s =>
      let '(ret, nxt) := split_at s (c_size c) in
      Yield ret (mk_chunks (some_if_nonempty nxt) (c_size c))
  end.
Definition chunks_next_back (c : chunks) : step view chunks :=
  match c_slice c with
  | None => Stop
  | Some s =>
      match usub (vlen s) 1 with
      | None => Panic
      | Some l1 =>
          match udiv l1 (c_size c) with
          | None => Panic
          | Some q =>
              let at_ := q * c_size c in
              let '(nxt, ret) := split_at s at_ in
              Yield ret (mk_chunks (some_if_nonempty nxt) (c_size c))
          end
      end
  end.

Definition rchunks_new := chunks_new.
Definition rchunks_next (c : chunks) : step view chunks :=
  match c_slice c with
  | None => Stop
  | Some s =>
      let at_ := saturating_sub (vlen s) (c_size c) in
      let '(nxt, ret) := split_at s at_ in
      Yield ret (mk_chunks (some_if_nonempty nxt) (c_size c))
  end.
Definition rchunks_next_back (c : chunks) : step view chunks :=
  match c_slice c with
  | None => Stop
  | Some s =>
      match urem (vlen s) (c_size c) with
      | None => Panic
      | Some r =>
          let at_ := if r =? 0 then c_size c else r in
          let '(ret, nxt) := split_at s at_ in
          Yield ret (mk_chunks (some_if_nonempty nxt) (c_size c))
      end
  end.

(* ------------------------------------------------------------------------------------ *)
(** * ChunksExact and RChunksExact share their fields: [slice], [rem], [chunk_size] *)
Record exact : Type := mk_exact { e_slice : view; e_rem : view; e_size : Z }.

Definition chunks_exact_new (len size : Z) : option exact :=
  if size =? 0 then None
  else
    match urem len size with
    | None => None
    | Some r =>
        match usub len r with
        | None => None
        | Some at_ =>
            let '(slice, rem) := split_at (mkv 0 len) at_ in
            Some (mk_exact slice rem size)
        end
    end.
(** take [chunk_size] from the front *)
Definition exact_take_front (e : exact) : step view exact :=
  if vlen (e_slice e) =? 0 then Stop
  else
    let '(ret, nxt) := split_at (e_slice e) (e_size e) in
    Yield ret (mk_exact nxt (e_rem e) (e_size e)).
(** take [chunk_size] from the back *)
Definition exact_take_back (e : exact) : step view exact :=
  if vlen (e_slice e) =? 0 then Stop
  else
    match usub (vlen (e_slice e)) (e_size e) with
    | None => Panic
    | Some at_ =>
        let '(nxt, ret) := split_at (e_slice e) at_ in
        Yield ret (mk_exact nxt (e_rem e) (e_size e))
    end.
Definition chunks_exact_next := exact_take_front.
Definition chunks_exact_next_back := exact_take_back.

Definition rchunks_exact_new (len size : Z) : option exact :=
  if size =? 0 then None
  else
    match urem len size with
    | None => None
    | Some r =>
        let '(rem, slice) := split_at (mkv 0 len) r in
        Some (mk_exact slice rem size)
    end.
Definition rchunks_exact_next := exact_take_back.
Definition rchunks_exact_next_back := exact_take_front.
Definition exact_remainder (e : exact) : view := e_rem e.

(* ------------------------------------------------------------------------------------ *)
(** * as_chunks / as_rchunks and ArrayChunks *)
(** a [&[[T; N]]]: element offset of its first array, and how many arrays *)
Record arrays : Type := mk_arrays { a_off : Z; a_cnt : Z }.

Definition as_chunks_m (len n : Z) : option (arrays * view) :=
  if n =? 0 then None
  else
    match udiv len n with
    | None => None
    | Some arrs_len =>
        let '(arrs_in, rem) := split_at (mkv 0 len) (arrs_len * n) in
        Some (mk_arrays (voff arrs_in) arrs_len, rem)
    end.
Definition as_rchunks_m (len n : Z) : option (view * arrays) :=
  if n =? 0 then None
  else
    match udiv len n, urem len n with
    | Some arrs_len, Some rem_len =>
        let '(rem, arrs_in) := split_at (mkv 0 len) rem_len in
        Some (rem, mk_arrays (voff arrs_in) arrs_len)
    | _, _ => None
    end.

Record array_chunks : Type := mk_ac { ac_arrays : arrays; ac_rem : view; ac_n : Z }.
Definition array_chunks_new (len n : Z) : option array_chunks :=
  match as_chunks_m len n with
  | None => None
  | Some (arrs, rem) => Some (mk_ac arrs rem n)
  end.
(** [[elem, arrays @ ..]]: the item is the [&[T; N]] at the front *)
Definition array_chunks_next (a : array_chunks) : step view array_chunks :=
  let arrs := ac_arrays a in
  if a_cnt arrs <=? 0 then Stop
  else Yield (mkv (a_off arrs) (ac_n a))
             (mk_ac (mk_arrays (a_off arrs + ac_n a) (a_cnt arrs - 1)) (ac_rem a) (ac_n a)).
(** [[arrays @ .., elem]] *)
Definition array_chunks_next_back (a : array_chunks) : step view array_chunks :=
  let arrs := ac_arrays a in
  if a_cnt arrs <=? 0 then Stop
  else Yield (mkv (a_off arrs + (a_cnt arrs - 1) * ac_n a) (ac_n a))
             (mk_ac (mk_arrays (a_off arrs) (a_cnt arrs - 1)) (ac_rem a) (ac_n a)).
Definition array_chunks_remainder (a : array_chunks) : view := ac_rem a.

(* ------------------------------------------------------------------------------------ *)
(** * the sixteen iterator types: forward ([is_forward = true]) and [*Rev] *)
Definition fwd {C} (c : C) : iter C := mk_iter true c.
