(** Executable models of konst_kernel's char <-> UTF-8 / u32 conversions
    (konst_kernel/src/chr.rs, chr/char_formatting.rs) and of the char-boundary tests
    (konst_kernel/src/string.rs). *)
From KV Require Import Base.Prelude.

(** [x as u8] *)
Definition u8 (x : Z) : Z := x mod 256.

(** [chr::encode_utf8] followed by [Utf8Encoded::as_bytes]; the argument is the
    char as u32 (the last arm is [0x10000..=u32::MAX]) *)
Definition encode_m (c : Z) : list Z :=
  if c <=? 127 then [u8 c]
  else if c <=? 2047 then
    [Z.lor 192 (u8 (Z.shiftr c 6)); Z.lor 128 (u8 (Z.land c 63))]
  else if c <=? 65535 then
    [Z.lor 224 (u8 (Z.shiftr c 12)); Z.lor 128 (u8 (Z.land (Z.shiftr c 6) 63));
     Z.lor 128 (u8 (Z.land c 63))]
  else
    [Z.lor 240 (u8 (Z.shiftr c 18)); Z.lor 128 (u8 (Z.land (Z.shiftr c 12) 63));
     Z.lor 128 (u8 (Z.land (Z.shiftr c 6) 63)); Z.lor 128 (u8 (Z.land c 63))].

(** [chr::from_u32]: the guard in front of the transmute *)
Definition from_u32_m (n : Z) : option Z :=
  if (n <? 55296) || ((57344 <=? n) && (n <=? 1114111)) then Some n else None.

(** Unicode scalar values *)
Definition is_scalar (n : Z) : Prop := 0 <= n < 55296 \/ 57344 <= n <= 1114111.
Definition is_scalarb (n : Z) : bool := ((0 <=? n) && (n <? 55296)) || ((57344 <=? n) && (n <=? 1114111)).
