(** Executable models of konst_kernel's char <-> UTF-8 / u32 conversions
    (konst_kernel/src/chr.rs, chr/char_formatting.rs) and of the char-boundary tests
    (konst_kernel/src/string.rs). *)
From KV Require Import Base.Prelude.

(** [x as u8] *)
Definition u8 (x : Z) : Z := x mod 256.

(** [chr::encode_utf8] followed by [Utf8Encoded::as_bytes]; the argument is the
    char as u32 (the last arm is [0x10000..=u32::MAX]) *)
Definition encode_m (c : Z) : list Z :=
  if c <=? 127 then [u8 c]
  else if c <=? 2047 then
    [Z.lor 192 (u8 (Z.shiftr c 6)); Z.lor 128 (u8 (Z.land c 63))]
  else if c <=? 65535 then
    [Z.lor 224 (u8 (Z.shiftr c 12)); Z.lor 128 (u8 (Z.land (Z.shiftr c 6) 63));
     Z.lor 128 (u8 (Z.land c 63))]
  else
    [Z.lor 240 (u8 (Z.shiftr c 18)); Z.lor 128 (u8 (Z.land (Z.shiftr c 12) 63));
     Z.lor 128 (u8 (Z.land (Z.shiftr c 6) 63)); Z.lor 128 (u8 (Z.land c 63))].

(** [chr::from_u32]: the guard in front of the transmute *)
Definition from_u32_m (n : Z) : option Z :=
  if (n <? 55296) || ((57344 <=? n) && (n <=? 1114111)) then Some n else None.

(** Unicode scalar values *)
Definition is_scalar (n : Z) : Prop := 0 <= n < 55296 \/ 57344 <= n <= 1114111.
Definition is_scalarb (n : Z) : bool := ((0 <=? n) && (n <? 55296)) || ((57344 <=? n) && (n <=? 1114111)).

(* ------------------------------------------------------------------------------------- *)
(** * Results of functions that can panic *)

(** which argument [non_char_boundary_panic] names *)
Inductive blame : Type := BIndex | BStart | BEnd.
Inductive panic : Type :=
| PBoundary (who : blame) (i : Z)   (** "<who> `<i>` is not on a char boundary" *)
| POverflow.                        (** arithmetic overflow (dev profile) *)
Inductive res (A : Type) : Type :=
| Ok (a : A)
| Panic (p : panic)
| OutOfFuel.                        (** the model's loop bound was too small (proved unreachable) *)
Arguments Ok {A} a.
Arguments Panic {A} p.
Arguments OutOfFuel {A}.

(* ------------------------------------------------------------------------------------- *)
(** * Char-boundary tests (konst_kernel/src/string.rs) *)

(** [bytes[i]] (only ever evaluated under a bounds guard) *)
Definition byte_at (s : list Z) (i : Z) : Z := nth (Z.to_nat i) s 0.

(** [byte_is_char_boundary!(b)] = [(b as i8) >= -0x40] *)
Definition as_i8 (b : Z) : Z := if b <? 128 then b else b - 256.
Definition byte_is_boundary (b : Z) : bool := -64 <=? as_i8 b.

(** (the short-circuit operators are written as [if]: the byte is only read under its guard)
    [__is_char_boundary_bytes] (strict: [position == len] ok, [position > len] false) *)
Definition is_char_boundary_m (s : list Z) (i : Z) : bool :=
  if i =? zlen s then true
  else if i <? zlen s then byte_is_boundary (byte_at s i) else false.

(** [__is_char_boundary_forgiving] ([position >= len] ok) *)
Definition forgiving_m (s : list Z) (i : Z) : bool :=
  if zlen s <=? i then true else byte_is_boundary (byte_at s i).

(** [__find_next_char_boundary]: [loop { position += 1; if forgiving(position) { break position } }].
    Every iteration moves right and any position >= len is accepted, so [S (length bytes)]
    iterations suffice when started inside the string (Proofs/CharsProofs.v
    [find_next_chunk]; every caller in chars_methods.rs starts at 0, so the [usize]
    overflow of [position += 1] at usize::MAX is unreachable and not modelled). *)
Fixpoint find_next_go (fuel : nat) (s : list Z) (pos : Z) : res Z :=
  match fuel with
  | O => OutOfFuel
  | S f => let pos' := pos + 1 in
           if forgiving_m s pos' then Ok pos' else find_next_go f s pos'
  end.
Definition find_next_m (s : list Z) (pos : Z) : res Z := find_next_go (S (length s)) s pos.

(** [__find_prev_char_boundary]:
    [position = position.saturating_sub(1); while !forgiving(position) { position -= 1 }]
    ([position -= 1] at 0 is an overflow panic in the dev profile). *)
Fixpoint find_prev_go (fuel : nat) (s : list Z) (pos : Z) : res Z :=
  match fuel with
  | O => OutOfFuel
  | S f => if forgiving_m s pos then Ok pos
           else if pos =? 0 then Panic POverflow
           else find_prev_go f s (pos - 1)
  end.
Definition find_prev_m (s : list Z) (pos : Z) : res Z :=
  find_prev_go (S (length s)) s (Z.max 0 (pos - 1)).

(* ------------------------------------------------------------------------------------- *)
(** * Decoding one character (konst/src/string/chars_methods.rs [string_to_usv]) *)

(** note the mask 0x7F (not 0x3F) on the second byte of the two-byte arm, as in the Rust;
    the last arm is the non-"debug"-feature value 0 *)
Definition string_to_usv_m (e : list Z) : Z :=
  match e with
  | [a] => a
  | [a; b] => Z.lor (Z.shiftl (Z.land a 31) 6) (Z.land b 127)
  | [a; b; c] =>
      Z.lor (Z.lor (Z.shiftl (Z.land a 15) 12) (Z.shiftl (Z.land b 63) 6)) (Z.land c 63)
  | [a; b; c; d] =>
      Z.lor (Z.lor (Z.lor (Z.shiftl (Z.land a 7) 18) (Z.shiftl (Z.land b 63) 12))
                   (Z.shiftl (Z.land c 63) 6)) (Z.land d 63)
  | _ => 0
  end.
