(** Executable models of the string slicing functions
    (konst_kernel/src/string.rs [str_up_to] [str_from] [str_range],
     konst/src/string.rs [get_up_to] [get_from] [get_range] [split_at]) and of the slice
    functions they are built from (konst_kernel/src/slice.rs, konst/src/slice/slice_const_methods.rs).

    A returned [&str] is a VIEW (offset, length) of the argument's bytes. Indices are [usize]
    values; nothing in this file can wrap ([len.overflowing_sub(i)] overflows iff [len < i]). *)
From KV Require Import Base.Prelude Model.Utf8.

Definition view : Type := (Z * Z)%type.
(** the bytes a view denotes *)
Definition sub (s : list Z) (v : view) : list Z :=
  firstn (Z.to_nat (snd v)) (skipn (Z.to_nat (fst v)) s).

(** the [&[]] that [slice_from] returns on overflow: a static empty slice, not inside the
    argument; every empty view is rendered alike *)
Definition empty_view : view := (0, 0).

(** [slice_up_to(slice, len)] : [__slice_up_to_impl!(.., on_overflow = slice)] *)
Definition slice_up_to_v (v : view) (n : Z) : view :=
  let '(o, l) := v in if l <? n then v else (o, n).
(** [slice_from(slice, start)] : [__slice_from_impl!(.., on_overflow = &[])] *)
Definition slice_from_v (v : view) (st : Z) : view :=
  let '(o, l) := v in if l <? st then empty_view else (o + st, l - st).
(** [slice_range] = [slice_from(slice_up_to(slice, end), start)] *)
Definition slice_range_v (v : view) (a b : Z) : view := slice_from_v (slice_up_to_v v b) a.

(** [slice::get_up_to] / [get_from] / [get_range] (on_overflow = None) *)
Definition sget_up_to_v (v : view) (n : Z) : option view :=
  let '(o, l) := v in if l <? n then None else Some (o, n).
Definition sget_from_v (v : view) (st : Z) : option view :=
  let '(o, l) := v in if l <? st then None else Some (o + st, l - st).
Definition sget_range_v (v : view) (a b : Z) : option view :=
  match sget_up_to_v v b with None => None | Some x => sget_from_v x a end.

Definition whole (s : list Z) : view := (0, zlen s).

(** [str_up_to] *)
Definition str_up_to_m (s : list Z) (n : Z) : res view :=
  if forgiving_m s n then Ok (slice_up_to_v (whole s) n) else Panic (PBoundary BIndex n).

(** [str_from] *)
Definition str_from_m (s : list Z) (st : Z) : res view :=
  if forgiving_m s st then Ok (slice_from_v (whole s) st) else Panic (PBoundary BStart st).

(** [str_range]: the end is blamed only when the start was acceptable *)
Definition str_range_m (s : list Z) (a b : Z) : res view :=
  let start_inbounds := forgiving_m s a in
  if (if start_inbounds then forgiving_m s b else false) then Ok (slice_range_v (whole s) a b)
  else if start_inbounds then Panic (PBoundary BEnd b)
  else Panic (PBoundary BStart a).

(** [split_at] = [(str_up_to(s, at), str_from(s, at))], evaluated left to right *)
Definition split_at_m (s : list Z) (at_ : Z) : res (view * view) :=
  match str_up_to_m s at_ with
  | Ok l => match str_from_m s at_ with
            | Ok r => Ok (l, r)
            | Panic p => Panic p
            | OutOfFuel => OutOfFuel
            end
  | Panic p => Panic p
  | OutOfFuel => OutOfFuel
  end.

(** [string::get_up_to] : [and_then!(slice::get_up_to(bytes, len), |x| if boundary(len) {Some(x)} else {None})] *)
Definition get_up_to_m (s : list Z) (n : Z) : option view :=
  match sget_up_to_v (whole s) n with
  | None => None
  | Some x => if is_char_boundary_m s n then Some x else None
  end.
Definition get_from_m (s : list Z) (st : Z) : option view :=
  match sget_from_v (whole s) st with
  | None => None
  | Some x => if is_char_boundary_m s st then Some x else None
  end.
Definition get_range_m (s : list Z) (a b : Z) : option view :=
  match sget_range_v (whole s) a b with
  | None => None
  | Some x => if (if is_char_boundary_m s a then is_char_boundary_m s b else false) then Some x else None
  end.
