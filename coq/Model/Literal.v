(** Executable model of the proc macro's string-literal decoder
    (konst_proc_macros/src/parsing.rs: parse_lstr / parse_literal / parse_string /
    parse_raw_string, and the concat! folding of parse_lstr), as it is in /repo now
    (i.e. after the repair of finding F6).

    Input: the literal's TOKEN TEXT ([Literal::to_string()], which for string
    literals is the source text between and including the quotes) as its UTF-8
    bytes.  Output: the bytes of the decoded [String] ([Some]), or [None] when the
    proc macro produces a compile error (an [Err(..)] or a panic of the macro; both
    abort compilation, so they are not distinguished).

    The Rust works on [&str] with byte offsets.  Slicing a [&str] at an offset that
    is not a char boundary panics; for VALID UTF-8 token text (which a [&str] always
    is) each such panic coincides with a path that would return [Err] anyway:
      - [&rem[2..]] after the backslash is off-boundary only if the escape byte is
        the lead of a multi-byte char, which then matches no escape arm;
      - [rem.get(..2)] for [\x] is [None] off-boundary only if the second byte is
        >= 0x80, which is not a hex digit;
      - [&rem[1..end_brace]] for [\u] is off-boundary only if continuation bytes
        follow, and these then fail [from_str_radix].
    So the boundary tests are not modelled; only the length tests are. *)
From KV Require Import Base.Prelude Model.Utf8.

(** [rem.find('\\')] and the two slices around it: (rem[..end_copied], rem[end_copied..]) *)
Fixpoint split_bs (s : list Z) : list Z * list Z :=
  match s with
  | [] => ([], [])
  | b :: t => if b =? 92 then ([], s) else let (p, r) := split_bs t in (b :: p, r)
  end.

(** [char::to_digit(16)] on an ASCII byte *)
Definition hex_digit_m (c : Z) : option Z :=
  if (48 <=? c) && (c <=? 57) then Some (c - 48)
  else if (97 <=? c) && (c <=? 102) then Some (c - 87)
  else if (65 <=? c) && (c <=? 70) then Some (c - 55)
  else None.

(** the digit loop of [uN::from_str_radix(_, 16)]: [None] on a non-digit or when the
    value leaves the type ([bound] = 2^N) *)
Fixpoint hex_fold (bound acc : Z) (s : list Z) : option Z :=
  match s with
  | [] => Some acc
  | c :: t =>
      match hex_digit_m c with
      | None => None
      | Some d => let a := acc * 16 + d in if a <? bound then hex_fold bound a t else None
      end
  end.

(** [uN::from_str_radix(s, 16)] for an unsigned type: empty -> Err, a lone sign -> Err,
    a leading '+' is accepted, '-' is not a sign for unsigned types *)
Definition from_str_radix16 (bound : Z) (s : list Z) : option Z :=
  match s with
  | [] => None
  | [c] => if (c =? 43) || (c =? 45) then None else hex_fold bound 0 s
  | c :: t => if c =? 43 then hex_fold bound 0 t else hex_fold bound 0 s
  end.

(** [rem.bytes().position(|b| b == b'}')] as (bytes before, bytes after) *)
Fixpoint split_brace (s : list Z) : option (list Z * list Z) :=
  match s with
  | [] => None
  | b :: t =>
      if b =? 125 then Some ([], t)
      else match split_brace t with Some (p, r) => Some (b :: p, r) | None => None end
  end.

Definition is_cont_ws (c : Z) : bool := (c =? 32) || (c =? 9) || (c =? 10) || (c =? 13).

(** [rem.trim_start_matches(|c| matches!(c, ' ' | '\t' | '\n' | '\r'))] *)
Fixpoint trim_cont_ws (s : list Z) : list Z :=
  match s with
  | [] => []
  | c :: t => if is_cont_ws c then trim_cont_ws t else s
  end.

(** the one-character escapes of the big [match b] *)
Definition simple_escape_m (b : Z) : option Z :=
  if b =? 110 then Some 10          (* n *)
  else if b =? 114 then Some 13     (* r *)
  else if b =? 116 then Some 9      (* t *)
  else if b =? 92 then Some 92      (* \ *)
  else if b =? 48 then Some 0       (* 0 *)
  else if b =? 39 then Some 39      (* quote *)
  else if b =? 34 then Some 34      (* dquote *)
  else None.

(** the [loop] of parse_string.  Parameters so that the pre-repair decoder (F6) can be
    written with the same loop: [trim] = what is done after a line continuation,
    [strip_us] = whether '_' is removed before [from_str_radix].
    One unit of fuel per escape sequence (every escape consumes >= 2 bytes). *)
Section Loop.
  Context (trim : list Z -> list Z) (strip_us : bool).

  Fixpoint parse_loop (fuel : nat) (rem out : list Z) : option (list Z) :=
    match fuel with
    | O => None
    | S f =>
        let (pre, rem1) := split_bs rem in
        let out1 := out ++ pre in
        match rem1 with
        | [] => Some out1                                  (* if rem.is_empty() { break } *)
        | _ :: [] => None                                  (* &rem[2..] panics *)
        | _ :: b :: rem2 =>
            if b =? 120 then                               (* \x *)
              match rem2 with
              | h1 :: h2 :: rem3 =>
                  match from_str_radix16 256 [h1; h2] with
                  | Some n => if n <? 128 then parse_loop f rem3 (out1 ++ [n]) else None
                  | None => None
                  end
              | _ => None                                  (* rem.get(..2) = None *)
              end
            else if b =? 117 then                          (* \u *)
              match rem2 with
              | [] => None                                 (* no closing brace *)
              | c0 :: t =>
                  if c0 =? 125 then None                   (* &rem[1..0] panics *)
                  else match split_brace t with
                       | None => None
                       | Some (ds, rem3) =>
                           let ds' := if strip_us then filter (fun c => negb (c =? 95)) ds else ds in
                           match from_str_radix16 4294967296 ds' with
                           | None => None
                           | Some n =>
                               match from_u32_m n with
                               | None => None
                               | Some c => parse_loop f rem3 (out1 ++ encode_m c)
                               end
                           end
                       end
              end
            else if (b =? 13) || (b =? 10) then            (* line continuation *)
              parse_loop f (trim rem2) out1
            else
              match simple_escape_m b with
              | Some c => parse_loop f rem2 (out1 ++ [c])
              | None => None                               (* invalid escape *)
              end
        end
    end.

  (** [&input[1..input.len() - 1]] *)
  Definition parse_string_with (input : list Z) : option (list Z) :=
    match input with
    | [] => None
    | _ :: t =>
        match rev t with
        | [] => None                                       (* input is a lone quote: [1..0] panics *)
        | q :: rbody =>
            if q =? 34 then parse_loop (S (length rbody)) (rev rbody) [] else None
        end
    end.
End Loop.

Definition parse_string : list Z -> option (list Z) := parse_string_with trim_cont_ws true.

(** [bytes().position(|b| b != b'#')] *)
Fixpoint pos_non_hash (s : list Z) : option nat :=
  match s with
  | [] => None
  | b :: t => if b =? 35 then option_map S (pos_non_hash t) else Some O
  end.

Definition parse_raw_string (input : list Z) : option (list Z) :=
  let input1 := tl input in                                (* &input[1..] *)
  match pos_non_hash input1 with
  | None => None
  | Some hc =>
      if negb (nth hc input1 0 =? 34) then None
      else match pos_non_hash (rev input1) with
           | None => None
           | Some p =>
               let eq := (length input1 - 1 - p)%nat in
               if negb (nth eq input1 0 =? 34) then None
               else if (eq <? S hc)%nat then None          (* input[hc+1..eq] panics *)
               else Some (firstn (eq - S hc) (skipn (S hc) input1))
           end
  end.

(** parse_literal *)
Definition parse_literal (tok : list Z) : option (list Z) :=
  match tok with
  | c :: _ =>
      if c =? 34 then parse_string tok
      else if c =? 114 then parse_raw_string tok
      else None
  | [] => None
  end.

(** what parse_lstr accepts: a string literal token, or [concat!( item, item, ... )]
    of such ([stringify!] is outside the property and not modelled) *)
Inductive lsrc : Type :=
| SLit (tok : list Z)
| SConcat (args : list lsrc).

Fixpoint decode_src (s : lsrc) : option (list Z) :=
  match s with
  | SLit tok => parse_literal tok
  | SConcat args =>
      (fix go (l : list lsrc) : option (list Z) :=
         match l with
         | [] => Some []
         | a :: t =>
             match decode_src a with
             | None => None
             | Some x => match go t with Some y => Some (x ++ y) | None => None end
             end
         end) args
  end.

(* ------------------------------------------------------------------------- *)
(** The decoder BEFORE the repair of F6, kept for the [_refuted] witnesses:
    [rem.trim_start()] after a continuation (all Unicode White_Space; here the ASCII
    ones, U+0085, U+00A0 and U+3000 are enough for the witness), and no removal of
    '_' inside [\u{..}]. *)
Fixpoint trim_start_old (fuel : nat) (s : list Z) : list Z :=
  match fuel with
  | O => s
  | S f =>
      match s with
      | c :: t =>
          if ((9 <=? c) && (c <=? 13)) || (c =? 32) then trim_start_old f t
          else match s with
               | 194 :: 133 :: t2 => trim_start_old f t2
               | 194 :: 160 :: t2 => trim_start_old f t2
               | 227 :: 128 :: 128 :: t3 => trim_start_old f t3
               | _ => s
               end
      | [] => []
      end
  end.

Definition parse_string_old : list Z -> option (list Z) :=
  parse_string_with (fun s => trim_start_old (length s) s) false.
