(** Executable model of konst's thin wrappers around [MaybeUninit], [ManuallyDrop] and raw
    pointers: konst/src/maybe_uninit.rs ([write], [assume_init_mut], [as_mut_ptr]),
    konst_kernel/src/maybe_uninit.rs ([uninit_array], [array_assume_init]),
    konst/src/manually_drop.rs ([as_inner], [as_inner_mut], [take]), konst/src/ptr.rs
    ([as_ref], [as_mut], [is_null], [nonnull::{new, as_ref, as_mut, from_ref, from_mut}]).

    A cell is [option V] ([None] = uninitialised); a reference / pointer INTO a cell is its
    byte offset from the cell's own address (every wrapper is a cast, so the offset is 0);
    a raw pointer is its address ([0] = null).  Reading an uninitialised cell is UB ([None]
    result): these are the side conditions the callers of the [unsafe fn]s have to meet, and
    the safe wrappers are the ones that can be shown never to return [None]. *)
From KV Require Import Base.Prelude.

Section Cell.
  Variable V : Type.

  Definition cell := option V.
  Definition uninit : cell := None.

  (** [maybe_uninit::write(md, v)]: [*md = MaybeUninit::new(v); &mut *(md as *mut T)] —
      the new cell and the returned reference (offset from [md], value it points to) *)
  Definition mu_write (c : cell) (v : V) : cell * (Z * V) := (Some v, (0, v)).
  (** [assume_init_ref] / [assume_init_mut] / [assume_init]: UB on an uninitialised cell *)
  Definition mu_assume_init_ref (c : cell) : option (Z * V) := option_map (fun v => (0, v)) c.
  Definition mu_assume_init (c : cell) : option V := c.
  (** [as_ptr] / [as_mut_ptr]: a cast *)
  Definition mu_as_ptr (c : cell) : Z := 0.

  (** [uninit_array::<T, N>()] *)
  Definition uninit_array (n : nat) : list cell := repeat uninit n.
  (** [array_assume_init]: a transmute of the whole array; UB unless every slot was written *)
  Fixpoint array_assume_init (cs : list cell) : option (list V) :=
    match cs with
    | [] => Some []
    | c :: r => match c, array_assume_init r with
                | Some v, Some l => Some (v :: l)
                | _, _ => None
                end
    end.
  (** writing slot [k] through [maybe_uninit::write] *)
  Fixpoint write_slot (cs : list cell) (k : nat) (v : V) : list cell :=
    match cs, k with
    | [], _ => []
    | c :: r, O => fst (mu_write c v) :: r
    | c :: r, S k' => c :: write_slot r k' v
    end.
  Fixpoint write_all (cs : list cell) (k : nat) (vs : list V) : list cell :=
    match vs with
    | [] => cs
    | v :: r => write_all (write_slot cs k v) (S k) r
    end.

  (** [ManuallyDrop<T>]: always holds a value; [as_inner(_mut)] is a cast, [take] a read *)
  Definition md_as_inner (v : V) : Z * V := (0, v).
  Definition md_take (v : V) : V := v.
End Cell.
Arguments uninit {V}. Arguments mu_write {V}. Arguments mu_assume_init_ref {V}.
Arguments mu_assume_init {V}. Arguments mu_as_ptr {V}. Arguments uninit_array {V}.
Arguments array_assume_init {V}. Arguments write_slot {V}. Arguments write_all {V}.
Arguments md_as_inner {V}. Arguments md_take {V}.

(** raw pointers: [ptr::as_ref] / [as_mut] / [nonnull::new] are a transmute of the address
    to [Option<&T>] / [Option<NonNull<T>>] (niche = null) *)
Definition ptr_as_ref (addr : Z) : option Z := if addr =? 0 then None else Some addr.
Definition ptr_is_null (addr : Z) : bool := match ptr_as_ref addr with None => true | Some _ => false end.
Definition nonnull_new (addr : Z) : option Z := ptr_as_ref addr.
(** [nonnull::from_ref] / [from_mut] / [as_ref] / [as_mut]: the same address *)
Definition nonnull_from_ref (addr : Z) : Z := addr.
