(** [core::str::from_utf8]'s acceptance test, as used by konst
    ([ArrayStr::as_str], [str_from_iter!]'s final [from_utf8], [ffi::cstr::to_str] =
    [string::from_utf8] = [core::str::from_utf8]).

    konst does not implement UTF-8 validation itself; this is the Unicode Table 3-7
    well-formedness test written directly, one scalar value per step.  It is tied to the
    real [core::str::from_utf8] by the C20 correspondence run ([to_str] on every byte
    string of the CStr generator). *)
From KV Require Import Base.Prelude.

Definition in_rng (lo hi b : Z) : bool := (lo <=? b) && (b <=? hi).
(** continuation byte 80..BF *)
Definition cont (b : Z) : bool := in_rng 128 191 b.

(** allowed range of the SECOND byte after a 3-byte lead [b0] (E0..EF) *)
Definition second3 (b0 b1 : Z) : bool :=
  if b0 =? 224 then in_rng 160 191 b1
  else if b0 =? 237 then in_rng 128 159 b1
  else cont b1.
(** allowed range of the SECOND byte after a 4-byte lead [b0] (F0..F4) *)
Definition second4 (b0 b1 : Z) : bool :=
  if b0 =? 240 then in_rng 144 191 b1
  else if b0 =? 244 then in_rng 128 143 b1
  else cont b1.

Fixpoint utf8_ok (l : list Z) : bool :=
  match l with
  | [] => true
  | b0 :: r0 =>
      if in_rng 0 127 b0 then utf8_ok r0
      else
        match r0 with
        | [] => false
        | b1 :: r1 =>
            if in_rng 194 223 b0 then cont b1 && utf8_ok r1
            else
              match r1 with
              | [] => false
              | b2 :: r2 =>
                  if in_rng 224 239 b0 then second3 b0 b1 && cont b2 && utf8_ok r2
                  else
                    match r2 with
                    | [] => false
                    | b3 :: r3 =>
                        if in_rng 240 244 b0 then second4 b0 b1 && cont b2 && cont b3 && utf8_ok r3
                        else false
                    end
              end
        end
  end.
