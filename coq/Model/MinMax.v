(** Executable model of konst/src/macros/minmax_macros.rs: which of its two arguments
    each of min! max! min_by! max_by! min_by_key! max_by_key! returns.

    The answer is a [side] ([L] = the first macro argument, [R] = the second), so that two
    arguments that compare equal remain distinguishable.  [cmp] stands for
    [const_cmp!(left, right)] (its agreement with [Ord::cmp] is property C16), or for the
    comparator closure / function of the [_by] forms, which the macro applies to
    [(&left, &right)] in this order. *)
From KV Require Import Base.Prelude.

Inductive side : Type := L | R.

Definition pick {A} (s : side) (l r : A) : A := match s with L => l | R => r end.

Section MinMax.
  Context {A K : Type}.

  (** min! : [if let Greater = const_cmp!(left, right) { right } else { left }] *)
  Definition min_m (cmp : A -> A -> comparison) (l r : A) : side :=
    match cmp l r with Gt => R | _ => L end.
  (** max! : [if let Greater = const_cmp!(left, right) { left } else { right }] *)
  Definition max_m (cmp : A -> A -> comparison) (l r : A) : side :=
    match cmp l r with Gt => L | _ => R end.

  (** __min_by : [let (pl, pr) = (&left, &right); if let Greater = BODY { right } else { left }] *)
  Definition min_by_m (f : A -> A -> comparison) (l r : A) : side :=
    match f l r with Gt => R | _ => L end.
  (** __max_by *)
  Definition max_by_m (f : A -> A -> comparison) (l r : A) : side :=
    match f l r with Gt => L | _ => R end.

  Definition comparison_eqb (a b : comparison) : bool :=
    match a, b with Eq, Eq | Lt, Lt | Gt, Gt => true | _, _ => false end.

  (** __minmax_by_key!(left, right, ord, key): keys of [left] then of [right];
      [if let ord = const_cmp!(left_key, right_key) { right } else { left }].
      The result says which of ITS OWN two arguments it returns: [false] = its first
      ("left"), [true] = its second ("right"). *)
  Definition minmax_by_key_inner (cmpk : K -> K -> comparison) (ord : comparison)
             (key : A -> K) (left right : A) : bool :=
    let left_key := key left in
    let right_key := key right in
    comparison_eqb (cmpk left_key right_key) ord.

  (** min_by_key!(l, r, key) = __minmax_by_key!(l, r, Greater, key) *)
  Definition min_by_key_m (cmpk : K -> K -> comparison) (key : A -> K) (l r : A) : side :=
    if minmax_by_key_inner cmpk Gt key l r then R else L.
  (** max_by_key!(l, r, key) = __minmax_by_key!(r, l, Less, key): the macro SWAPS its
      arguments, so the inner "right" is the caller's first argument *)
  Definition max_by_key_m (cmpk : K -> K -> comparison) (key : A -> K) (l r : A) : side :=
    if minmax_by_key_inner cmpk Lt key r l then L else R.
End MinMax.
