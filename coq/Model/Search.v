(** Executable models of konst's byte-pattern functions
    (konst/src/slice/slice_const_methods.rs, konst/src/macros/bytes_fn_macros.rs).

    A byte slice is a [list Z].  A sub-slice result is returned as the list of its
    bytes; because every result is a suffix or a prefix of the argument, its position
    inside the argument is determined by its length (the harness compares
    (offset, length) computed that way).

    Slice patterns that peel from the END of a slice ([rem @ .., x]) are modelled as
    the same loop peeling from the FRONT of the reversed list. *)
From KV Require Import Base.Prelude.

(* ---------------------------------------------------------------- strip / starts *)

(** [impl_bytes_function!{strip_prefix; ..}]'s loop *)
Fixpoint strip_prefix_loop (l r : list Z) : option (list Z) :=
  match l, r with
  | lb :: l', rb :: r' => if lb =? rb then strip_prefix_loop l' r' else None
  | rem, _ => Some rem
  end.

(** [__bytes_strip_prefix] *)
Definition strip_prefix_m (l p : list Z) : option (list Z) :=
  if zlen l <? zlen p then None else strip_prefix_loop l p.

(** [__bytes_strip_suffix]: the mirrored loop *)
Definition strip_suffix_m (l p : list Z) : option (list Z) :=
  option_map (@rev Z) (strip_prefix_m (rev l) (rev p)).

Definition is_some {A} (o : option A) : bool := match o with Some _ => true | None => false end.

(** [__bytes_start_with], [__bytes_end_with] *)
Definition starts_with_m (l p : list Z) : bool := is_some (strip_prefix_m l p).
Definition ends_with_m (l p : list Z) : bool := is_some (strip_suffix_m l p).

(* ---------------------------------------------------------------- find / rfind *)

(** [__bytes_find]: loop { if starts_with(rem,pat) {return Some(left.len()-rem.len())}
                           match rem { [_, tail @ ..] => rem = tail, [] => return None } } *)
Fixpoint find_from (i : Z) (rem p : list Z) : option Z :=
  match rem with
  | [] => if starts_with_m [] p then Some i else None
  | _ :: tl => if starts_with_m rem p then Some i else find_from (i + 1) tl p
  end.

Definition find_m (h p : list Z) : option Z := find_from 0 h p.

(** [__bytes_rfind] *)
Fixpoint rfind_from (rrem rp : list Z) : option Z :=
  match rrem with
  | [] => if starts_with_m [] rp then Some (0 - zlen rp) else None
  | _ :: tl => if starts_with_m rrem rp then Some (zlen rrem - zlen rp) else rfind_from tl rp
  end.

Definition rfind_m (h p : list Z) : option Z :=
  match p with
  | [] => Some (Z.max 0 (zlen h - 1))          (* left.len().saturating_sub(1) *)
  | _ => rfind_from (rev h) (rev p)
  end.

Definition contains_m (h p : list Z) : bool := is_some (find_m h p).
Definition rcontains_m (h p : list Z) : bool := is_some (rfind_m h p).

(* ---------------------------------------------------------------- byte_find_then! *)

(** forward instantiations: [then_skip = true] is find_skip ([this = next]),
    [false] is find_keep *)
Fixpoint find_then_fwd (skip : bool) (this p : list Z) : option (list Z) :=
  match strip_prefix_m this p with
  | Some next => Some (if skip then next else this)
  | None => match this with
            | _ :: rem => find_then_fwd skip rem p
            | [] => None
            end
  end.

Definition find_skip_m (h p : list Z) : option (list Z) :=
  match p with [] => Some h | _ => find_then_fwd true h p end.
Definition find_keep_m (h p : list Z) : option (list Z) :=
  match p with [] => Some h | _ => find_then_fwd false h p end.

(** reverse instantiations run the same loop on the reversed slices *)
Definition rfind_skip_m (h p : list Z) : option (list Z) :=
  match p with [] => Some h | _ => option_map (@rev Z) (find_then_fwd true (rev h) (rev p)) end.
Definition rfind_keep_m (h p : list Z) : option (list Z) :=
  match p with [] => Some h | _ => option_map (@rev Z) (find_then_fwd false (rev h) (rev p)) end.

(* ---------------------------------------------------------------- split_once *)

(** [string::split_once]: find, then the two sides of the match
    (konst/src/string/split_once.rs) *)
Definition split_once_m (h p : list Z) : option (list Z * list Z) :=
  match p with
  | [] => Some ([], h)                         (* split_at(this, 0) *)
  | _ => match find_m h p with
         | Some i => Some (firstn (Z.to_nat i) h, skipn (Z.to_nat (i + zlen p)) h)
         | None => None
         end
  end.

Definition rsplit_once_m (h p : list Z) : option (list Z * list Z) :=
  match p with
  | [] => Some (h, [])                         (* split_at(this, this.len()) *)
  | _ => match rfind_m h p with
         | Some i => Some (firstn (Z.to_nat i) h, skipn (Z.to_nat (i + zlen p)) h)
         | None => None
         end
  end.

(* ---------------------------------------------------------------- the pre-fix matcher *)

(** The restart-on-first-byte matcher that [__bytes_find] used before the repair of
    finding F1; kept as the regression witness ([heuristic_find_refuted]). *)
Fixpoint heuristic_find_loop (left : list Z) (i : Z) (matching pattern : list Z) : option Z :=
  match left with
  | [] => match matching with [] => Some (i - zlen pattern) | _ => None end
  | b :: left' =>
      match matching with
      | mb :: m_rem =>
          let matching' :=
            if b =? mb then m_rem
            else match pattern with
                 | mb2 :: m_rem2 => if b =? mb2 then m_rem2 else pattern
                 | [] => pattern
                 end in
          heuristic_find_loop left' (i + 1) matching' pattern
      | [] => Some (i - zlen pattern)
      end
  end.

Definition heuristic_find (h p : list Z) : option Z := heuristic_find_loop h 0 p p.
