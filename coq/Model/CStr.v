(** Executable model of konst/src/ffi/cstr.rs.

    A [&CStr] is modelled by the bytes its (fat) reference covers, terminator included;
    every CStr konst creates is the sub-slice [slice_up_to(bytes, i + 1)] of the
    argument, i.e. it starts at offset 0 of [bytes] and is determined by its length.
    [to_bytes_with_nul] does not use that length: it walks the memory from [as_ptr()]
    to the first 0 byte; reading past the end of the allocation is UB ([None]). *)
From KV Require Import Base.Prelude Model.Utf8Check.

(** [slice_up_to]: [let (rem, overflowed) = slice.len().overflowing_sub(len);
                     if overflowed { return slice }  from_raw_parts(ptr, len)] *)
Definition slice_up_to_m {A} (l : list A) (len : Z) : list A :=
  if zlen l <? len then l else firstn (Z.to_nat len) l.

(** [CStrAndLen]: the CStr's bytes and [length_with_nul] *)
Definition cstr_and_len : Type := (list Z * Z)%type.

(** the loop of [from_bytes_until_nul_inner], started at index [i] with [rest] = bytes[i..]:
      for_range!{i in 0..bytes.len() => if bytes[i] == 0 { return Ok(i + 1) }}  Err *)
Fixpoint until_nul_loop (rest : list Z) (i : Z) : option Z :=
  match rest with
  | [] => None
  | b :: rest' => if b =? 0 then Some (i + 1) else until_nul_loop rest' (i + 1)
  end.

(** [from_bytes_until_nul_inner]; [None] = [Err(FromBytesUntilNulError)] *)
Definition from_bytes_until_nul_inner_m (bytes : list Z) : option cstr_and_len :=
  match until_nul_loop bytes 0 with
  | Some lwn => Some (slice_up_to_m bytes lwn, lwn)
  | None => None
  end.

(** [from_bytes_until_nul] *)
Definition from_bytes_until_nul_m (bytes : list Z) : option (list Z) :=
  match from_bytes_until_nul_inner_m bytes with
  | Some (cstr, _) => Some cstr
  | None => None
  end.

(** [Result<&CStr, FromBytesWithNulError>] (+ the index panic of [bytes[bytes.len() - 1]]) *)
Inductive with_nul_res : Type :=
| WOk (cstr : list Z)
| WNotNulTerminated
| WInternalNul (pos : Z)
| WPanic.

(** [bytes[i]] with the bounds check *)
Definition index_m (l : list Z) (i : Z) : option Z :=
  if i <? 0 then None else nth_error l (Z.to_nat i).

(** [from_bytes_with_nul]: the four match arms in order *)
Definition from_bytes_with_nul_m (bytes : list Z) : with_nul_res :=
  match from_bytes_until_nul_inner_m bytes with
  | Some (cstr, length_with_nul) =>
      if length_with_nul =? zlen bytes then WOk cstr
      else
        match index_m bytes (zlen bytes - 1) with
        | None => WPanic
        | Some last =>
            if negb (last =? 0) then WNotNulTerminated
            else WInternalNul (length_with_nul - 1)
        end
  | None => WNotNulTerminated
  end.

(** the pointer walk of [to_bytes_with_nul]: [while *start.add(i) != 0 { i += 1 }] over the
    memory [mem] that starts at [start]; running off the allocation is UB *)
Fixpoint walk_to_nul (mem : list Z) (i : Z) : option Z :=
  match mem with
  | [] => None
  | b :: mem' => if negb (b =? 0) then walk_to_nul mem' (i + 1) else Some i
  end.

(** [to_bytes_with_nul]: [from_raw_parts(start, i + 1)]; [this] = the memory the CStr points to *)
Definition to_bytes_with_nul_m (this : list Z) : option (list Z) :=
  match walk_to_nul this 0 with
  | Some i => Some (firstn (Z.to_nat (i + 1)) this)
  | None => None
  end.

(** [match to_bytes_with_nul(this) { [rem @ .., 0] => rem, _ => unreachable!() }]:
    peel from the end = peel from the front of the reversed list *)
Inductive conv_res (A : Type) : Type :=
| CDone (a : A)
| CUnreachable
| CUB.
Arguments CDone {A} a.
Arguments CUnreachable {A}.
Arguments CUB {A}.

Definition to_bytes_m (this : list Z) : conv_res (list Z) :=
  match to_bytes_with_nul_m this with
  | None => CUB
  | Some s =>
      match rev s with
      | last :: rrem => if last =? 0 then CDone (rev rrem) else CUnreachable
      | [] => CUnreachable
      end
  end.

(** [to_str]: [string::from_utf8(to_bytes(this))] = [core::str::from_utf8];
    inner [None] = [Err(Utf8Error)] *)
Definition to_str_m (this : list Z) : conv_res (option (list Z)) :=
  match to_bytes_m this with
  | CDone b => CDone (if utf8_ok b then Some b else None)
  | CUnreachable => CUnreachable
  | CUB => CUB
  end.
