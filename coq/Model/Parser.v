(** Executable model of konst's [Parser] (konst/src/parsing.rs,
    parsing/non_parsing_methods.rs, parsing/parse_errors.rs, parsing/primitive_parsing.rs)
    and of the bookkeeping frames [try_parsing!] / [parsing!] / [enable_if_start!] /
    [throw_out!] (konst/src/macros/parsing_macros.rs).

    The remainder is a byte list; [start_offset] is a u32 and is modelled as a [Z] with the
    [as u32] casts / wrapping additions written explicitly (a dev build panics on the
    wrapping addition; the theorems carry the no-overflow hypothesis).  Every operation is
    the corresponding free string function (Model/Search.v, Model/Trim.v, Model/ParseInt.v)
    applied to the remainder, inside the frame. *)
From KV Require Import Base.Prelude Model.Search Model.Trim Model.Split.
From KV Require Model.ParseInt.

Inductive pdir : Type := FromStart | FromEnd | FromBoth.

Inductive ekind : Type :=
| EParseInteger | EParseBool | EFind | EStrip | ESplitExhausted | EDelimiterNotFound | EOther.

Record parser : Type := mk_parser {
  p_dir : pdir;
  p_yls : bool;            (* yielded_last_split *)
  p_start : Z;             (* start_offset : u32 *)
  p_str : list Z;
}.

Record perror : Type := mk_perror {
  e_start : Z;
  e_end : Z;
  e_dir : pdir;
  e_kind : ekind;
}.

Definition u32 (x : Z) : Z := x mod 4294967296.

(** [Parser::new], [Parser::with_start_offset] *)
Definition parser_new (s : list Z) : parser := mk_parser FromStart false 0 s.
Definition parser_with_start_offset (s : list Z) (off : Z) : parser := mk_parser FromStart false (u32 off) s.

Definition end_offset (p : parser) : Z := p_start p + zlen (p_str p).

(** [ParseError::new], [ParseError::offset] *)
Definition err_new (p : parser) (k : ekind) : perror :=
  mk_perror (p_start p) (u32 (p_start p + u32 (zlen (p_str p)))) (p_dir p) k.
Definition err_offset (e : perror) : Z :=
  match e_dir e with FromEnd => e_end e | _ => e_start e end.

(** a value handed back next to the parser *)
Inductive pvalue : Type :=
| VNone
| VPiece (s : list Z)
| VInt (z : Z)
| VBool (b : bool).

Inductive pres : Type :=
| POk (v : pvalue) (p : parser)
| PErr (e : perror)
| PPanic.

Definition set_dir (p : parser) (d : pdir) : parser := mk_parser d (p_yls p) (p_start p) (p_str p).
Definition set_str (p : parser) (s : list Z) : parser := mk_parser (p_dir p) (p_yls p) (p_start p) s.
Definition set_yls (p : parser) (b : bool) : parser := mk_parser (p_dir p) b (p_start p) (p_str p).

(** the tail of [try_parsing!]/[parsing!] for FromStart: start_offset += (copy.len - new.len) as u32 *)
Definition advance_start (copy p : parser) : parser :=
  mk_parser (p_dir p) (p_yls p) (u32 (p_start p + u32 (zlen (p_str copy) - zlen (p_str p)))) (p_str p).

(** [try_parsing!{self, FromStart; ..}] around a body that either throws a kind or yields a
    value and the new (str, yielded_last_split) *)
Definition frame (d : pdir) (p : parser)
           (body : parser -> ekind + (pvalue * list Z * bool)) : pres :=
  let p1 := set_dir p d in                    (* $parser.parse_direction = ..; let copy = $parser *)
  match body p1 with
  | inl k => PErr (err_new p1 k)              (* throw!: ParseError::new(copy, kind) *)
  | inr (v, s, y) =>
      let p2 := mk_parser d y (p_start p1) s in
      POk v (match d with FromEnd => p2 | _ => advance_start p1 p2 end)
  end.

Definition keep (p : parser) (v : pvalue) (s : list Z) : ekind + (pvalue * list Z * bool) :=
  inr (v, s, p_yls p).

Definition unwrap_trim (o : option (list Z)) (dflt : list Z) : list Z :=
  match o with Some r => r | None => dflt end.    (* [None] = fuel: never (C05_trim_*_total) *)

(* ------------------------------------------------------------ operations *)

Inductive pop : Type :=
| OSkip (n : Z)
| OSkipBack (n : Z)
| OTrim | OTrimStart | OTrimEnd
| OTrimMatches (pat : list Z) | OTrimStartMatches (pat : list Z) | OTrimEndMatches (pat : list Z)
| OStripPrefix (pat : list Z) | OStripSuffix (pat : list Z)
| OFindSkip (pat : list Z) | ORFindSkip (pat : list Z)
| OSplit (d : list Z) | ORSplit (d : list Z)
| OSplitTerminator (d : list Z) | ORSplitTerminator (d : list Z)
| OSplitKeep (d : list Z)
| OParseInt (w : Z) (sg : bool)        (* parse_u8 .. parse_isize: width and signedness *)
| OParseBool.

(** smallest char boundary >= n (n <= len): the [while !is_char_boundary] loop of [skip] *)
Definition boundary_up (s : list Z) (n : nat) : nat := n + count_cont (skipn n s).
(** largest char boundary <= pos (pos <= len): the loop of [skip_back]; [None] = underflow *)
Definition boundary_down (s : list Z) (pos : nat) : option nat :=
  if Nat.leb (length s) pos then Some pos
  else let k := count_cont (rev (firstn (S pos) s)) in
       if Nat.leb k pos then Some (pos - k)%nat else None.

Definition op_start_trim (p : parser) (f : list Z -> list Z) : pres :=
  frame FromStart p (fun q => keep q VNone (f (p_str q))).
Definition op_end_trim (p : parser) (f : list Z -> list Z) : pres :=
  frame FromEnd p (fun q => keep q VNone (f (p_str q))).

Definition step (p : parser) (o : pop) : pres :=
  match o with
  | OSkip n =>
      let len := zlen (p_str p) in
      let bc := if len <? n then length (p_str p) else boundary_up (p_str p) (Z.to_nat n) in
      POk VNone (mk_parser FromStart (p_yls p) (u32 (p_start p + u32 (Z.of_nat bc))) (skipn bc (p_str p)))
  | OSkipBack n =>
      let pos := Z.to_nat (Z.max 0 (zlen (p_str p) - n)) in          (* saturating_sub *)
      match boundary_down (p_str p) pos with
      | Some k => POk VNone (mk_parser FromEnd (p_yls p) (p_start p) (firstn k (p_str p)))
      | None => PPanic
      end
  | OTrimStart => op_start_trim p bytes_trim_start_m
  | OTrimEnd => op_end_trim p bytes_trim_end_m
  | OTrim =>
      (* self.trim_start(), then direction FromBoth and the end trim *)
      match op_start_trim p bytes_trim_start_m with
      | POk _ q => POk VNone (mk_parser FromBoth (p_yls q) (p_start q) (bytes_trim_end_m (p_str q)))
      | r => r
      end
  | OTrimStartMatches pat => op_start_trim p (fun s => unwrap_trim (trim_start_matches_m s pat) s)
  | OTrimEndMatches pat => op_end_trim p (fun s => unwrap_trim (trim_end_matches_m s pat) s)
  | OTrimMatches pat =>
      match op_start_trim p (fun s => unwrap_trim (trim_start_matches_m s pat) s) with
      | POk _ q => POk VNone (mk_parser FromBoth (p_yls q) (p_start q)
                                        (unwrap_trim (trim_end_matches_m (p_str q) pat) (p_str q)))
      | r => r
      end
  | OStripPrefix pat =>
      frame FromStart p (fun q => match strip_prefix_m (p_str q) pat with
                                  | Some r => keep q VNone r | None => inl EStrip end)
  | OStripSuffix pat =>
      frame FromEnd p (fun q => match strip_suffix_m (p_str q) pat with
                                | Some r => keep q VNone r | None => inl EStrip end)
  | OFindSkip pat =>
      frame FromStart p (fun q => match find_skip_m (p_str q) pat with
                                  | Some r => keep q VNone r | None => inl EFind end)
  | ORFindSkip pat =>
      frame FromEnd p (fun q => match rfind_skip_m (p_str q) pat with
                                | Some r => keep q VNone r | None => inl EFind end)
  | OSplit d =>
      frame FromStart p (fun q =>
        if p_yls q then inl ESplitExhausted
        else match split_once_m (p_str q) d with
             | Some (before, after) => inr (VPiece before, after, p_yls q)
             | None => inr (VPiece (p_str q), [], true)       (* str_from(str, len) *)
             end)
  | ORSplit d =>
      frame FromEnd p (fun q =>
        if p_yls q then inl ESplitExhausted
        else match rsplit_once_m (p_str q) d with
             | Some (after, before) => inr (VPiece before, after, p_yls q)
             | None => inr (VPiece (p_str q), [], true)       (* str_up_to(str, 0) *)
             end)
  | OSplitTerminator d =>
      frame FromStart p (fun q =>
        match p_str q with
        | [] => inl (if p_yls q then ESplitExhausted else EDelimiterNotFound)
        | _ =>
            if p_yls q then inl ESplitExhausted
            else match split_once_m (p_str q) d with
                 | Some (before, after) =>
                     inr (VPiece before, after, match after with [] => true | _ => false end)
                 | None => inl EDelimiterNotFound
                 end
        end)
  | ORSplitTerminator d =>
      frame FromEnd p (fun q =>
        match p_str q with
        | [] => inl (if p_yls q then ESplitExhausted else EDelimiterNotFound)
        | _ =>
            if p_yls q then inl ESplitExhausted
            else match rsplit_once_m (p_str q) d with
                 | Some (after, before) =>
                     inr (VPiece before, after, match after with [] => true | _ => false end)
                 | None => inl EDelimiterNotFound
                 end
        end)
  | OSplitKeep d =>
      frame FromStart p (fun q =>
        if p_yls q then inl ESplitExhausted
        else match find_m (p_str q) d with
             | Some pos => inr (VPiece (firstn (Z.to_nat pos) (p_str q)), skipn (Z.to_nat pos) (p_str q), p_yls q)
             | None => inr (VPiece (p_str q), [], true)
             end)
  | OParseInt w sg =>
      frame FromStart p (fun q =>
        match ParseInt.parse_int_m w sg (p_str q) with
        | ParseInt.POk (v, rest) => inr (VInt v, rest, p_yls q)
        | ParseInt.PErr _ => inl EParseInteger
        end)
  | OParseBool =>
      frame FromStart p (fun q =>
        match ParseInt.parse_bool_m (p_str q) with
        | ParseInt.POk (b, rest) => inr (VBool b, rest, p_yls q)
        | ParseInt.PErr _ => inl EParseBool
        end)
  end.

(** run a sequence of operations, recording every result; stops at the first error
    (an [Err] carries no parser) *)
Fixpoint run_ops (p : parser) (ops : list pop) : list pres :=
  match ops with
  | [] => []
  | o :: ops' =>
      match step p o with
      | POk v q => POk v q :: run_ops q ops'
      | r => [r]
      end
  end.
