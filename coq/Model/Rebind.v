(** Token-level model of rebind_if_ok! / try_rebind! (konst/src/macros/parsing_macros.rs):
    __priv_ai_preprocess_pattern, __priv_assign_tuple (five arms) and
    __priv_next_ai_access (three arms) as functions on token lists, then the meaning of the
    statements they emit.

    Simplifications, all on the INPUT side (what a token is), none on the walker:
    a type ([$ty:ty]) and a [let] pattern ([$pat:tt] / [$pat:pat_param]) are one token each
    ([KTy n], [KIdent n] / [KUnd] / [KParen ..]); an expression ([$e:expr], fifth arm) is a
    maximal comma-free run of tokens that contains no [let], [_], [:] or type. *)
From KV Require Import Base.Prelude Model.OptRes.
Local Open Scope nat_scope.

Inductive tok : Type :=
| KLet | KUnd | KColon | KComma | KDot
| KIdent (n : nat)            (* an identifier *)
| KNum (n : nat)              (* an integer literal: tuple field index *)
| KTy (n : nat)               (* a type *)
| KTT                         (* the identifier [tt] (only the pre-repair transcriber emits it) *)
| KBracket (l : list tok)     (* [ .. ] *)
| KParen (l : list tok).      (* ( .. ) *)

(** what the expansion reads from [$var] *)
Inductive access : Type :=
| Whole                       (* [$var] *)
| Field (f : tok).            (* [$var.$field] *)

(** one emitted statement *)
Inductive stmt : Type :=
| SAssign (lhs : list tok) (a : access)    (* [$($lhs)* = $var;] / [$($lhs)* = $var.$field;] *)
| SAscribe (ty : tok).                     (* [let _: $ty = $var;] *)

(** the optional tail [$(, $($rem:tt)* )?] of every __priv_assign_tuple arm: nothing, or a
    comma followed by any tokens.  Both "absent" and "present but empty" hand an empty
    [$rem] to __priv_next_ai_access. *)
Definition tail_rem (ts : list tok) : option (list tok) :=
  match ts with
  | [] => Some []
  | KComma :: rem => Some rem
  | _ => None
  end.

Definition is_pat (t : tok) : bool :=
  match t with KIdent _ | KUnd | KParen _ => true | _ => false end.

Definition tok_in_expr (t : tok) : bool :=
  match t with KLet | KUnd | KColon | KComma | KTy _ => false | _ => true end.
Definition expr_head (t : tok) : bool :=
  match t with KIdent _ | KNum _ | KParen _ | KBracket _ | KTT => true | _ => false end.

(** tokens up to the first top-level comma *)
Fixpoint span_comma (ts : list tok) : list tok * list tok :=
  match ts with
  | [] => ([], [])
  | KComma :: _ => ([], ts)
  | t :: r => let (a, b) := span_comma r in (t :: a, b)
  end.

(** one arm of __priv_assign_tuple: statements emitted before the access, the [$lhs]
    tokens handed on, and [$rem] *)
Definition armres : Type := (list stmt * list tok * list tok)%type.

(** [let $pat:tt : $ty:ty $(, $($rem:tt)* )?] *)
Definition arm1 (pat : list tok) : option armres :=
  match pat with
  | KLet :: p :: KColon :: KTy ty :: rest =>
      match tail_rem rest with
      | Some rem => Some ([], [KLet; p; KColon; KTy ty], rem)
      | None => None
      end
  | _ => None
  end.
(** [let $pat:pat_param $(, $($rem:tt)* )?] *)
Definition arm2 (pat : list tok) : option armres :=
  match pat with
  | KLet :: p :: rest =>
      if is_pat p then
        match tail_rem rest with
        | Some rem => Some ([], [KLet; p], rem)
        | None => None
        end
      else None
  | _ => None
  end.
(** [_ $(: $ty:ty)? $(, $($rem:tt)* )?]  ->  lhs [let _ $(: $ty)?] *)
Definition arm3 (pat : list tok) : option armres :=
  match pat with
  | KUnd :: KColon :: KTy ty :: rest =>
      match tail_rem rest with
      | Some rem => Some ([], [KLet; KUnd; KColon; KTy ty], rem)
      | None => None
      end
  | KUnd :: rest =>
      match tail_rem rest with
      | Some rem => Some ([], [KLet; KUnd], rem)
      | None => None
      end
  | _ => None
  end.
(** [$e:tt $(: $ty:ty)? $(, $($rem:tt)* )?]  ->  [$(let _: $ty = $var;)?] and lhs [$e] *)
Definition arm4 (pat : list tok) : option armres :=
  match pat with
  | e :: KColon :: KTy ty :: rest =>
      match tail_rem rest with
      | Some rem => Some ([SAscribe (KTy ty)], [e], rem)
      | None => None
      end
  | e :: rest =>
      match tail_rem rest with
      | Some rem => Some ([], [e], rem)
      | None => None
      end
  | [] => None
  end.
(** [$e:expr $(, $($rem:tt)* )?] *)
Definition arm5 (pat : list tok) : option armres :=
  let (ex, rest) := span_comma pat in
  match ex with
  | [] => None
  | h :: _ =>
      if expr_head h && forallb tok_in_expr ex then
        match tail_rem rest with
        | Some rem => Some ([], ex, rem)
        | None => None
        end
      else None
  end.

(** macro_rules tries the arms in order *)
Definition first_arm (pat : list tok) : option armres :=
  match arm1 pat with Some r => Some r | None =>
  match arm2 pat with Some r => Some r | None =>
  match arm3 pat with Some r => Some r | None =>
  match arm4 pat with Some r => Some r | None => arm5 pat end end end end.

(** __priv_next_ai_access!{ ($lhs) $var, $fields, $rem }, three arms:
      [( (0 $($rem_fields)* ), )]             ->  [$lhs = $var;]
      [( ($field $($rem_fields)* ), )]        ->  [$lhs = $var.$field;]
      [( ($field $($rem_fields)* ), $rem+ )]  ->  [$lhs = $var.$field;]
                                                  [__priv_assign_tuple!($var, (rem_fields), $rem+)]
    [recur] is that last invocation.  An empty field list matches no arm. *)
Definition next_ai_access (lhs : list tok) (fields rem : list tok)
           (recur : list tok -> list tok -> option (list stmt)) : option (list stmt) :=
  match fields, rem with
  | [], _ => None
  | KNum O :: _, [] => Some [SAssign lhs Whole]
  | f :: _, [] => Some [SAssign lhs (Field f)]
  | f :: rf, _ :: _ =>
      match recur rf rem with
      | Some more => Some (SAssign lhs (Field f) :: more)
      | None => None
      end
  end.

(** __priv_assign_tuple!{$var, $fields, pat..}.
    [tr] is how the third arm of __priv_next_ai_access transcribes the remaining fields:
    the identity in the repaired code [($($rem_fields)* )].
    [None] = no arm matches (a compile error) or the fuel ran out. *)
Fixpoint assign_tuple (tr : list tok -> list tok) (fuel : nat) (fields pat : list tok)
  : option (list stmt) :=
  match fuel with
  | O => None
  | S fuel' =>
      match first_arm pat with
      | None => None
      | Some (pre, lhs, rem) =>
          match next_ai_access lhs fields rem
                  (fun rf rem' => assign_tuple tr fuel' (tr rf) rem') with
          | Some ss => Some (pre ++ ss)
          | None => None
          end
      end
  end.

Definition fields0 : list tok := [KNum 0; KNum 1; KNum 2; KNum 3; KNum 4; KNum 5].

(** repaired transcriber [($($rem_fields)* )] *)
Definition tr_fixed (rf : list tok) : list tok := rf.
(** transcriber before the repair (finding F5), [($($rem_fields:tt)* )]: inside a transcriber
    [$x:tt] is [$x] followed by the two literal tokens [:] and [tt] *)
Definition tr_old (rf : list tok) : list tok := flat_map (fun t => [t; KColon; KTT]) rf.

(** what follows [=] in the two public macros: one token tree, optionally [: ty]
    (rebind_if_ok! only) *)
Inductive rpat : Type :=
| RP (pattern : tok) (ty : option tok).

(** __priv_ai_preprocess_pattern!{$var, ($pattern $(: $ty)?)}:
    first arm [(( $($pat:tt)* ))] strips one pair of parentheses when the parenthesised
    group is the only token; second arm passes the tokens through *)
Definition preprocess (p : rpat) : list tok :=
  match p with
  | RP (KParen inner) None => inner
  | RP t None => [t]
  | RP t (Some ty) => [t; KColon; ty]
  end.

Definition walk_with (tr : list tok -> list tok) (pat : list tok) : option (list stmt) :=
  assign_tuple tr (S (length pat)) fields0 pat.
Definition walk : list tok -> option (list stmt) := walk_with tr_fixed.
Definition walk_old : list tok -> option (list stmt) := walk_with tr_old.

(* ------------------------------------------------------------------ meaning *)

(** the Ok payload bound to [tuple] *)
Inductive rval : Type :=
| VInt (z : Z)
| VTup (l : list Z).

(** a store: the tokens of a place expression (or [[KIdent n]] for a [let]-bound name) and
    the value last written to it; most recent first *)
Definition store : Type := list (list tok * rval).

Definition read_access (payload : rval) (a : access) : option rval :=
  match a, payload with
  | Whole, v => Some v
  | Field (KNum k), VTup l =>
      match nth_error l k with Some z => Some (VInt z) | None => None end
  | Field _, _ => None         (* not a field name / no such field: rustc rejects it *)
  end.

(** the place a [$lhs] writes: [let _ ..] discards, [let x ..] binds [x], anything else is
    an assignment to the place expression itself *)
Definition lhs_place (lhs : list tok) : option (list tok) :=
  match lhs with
  | KLet :: KUnd :: _ => None
  | KLet :: p :: _ => Some [p]
  | _ => Some lhs
  end.

Fixpoint exec (ss : list stmt) (payload : rval) (st : store) : option store :=
  match ss with
  | [] => Some st
  | SAscribe _ :: r => exec r payload st
  | SAssign lhs a :: r =>
      match read_access payload a with
      | None => None
      | Some v =>
          match lhs_place lhs with
          | None => exec r payload st
          | Some pl => exec r payload ((pl, v) :: st)
          end
      end
  end.

(** outcome of a use of one of the macros *)
Inductive rebind_out (E : Type) : Type :=
| Rebound (st : store)        (* Ok: statements executed, the code after them runs *)
| Skipped                     (* rebind_if_ok! on Err: nothing assigned, code not run *)
| Returned (e : E)            (* try_rebind! on Err: [return Err(e)] *)
| Rejected.                   (* the expansion does not compile *)
Arguments Rebound {E} st.
Arguments Skipped {E}.
Arguments Returned {E} e.
Arguments Rejected {E}.

(** [if let Ok(tuple) = $expression { preprocess!{tuple, ($pattern $(:$ty)?)} $code }] *)
Definition rebind_if_ok_with {E} (tr : list tok -> list tok) (p : rpat) (e : result rval E)
           (st : store) : rebind_out E :=
  match walk_with tr (preprocess p) with
  | None => Rejected
  | Some ss =>
      match e with
      | Ok payload =>
          match exec ss payload st with Some st' => Rebound st' | None => Rejected end
      | Err _ => Skipped
      end
  end.
(** [let tuple = match $expression { Ok(t) => t, Err(_e) => return Err(_e) };
     preprocess!(tuple, ($pattern));] *)
Definition try_rebind_with {E} (tr : list tok -> list tok) (p : tok) (e : result rval E)
           (st : store) : rebind_out E :=
  match walk_with tr (preprocess (RP p None)) with
  | None => Rejected
  | Some ss =>
      match e with
      | Ok payload =>
          match exec ss payload st with Some st' => Rebound st' | None => Rejected end
      | Err x => Returned x
      end
  end.

Definition rebind_if_ok_m {E} := @rebind_if_ok_with E tr_fixed.
Definition try_rebind_m {E} := @try_rebind_with E tr_fixed.

(** current value of a place *)
Fixpoint tok_eqb (a b : tok) {struct a} : bool :=
  let fix list_eq (x y : list tok) {struct x} : bool :=
    match x, y with
    | [], [] => true
    | s :: x', t :: y' => tok_eqb s t && list_eq x' y'
    | _, _ => false
    end in
  match a, b with
  | KLet, KLet | KUnd, KUnd | KColon, KColon | KComma, KComma | KDot, KDot | KTT, KTT => true
  | KIdent n, KIdent m | KNum n, KNum m | KTy n, KTy m => Nat.eqb n m
  | KBracket x, KBracket y | KParen x, KParen y => list_eq x y
  | _, _ => false
  end.
Fixpoint toks_eqb (x y : list tok) : bool :=
  match x, y with
  | [], [] => true
  | s :: x', t :: y' => tok_eqb s t && toks_eqb x' y'
  | _, _ => false
  end.
Fixpoint lookup (pl : list tok) (st : store) : option rval :=
  match st with
  | [] => None
  | (k, v) :: r => if toks_eqb k pl then Some v else lookup pl r
  end.
