(** Executable model of konst's comparison functions and macros (property C16).

    Rust sources followed (konst 0.3.16 as repaired in /repo):
      konst/src/__for_cmp_impls.rs                 U8Ordering, __priv_ret_if_ne!
      konst/src/macros/declare_cmp_fn_macros.rs    eq_str, cmp_str, cmp_str_inner,
                                                   __declare_slice_cmp_fns (eq loop, cmp_inner),
                                                   __impl_option_cmp_fns
      konst/src/macros/const_eq_macros.rs          const_eq!, const_eq_for! (slice/option/range arms)
      konst/src/macros/const_ord_macros.rs         const_cmp!, const_cmp_for! (slice/option arms), cmp_int!
      konst/src/macros/assert_cmp_macros.rs        assertc_eq!, assertc_ne!
      konst/src/{slice,primitive,nonzero,range,other}/cmp.rs, slice.rs, string.rs

    Conventions: a primitive value (integer of any width, bool as 0/1, char as its scalar value,
    NonZero as its [get()]) is a [Z]; the Rust operators [==], [<], [>] on one primitive type are
    the [Z] operators on the values.  A [&str] is the list of its UTF-8 bytes.  A function that
    indexes ([left[i]]) can panic in Rust; the models return [option], [None] = panic, and the
    theorems show [None] is never returned.  [Ordering] is Coq's [comparison]
    (Less = [Lt], Equal = [Eq], Greater = [Gt]). *)
From KV Require Import Base.Prelude.

(* ------------------------------------------------------------------ U8Ordering *)

(** [U8Ordering(pub u8)]: LESS = 0, GREATER = 1, EQUAL = 2 *)
Definition U8_LESS : Z := 0.
Definition U8_GREATER : Z := 1.
Definition U8_EQUAL : Z := 2.

(** [to_ordering]: match self { LESS => Less, GREATER => Greater, _ => Equal } *)
Definition to_ordering (c : Z) : comparison :=
  if c =? U8_LESS then Lt else if c =? U8_GREATER then Gt else Eq.

(** [(b as u8)] *)
Definition bool_as_u8 (b : bool) : Z := if b then 1 else 0.

(** [__priv_ret_if_ne!{l, r}]: if l != r { return U8Ordering((l > r) as u8) }.
    [Some c] = the enclosing function returns [c]; [None] = fall through. *)
Definition ret_if_ne (l r : Z) : option Z :=
  if negb (l =? r) then Some (bool_as_u8 (l >? r)) else None.

(** outcome of a loop whose body may [return] or index out of bounds *)
Inductive flow : Type :=
| Return (c : Z)
| FallThrough
| IndexPanic.

(** [let mut i = 0; while i < min_len { __priv_ret_if_ne!{left[i], right[i]} i += 1 }]
    [n] = iterations left ([min_len - i]); [l], [r] = [left[i..]], [right[i..]], so that
    [left[i]] is the head (out of bounds = empty). *)
Fixpoint cmp_loop (n : nat) (l r : list Z) : flow :=
  match n with
  | O => FallThrough
  | S n' =>
      match l, r with
      | x :: l', y :: r' =>
          match ret_if_ne x y with
          | Some c => Return c
          | None => cmp_loop n' l' r'
          end
      | _, _ => IndexPanic
      end
  end.

(* ------------------------------------------------------------------ strings *)

(** [let mut i = 0; while i != left.len() { if left[i] != right[i] { return false } i += 1 } true] *)
Fixpoint eq_loop (n : nat) (l r : list Z) : option bool :=
  match n with
  | O => Some true
  | S n' =>
      match l, r with
      | x :: l', y :: r' => if negb (x =? y) then Some false else eq_loop n' l' r'
      | _, _ => None
      end
  end.

(** [eq_str]: on the bytes; [if left.len() != right.len() { return false }] then the loop *)
Definition eq_str_m (l r : list Z) : option bool :=
  if negb (zlen l =? zlen r) then Some false else eq_loop (length l) l r.

(** [cmp_str_inner] *)
Definition cmp_str_inner_m (l r : list Z) : option Z :=
  let left_len := zlen l in
  let right_len := zlen r in
  let min_on :=
    if left_len <? right_len then (left_len, U8_LESS) else (right_len, U8_GREATER) in
  match cmp_loop (Z.to_nat (fst min_on)) l r with
  | Return c => Some c
  | IndexPanic => None
  | FallThrough => Some (if left_len =? right_len then U8_EQUAL else snd min_on)
  end.

(** [cmp_str]: [cmp_str_inner(left.as_bytes(), right.as_bytes()).to_ordering()] *)
Definition cmp_str_m (l r : list Z) : option comparison :=
  option_map to_ordering (cmp_str_inner_m l r).

(* ------------------------------------------------------------------ slices of primitives *)

(** [eq_bytes], [eq_slice_u16], ... (the [$eq_fn_name] of [__declare_slice_cmp_fns]) *)
Definition eq_slice_m (l r : list Z) : option bool :=
  if negb (zlen l =? zlen r) then Some false else eq_loop (length l) l r.

(** [cmp_inner] of [__declare_slice_cmp_fns] (repaired code: element loop over the common
    prefix, then the lengths) *)
Definition cmp_inner_m (l r : list Z) : option Z :=
  let left_len := zlen l in
  let right_len := zlen r in
  let min_len := if left_len <? right_len then left_len else right_len in
  match cmp_loop (Z.to_nat min_len) l r with
  | Return c => Some c
  | IndexPanic => None
  | FallThrough =>
      match ret_if_ne left_len right_len with
      | Some c => Some c
      | None => Some U8_EQUAL
      end
  end.

(** [cmp_bytes], [cmp_slice_u16], ...: [cmp_inner(left, right).to_ordering()] *)
Definition cmp_slice_m (l r : list Z) : option comparison :=
  option_map to_ordering (cmp_inner_m l r).

(** the code before the repair of finding F4 compared the lengths first; kept for the
    regression lemma [length_first_refuted] *)
Definition cmp_inner_length_first (l r : list Z) : option Z :=
  match ret_if_ne (zlen l) (zlen r) with
  | Some c => Some c
  | None =>
      match cmp_loop (length l) l r with
      | Return c => Some c
      | IndexPanic => None
      | FallThrough => Some U8_EQUAL
      end
  end.
Definition cmp_slice_length_first (l r : list Z) : option comparison :=
  option_map to_ordering (cmp_inner_length_first l r).

(* ------------------------------------------------------------------ primitives *)

(** [CmpWrapper<$ty>::const_eq]: [self.0 == *other]; also [l == r] of the option functions *)
Definition prim_eq_m (l r : Z) : bool := l =? r.

(** [cmp_int!(l, r)]: if l == r { Equal } else if l < r { Less } else { Greater } *)
Definition cmp_int_m (l r : Z) : comparison :=
  if l =? r then Eq else if l <? r then Lt else Gt.

(** [Ordering as i8] *)
Definition ordering_as_i8 (o : comparison) : Z :=
  match o with Lt => -1 | Eq => 0 | Gt => 1 end.

(** [eq_ordering]: [left as i8 == right as i8]; [cmp_ordering]: [cmp_int!(left as i8, right as i8)] *)
Definition eq_ordering_m (l r : comparison) : bool := ordering_as_i8 l =? ordering_as_i8 r.
Definition cmp_ordering_m (l r : comparison) : comparison :=
  cmp_int_m (ordering_as_i8 l) (ordering_as_i8 r).

(** [eq_range_*] / [eq_rangeinc_*]: [left.start == right.start && left.end == right.end];
    a range is the pair (start, end).  (A [RangeInclusive] also carries a private [exhausted]
    flag that std's [==] compares and konst cannot read; the model and the property speak about
    ranges as built from their bounds, [a..=b], where the flag is [false].) *)
Definition eq_range_m (l r : Z * Z) : bool := (fst l =? fst r) && (snd l =? snd r).

(** [eq_phantomdata], [eq_phantompinned]: [true]; [cmp_*]: [Equal] *)
Definition eq_marker_m : bool := true.
Definition cmp_marker_m : comparison := Eq.

(* ------------------------------------------------------------------ Option *)

(** [__impl_option_cmp_fns] and the [option] arms of [const_eq_for!] / [const_cmp_for!]:
    the element comparison is a parameter; it may panic ([None]) *)
Definition option_eq_m {A} (eqE : A -> A -> option bool) (l r : option A) : option bool :=
  match l, r with
  | Some a, Some b => eqE a b
  | None, None => Some true
  | _, _ => Some false
  end.

Definition option_cmp_m {A} (cmpE : A -> A -> option comparison) (l r : option A)
  : option comparison :=
  match l, r with
  | Some a, Some b => cmpE a b
  | Some _, None => Some Gt
  | None, Some _ => Some Lt
  | None, None => Some Eq
  end.

(* ------------------------------------------------------------------ const_eq_for! / const_cmp_for! *)

(** [const_eq_for!(slice; l, r, cmp)]:
      let mut returned = l.len() == r.len();
      if returned { let mut i = 0; while i != l.len() {
          let are_eq = cmp(l[i], r[i]); if !are_eq { returned = false; break; } i += 1 } }
      returned *)
Fixpoint eq_for_loop {A} (eqE : A -> A -> option bool) (n : nat) (l r : list A) : option bool :=
  match n with
  | O => Some true
  | S n' =>
      match l, r with
      | x :: l', y :: r' =>
          match eqE x y with
          | None => None
          | Some are_eq => if negb are_eq then Some false else eq_for_loop eqE n' l' r'
          end
      | _, _ => None
      end
  end.

Definition eq_for_slice_m {A} (eqE : A -> A -> option bool) (l r : list A) : option bool :=
  let returned := zlen l =? zlen r in
  if returned then eq_for_loop eqE (length l) l r else Some returned.

(** [const_cmp_for!(slice; l, r, cmp)] (repaired code):
      loop { match (left_slice, right_slice) {
          ([l, l_rem @ ..], [r, r_rem @ ..]) => { left_slice = l_rem; right_slice = r_rem;
              let ord = cmp(l, r); if !matches!(ord, Equal) { break ord } }
          ([], []) => break Equal, ([], _) => break Less, (_, []) => break Greater } } *)
Fixpoint cmp_for_slice_m {A} (cmpE : A -> A -> option comparison) (l r : list A)
  : option comparison :=
  match l, r with
  | x :: l', y :: r' =>
      match cmpE x y with
      | None => None
      | Some Eq => cmp_for_slice_m cmpE l' r'
      | Some ord => Some ord
      end
  | [], [] => Some Eq
  | [], _ => Some Lt
  | _, [] => Some Gt
  end.

(** [const_eq_for!(range; l, r, cmp)]: [cmp(l.start, r.start) && cmp(l.end, r.end)]
    ([&&] is lazy: the second comparison runs only after a [true]) *)
Definition eq_for_range_m {A} (eqE : A -> A -> option bool) (l r : A * A) : option bool :=
  match eqE (fst l) (fst r) with
  | None => None
  | Some true => eqE (snd l) (snd r)
  | Some false => Some false
  end.

(** element comparators of primitives as used by the macros without a comparator argument:
    [coerce_to_cmp!(x).const_eq(&y)] = [x == y], [coerce_to_cmp!(&x).const_cmp(&y)] = [cmp_int!] *)
Definition prim_eq_o (l r : Z) : option bool := Some (prim_eq_m l r).
Definition prim_cmp_o (l r : Z) : option comparison := Some (cmp_int_m l r).

(* ------------------------------------------------------------------ slices of strings / byte slices *)

(** [eq_slice_str]: [const_eq_for!(slice; l, r, eq_str)]; [cmp_slice_str]:
    [const_cmp_for!(slice; left, right, cmp_str)]; likewise [*_slice_bytes] with
    [eq_slice_u8 = eq_bytes] / [cmp_slice_u8 = cmp_bytes] *)
Definition eq_slice_str_m (l r : list (list Z)) : option bool := eq_for_slice_m eq_str_m l r.
Definition cmp_slice_str_m (l r : list (list Z)) : option comparison :=
  cmp_for_slice_m cmp_str_m l r.
Definition eq_slice_bytes_m (l r : list (list Z)) : option bool := eq_for_slice_m eq_slice_m l r.
Definition cmp_slice_bytes_m (l r : list (list Z)) : option comparison :=
  cmp_for_slice_m cmp_slice_m l r.

(* ------------------------------------------------------------------ const_eq! / const_cmp! *)

(** [const_eq!(l, r)] = [coerce_to_cmp!(l, r)] then [left.const_eq(right)].  For a std type the
    coercion wraps the value in [CmpWrapper] whose [const_eq]/[const_cmp] method (generated by
    [__delegate_const_eq!]/[__delegate_const_ord!]) calls the named function of that type; for
    the 14 primitives [const_eq] is [self.0 == *other].  So the macro is, per type, the named
    function; the model records this as definitional equalities used by the glue. *)
Definition const_eq_prim_m := prim_eq_m.
Definition const_cmp_prim_m := cmp_int_m.
Definition const_eq_slice_m := eq_slice_m.
Definition const_cmp_slice_m := cmp_slice_m.
Definition const_eq_str_m := eq_str_m.
Definition const_cmp_str_m := cmp_str_m.

(* ------------------------------------------------------------------ user types: impl_cmp!, try_equal! *)

(** [impl_cmp!] gives a user type the kind [IsNotStdKind]; [coerce_to_cmp!] then passes the
    reference through unchanged, so [const_eq!(l, r)] = [l.const_eq(r)] and [const_cmp!(l, r)] =
    [l.const_cmp(r)], the user's own methods.  Those are written with [&&] and [try_equal!]:

    [try_equal!(ord)]: match ord { Equal => Equal, ord => return ord }
    [k] = the rest of the function (for a trailing [try_equal!]: [Some Eq]) *)
Definition try_equal_m (ord : option comparison) (k : option comparison) : option comparison :=
  match ord with
  | None => None
  | Some Eq => k
  | Some o => Some o
  end.

(** [a && b] where both sides may panic and [b] runs only after [true] *)
Definition lazy_and_m (a b : option bool) : option bool :=
  match a with
  | None => None
  | Some true => b
  | Some false => Some false
  end.

(* ------------------------------------------------------------------ assertc_eq! / assertc_ne! *)

(** [__cmp_assert_inner!]: [if let $is_equal = coerce_to_cmp!(l).const_eq(r) { panic }] with
    [$is_equal] = [false] for [assertc_eq!], [true] for [assertc_ne!].  Result: does it panic? *)
Definition assertc_eq_panics_m (const_eq_result : bool) : bool :=
  match const_eq_result with false => true | _ => false end.
Definition assertc_ne_panics_m (const_eq_result : bool) : bool :=
  match const_eq_result with true => true | _ => false end.
