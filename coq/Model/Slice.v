(** Executable model of konst's slice indexing / splitting / chunking functions
    (konst 0.3.16 as it is in /repo):

      konst_kernel/src/slice.rs                 __slice_from_impl!, __slice_up_to_impl!,
                                                slice_from, slice_up_to, slice_range
      konst/src/slice/slice_const_methods.rs    get(_mut), get_from(_mut), get_up_to(_mut),
                                                get_range(_mut), slice_from_mut, slice_up_to_mut,
                                                slice_range_mut, split_at, split_at_mut,
                                                first_mut, last_mut, split_first_mut, split_last_mut
      konst_kernel/src/slice/slice_for_konst.rs try_into_array_func, try_into_array_mut_func
      konst/src/slice/slice_as_chunks.rs        as_chunks, as_rchunks

    Conventions (DESIGN 3.2):
    - [w] is the bit width of [usize]; all index arguments are numbers in [0, 2^w).
    - [sz] is [size_of::<T>()] (0 for zero-sized element types).
    - the argument slice is represented by its length [len] only; a returned sub-slice is a
      [view] = (offset, length) in ELEMENTS relative to the argument.
    - every [unsafe { from_raw_parts(ptr.offset(o as isize), n) }] is the function
      [raw_parts], which returns [UB] when the precondition of the unsafe block would not
      hold; panics (index out of bounds, assert!, arithmetic overflow with overflow checks on)
      are [Panic].  The theorems (Proofs/SliceProofs.v) show that neither outcome is
      reachable, so the dev and release profiles agree. *)
From KV Require Import Base.Prelude.

(* ------------------------------------------------------------------ outcomes *)

Inductive res (A : Type) : Type :=
| Ok (a : A)
| UB          (* an unsafe precondition would be violated *)
| Panic.      (* the Rust code would panic *)
Arguments Ok {A} a.
Arguments UB {A}.
Arguments Panic {A}.

Definition bind {A B} (r : res A) (k : A -> res B) : res B :=
  match r with Ok a => k a | UB => UB | Panic => Panic end.

(* ------------------------------------------------------------------ views *)

Record view : Type := V { off : Z; vlen : Z }.

(** the static [&[]] / [&mut []] the clamping functions fall back to *)
Definition empty_view : view := V 0 0.
(** the argument itself *)
Definition whole (len : Z) : view := V 0 len.
(** [inner] is a view of the slice denoted by [outer]; the result is relative to [outer]'s
    own argument *)
Definition compose (outer inner : view) : view := V (off outer + off inner) (vlen inner).

(** a [&[[T; N]]]: [ccount] arrays of N elements starting at element [coff] of the argument *)
Record chunks : Type := C { coff : Z; ccount : Z }.

(** the elements a view denotes *)
Definition sub {A} (l : list A) (v : view) : list A :=
  firstn (Z.to_nat (vlen v)) (skipn (Z.to_nat (off v)) l).

(* ------------------------------------------------------------------ machine integers *)

Definition isize_max (w : Z) : Z := 2 ^ (w - 1) - 1.
(** [x mod 2^w].  The first two branches only avoid a division when [x] is within one
    modulus of the range, which is the case for every difference of two usize values
    ([wrap_mod] in Proofs/SliceProofs.v: [wrap w x = x mod 2^w] for every [w >= 0] and [x]). *)
Definition wrap (w x : Z) : Z :=
  let m := 2 ^ w in
  if (0 <=? x) && (x <? m) then x
  else if (- m <=? x) && (x <? 0) then x + m
  else x mod m.
(** [x as isize] for a usize [x] *)
Definition to_isize (w x : Z) : Z := if x <? 2 ^ (w - 1) then x else x - 2 ^ w.
(** [usize::overflowing_sub] *)
Definition overflowing_sub (w a b : Z) : Z * bool := (wrap w (a - b), a <? b).
(** [a - b] / [a * b] on usize with overflow checks (dev profile): panic on overflow.
    (Release wraps instead; the no-panic theorems make the difference unobservable.) *)
Definition usub (w a b : Z) : res Z := if a <? b then Panic else Ok (a - b).
Definition umul (w a b : Z) : res Z := if a * b <? 2 ^ w then Ok (a * b) else Panic.

(* ------------------------------------------------------------------ the unsafe sites *)

(** which macro instantiation: (as_ptr, from_raw_parts) or (as_mut_ptr, from_raw_parts_mut) *)
Inductive mutability : Type := Shared | Mut.

(** [from_raw_parts{,_mut}(slice.as_{,mut_}ptr().offset(o as isize), n)] on an argument of
    [len] elements of [sz] bytes.  Sound iff the byte offset [(o as isize) * sz] is in
    [0, isize::MAX], the [n] elements lie inside the argument, and [n * sz <= isize::MAX]. *)
Definition raw_parts (m : mutability) (w sz len o n : Z) : res view :=
  let byte_off := to_isize w o * sz in
  if (0 <=? byte_off) && (byte_off <=? isize_max w) && (0 <=? n) && (o + n <=? len)
     && (n * sz <=? isize_max w)
  then Ok (V o n) else UB.

(** [&*(slice.as_ptr() as *const [T; N])]: N elements must be readable *)
Definition raw_array (m : mutability) (w sz len N : Z) : res view :=
  if (0 <=? N) && (N <=? len) then Ok (V 0 N) else UB.

(** [from_raw_parts(arrs_in.as_ptr() as *const [T; N], cnt)] where [arrs_in] is the view [v] *)
Definition raw_chunks (w sz : Z) (v : view) (N cnt : Z) : res chunks :=
  if (0 <=? cnt) && (cnt * N <=? vlen v) && (cnt * N * sz <=? isize_max w)
  then Ok (C (off v) cnt) else UB.

(** two live [&mut] must not overlap *)
Definition disjoint (a b : view) : bool :=
  (vlen a =? 0) || (vlen b =? 0) || (off a + vlen a <=? off b) || (off b + vlen b <=? off a).

(* ------------------------------------------------------------------ get / get_mut *)

(** [slice[index]]: bounds-checked indexing *)
Definition index_m (len i : Z) : res Z := if i <? len then Ok i else Panic.

(** [if slice.len() > index { Some(&slice[index]) } else { None }] *)
Definition get_m (m : mutability) (len i : Z) : res (option Z) :=
  if i <? len then bind (index_m len i) (fun e => Ok (Some e)) else Ok None.

(* ------------------------------------------------------------------ the two macros *)

(** [__slice_from_impl!(slice, start, as_ptr, from_raw_parts, on_overflow)] *)
Definition slice_from_impl {A} (m : mutability) (w sz len start : Z)
           (on_overflow : res A) (k : view -> res A) : res A :=
  let '(rem, overflowed) := overflowing_sub w len start in
  if overflowed then on_overflow
  else bind (raw_parts m w sz len start rem) k.

(** [__slice_up_to_impl!(slice, len, as_ptr, from_raw_parts, on_overflow)]
    ([rem] is computed and unused; the pointer is not offset) *)
Definition slice_up_to_impl {A} (m : mutability) (w sz len n : Z)
           (on_overflow : res A) (k : view -> res A) : res A :=
  let '(rem, overflowed) := overflowing_sub w len n in
  if overflowed then on_overflow
  else bind (raw_parts m w sz len 0 n) k.

Definition slice_from_m m w sz len start : res view :=
  slice_from_impl m w sz len start (Ok empty_view) (fun v => Ok v).
Definition slice_up_to_m m w sz len n : res view :=
  slice_up_to_impl m w sz len n (Ok (whole len)) (fun v => Ok v).
Definition get_from_m m w sz len start : res (option view) :=
  slice_from_impl m w sz len start (Ok None) (fun v => Ok (Some v)).
Definition get_up_to_m m w sz len n : res (option view) :=
  slice_up_to_impl m w sz len n (Ok None) (fun v => Ok (Some v)).

(** [slice_from(slice_up_to(slice, end), start)] *)
Definition slice_range_m m w sz len s e : res view :=
  bind (slice_up_to_m m w sz len e) (fun v1 =>
  bind (slice_from_m m w sz (vlen v1) s) (fun v2 => Ok (compose v1 v2))).

(** [let x = try_opt!(get_up_to(slice, end)); get_from(x, start)] *)
Definition get_range_m m w sz len s e : res (option view) :=
  bind (get_up_to_m m w sz len e) (fun o1 =>
  match o1 with
  | None => Ok None
  | Some v1 => bind (get_from_m m w sz (vlen v1) s) (fun o2 => Ok (option_map (compose v1) o2))
  end).

(** [(slice_up_to(slice, at), slice_from(slice, at))] *)
Definition split_at_m w sz len at_ : res (view * view) :=
  bind (slice_up_to_m Shared w sz len at_) (fun a =>
  bind (slice_from_m Shared w sz len at_) (fun b => Ok (a, b))).

(** split_at_mut has its own control flow:
    [if at > len { return (slice, &mut []) } let suffix_len = len - at;
     (from_raw_parts_mut(ptr.offset(0), at), from_raw_parts_mut(ptr.offset(at as isize), suffix_len))] *)
Definition split_at_mut_m w sz len at_ : res (view * view) :=
  if len <? at_ then Ok (whole len, empty_view)
  else
    bind (usub w len at_) (fun suffix_len =>
    bind (raw_parts Mut w sz len 0 at_) (fun p =>
    bind (raw_parts Mut w sz len at_ suffix_len) (fun s =>
    if disjoint p s then Ok (p, s) else UB))).

(* ------------------------------------------------------------------ slice patterns *)

(** [if let [first, ..] = slice] etc.; element positions / remainder views *)
Definition first_mut_m (len : Z) : option Z := if 1 <=? len then Some 0 else None.
Definition last_mut_m (len : Z) : option Z := if 1 <=? len then Some (len - 1) else None.
Definition split_first_mut_m (len : Z) : option (Z * view) :=
  if 1 <=? len then Some (0, V 1 (len - 1)) else None.
Definition split_last_mut_m (len : Z) : option (Z * view) :=
  if 1 <=? len then Some (len - 1, V 0 (len - 1)) else None.

(* ------------------------------------------------------------------ arrays and chunks *)

(** [if slice.len() == N { Ok(cast) } else { Err(..) }] ([None] = Err) *)
Definition try_into_array_m m w sz len N : res (option view) :=
  if len =? N then bind (raw_array m w sz len N) (fun v => Ok (Some v)) else Ok None.

(** as_chunks::<T, N>: [(arrs, rem)] *)
Definition as_chunks_m w sz len N : res (chunks * view) :=
  if N =? 0 then Panic                                     (* assert!(N != 0) *)
  else
    let arrs_len := len / N in
    bind (umul w arrs_len N) (fun at_ =>
    bind (split_at_m w sz len at_) (fun '(arrs_in, rem) =>
    bind (raw_chunks w sz arrs_in N arrs_len) (fun c => Ok (c, rem)))).

(** as_rchunks::<T, N>: [(rem, arrs)] *)
Definition as_rchunks_m w sz len N : res (view * chunks) :=
  if N =? 0 then Panic
  else
    let arrs_len := len / N in
    let rem_len := len mod N in
    bind (split_at_m w sz len rem_len) (fun '(rem, arrs_in) =>
    bind (raw_chunks w sz arrs_in N arrs_len) (fun c => Ok (rem, c))).
