(* Generic correspondence driver.

   stdin : one case per line,  family \t args \t impl \t std \t tag
           (written by the Rust harness; impl = what /repo's code returned,
            std = what the std oracle returned or "-" when there is none,
            tag = non-triviality class, "-" for trivial)
   The model column is computed by the extracted Gallina function [Kv.run_line].
   stdout: a JSON summary (counts, tag histogram, mismatches, samples).

   Nothing here is property specific: parsing of [args], the call of the model and the
   rendering of its result are all Gallina (coq/Glue). *)

let coq_of_char (c : char) : Kv.ascii =
  let n = Char.code c in
  let b i = (n lsr i) land 1 = 1 in
  Kv.Ascii (b 0, b 1, b 2, b 3, b 4, b 5, b 6, b 7)

let char_of_coq (a : Kv.ascii) : char =
  match a with
  | Kv.Ascii (b0, b1, b2, b3, b4, b5, b6, b7) ->
      let v b i = if b then 1 lsl i else 0 in
      Char.chr (v b0 0 + v b1 1 + v b2 2 + v b3 3 + v b4 4 + v b5 5 + v b6 6 + v b7 7)

let coq_of_string (s : string) : Kv.string =
  let r = ref Kv.EmptyString in
  for i = String.length s - 1 downto 0 do
    r := Kv.String (coq_of_char s.[i], !r)
  done;
  !r

let string_of_coq (s : Kv.string) : string =
  let b = Buffer.create 64 in
  let rec go = function
    | Kv.EmptyString -> ()
    | Kv.String (a, r) -> Buffer.add_char b (char_of_coq a); go r
  in
  go s; Buffer.contents b

let json_escape s =
  let b = Buffer.create (String.length s + 8) in
  String.iter
    (fun c ->
      match c with
      | '"' -> Buffer.add_string b "\\\""
      | '\\' -> Buffer.add_string b "\\\\"
      | '\n' -> Buffer.add_string b "\\n"
      | '\t' -> Buffer.add_string b "\\t"
      | c when Char.code c < 32 || Char.code c > 126 -> Buffer.add_string b (Printf.sprintf "\\u%04x" (Char.code c))
      | c -> Buffer.add_char b c)
    s;
  Buffer.contents b

let split_tab s = String.split_on_char '\t' s

type fam_stat = {
  mutable lines : int;
  mutable distinct : int;
  mutable nontrivial : int;
  tags : (string, int) Hashtbl.t;
}

let () =
  let max_report = try int_of_string (Sys.getenv "KV_MAX_REPORT") with _ -> 40 in
  let sample_every = try int_of_string (Sys.getenv "KV_SAMPLE_EVERY") with _ -> 1000 in
  let max_samples = try int_of_string (Sys.getenv "KV_MAX_SAMPLES") with _ -> 200 in
  let dump = try Some (open_out (Sys.getenv "KV_DUMP_MODEL")) with Not_found -> None in
  let fams : (string, fam_stat) Hashtbl.t = Hashtbl.create 16 in
  let seen : (string, unit) Hashtbl.t = Hashtbl.create 100000 in
  let mm_impl = ref [] and n_mm_impl = ref 0 in
  let mm_std = ref [] and n_mm_std = ref 0 in
  let bad = ref [] and n_bad = ref 0 in
  let samples = ref [] and n_samples = ref 0 in
  let total = ref 0 in
  (try
     while true do
       let line = input_line stdin in
       if String.length line > 0 && line.[0] <> '#' then begin
         match split_tab line with
         | [ fam; args; impl; std; tag ] ->
             incr total;
             let st =
               match Hashtbl.find_opt fams fam with
               | Some s -> s
               | None ->
                   let s = { lines = 0; distinct = 0; nontrivial = 0; tags = Hashtbl.create 8 } in
                   Hashtbl.add fams fam s; s
             in
             st.lines <- st.lines + 1;
             let key = fam ^ "\t" ^ args in
             if not (Hashtbl.mem seen key) then begin
               Hashtbl.add seen key ();
               st.distinct <- st.distinct + 1;
               if tag <> "-" then st.nontrivial <- st.nontrivial + 1;
               Hashtbl.replace st.tags tag (1 + (try Hashtbl.find st.tags tag with Not_found -> 0))
             end;
             let model = string_of_coq (Kv.run_line (coq_of_string fam) (coq_of_string args)) in
             (match dump with Some oc -> output_string oc (fam ^ "\t" ^ args ^ "\t" ^ model ^ "\n") | None -> ());
             let row () =
               Printf.sprintf "{\"family\":\"%s\",\"args\":\"%s\",\"impl\":\"%s\",\"std\":\"%s\",\"model\":\"%s\",\"tag\":\"%s\"}"
                 (json_escape fam) (json_escape args) (json_escape impl) (json_escape std) (json_escape model) (json_escape tag)
             in
             if String.length model > 0 && model.[0] = '!' then begin
               incr n_bad; if !n_bad <= max_report then bad := row () :: !bad
             end else begin
               if impl <> "-" && impl <> model then begin
                 incr n_mm_impl; if !n_mm_impl <= max_report then mm_impl := row () :: !mm_impl
               end;
               if std <> "-" && std <> model then begin
                 incr n_mm_std; if !n_mm_std <= max_report then mm_std := row () :: !mm_std
               end
             end;
             if (!total mod sample_every = 1 || (tag <> "-" && !total mod (sample_every / 4 + 1) = 0))
                && !n_samples < max_samples then begin
               incr n_samples; samples := row () :: !samples
             end
         | _ ->
             incr n_bad;
             if !n_bad <= max_report then
               bad := Printf.sprintf "{\"malformed\":\"%s\"}" (json_escape line) :: !bad
       end
     done
   with End_of_file -> ());
  (match dump with Some oc -> close_out oc | None -> ());
  let b = Buffer.create 65536 in
  let list_json l = "[" ^ String.concat "," (List.rev l) ^ "]" in
  Buffer.add_string b "{";
  Buffer.add_string b (Printf.sprintf "\"total\":%d," !total);
  Buffer.add_string b "\"families\":{";
  let first = ref true in
  Hashtbl.iter
    (fun fam st ->
      if not !first then Buffer.add_string b ",";
      first := false;
      let tags =
        Hashtbl.fold (fun k v acc -> Printf.sprintf "\"%s\":%d" (json_escape k) v :: acc) st.tags []
      in
      Buffer.add_string b
        (Printf.sprintf "\"%s\":{\"lines\":%d,\"distinct\":%d,\"nontrivial\":%d,\"tags\":{%s}}"
           (json_escape fam) st.lines st.distinct st.nontrivial (String.concat "," tags)))
    fams;
  Buffer.add_string b "},";
  Buffer.add_string b (Printf.sprintf "\"n_mismatch_impl\":%d,\"n_mismatch_std\":%d,\"n_bad\":%d," !n_mm_impl !n_mm_std !n_bad);
  Buffer.add_string b (Printf.sprintf "\"mismatch_impl\":%s," (list_json !mm_impl));
  Buffer.add_string b (Printf.sprintf "\"mismatch_std\":%s," (list_json !mm_std));
  Buffer.add_string b (Printf.sprintf "\"bad\":%s," (list_json !bad));
  Buffer.add_string b (Printf.sprintf "\"samples\":%s" (list_json !samples));
  Buffer.add_string b "}\n";
  print_string (Buffer.contents b)
