#!/bin/bash
# round-4: usage: try4.sh <Cxx> <k|harmless> [slot] [props...]  -- confirm the demo on the author's worktree
# (/tmp/r4/wt_cNN, /tmp/r4/out_cNN), then run the check(s) against the patched tree
prop=$1; k=$2; slot=${3:-a}; shift 3
nn=$(echo $prop | tr -d C); R=${RDIR:-/tmp/r4}; wt=$R/wt_c$nn; out=$R/out_c$nn
props="$@"; [ -z "$props" ] && props=$prop
export CARGO_NET_OFFLINE=true
if [ "$k" = harmless ]; then diff=$out/harmless.diff; demo=$out/demo3; else diff=$out/change$k.diff; demo=$out/demo$k; fi
cd $wt && git checkout -q -- . && git clean -fdq -e target
rundemo() {
  if [ -f $demo/run.sh ]; then ( cd $demo && timeout 900 bash run.sh >/dev/null 2>&1; echo "demo-$1 exit=$?" )
  else ( cd $demo && CARGO_TARGET_DIR=/tmp/r4/seeded_target_$slot timeout 900 cargo run --offline -q >/dev/null 2>&1; echo "demo-$1 exit=$?" ); fi
}
rundemo unchanged
git -C $wt apply $diff || { echo "PATCH DOES NOT APPLY"; exit 1; }
rundemo changed
for p in $props; do
  cd ${VROOT:-/verif} && KV_BUILD=${VROOT:-/verif}/.build_scratch/t4$slot KV_REPO=$wt ./check $p --tier ${TIER:-quick} 2>&1 | grep -E "^NOTE|VIOLATION|FRAMEWORK|KNOWN|-> " | cut -c1-330
done
git -C $wt checkout -q -- . ; git -C $wt clean -fdq -e target
