#!/usr/bin/env python3
"""usage: r4_batch.py C07:1 C07:2 C07:harmless ...  (3 slots in parallel; results in /tmp/r4/results/<job>.txt)"""
import subprocess, sys, os, queue, threading
os.makedirs(os.environ.get('RDIR','/tmp/r4')+'/results', exist_ok=True)
jobs = queue.Queue()
for a in sys.argv[1:]:
    jobs.put(a)
# jobs of the same property must not run concurrently (same worktree): simple per-prop lock
locks = {}
def worker(slot):
    while True:
        try:
            j = jobs.get_nowait()
        except queue.Empty:
            return
        parts = j.split(':')
        prop, k = parts[0], parts[1]
        extra = parts[2:]  # further properties to check
        lk = locks.setdefault(prop, threading.Lock())
        with lk:
            p = subprocess.run([os.environ.get('VROOT','/verif')+'/lib/try4.sh', prop, k, slot] + ([prop] + extra if extra else []), capture_output=True, text=True)
        open(os.environ.get('RDIR','/tmp/r4')+'/results/%s_%s.txt' % (prop, k), 'w').write(p.stdout + p.stderr)
        print('==', j); print(p.stdout.strip()); sys.stdout.flush()
ts = [threading.Thread(target=worker, args=(s,)) for s in 'abc']
[t.start() for t in ts]; [t.join() for t in ts]
