#!/bin/bash
# round-2 variant: separate build dir, scratch worktree
prop=$1; diff=$2; demo=$3; wt=$4
export CARGO_NET_OFFLINE=true
cd $wt && git checkout -q -- .
( cd $demo && CARGO_TARGET_DIR=/tmp/seeded_target cargo run --offline -q 2>/dev/null | tail -1; echo "demo-unchanged exit=${PIPESTATUS[0]}" )
git -C $wt apply $diff || { echo "PATCH DOES NOT APPLY"; exit 1; }
( cd $demo && CARGO_TARGET_DIR=/tmp/seeded_target cargo run --offline -q 2>/dev/null | tail -1; echo "demo-changed exit=${PIPESTATUS[0]}" )
cd /verif && KV_BUILD=/verif/.build_scratch KV_REPO=$wt ./check $prop --tier ${5:-quick} 2>&1 | grep -E "VIOLATION|KNOWN|-> "
git -C $wt checkout -q -- .
