#!/usr/bin/env python3
"""Regenerate /verif/MANIFEST.json from lib/manifest.d/<id>.json (one per claimed property)
and lib/not_applicable.json."""
import glob
import json
import os

V = os.path.dirname(os.path.dirname(os.path.abspath(__file__)))
checks = []
claimed = []
for p in sorted(glob.glob(os.path.join(V, "lib", "manifest.d", "C*.json"))):
    pid = os.path.basename(p)[:-5]
    e = json.load(open(p))
    claimed.append(pid)
    checks.append({
        "property_id": pid,
        "quick_cmd": "./check %s --tier quick" % pid,
        "thorough_cmd": "./check %s --tier thorough" % pid,
        "evidence_file": "/verif/evidence/%s.json" % pid,
        "replay_cmd_template": "./check %s --replay {path}" % pid,
        "engine": "coq-proof+correspondence",
        "level_claimed": {"category": e.get("category", "proof"), "text": e["text"], "design_ref": e.get("design_ref", "DESIGN.md section 4 " + pid)},
        "level_note": e["note"] + " When the library source differs from lib/pinned_src, every changed line this property's run-time producers reach must also have been executed by a compared input (coverage obligation, DESIGN.md 9.4a), else the check escalates and then reports that the correspondence no longer checks.",
        "technique": e["technique"],
    })
na_path = os.path.join(V, "lib", "not_applicable.json")
na_reasons = json.load(open(na_path)) if os.path.exists(na_path) else {}
na = []
for i in range(1, 21):
    pid = "C%02d" % i
    if pid not in claimed:
        na.append({"property_id": pid, "reason": na_reasons.get(pid, "check not built yet in this revision (planned: DESIGN.md section 4 %s); nothing is claimed for it" % pid)})
m = {
    "version": 1,
    "setup_cmd": "./check --setup",
    "hooks": {
        "guard": "konst_verif",
        "enable": "no hook is needed: every modelled function is reachable through konst's public API; harness crates build /repo/konst by path (through the link .build/repolink) with features rust_1_83,alloc",
        "baseline_off_cmd": "cd /repo && cargo test --workspace --no-fail-fast --offline",
        "source_commits": [],
        "add_only": True,
    },
    "engines": [{
        "name": "coq-proof+correspondence",
        "path": "/verif/check",
        "serves_properties": claimed,
        "kind_free_text": "Coq 8.16 theorems (no axioms) about hand-written executable Gallina models; the models are run (extracted to OCaml, cross-checked by vm_compute) against a Rust harness built from /repo's working tree and against the real std on bounded-exhaustive + stress (block sizes, type limits, confusable bytes) + seeded random cases; on a changed source, line coverage of the changed code by those cases is an obligation; rustc's const evaluator (generated constants) and Miri (reduced case lists) are run as UB oracles in every tier; generated 'valid programs keep compiling' / 'must be rejected' probes are judged by rustc",
    }],
    "checks": checks,
    "not_applicable": na,
    "notes": "Genuine defects F1-F6 and F10 are repaired by 'fix:' commits in /repo (KNOWN_FINDINGS.txt, DESIGN.md sections 5 and 11.12); F7 (C10), F8 (C09), F9 (C17) and F11 (C10: take(n) pulls one more source item than std, section 11.14) are known findings. Seeded breaking changes (160, six rounds) and behaviour-preserving rewrites (20), and which check catches / stays quiet on them: /verif/seeded, seeded/RERUN.json and DESIGN.md sections 10 and 11.",
}
json.dump(m, open(os.path.join(V, "MANIFEST.json"), "w"), indent=1)
print("MANIFEST.json:", len(checks), "checks;", len(na), "not claimed")
