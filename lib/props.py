"""Per-property configuration of the generic (table-driven) checks."""

PROPS = {
    "C04": {
        "groups": ["c04"],
        "rule": ("bounded-exhaustive: every haystack x needle over {a,b,e-acute,-} (haystack <= 4 chars quick / 5 thorough, needle <= 3), "
                 "raw byte strings over {a,b,C3,A9,FF}, binary-alphabet haystacks up to 7/9 with needles up to 4/5, 14 char patterns "
                 "incl. every UTF-8 length boundary, all four pattern kinds (str, char, [u8], [u8;N]), plus seeded random needle-rich "
                 "haystacks up to 40 chars; a case is one (haystack, needle) pair carrying all 8-10 search functions; non-trivial = "
                 "the needle occurs (once / several times) or has a proper border (self-overlap)"),
        "exhaustive": True,
        "release_too": False,
    },
}
