"""Per-property configuration of the generic (table-driven) checks: lib/props.d/<id>.json
   {"groups": [...], "rule": "...", "exhaustive": bool, "release_too": bool, "release_quick": bool}"""
import glob
import json
import os

PROPS = {}
for _p in sorted(glob.glob(os.path.join(os.path.dirname(os.path.abspath(__file__)), "props.d", "C*.json"))):
    PROPS[os.path.basename(_p)[:-5]] = json.load(open(_p))
