"""Shared machinery of the /verif checks.

Leg A: build the Coq development (full .vo build), compile Properties/<id>.v, read its
       `Print Assumptions` output, grep the development for forbidden declarations.
Leg B: rebuild the Rust harness against /repo's working tree, run it, pipe the cases
       through the extracted model (OCaml driver), cross-check a sample of the model
       column inside Coq with vm_compute, judge.
"""
import fcntl
import itertools
import glob
import json
import os
import re
import subprocess
import sys
import time

_uniq = itertools.count()


def uniq():
    return "%d_%d" % (os.getpid(), next(_uniq))


VERIF = os.path.dirname(os.path.dirname(os.path.abspath(__file__)))
COQ = os.path.join(VERIF, "coq")
BUILD = os.environ.get("KV_BUILD") or os.path.join(VERIF, ".build")   # KV_BUILD: separate build dir for scratch-tree runs
OCAML_BUILD = os.path.join(BUILD, "ocaml")
TARGET = os.path.join(BUILD, "target")
HARNESS = os.path.join(VERIF, "harness")
EVIDENCE = os.path.join(VERIF, "evidence")
REPLAYS = os.path.join(VERIF, "replays")
# the repository under test; KV_REPO lets a scratch copy be checked without touching /repo
REPO = os.environ.get("KV_REPO", "/repo")
REPO_LINK = os.path.join(BUILD, "repolink")
if REPO != "/repo":
    # a scratch tree is being checked: never overwrite the committed evidence of /repo
    EVIDENCE = os.path.join(BUILD, "evidence_scratch")


def link_repo():
    """harness crates depend on .build/repolink/konst; (re)point the link at REPO."""
    os.makedirs(BUILD, exist_ok=True)
    try:
        if os.path.islink(REPO_LINK) and os.readlink(REPO_LINK) == REPO:
            return
        if os.path.islink(REPO_LINK) or os.path.exists(REPO_LINK):
            os.remove(REPO_LINK)
        os.symlink(REPO, REPO_LINK)
    except OSError:
        pass

FORBIDDEN = re.compile(
    r"\b(Admitted|admit|Axiom|Axioms|Parameter|Parameters|Conjecture|Conjectures|"
    r"Admit\s+Obligations|bypass_check|Hypothesis|Hypotheses|Variable|Variables)\b|Unset\s+Guard|"
    r"Unset\s+Positivity|Unset\s+Universe\s+Checking|type-in-type|impredicative-set"
)

ALLOWED_AXIOMS = set()  # goal: every property theorem is closed under the global context

TRUSTED_BASE = [
    "Coq 8.16.1 kernel (coqc); vm_compute used for finite sweeps and witness lemmas; native_compute not used",
    "axioms: none (Print Assumptions must report 'Closed under the global context' for every theorem)",
    "hand-written Gallina model of the Rust code (coq/Model), tied to /repo only by the correspondence run",
    "extraction: ExtrOcamlBasic only (bool, option, unit, list, prod, sumbool, sumor, andb, orb mapped to OCaml); no Extract Constant of our own; OCaml 4.13.1",
    "extraction cross-checked on a sample per run by Eval vm_compute of the same Gallina entry point",
    "generic OCaml driver (ocaml/driver.ml), Rust harness (harness/), rustc 1.95 / cargo, real std as second oracle",
]


def env_base():
    e = dict(os.environ)
    e["CARGO_NET_OFFLINE"] = "true"
    e["CARGO_TARGET_DIR"] = TARGET
    e.setdefault("CARGO_TERM_COLOR", "never")
    return e


def run(cmd, cwd=None, timeout=None, env=None, stdin=None, check=False):
    p = subprocess.run(
        cmd, cwd=cwd, env=env or env_base(), stdin=stdin, stdout=subprocess.PIPE, stderr=subprocess.PIPE,
        timeout=timeout, text=True, errors="replace",
    )
    if check and p.returncode != 0:
        raise RuntimeError("command failed: %s\n%s\n%s" % (cmd, p.stdout[-3000:], p.stderr[-3000:]))
    return p


class Lock:
    def __init__(self, name="lock"):
        os.makedirs(BUILD, exist_ok=True)
        self.path = os.path.join(BUILD, name)

    def __enter__(self):
        self.f = open(self.path, "w")
        fcntl.flock(self.f, fcntl.LOCK_EX)
        return self

    def __exit__(self, *a):
        fcntl.flock(self.f, fcntl.LOCK_UN)
        self.f.close()


# ------------------------------------------------------------------ Leg A

def coq_sources():
    """every .v built by make (everything except Properties/, Extract/ and cases)"""
    out = []
    for d in ("Base", "Model", "Spec", "Proofs", "Glue"):
        out += sorted(glob.glob(os.path.join(COQ, d, "*.v")))
    return [os.path.relpath(p, COQ) for p in out]


def ensure_makefile():
    srcs = coq_sources()
    stamp = os.path.join(COQ, ".vfiles")
    want = "\n".join(srcs)
    have = open(stamp).read() if os.path.exists(stamp) else None
    if have != want or not os.path.exists(os.path.join(COQ, "Makefile")):
        run(["coq_makefile", "-f", "_CoqProject"] + srcs + ["-o", "Makefile"], cwd=COQ, check=True)
        open(stamp, "w").write(want)


def forbidden_scan():
    """Admitted / Axiom / ... anywhere in the development (comments stripped)."""
    hits = []
    for p in glob.glob(os.path.join(COQ, "**", "*.v"), recursive=True):
        rel = os.path.relpath(p, COQ)
        txt = open(p, errors="replace").read()
        txt = strip_comments(txt)
        spans = section_spans(txt)
        for m in FORBIDDEN.finditer(txt):
            w = m.group(0)
            if re.match(r"(Variable|Variables|Hypothesis|Hypotheses)$", w) and any(a <= m.start() < b for a, b in spans):
                continue    # Section variables are discharged when the Section closes
            line = txt.count("\n", 0, m.start()) + 1
            hits.append("%s:%d:%s" % (rel, line, w))
    return hits


def section_spans(txt):
    """character spans between `Section X.` and the matching `End X.`"""
    spans = []
    for m in re.finditer(r"\bSection\s+([A-Za-z0-9_']+)\s*\.", txt):
        e = re.search(r"\bEnd\s+%s\s*\." % re.escape(m.group(1)), txt[m.end():])
        if e:
            spans.append((m.start(), m.end() + e.end()))
    return spans


def strip_comments(txt):
    out = []
    depth = 0
    i = 0
    n = len(txt)
    while i < n:
        if txt.startswith("(*", i):
            depth += 1
            i += 2
        elif txt.startswith("*)", i) and depth > 0:
            depth -= 1
            i += 2
        else:
            if depth == 0:
                out.append(txt[i])
            elif txt[i] == "\n":
                out.append("\n")
            i += 1
    return "".join(out)


def build_coq(targets=None, jobs=16, timeout=3000):
    """full .vo build of the listed targets (default: everything). Returns (ok, log)."""
    with Lock("coq.lock"):
        ensure_makefile()
        cmd = ["make", "-j%d" % jobs]
        if targets:
            cmd += targets
        p = run(cmd, cwd=COQ, timeout=timeout)
        return p.returncode == 0, (p.stdout + p.stderr)


def check_properties_file(prop, timeout=900):
    """compile Properties/<prop>.v (always), parse Print Assumptions.
    Returns dict(ok, theorems, closed, axioms, log)."""
    path = os.path.join(COQ, "Properties", prop + ".v")
    src = strip_comments(open(path).read())
    theorems = re.findall(r"^\s*(?:Theorem|Lemma|Example|Corollary|Proposition|Fact|Remark)\s+([A-Za-z0-9_']+)", src, re.M)
    printed = [x.split(".")[-1] for x in re.findall(r"Print\s+Assumptions\s+([A-Za-z0-9_'.]+?)\s*\.(?=\s|$)", src)]
    with Lock("coq.lock"):
        p = run(["coqc", "-Q", ".", "KV", os.path.join("Properties", prop + ".v")], cwd=COQ, timeout=timeout)
    log = p.stdout + p.stderr
    res = {"ok": p.returncode == 0, "theorems": theorems, "printed": printed, "log": log, "closed": 0, "axioms": []}
    if p.returncode != 0:
        return res
    # output: one block per Print Assumptions: either "Closed under the global context" or "Axioms:\n name : type ..."
    blocks = re.split(r"(?=Closed under the global context|Axioms:)", p.stdout)
    closed = 0
    axioms = []
    for b in blocks:
        if b.startswith("Closed under the global context"):
            closed += 1
        elif b.startswith("Axioms:"):
            names = re.findall(r"^([A-Za-z0-9_'.]+)\s*:", b[len("Axioms:"):], re.M)
            bad = [x for x in names if x not in ALLOWED_AXIOMS]
            if bad:
                axioms += bad
            else:
                closed += 1
    res["closed"] = closed
    res["axioms"] = axioms
    missing = [t for t in theorems if t not in printed]
    res["unprinted"] = missing
    res["ok"] = res["ok"] and not axioms and not missing and closed == len(printed)
    return res


def run_coqchk(prop, timeout=2400):
    """independent re-check of Properties/<prop>.vo and everything it depends on (thorough tier).
    Returns (ok, summary string)."""
    with Lock("coq.lock"):
        p = run(["coqchk", "-o", "-silent", "-Q", ".", "KV", "KV.Properties." + prop], cwd=COQ, timeout=timeout)
    out = p.stdout + p.stderr
    if p.returncode != 0:
        return False, "coqchk failed: " + out[-600:].replace("\n", " ")
    m = re.search(r"\* Axioms:\s*(.*?)\n\s*\n", out, re.S)
    axioms = m.group(1).strip() if m else "?"
    bad = []
    for label in ("type-in-type", "unsafe (co)fixpoints", "positivity is assumed"):
        mm = re.search(re.escape(label) + r":\s*(.*?)\n\s*\n", out, re.S)
        if mm and mm.group(1).strip() != "<none>":
            bad.append(label + ": " + mm.group(1).strip()[:200])
    if axioms != "<none>":
        names = [x.strip() for x in axioms.split("\n") if x.strip()]
        notallowed = [x for x in names if x.split()[0] not in ALLOWED_AXIOMS]
        if notallowed:
            bad.append("axioms: " + ", ".join(notallowed[:5]))
    if bad:
        return False, "coqchk: " + "; ".join(bad)
    return True, "coqchk -o: Axioms: %s" % axioms


def leg_a(prop, targets=None):
    """Returns dict with ok, obligations, discharged, failures(list of str)."""
    failures = []
    hits = forbidden_scan()
    if hits:
        failures.append("forbidden declarations: " + ", ".join(hits[:10]))
    ok, log = build_coq(targets)
    if not ok:
        m = re.findall(r'File "\./([^"]+)", line (\d+)[^\n]*\n(Error:[^\n]*(?:\n[^\n]+){0,3})', log)
        failures.append("coq build failed: " + ("; ".join("%s:%s %s" % (a, b, c.replace("\n", " ")) for a, b, c in m[:3]) or log[-800:]))
        return {"ok": False, "obligations": 0, "discharged": 0, "failures": failures, "theorems": []}
    r = check_properties_file(prop)
    if not r["ok"]:
        if r.get("axioms"):
            failures.append("axioms used: " + ", ".join(r["axioms"]))
        if r.get("unprinted"):
            failures.append("theorems without Print Assumptions: " + ", ".join(r["unprinted"]))
        if "Error" in r["log"]:
            failures.append("Properties/%s.v does not compile: %s" % (prop, r["log"][-600:].replace("\n", " ")))
        if not failures:
            failures.append("Print Assumptions output incomplete for Properties/%s.v" % prop)
    return {
        "ok": not failures,
        "obligations": len(r["theorems"]),
        "discharged": r["closed"] if not failures else min(r["closed"], max(0, len(r["theorems"]) - 1)),
        "failures": failures,
        "theorems": r["theorems"],
    }


# ------------------------------------------------------------------ Leg B

def newest(paths):
    return max((os.path.getmtime(p) for p in paths if os.path.exists(p)), default=0)


def ensure_driver():
    """extract the Gallina dispatch to OCaml and compile the driver when stale."""
    with Lock("ocaml.lock"):
        os.makedirs(OCAML_BUILD, exist_ok=True)
        drv = os.path.join(OCAML_BUILD, "driver")
        deps = glob.glob(os.path.join(COQ, "Glue", "*.vo")) + glob.glob(os.path.join(COQ, "Model", "*.vo")) + [
            os.path.join(COQ, "Extract", "Extract.v"), os.path.join(VERIF, "ocaml", "driver.ml")]
        if os.path.exists(drv) and os.path.getmtime(drv) >= newest(deps):
            return True, ""
        p = run(["coqc", "-Q", COQ, "KV", os.path.join(COQ, "Extract", "Extract.v")], cwd=OCAML_BUILD, timeout=600)
        if p.returncode != 0:
            return False, "extraction failed: " + (p.stdout + p.stderr)[-1500:]
        import shutil
        shutil.copy(os.path.join(VERIF, "ocaml", "driver.ml"), os.path.join(OCAML_BUILD, "driver.ml"))
        p = run(["ocamlfind", "ocamlopt", "-O2", "-w", "-a", "kv.mli", "kv.ml", "driver.ml", "-o", "driver"], cwd=OCAML_BUILD, timeout=600)
        if p.returncode != 0:
            return False, "ocamlopt failed: " + (p.stdout + p.stderr)[-1500:]
        return True, ""


def repo_digest():
    """content hash of the Rust sources of the repository under test"""
    import hashlib
    h = hashlib.sha256()
    h.update(REPO.encode())
    for root, dirs, files in os.walk(REPO):
        dirs[:] = sorted(d for d in dirs if d not in ("target", ".git"))
        for f in sorted(files):
            if f.endswith((".rs", ".toml", ".lock")):
                p = os.path.join(root, f)
                h.update(p.encode())
                try:
                    h.update(open(p, "rb").read())
                except OSError:
                    pass
    return h.hexdigest()


def invalidate_if_repo_changed():
    """cargo decides freshness of path dependencies by mtime; a tree restored with old
    mtimes (or a re-pointed link) would go unnoticed. Decide by content instead: when the
    digest differs from the one of the last build, drop konst's build products."""
    stamp = os.path.join(BUILD, "repo.digest")
    d = repo_digest()
    old = open(stamp).read() if os.path.exists(stamp) else ""
    if d != old:
        for root in (os.path.join(TARGET, "debug"), os.path.join(TARGET, "release")):
            for sub in (".fingerprint", "deps"):
                dd = os.path.join(root, sub)
                if not os.path.isdir(dd):
                    continue
                for f in os.listdir(dd):
                    if re.match(r"(lib)?konst(_kernel|_proc_macros|_macro_rules)?-", f):
                        pth = os.path.join(dd, f)
                        try:
                            if os.path.isdir(pth):
                                import shutil
                                shutil.rmtree(pth)
                            else:
                                os.remove(pth)
                        except OSError:
                            pass
        with open(stamp, "w") as f:
            f.write(d)


def harness_crate():
    """the crate cargo builds: BUILD/harness = generated Cargo.toml (konst by path through the
    repolink of THIS build dir) + a link to harness/src"""
    d = os.path.join(BUILD, "harness")
    os.makedirs(d, exist_ok=True)
    toml = open(os.path.join(HARNESS, "Cargo.toml")).read().replace('"../.build/repolink/konst"', '"%s/konst"' % REPO_LINK)
    tp = os.path.join(d, "Cargo.toml")
    if not os.path.exists(tp) or open(tp).read() != toml:
        open(tp, "w").write(toml)
    src = os.path.join(d, "src")
    if not os.path.islink(src):
        os.symlink(os.path.join(HARNESS, "src"), src)
    cc = os.path.join(d, ".cargo")
    os.makedirs(cc, exist_ok=True)
    cfgp = os.path.join(cc, "config.toml")
    if not os.path.exists(cfgp):
        open(cfgp, "w").write("[net]\noffline = true\n")
    return d


def ensure_harness(release=False, crate=None, timeout=1500):
    """(re)build the harness against /repo's working tree."""
    with Lock("cargo.lock"):
        link_repo()
        invalidate_if_repo_changed()
        crate = crate or harness_crate()
        lock_src = os.path.join(REPO, "Cargo.lock")
        lock_dst = os.path.join(crate, "Cargo.lock")
        if os.path.exists(lock_src) and not os.path.exists(lock_dst):
            import shutil
            shutil.copy(lock_src, lock_dst)
        cmd = ["cargo", "build", "--offline", "-q"] + (["--release"] if release else [])
        p = run(cmd, cwd=crate, timeout=timeout)
        if p.returncode != 0:
            errs = re.findall(r"^error[^\n]*(?:\n\s+-->[^\n]*)?", p.stderr, re.M)
            return False, "harness build failed against /repo: " + (" | ".join(errs[:5]) or p.stderr[-1500:])
        return True, ""


def harness_bin(release=False):
    return os.path.join(TARGET, "release" if release else "debug", "kv_harness")


def produce_lines(group, tier, seed, release=False, timeout=3000):
    """Run one line producer, return (path of the lines file | None, error).
    A group is either the name of a sub-command of the Rust harness, or "gen:<module>"
    naming a Python module in lib/gen/ with produce(tier, seed, release, out_path) -> error string
    (generated Rust programs compiled against /repo, compile-fail families, ...)."""
    os.makedirs(BUILD, exist_ok=True)
    out_path = os.path.join(BUILD, "lines_%s_%s_%s.tsv" % (group.replace(":", "_"), "rel" if release else "dev", uniq()))
    if group.startswith("gen:"):
        import importlib
        sys.path.insert(0, os.path.join(VERIF, "lib"))
        mod = importlib.import_module("gen." + group[4:])
        # A producer lays out a crate under .build/gen, builds it (sometimes several times, dropping
        # the programs rustc rejected) and runs it. The dev and the release job of one check, and
        # the checks of other properties that share the crate (every gen:ctfe_* uses c01ctfe's),
        # would otherwise rewrite each other's sources between layout and build: one producer per
        # crate at a time.
        key = "c01ctfe" if group[4:].startswith("ctfe_") else group[4:]
        try:
            with Lock("gen_produce_%s.lock" % key):
                err = mod.produce(tier, seed, release, out_path)
        except subprocess.TimeoutExpired:
            err = "generated-program producer timed out"
        if err:
            return None, err
        return out_path, ""
    hb = harness_bin(release)
    with open(out_path, "w") as f:
        try:
            p = subprocess.run([hb, group, tier, str(seed)], stdout=f, stderr=subprocess.PIPE, env=env_base(), timeout=timeout)
        except subprocess.TimeoutExpired:
            return None, "harness timed out"
    if p.returncode != 0:
        msg = "harness exited with %s: %s" % (p.returncode, p.stderr.decode(errors="replace")[-800:])
        if p.returncode < 0:
            # killed by a signal (an abort inside konst: a non-unwinding panic, a failed unsafe
            # precondition check): run again with per-line flushing to name the case it died after
            env = env_base()
            env["KV_UNBUFFERED"] = "1"
            try:
                q = subprocess.run([hb, group, tier, str(seed)], stdout=subprocess.PIPE, stderr=subprocess.DEVNULL, env=env, timeout=timeout)
                done = q.stdout.decode(errors="replace").split("\n")
                done = [l for l in done[:-1] if l.count("\t") >= 4]
                if done:
                    last = done[-1].split("\t")
                    msg += " | the process aborted after %d cases; the last case it completed was `%s %s` — the failing input is the next case of the producer (KV_UNBUFFERED=1 %s %s %s %s)" % (
                        len(done), last[0], last[1][:200], hb, group, tier, seed)
                else:
                    msg += " | the process aborted before completing its first case"
            except subprocess.TimeoutExpired:
                pass
        return None, msg
    return out_path, ""


def produce_lines_miri(group, seed, timeout=3000, mode="miri", sections=None):
    """run the harness group's reduced case list under Miri (thorough tier, supporting evidence
    for the runtime half of C01): returns (lines path | None, error)."""
    os.makedirs(BUILD, exist_ok=True)
    out_path = os.path.join(BUILD, "lines_%s_miri_%d.tsv" % (group, os.getpid()))
    env = env_base()
    env["CARGO_TARGET_DIR"] = os.path.join(BUILD, "target_miri")
    # the layout of a repr(Rust) struct is unspecified: build konst and the harness with randomised
    # field orders, so that code which relies on two distinct structs having the same layout
    # (a transmute between an iterator and its reversed twin, say) shows under Miri
    env["RUSTFLAGS"] = (env.get("RUSTFLAGS", "") + " -Zrandomize-layout -Zlayout-seed=%d" % (int(seed) % 1000 + 1)).strip()
    with Lock("cargo.lock"):
        link_repo()
        with open(out_path, "w") as f:
            try:
                p = subprocess.run(["cargo", "+nightly", "miri", "run", "--offline", "-q", "--", group, mode, str(seed)] + ([",".join(sections)] if sections else []),
                                   cwd=harness_crate(), stdout=f, stderr=subprocess.PIPE, env=env, timeout=timeout)
            except subprocess.TimeoutExpired:
                return None, "miri run timed out"
    if p.returncode != 0:
        err = p.stderr.decode(errors="replace")
        m = re.search(r"error: Undefined Behavior:[^\n]*(?:\n[^\n]*){0,12}", err)
        if not m:
            # the nightly const evaluator used for the Miri build validates more than stable's:
            # an invalid value / out-of-bounds access inside a constant of the harness is UB too
            m2 = re.search(r"error\[E0080\][^\n]*(?:\n[^\n]*){0,10}", err)
            if m2:
                return None, "Miri: error: Undefined Behavior: (during const evaluation in the Miri build) " + m2.group(0)
        return None, "Miri: " + (m.group(0) if m else err[-1500:])
    return out_path, ""


def _run_driver_one(lines_path, timeout, keep_dump):
    drv = os.path.join(OCAML_BUILD, "driver")
    env = env_base()
    dump = lines_path + ".model"
    if keep_dump:
        env["KV_DUMP_MODEL"] = dump
    try:
        with open(lines_path) as f:
            p = subprocess.run([drv], stdin=f, stdout=subprocess.PIPE, stderr=subprocess.PIPE, env=env, timeout=timeout)
    except subprocess.TimeoutExpired:
        return None, "driver timed out", None
    if p.returncode != 0:
        return None, "driver failed: %s" % p.stderr.decode(errors="replace")[-800:], None
    try:
        return json.loads(p.stdout.decode(errors="replace")), "", (dump if keep_dump else None)
    except Exception as ex:
        return None, "driver output unreadable: %s" % ex, None


SHARD_BYTES = 6_000_000      # lines files larger than this are evaluated by several driver processes


def run_driver(lines_path, timeout=3000, keep_dump=True):
    """pipe a lines file through the extracted model. Returns (summary | None, error, model dump path).
    Large files are split by a hash of (family, args) -- so that equal cases land in the same shard and
    the per-shard 'distinct' counts add up -- and evaluated by parallel driver processes."""
    size = os.path.getsize(lines_path)
    k = min(8, 1 + size // SHARD_BYTES)
    if k <= 1 or os.environ.get("KV_NO_SHARD") == "1":
        return _run_driver_one(lines_path, timeout, keep_dump)
    import zlib
    paths = ["%s.s%d" % (lines_path, i) for i in range(k)]
    outs = [open(q, "w", errors="replace") for q in paths]
    with open(lines_path, errors="replace") as f:
        for line in f:
            parts = line.split("\t", 2)
            key = "\t".join(parts[:2]).encode("utf-8", "replace")
            outs[zlib.crc32(key) % k].write(line)
    for o in outs:
        o.close()
    from concurrent.futures import ThreadPoolExecutor
    with ThreadPoolExecutor(max_workers=k) as ex:
        res = list(ex.map(lambda q: _run_driver_one(q, timeout, keep_dump), paths))
    for q in paths:
        try:
            os.remove(q)
        except OSError:
            pass
    merged = None
    dump = lines_path + ".model"
    err = ""
    for summ, e, d in res:
        if summ is None:
            err = err or e
            continue
        if merged is None:
            merged = {"total": 0, "families": {}, "n_mismatch_impl": 0, "n_mismatch_std": 0, "n_bad": 0,
                      "mismatch_impl": [], "mismatch_std": [], "bad": [], "samples": []}
        for key in ("total", "n_mismatch_impl", "n_mismatch_std", "n_bad"):
            merged[key] += summ.get(key, 0)
        for key in ("mismatch_impl", "mismatch_std", "bad", "samples"):
            merged[key] += summ.get(key, [])
        for fam, st in summ["families"].items():
            m = merged["families"].setdefault(fam, {"lines": 0, "distinct": 0, "nontrivial": 0, "tags": {}})
            for key in ("lines", "distinct", "nontrivial"):
                m[key] += st[key]
            for t, n in st["tags"].items():
                m["tags"][t] = m["tags"].get(t, 0) + n
    if keep_dump:
        with open(dump, "w") as out:
            for _s, _e, d in res:
                if d and os.path.exists(d):
                    with open(d, errors="replace") as f:
                        shutil_copy(f, out)
                    os.remove(d)
    if err or merged is None:
        return None, err or "driver produced nothing", None
    # keep the lists at the size a single driver would have reported
    merged["samples"] = merged["samples"][:200]
    return merged, "", (dump if keep_dump else None)


def shutil_copy(src, dst):
    import shutil
    shutil.copyfileobj(src, dst)


def run_correspondence(group, tier, seed, release=False, timeout=3000):
    """producer | driver. Returns (summary dict | None, error string, model dump path)."""
    lines, err = produce_lines(group, tier, seed, release, timeout)
    if lines is None:
        return None, err, None
    try:
        return run_driver(lines, timeout)
    finally:
        if os.environ.get("KV_KEEP_LINES") != "1":
            try:
                os.remove(lines)
            except OSError:
                pass


def vm_crosscheck(dump_path, n=120, timeout=600):
    """Evaluate a sample of the harness lines inside Coq (vm_compute) and compare with the
    extracted model's column. Returns (checked, mismatches list, error)."""
    if not dump_path or not os.path.exists(dump_path):
        return 0, [], "no model dump"
    rows = []
    with open(dump_path, errors="replace") as f:
        lines = f.readlines()
    os.remove(dump_path)
    if not lines:
        return 0, [], ""
    step = max(1, len(lines) // n)
    for i in range(0, len(lines), step):
        parts = lines[i].rstrip("\n").split("\t")
        if len(parts) == 3 and '"' not in parts[1] and '"' not in parts[0]:
            rows.append(parts)
    rows = rows[: n + 5]
    casefile = os.path.join(BUILD, "cases_%s.v" % uniq())
    with open(casefile, "w") as f:
        f.write("From Coq Require Import String.\nFrom KV Require Import Glue.Dispatch.\nLocal Open Scope string_scope.\nSet Printing Depth 1000000.\nSet Printing Width 1000000.\n")
        f.write("Definition cases : list (string * string) := (\n")
        for fam, args, _ in rows:
            f.write('  ("%s", "%s") ::\n' % (fam, args))
        f.write("  nil)%list.\n")
        f.write("Eval vm_compute in List.map (fun c => run_line (fst c) (snd c)) cases.\n")
    p = run(["coqc", "-noglob", "-Q", COQ, "KV", casefile], cwd=BUILD, timeout=timeout)
    for ext in (".v", ".vo", ".vok", ".vos", ".glob"):
        try:
            os.remove(casefile[:-2] + ext)
        except OSError:
            pass
    if p.returncode != 0:
        return 0, [], "vm_compute cross-check failed to compile: " + (p.stdout + p.stderr)[-600:]
    got = re.findall(r'"((?:[^"]|"")*)"', p.stdout)
    got = [g.replace("\n", "").replace('""', '"') for g in got]
    # Coq may break long strings only at spaces; our renderings have none besides inside args
    got = [re.sub(r"\s+", "", g) for g in got]
    if len(got) != len(rows):
        return 0, [], "vm_compute cross-check: expected %d results, parsed %d" % (len(rows), len(got))
    mism = []
    for (fam, args, model), g in zip(rows, got):
        if re.sub(r"\s+", "", model) != g:
            mism.append({"family": fam, "args": args, "extracted": model, "vm_compute": g})
    return len(rows), mism, ""


# ------------------------------------------------------------------ findings / evidence / verdict

def load_known_findings():
    known, fixed = [], []
    p = os.path.join(VERIF, "KNOWN_FINDINGS.txt")
    if os.path.exists(p):
        for line in open(p):
            line = line.split("#")[0].strip()
            if line.startswith("known:"):
                kv = dict(x.split("=", 1) for x in line[len("known:"):].split() if "=" in x)
                known.append(kv)
            elif line.startswith("fixed:"):
                fixed.append(line)
    return known, fixed


def write_replay(prop, name, payload):
    os.makedirs(REPLAYS, exist_ok=True)
    path = os.path.join(REPLAYS, "%s_%s.json" % (prop, name))
    with open(path, "w") as f:
        json.dump(payload, f, indent=1)
    return path


def write_evidence(prop, tier, seed, t0, coverage, violations, assumptions=None, level="proof"):
    os.makedirs(EVIDENCE, exist_ok=True)
    ev = {
        "property_id": prop,
        "tier": tier,
        "seed": int(seed),
        "level": level,
        "coverage": coverage,
        "assumptions": assumptions or [],
        "wall_s": round(time.time() - t0, 2),
        "violations": int(violations),
    }
    with open(os.path.join(EVIDENCE, prop + ".json"), "w") as f:
        json.dump(ev, f, indent=1)
    return ev


def split_fields(s):
    out = {}
    depth = 0
    cur = ""
    parts = []
    for ch in s:
        if ch in "([":
            depth += 1
        elif ch in ")]":
            depth -= 1
        if ch == ";" and depth == 0:
            parts.append(cur)
            cur = ""
        else:
            cur += ch
    parts.append(cur)
    for p in parts:
        if "=" in p:
            k, v = p.split("=", 1)
            out[k] = v
        else:
            out[p] = ""
    return out


def diff_fields(a, b):
    fa, fb = split_fields(a), split_fields(b)
    return sorted(k for k in set(fa) | set(fb) if fa.get(k) != fb.get(k))
