"""see lib/gen/sig.py"""
from . import sig


def produce(tier, seed, release, out_path):
    return sig.produce_for("C04", tier, seed, release, out_path)
