"""C19 producer: rebind_if_ok! / try_rebind! patterns as generated programs.

One generated function per (macro, shape, kinds) using the konst macro, and next to it the
hand-written `if let Ok(t) = res { a = t.0; let b = t.1; .. }` / `let t = res?; ..` it must
be equal to (the std column).  Line format (see coq/Glue/C19.v):

    c19.rebind \t <macro> <shape> [kinds] <variant> [payload] \t impl \t std \t tag

kinds, one per tuple component, position i:
    P  existing place p<i>            PT  p<i>: <type of the whole payload>
    D  existing place p0 (again)      F   field place s.f<i>          X  index place a[i]
    L  let b<i>                       T   let b<i>: i64
    U  _                              UT  _: i64
shape: G = ( .. ), GC = ( .. , ), B = the bare single token (arity 1 only)
variant: OS = Ok(scalar), OT = Ok(tuple), E = Err; OT1 / ET1 = the payload is a ONE-component
         tuple (then p0 is declared with that tuple type)
"""
import itertools
import os
import random
import re

from . import common
import kv

BASE = ["P", "L", "T", "U"]
EXT = ["P", "L", "T", "U", "F", "X", "D", "UT"]

HELPERS = r"""
use konst::{rebind_if_ok, try_rebind};

pub struct S { f0: i64, f1: i64, f2: i64, f3: i64, f4: i64, f5: i64 }
fn s_new() -> S { S { f0: -200, f1: -201, f2: -202, f3: -203, f4: -204, f5: -205 } }
fn a_new() -> [i64; 6] { [-300, -301, -302, -303, -304, -305] }
pub trait Sh { fn sh(&self) -> String; }
impl Sh for i64 { fn sh(&self) -> String { self.to_string() } }
impl Sh for (i64,) { fn sh(&self) -> String { format!("[{}]", self.0) } }
fn l_new() -> [Option<String>; 6] { [None, None, None, None, None, None] }
fn state(r: &str, p: [&dyn Sh; 6], s: &S, a: &[i64; 6], l: &[Option<String>; 6]) -> String {
    let pv: Vec<String> = p.iter().map(|x| x.sh()).collect();
    let lv: Vec<String> = l.iter().map(|x| match x { Some(v) => format!("S({})", v), None => "N".to_string() }).collect();
    format!("r={};p=[{}];f=[{},{},{},{},{},{}];x=[{}];l=[{}]", r, pv.join(","),
        s.f0, s.f1, s.f2, s.f3, s.f4, s.f5,
        a.iter().map(|x| x.to_string()).collect::<Vec<_>>().join(","), lv.join(","))
}
fn fin(r: Result<String, i64>) -> String { match r { Ok(s) => s, Err(e) => format!("r=ret({})", e) } }
"""


def tuple_ty(n):
    return "(" + "".join("i64," for _ in range(n)) + ")"


def payload_ty(n, tup1):
    """type of the Ok payload: scalar for arity 1 unless the 1-tuple variant is requested"""
    if n == 1 and not tup1:
        return "i64"
    return tuple_ty(n)


def target_src(kind, i, whole_ty, comp_ty):
    """(macro-side tokens, std-side statement given the access expression)"""
    if kind == "P":
        return "p%d" % i, "p%d = {acc};" % i
    if kind == "PT":
        return "p%d: %s" % (i, whole_ty), "let _: %s = t; p%d = {acc};" % (whole_ty, i)
    if kind == "D":
        return "p0", "p0 = {acc};"
    if kind == "F":
        return "s.f%d" % i, "s.f%d = {acc};" % i
    if kind == "X":
        return "a[%d]" % i, "a[%d] = {acc};" % i
    if kind == "L":
        return "let b%d" % i, "let b%d = {acc};" % i
    if kind == "T":
        return "let b%d: %s" % (i, comp_ty), "let b%d: %s = {acc};" % (i, comp_ty)
    if kind == "U":
        return "_", "let _ = {acc};"
    if kind == "UT":
        return "_: %s" % comp_ty, "let _: %s = {acc};" % comp_ty
    raise ValueError(kind)


def case_fns(idx, mac, shape, kinds, tup1):
    """Rust source of the impl and std functions of one case"""
    n = len(kinds)
    pty = payload_ty(n, tup1)
    whole = (n == 1)
    comp_ty = pty if whole else "i64"
    toks, stds = [], []
    for i, k in enumerate(kinds):
        m, s = target_src(k, i, pty, comp_ty)
        toks.append(m)
        stds.append(s.replace("{acc}", "t" if whole else "t.%d" % i))
    if shape == "B":
        pat = toks[0]
    elif shape == "G":
        pat = "(" + ", ".join(toks) + ")"
    else:
        pat = "(" + ", ".join(toks) + ",)"
    p0ty = pty if tup1 else "i64"       # the 1-tuple cases declare p0 with the tuple type
    p0init = "(-100i64,)" if p0ty != "i64" else "-100i64"
    decl = ("let mut p0: %s = %s; let (mut p1, mut p2, mut p3, mut p4, mut p5) = (-101i64, -102i64, -103i64, -104i64, -105i64); "
            "let mut s = s_new(); let mut a = a_new(); let mut l = l_new(); let mut r = \"skip\";" % (p0ty, p0init))
    after = "r = \"ok\"; " + " ".join("l[%d] = Some(b%d.sh());" % (i, i) for i, k in enumerate(kinds) if k in ("L", "T"))
    st = "state(r, [&p0, &p1, &p2, &p3, &p4, &p5], &s, &a, &l)"
    rty = "Result<%s, i64>" % pty
    if mac == "rebind_if_ok":
        imp = "fn i%d(res: %s) -> String { %s\n  rebind_if_ok!{%s = res => %s }\n  %s }\n" % (idx, rty, decl, pat, after, st)
        std = "fn s%d(res: %s) -> String { %s\n  if let Ok(t) = res { %s %s }\n  %s }\n" % (idx, rty, decl, " ".join(stds), after, st)
    else:
        imp = "fn i%d(res: %s) -> String { fn g(res: %s) -> Result<String, i64> { %s\n  try_rebind!{%s = res}\n  %s Ok(%s) } fin(g(res)) }\n" % (idx, rty, rty, decl, pat, after, st)
        std = "fn s%d(res: %s) -> String { fn g(res: %s) -> Result<String, i64> { %s\n  let t = res?; %s\n  %s Ok(%s) } fin(g(res)) }\n" % (idx, rty, rty, decl, " ".join(stds), after, st)
    return imp + std


OK_PAYLOADS = [
    [11, 12, 13, 14, 15, 16],
    [-(2 ** 63), -1, 0, 1, 2 ** 63 - 1, 7],
]
ERR_PAYLOADS = [77, -(2 ** 63)]


def case_calls(idx, mac, shape, kinds, tup1):
    n = len(kinds)
    out = []
    kinds_s = "[" + ",".join(kinds) + "]"
    variant = "OS" if (n == 1 and not tup1) else ("OT1" if tup1 else "OT")

    def lit(v):
        return "(%d_i128 as i64)" % v

    for pl in OK_PAYLOADS:
        vals = pl[:n]
        if n == 1 and not tup1:
            expr = "Ok(%s)" % lit(vals[0])
        else:
            expr = "Ok((" + "".join(lit(v) + "," for v in vals) + "))"
        args = "%s %s %s %s [%s]" % (mac, shape, kinds_s, variant, ",".join(str(v) for v in vals))
        tag = "%s:%s:n%d:ok" % (mac, shape, n)
        out.append('  out.line("c19.rebind", "%s", &i%d(%s), &s%d(%s), "%s");' % (args, idx, expr, idx, expr, tag))
    for e in ERR_PAYLOADS:
        args = "%s %s %s %s [%d]" % (mac, shape, kinds_s, "ET1" if tup1 else "E", e)
        tag = "%s:%s:n%d:err" % (mac, shape, n)
        out.append('  out.line("c19.rebind", "%s", &i%d(Err(%s)), &s%d(Err(%s)), "%s");' % (args, idx, lit(e), idx, lit(e), tag))
    return "\n".join(out) + "\n"


def patterns(tier, seed):
    """list of (shape, kinds, tup1) — macro-independent"""
    rnd = random.Random(0xC19 * 1000003 + int(seed))
    seen = set()
    res = []

    def add(shape, kinds, tup1=False):
        key = (shape, tuple(kinds), tup1)
        if key in seen:
            return
        seen.add(key)
        res.append((shape, list(kinds), tup1))

    # regression witness of F5 first: three and more components
    add("G", ["P", "P", "P"])
    add("G", ["P", "L", "T", "U", "F", "X"])
    full = 6 if tier == "thorough" else 5
    for n in range(1, full + 1):
        for ks in itertools.product(BASE, repeat=n):
            add("G", ks)
    for n in range(full + 1, 7):
        for base in BASE:
            for i in range(n):
                for k in BASE:
                    ks = [base] * n
                    ks[i] = k
                    add("G", ks)
        for _ in range(80):
            add("G", [rnd.choice(BASE) for _ in range(n)])
    # extended target kinds (field / index places, a repeated place, typed wildcard)
    ext_full = 3 if tier == "thorough" else 2
    for n in range(1, ext_full + 1):
        for ks in itertools.product(EXT, repeat=n):
            add("G", ks)
    for n in range(ext_full + 1, 7):
        for _ in range(300 if tier == "thorough" else 50):
            add("G", [rnd.choice(EXT) for _ in range(n)])
    # a place ascribed with the type of the whole payload
    add("G", ["PT"])
    add("G", ["PT", "P"])
    add("G", ["P", "PT", "L"])
    # trailing comma
    for n in range(1, 3):
        for ks in itertools.product(EXT, repeat=n):
            add("GC", ks)
    for n in range(3, 7):
        for _ in range(100 if tier == "thorough" else 20):
            add("GC", [rnd.choice(EXT) for _ in range(n)])
    # bare single token
    for k in ("P", "U", "PT", "UT"):
        add("B", [k])
    # a one-component TUPLE payload: the walker assigns the whole tuple
    for k in ("P", "L", "T", "U", "PT", "UT"):
        add("G", [k], True)
        add("GC", [k], True)
    for k in ("P", "U"):
        add("B", [k], True)
    return res


def cases(tier, seed):
    out = []
    for shape, kinds, tup1 in patterns(tier, seed):
        out.append(("rebind_if_ok", shape, kinds, tup1))
        # try_rebind! takes `$pattern:tt = $expression` only: no `pat: ty` at top level
        if not (shape == "B" and kinds[0] in ("PT", "UT")):
            out.append(("try_rebind", shape, kinds, tup1))
    return out


def konst_path():
    """the konst the harness is built against (harness/Cargo.toml decides, so that a scratch
    copy used for mutation testing is honoured by the generated crate as well)"""
    txt = open(os.path.join(kv.HARNESS, "Cargo.toml")).read()
    m = re.search(r'konst\s*=\s*\{\s*path\s*=\s*"([^"]+)"', txt)
    return m.group(1) if m else "/repo/konst"


def gen_sources(cs, nb, crate, broken):
    """bins (name -> source) and, per bin, the line span of every case's impl function;
    cases in `broken` get a stub instead of the macro use (rustc rejected the expansion)"""
    bins, spans = {}, {}
    for b in range(nb):
        name = "%s_rebind%d" % (crate, b)
        part = [(i, c) for i, c in enumerate(cs) if i % nb == b]
        src = [common.PRELUDE, HELPERS]
        sp = []
        for i, (mac, shape, kinds, tup1) in part:
            start = "".join(src).count("\n") + 1
            fns = case_fns(i, mac, shape, kinds, tup1)
            if i in broken:
                n = len(kinds)
                stub = "fn i%d(res: Result<%s, i64>) -> String { \"COMPILE-ERROR\".to_string() }\n" % (i, payload_ty(n, tup1))
                fns = stub + fns[fns.index("fn s%d(" % i):]
            src.append(fns)
            # the impl function is everything before `fn s<i>(`
            impl_lines = fns[:fns.index("fn s%d(" % i)].count("\n")
            sp.append((start, start + impl_lines - 1, i))
        src.append("fn main() {\n  let mut out = Out::new();\n")
        for i, (mac, shape, kinds, tup1) in part:
            src.append(case_calls(i, mac, shape, kinds, tup1))
        src.append("  out.flush();\n}\n")
        bins[name] = "".join(src)
        spans[name] = sp
    return bins, spans


def write_crate(crate, bins):
    d = common.make_crate(crate, bins)
    kp = konst_path()
    if kp != "/repo/konst":
        ct = os.path.join(d, "Cargo.toml")
        common.write_if_changed(ct, open(ct).read().replace('"/repo/konst"', '"%s"' % kp))
    return d


def rejected_cases(crate, spans, release):
    """cases whose macro use rustc rejects: error positions mapped back to the generated
    impl functions (None when an error lies elsewhere, e.g. inside konst itself)"""
    d = os.path.join(common.GEN, crate)
    with kv.Lock("cargo.lock"):
        p = kv.run(["cargo", "build", "--offline", "-q", "--bins", "--message-format=short"] + (["--release"] if release else []),
                   cwd=d, timeout=2400)
    bad = set()
    for m in re.finditer(r"^src/bin/(\w+)\.rs:(\d+):\d+: error", p.stderr, re.M):
        name, line = m.group(1), int(m.group(2))
        hit = [i for (a, b, i) in spans.get(name, []) if a <= line <= b]
        if not hit:
            return None
        bad.update(hit)
    return bad or None


def produce(tier, seed, release, out_path):
    cs = cases(tier, seed)
    nb = 8 if tier == "thorough" else 4
    crate = "c19t" if tier == "thorough" else "c19q"
    bins, spans = gen_sources(cs, nb, crate, set())
    write_crate(crate, bins)
    err = common.build(crate, release=release)
    if err:
        # which uses of the macros does rustc reject?  Report those as cases (impl column
        # COMPILE-ERROR) instead of giving up on the whole program.
        bad = rejected_cases(crate, spans, release)
        if not bad:
            return err
        bins, spans = gen_sources(cs, nb, crate, bad)
        write_crate(crate, bins)
        err2 = common.build(crate, release=release)
        if err2:
            return err
    open(out_path, "w").close()
    for b in sorted(bins):
        err = common.run_bin(crate, b, [], out_path, release=release)
        if err:
            return err
    return ""
