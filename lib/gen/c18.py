"""C18 producer: generated programs full of `parser_method!` invocations.

One crate `c18`, bins c18_0 .. c18_{NB-1}.  A *case* is a list of branches, each a list of
literal SOURCES (string-literal tokens or concat!(..) of them).  For every case the bin
contains the six macro forms applied to that literal set (strip_prefix, strip_suffix,
find_skip, rfind_skip with one branch per list + a default; trim_start_matches,
trim_end_matches with all alternatives), the same literals written verbatim as ordinary
`&str` constants (rustc decodes those: the std oracle), and the token text of each literal
as hex (what the Coq model receives and decodes itself).

At run time every case is applied to ALL input strings over the alphabet of its (rustc
decoded) literals up to a length bound, in two parser states, plus a seeded random stream
of longer inputs.  impl = branch taken / remainder view / start_offset / parse_direction after
the macro; std = the same after a hand-written chain of Parser::strip_prefix / strip_suffix /
find_skip / rfind_skip / trim_start_matches / trim_end_matches calls on the rustc-decoded
literals.  Family c18.lit observes the decoded bytes of one literal directly (strip_prefix
on `<rustc value>~`: the matched length pins the macro's byte string).

The set of programs does not depend on tier or seed (so they are built once); tier and
seed are run-time arguments of the bins.
"""
import os
import sys

sys.path.insert(0, os.path.dirname(os.path.abspath(__file__)))
import common

NB = 4  # number of bins (built in parallel by cargo)

LF = "\n"


# ------------------------------------------------------------------ literal sources

def S(body):
    """a normal string literal with the given source text between the quotes"""
    return ("lit", '"' + body + '"')


def R(body, hashes=0):
    return ("lit", "r" + "#" * hashes + '"' + body + '"' + "#" * hashes)


def C(*items):
    return ("concat", list(items))


def rust_of(src):
    if src[0] == "lit":
        return src[1]
    return "concat!(" + ", ".join(rust_of(i) for i in src[1]) + ")"


def arg_of(src):
    if src[0] == "lit":
        return "x" + src[1].encode("utf-8").hex()
    return "[C" + "".join("," + arg_of(i) for i in src[1]) + "]"


# escape atoms: (class, source text valid inside "...")
ESCAPES = [
    ("esc-n", r"\n"), ("esc-r", r"\r"), ("esc-t", r"\t"), ("esc-bs", r"\\"), ("esc-0", r"\0"),
    ("esc-sq", r"\'"), ("esc-dq", r"\""),
    ("esc-x", r"\x41"), ("esc-x", r"\x7f"), ("esc-x", r"\x7F"), ("esc-x", r"\x00"), ("esc-x", r"\x0a"),
    ("esc-x", r"\x5c"), ("esc-x", r"\x22"), ("esc-x", r"\x61"),
    ("esc-u", r"\u{61}"), ("esc-u", r"\u{0}"), ("esc-u", r"\u{7f}"), ("esc-u", r"\u{80}"),
    ("esc-u", r"\u{e9}"), ("esc-u", r"\u{E9}"), ("esc-u", r"\u{00e9}"), ("esc-u", r"\u{0000E9}"),
    ("esc-u", r"\u{7FF}"), ("esc-u", r"\u{800}"), ("esc-u", r"\u{D7FF}"), ("esc-u", r"\u{E000}"),
    ("esc-u", r"\u{FFFF}"), ("esc-u", r"\u{10000}"), ("esc-u", r"\u{1F9E0}"), ("esc-u", r"\u{10FFFF}"),
    ("esc-u", r"\u{10ffff}"), ("esc-u", r"\u{3000}"), ("esc-u", r"\u{65e5}"),
    ("esc-u_", r"\u{1_F9E0}"), ("esc-u_", r"\u{e_9}"), ("esc-u_", r"\u{e9_}"), ("esc-u_", r"\u{6__1_}"),
    ("esc-u_", r"\u{0_0_0_0_e_9_}"), ("esc-u_", r"\u{10_FFFF}"),
]

# line continuations: backslash, newline, then what follows in the source
CONTS = [
    ("cont", "\\" + LF),
    ("cont", "\\" + LF + "   "),
    ("cont", "\\" + LF + "\t \t"),
    ("cont", "\\" + LF + LF + "  " + LF + " "),
    ("cont-nonascii", "\\" + LF + "\u3000"),            # U+3000 is NOT skipped by rustc
    ("cont-nonascii", "\\" + LF + "  \u3000 "),
    ("cont-nonascii", "\\" + LF + " \u00a0"),           # NO-BREAK SPACE neither
    ("cont-nonascii", "\\" + LF + " \u2003x"),          # EM SPACE
    ("cont-nonascii", "\\" + LF + " \u0085"),           # NEL
    ("cont-otherws", "\\" + LF + "\x0b"),               # vertical tab: not skipped
    ("cont-otherws", "\\" + LF + " \x0c"),              # form feed: not skipped
    ("cont-esc", "\\" + LF + "  \\n"),                  # an escape after the skipped blanks
    ("cont-esc", "\\" + LF + "  \\x20"),
    ("cont-esc", "\\" + LF + " \\u{20}"),
    ("cont-cont", "\\" + LF + "  \\" + LF + "  "),      # two continuations in a row
]

PLAIN = ["a", "b", "ab", "é", "è", "日", "本", "\U0001F9E0", " ", "'", "{", "}", "#", "_", "u", "x"]


def long_literals():
    """literals of >= 32 source / decoded bytes (block-wise scanners, bulk emitters): an escape at the
    block edges, directly after the bytes next to the backslash in value (']' = 0x5C ^ 1, '['),
    multi-byte characters at the block edges, deep and long concat!"""
    out = []
    for L in (32, 33, 40, 65):
        out.append(("long", S("a" * L)))
        out.append(("long", R("b" * L, 1)))
        for e in [r"\n", r"\\", r"\u{e9}", "\\" + LF + "  "]:
            for p in sorted(set([0, 7, 8, 29, 30, 31, 32, L - 1])):
                for c in ["", "]"]:
                    body = "a" * max(0, p - len(c)) + c + e + "a" * (L - p)
                    out.append(("long-esc", S(body)))
        for ch in ["é", "ß", "日", "\U0001F9E0"]:
            for p in sorted(set([0, 1, 28, 29, 30, 31, L - 1])):
                body = "a" * p + ch + "b" * max(0, L - p - len(ch.encode()))
                out.append(("long-mb", S(body)))
                if p in (0, 30):
                    out.append(("long-mb", R(body, 1)))
                    out.append(("long-mb", C(S(body[:10]), S(body[10:]))))
    out.append(("long-mb", S("gruße aus dem konst-parser, oka")))
    out.append(("long-esc", S(r"[konst.parser.method.settings]\n")))
    # deep / long concat!
    out.append(("concat-deep", C(C(C(C(S("l1"), S("l2")), S("l3")), S("l4")), S("l5"))))
    out.append(("concat-deep", C(S("l1"), C(S("l2"), C(S("l3"), C(S("l4"), C(S("l5"))))))))
    out.append(("concat-deep", C(C(C(C(C(C(S("x"))))))))) 
    out.append(("concat-long", C(*[S(chr(97 + i)) for i in range(26)])))
    out.append(("concat-long", C(*[S("é" + chr(97 + i)) for i in range(20)])))
    return out


def literal_pool():
    """(class, src) of every literal observed by family c18.lit"""
    out = []
    out.append(("empty", S("")))
    for p in PLAIN:
        out.append(("plain", S(p)))
    out.append(("plain-mb", S("aé日\U0001F9E0z")))
    for cls, e in ESCAPES:
        out.append((cls, S(e)))
        out.append((cls, S("a" + e)))
        out.append((cls, S(e + "b")))
        out.append((cls, S(e + e)))
        out.append((cls, S("é" + e + "日")))
    # every pair of escape kinds next to each other (one representative per kind)
    reps = [r"\n", r"\r", r"\t", r"\\", r"\0", r"\'", r"\"", r"\x41", r"\u{e9}", r"\u{1_F9E0}", "\\" + LF + "  "]
    for x in reps:
        for y in reps:
            out.append(("esc-pair", S(x + y)))
            out.append(("esc-pair", S(x + "x" + y)))
    for cls, c in CONTS:
        out.append((cls, S(c)))
        out.append((cls, S("a" + c + "b")))
        out.append((cls, S(c + "b")))
        out.append((cls, S("a" + c)))
        out.append((cls, S("é" + c + "é")))
    # escape look-alikes that are plain text
    for t in ["u{41}", "x41", "n", "\\\\n", "\\\\u{41}", "\\\\x41", "\\\\\\\\", "\\\\\\n", "\\\\\\\""]:
        out.append(("lookalike", S(t)))
    # raw strings
    for h in (0, 1, 2):
        for body in ["", "a", "ab", "\\n", "\\", "\\\\", "\\u{41}", "\\x41", "aé日", "\\" + LF + "  b", LF, "a" + LF + "b", "'", "#", "a#", "#a"]:
            out.append(("raw%d" % h, R(body, h)))
    out.append(("raw1", R('"', 1)))
    out.append(("raw1", R('a"b', 1)))
    out.append(("raw1", R('""', 1)))
    out.append(("raw2", R('"#', 2)))
    out.append(("raw2", R('a"#b"', 2)))
    out.append(("raw2", R('#"#', 2)))
    out.append(("raw2", R('"', 2)))
    out.append(("raw3", R('"##', 3)))
    # concat!
    out.append(("concat", C()))
    out.append(("concat", C(S(""))))
    out.append(("concat", C(S("a"))))
    out.append(("concat", C(S("a"), S("b"))))
    out.append(("concat", C(S("a"), S("b"),)))
    out.append(("concat", C(S("a"), S(""), S("b"))))
    out.append(("concat", C(S(r"\n"), R(r"\n"), R('"', 1))))
    out.append(("concat", C(S(r"\u{e9}"), S("é"), R("é", 2))))
    out.append(("concat", C(C(S("a"), S("b")), S("c"))))
    out.append(("concat", C(C(), C(C(S("x"))), S("\\" + LF + "  y"))))
    out.append(("concat", C(S("a\\" + LF + " "), S(" b"))))
    out.append(("concat", C(S(r"\x41"), S(r"\u{1_F9E0}"), S(r"\\"), S(r"\""))))
    out.extend(long_literals())
    seen = set()
    res = []
    for cls, src in out:
        k = arg_of(src)
        if k not in seen:
            seen.add(k)
            res.append((cls, src))
    return res


def cases():
    """(class, branches) ; branches = list of lists of literal sources"""
    out = []
    # (A) matching structure over {a,b}: every ordered pair of a small pool, as two branches;
    # overlapping ones also as one branch with two alternatives, and triples
    pool = ["", "a", "b", "aa", "ab", "ba", "aba"]
    for x in pool:
        out.append(("plain", [[S(x)]]))
    for x in pool:
        for y in pool:
            if x != y:
                out.append(("plain", [[S(x)], [S(y)]]))
    for x, y in [("a", "ab"), ("ab", "a"), ("a", "aa"), ("aa", "a"), ("b", "ab"), ("ab", "b"), ("", "a"), ("a", ""),
                 ("ab", "ba"), ("aba", "ab"), ("ba", "aba"), ("a", "b")]:
        out.append(("plain", [[S(x), S(y)]]))
    for x, y, z in [("a", "ab", "b"), ("ab", "a", "b"), ("b", "a", "ab"), ("aa", "a", ""), ("a", "", "b"), ("ab", "ba", "a"),
                    ("aba", "ab", "b"), ("b", "ab", "aba"), ("ba", "b", "a"), ("aa", "ab", "a")]:
        out.append(("plain", [[S(x), S(y)], [S(z)]]))
        out.append(("plain", [[S(x)], [S(y), S(z)]]))
        out.append(("plain", [[S(x)], [S(y)], [S(z)]]))
    # the same byte string written in different ways in one set
    out.append(("esc-x", [[S(r"\x61")], [S("a")]]))
    out.append(("esc-x", [[S("a")], [S(r"\x61")]]))
    out.append(("esc-u", [[S(r"\u{61}b")], [S("a")], [S(r"\x62")]]))
    out.append(("esc-u", [[S(r"\u{e9}")], [S("é")]]))
    out.append(("esc-u_", [[S(r"\u{1_F9E0}"), S("a")], [S("\U0001F9E0a")]]))
    # (B) every escape kind inside match-like sets, inputs over the decoded alphabet
    for cls, e in ESCAPES:
        out.append((cls, [[S(e)], [S("a")]]))
        out.append((cls, [[S("a" + e), S(e + "a")], [S(e + e)]]))
    for cls, c in CONTS:
        out.append((cls, [[S("a" + c + "b")], [S("b")]]))
        out.append((cls, [[S(c + "b"), S("a")], [S("a" + c)]]))
    # (C) raw strings and concat!
    for h in (0, 1, 2):
        out.append(("raw%d" % h, [[R("a", h)], [R("ab", h), R("", h)]]))
        out.append(("raw%d" % h, [[R("\\n", h)], [S(r"\n")], [S(r"\\")]]))
        out.append(("raw%d" % h, [[R("a" + LF, h), S("a")], [R(LF, h)]]))
    out.append(("raw1", [[R('"', 1)], [S("a")]]))
    out.append(("raw2", [[R('a"#', 2), R('"', 1)], [S("#")]]))
    out.append(("concat", [[C(S("a"), S("b"))], [S("a")]]))
    out.append(("concat", [[S("a")], [C(S("a"), S("b"))], [C()]]))
    out.append(("concat", [[C(S(r"\n"), R("a"))], [C(R("a", 1), S(r"\x0a"))]]))
    out.append(("concat", [[C(C(S("a")), S("é"))], [C(S("é"), C(S("a"), S("")))]]))
    out.append(("concat", [[C(S("a\\" + LF + "  "), S("b")), S("b")], [C(S(""), S(""))]]))
    # (C2) long literals and deep concat! inside branch sets (the seeded inputs are built from the literals)
    ll = [x for x in long_literals()]
    for i in range(0, len(ll), 9):
        cls, lit = ll[i]
        out.append((cls, [[lit], [S("a")]]))
    for cls, lit in ll[-7:]:
        out.append((cls, [[S("b"), lit], [S("l1")]]))
    # (D) multi-byte text: letters sharing lead bytes (C3 A9 / C3 A8, E6 97 A5 / E6 9C AC)
    mb = ["é", "è", "éè", "èé", "日", "本", "日本", "\U0001F9E0", "\U0001F9E1", "aé"]
    for x in mb:
        out.append(("mb", [[S(x)]]))
    for x, y in [(0, 1), (1, 0), (0, 2), (2, 0), (3, 0), (0, 3), (4, 5), (5, 4), (4, 6), (6, 4), (5, 6), (7, 8), (8, 7), (9, 0), (0, 9), (0, 4), (4, 7)]:
        out.append(("mb", [[S(mb[x])], [S(mb[y])]]))
        out.append(("mb", [[S(mb[x]), S(mb[y])], [S("")]]))
    out.append(("mb", [[S("é"), S(r"\u{e8}")], [R("éè", 1)], [C(S("è"), S(r"\u{E9}"))]]))
    out.append(("mb", [[S("日本")], [S(r"\u{65e5}")], [S("本")]]))
    return out


# ------------------------------------------------------------------ Rust text

RUNTIME = r'''
use konst::{parser_method, Parser};
use konst::parsing::ParseDirection;

const NONE: usize = usize::MAX;
type MFn = for<'a> fn(Parser<'a>) -> (usize, Parser<'a>);
type TFn = for<'a> fn(Parser<'a>) -> Parser<'a>;

struct Case {
    class: &'static str,
    args: &'static str,           // [[src,..],..]
    targs: &'static str,          // [src,..]   (all alternatives, for the trim forms)
    lits: &'static [&'static [&'static str]],   // the same literals as rustc decodes them
    m: [MFn; 4],                  // strip_prefix, strip_suffix, find_skip, rfind_skip
    t: [TFn; 2],                  // trim_start_matches, trim_end_matches
}
struct Lit {
    class: &'static str,
    arg: &'static str,
    val: &'static str,
    f: MFn,
}

fn show_dir(d: ParseDirection) -> &'static str {
    match d {
        ParseDirection::FromStart => "S",
        ParseDirection::FromEnd => "E",
        _ => "B",
    }
}
fn show_parser(input: &str, p: Parser<'_>) -> String {
    // fl: the parser's split protocol is exhausted (yielded_last_split): a further split fails at once
    let fl = matches!(p.split('\u{1}'), Err(e) if matches!(e.kind(), konst::parsing::ErrorKind::SplitExhausted));
    format!("rem={};off={};dir={};fl={}", view_str(input, p.remainder()), p.start_offset(), show_dir(p.parse_direction()), show_bool(fl))
}
fn show_br(b: Option<usize>) -> String {
    show_opt(b, |x| x.to_string())
}

// ---- the std column: hand-written chains of Parser method calls on rustc's literals

fn o_strip<'a>(end: bool, brs: &[&[&str]], p: Parser<'a>) -> (Option<usize>, Parser<'a>, usize) {
    let mut first: Option<(usize, Parser<'a>)> = None;
    let mut n = 0;
    for (i, alts) in brs.iter().enumerate() {
        for a in alts.iter() {
            let r = if end { p.strip_suffix(*a) } else { p.strip_prefix(*a) };
            if let Ok(q) = r {
                n += 1;
                if first.is_none() {
                    first = Some((i, q));
                }
            }
        }
    }
    match first {
        Some((i, q)) => (Some(i), q, n),
        None => (None, p, n),
    }
}

// earliest match start (find_skip) / latest match end (rfind_skip); ties: first listed
fn o_find<'a>(end: bool, brs: &[&[&str]], p: Parser<'a>) -> (Option<usize>, Parser<'a>, usize) {
    let mut best: Option<(usize, usize, Parser<'a>)> = None;
    let mut n = 0;
    let len = p.remainder().len();
    for (i, alts) in brs.iter().enumerate() {
        for a in alts.iter() {
            let r = if end { p.rfind_skip(*a) } else { p.find_skip(*a) };
            if let Ok(q) = r {
                n += 1;
                // distance of the match from the end the search starts at
                let dist = len - q.remainder().len() - a.len();
                if best.map_or(true, |(d, _, _)| dist < d) {
                    best = Some((dist, i, q));
                }
            }
        }
    }
    match best {
        Some((_, i, q)) => (Some(i), q, n),
        None => (None, p, n),
    }
}

// trim a0 as long as it matches; when it does not, strip the first of a1.. that matches
// and start over; an empty literal that is reached stops everything
fn o_trim<'a>(end: bool, alts: &[&str], p: Parser<'a>) -> (Parser<'a>, usize) {
    let mut n = 0;
    let a0 = alts[0];
    let mut p = p;
    loop {
        let before = p.remainder().len();
        p = if end { p.trim_end_matches(a0) } else { p.trim_start_matches(a0) };
        if p.remainder().len() != before {
            n += 1;
        }
        if a0.is_empty() {
            return (p, n);
        }
        let mut progressed = false;
        for a in alts[1..].iter() {
            let r = if end { p.strip_suffix(*a) } else { p.strip_prefix(*a) };
            if let Ok(q) = r {
                if a.is_empty() {
                    return (p, n);
                }
                p = q;
                n += 1;
                progressed = true;
                break;
            }
        }
        if !progressed {
            return (p, n);
        }
    }
}

fn alphabet(lits: &[&[&str]], k: usize) -> Vec<char> {
    let mut v: Vec<char> = Vec::new();
    for alts in lits {
        for a in alts.iter() {
            for c in a.chars() {
                if !v.contains(&c) && v.len() < k {
                    v.push(c);
                }
            }
        }
    }
    for f in ['z', 'y'] {
        if v.len() < 2 && !v.contains(&f) {
            v.push(f);
        }
    }
    v
}

const FAMS: [&str; 4] = ["c18.strip_prefix", "c18.strip_suffix", "c18.find_skip", "c18.rfind_skip"];
const TFAMS: [&str; 2] = ["c18.trim_start_matches", "c18.trim_end_matches"];

fn run_input(c: &Case, input: &str, both_states: bool, flip: bool, out: &mut Out) {
    let flat: Vec<&str> = c.lits.iter().flat_map(|a| a.iter().copied()).collect();
    for st in 0..3 {
        if st < 2 && !both_states && (st == 1) != flip {
            continue;
        }
        // state 2 ("X"): a parser whose split protocol is exhausted (everything was yielded by a
        // split that found no delimiter); the macro must leave that flag alone
        let (off, dir) = if st == 0 { (0usize, "S") } else if st == 1 { (5usize, "E") } else { (3usize, "X") };
        let mk = || {
            let p = Parser::with_start_offset(input, off);
            if st == 0 { p } else if st == 1 { p.skip_back(0) } else { p.split('\u{1}').unwrap().1 }
        };
        let tail = format!("{} {} {}", hex(input.as_bytes()), off, dir);
        for k in 0..4 {
            let imp = catch(|| {
                let (b, p) = (c.m[k])(mk());
                format!("br={};{}", show_br(if b == NONE { None } else { Some(b) }), show_parser(input, p))
            });
            let (ob, op, n) = if k < 2 { o_strip(k == 1, c.lits, mk()) } else { o_find(k == 3, c.lits, mk()) };
            let std_ = format!("br={};{}", show_br(ob), show_parser(input, op));
            let tag = if n == 0 { "-".to_string() } else { format!("{}/m{}", c.class, n.min(3)) };
            out.line(FAMS[k], &format!("{} {}", c.args, tail), &imp, &std_, &tag);
        }
        for k in 0..2 {
            let imp = catch(|| show_parser(input, (c.t[k])(mk())));
            let (op, n) = o_trim(k == 1, &flat, mk());
            let tag = if n == 0 { "-".to_string() } else { format!("{}/t{}", c.class, n.min(3)) };
            out.line(TFAMS[k], &format!("{} {}", c.targs, tail), &imp, &show_parser(input, op), &tag);
        }
    }
}

fn run_case(c: &Case, idx: usize, thorough: bool, rng: &mut Rng, out: &mut Out) {
    let alpha = alphabet(c.lits, if thorough { 4 } else { 3 });
    // length bound in chars: deeper for the small alphabets
    let l = match (thorough, alpha.len()) {
        (false, 0..=2) => 4,
        (false, _) => 3,
        (true, 0..=2) => 6,
        (true, 3) => 5,
        (true, _) => 4,
    };
    for (j, s) in all_strings(&alpha, l).iter().enumerate() {
        run_input(c, s, thorough || s.chars().count() <= 2, (idx + j) % 2 == 1, out);
    }
    // seeded random stream: longer inputs rich in the literals themselves
    let flat: Vec<&str> = c.lits.iter().flat_map(|a| a.iter().copied()).collect();
    let n = if thorough { 24 } else { 6 };
    for j in 0..n {
        let mut s = String::new();
        let pieces = 3 + rng.below(5);
        for _ in 0..pieces {
            if rng.below(3) == 0 {
                s.push(*rng.pick(&alpha[..]));
            } else {
                s.push_str(*rng.pick(&flat[..]));
            }
        }
        run_input(c, &s, false, j % 2 == 1, out);
    }
}

fn run_lit(l: &Lit, out: &mut Out) {
    let input = format!("{}~", l.val);
    let imp = catch(|| {
        let (b, p) = (l.f)(Parser::new(&input));
        if b == NONE { "N".to_string() } else { format!("S({})", hex(&input.as_bytes()[..input.len() - p.remainder().len()])) }
    });
    out.line("c18.lit", l.arg, &imp, &format!("S({})", hex(l.val.as_bytes())), l.class);
}

fn main() {
    quiet_panics();
    let a: Vec<String> = std::env::args().collect();
    let thorough = a.get(1).map(|s| s == "thorough").unwrap_or(false);
    let seed: u64 = a.get(2).and_then(|s| s.parse().ok()).unwrap_or(1);
    let mut out = Out::new();
    let mut rng = Rng::new(seed ^ BIN_ID);
    for l in LITS.iter() {
        run_lit(l, &mut out);
    }
    for (i, c) in CASES.iter().enumerate() {
        run_case(c, i, thorough, &mut rng, &mut out);
    }
    out.flush();
}
'''


def rs_str(s):
    """a Rust string literal for an ASCII control string (hex args)"""
    return '"' + s + '"'


FORMS = ["strip_prefix", "strip_suffix", "find_skip", "rfind_skip"]
TFORMS = ["trim_start_matches", "trim_end_matches"]


def gen_case(name, cls, brs):
    src = []
    flat = [s for alts in brs for s in alts]
    for k, form in enumerate(FORMS):
        arms = "".join("        %s => %d,\n" % (" | ".join(rust_of(s) for s in alts), i) for i, alts in enumerate(brs))
        src.append(
            "fn %s_m%d<'a>(mut p: Parser<'a>) -> (usize, Parser<'a>) {\n    let b: usize = parser_method!{p, %s;\n%s        _ => NONE,\n    };\n    (b, p)\n}\n"
            % (name, k, form, arms))
    for k, form in enumerate(TFORMS):
        src.append(
            "fn %s_t%d<'a>(mut p: Parser<'a>) -> Parser<'a> {\n    parser_method!{p, %s; %s }\n    p\n}\n"
            % (name, k, form, " | ".join(rust_of(s) for s in flat)))
    lits = "&[" + ", ".join("&[" + ", ".join(rust_of(s) for s in alts) + "]" for alts in brs) + "]"
    args = "[" + ",".join("[" + ",".join(arg_of(s) for s in alts) + "]" for alts in brs) + "]"
    targs = "[" + ",".join(arg_of(s) for s in flat) + "]"
    item = ("    Case { class: %s, args: %s, targs: %s, lits: %s,\n           m: [%s], t: [%s] },\n"
            % (rs_str(cls), rs_str(args), rs_str(targs), lits,
               ", ".join("%s_m%d" % (name, k) for k in range(4)), ", ".join("%s_t%d" % (name, k) for k in range(2))))
    return "".join(src), item


def gen_lit(name, cls, s):
    fn = ("fn %s<'a>(mut p: Parser<'a>) -> (usize, Parser<'a>) {\n    let b: usize = parser_method!{p, strip_prefix;\n        %s => 0,\n        _ => NONE,\n    };\n    (b, p)\n}\n"
          % (name, rust_of(s)))
    item = "    Lit { class: %s, arg: %s, val: %s, f: %s },\n" % (rs_str(cls), rs_str(arg_of(s)), rust_of(s), name)
    return fn, item


def programs():
    cs = cases()
    ls = literal_pool()
    bins = {}
    for b in range(NB):
        fns, citems, litems = [], [], []
        for i, (cls, brs) in enumerate(cs):
            if i % NB == b:
                f, it = gen_case("c%d" % i, cls, brs)
                fns.append(f)
                citems.append(it)
        for i, (cls, s) in enumerate(ls):
            if i % NB == b:
                f, it = gen_lit("l%d" % i, cls, s)
                fns.append(f)
                litems.append(it)
        text = (common.PRELUDE + RUNTIME + "\nconst BIN_ID: u64 = %d;\n" % (b + 1) + "".join(fns)
                + "static CASES: &[Case] = &[\n" + "".join(citems) + "];\n"
                + "static LITS: &[Lit] = &[\n" + "".join(litems) + "];\n")
        bins["c18_%d" % b] = text
    return bins


def produce(tier, seed, release, out_path):
    common.make_crate("c18", programs())
    err = common.build("c18", release=release)
    if err:
        return err
    open(out_path, "w").close()
    for b in range(NB):
        err = common.run_bin("c18", "c18_%d" % b, [tier, seed], out_path, release=release)
        if err:
            return err
    return ""


if __name__ == "__main__":
    print(len(cases()), "cases;", len(literal_pool()), "literals")
