"""C10 line producer: generates Rust programs that evaluate iterator-DSL chains with konst's
macros and the identical chains on std iterators.

A chain is generated ONCE as text and used in both worlds (konst's macros take closure
syntax), parametrised at run time by the source slice, the zip source and the numeric
arguments, so one compiled function covers every input array.

Lines:
  c10.eval  src zsrc ms cons   impl = konst result   std = real std result (or '-' for the
                                                    known-finding class)   model = macro_sem
  c10.spec  src zsrc ms cons   impl = '-'            std = real std result  model = std_sem
"""
import os
import random
import sys

sys.path.insert(0, os.path.dirname(os.path.abspath(__file__)))
import common

# ---------------------------------------------------------------- item types
I = ("I",)
U = ("U",)
SL = ("SL",)          # &[i64] (an element of a slice-of-slices source, after copied)


def R(t):
    return ("R", t)


def P(a, b):
    return ("P", a, b)


def key_expr(var, t):
    k = t[0]
    if k == "I":
        return var
    if k == "U":
        return "(%s as i64)" % var
    if k == "R":
        return key_expr("(*%s)" % var, t[1])
    if k == "P":
        return "(%s * 3 + %s)" % (key_expr("%s.0" % var, t[1]), key_expr("%s.1" % var, t[2]))
    raise ValueError(t)


def has_key(t):
    if t[0] in ("I", "U"):
        return True
    if t[0] == "R":
        return has_key(t[1])
    if t[0] == "P":
        return has_key(t[1]) and has_key(t[2])
    return False


PREDS = ["{k} % 2 == 0", "{k} < 3", "{k} != 1"]
MAPS = [("{k} + 1", I), ("{k} * 2", I), ("({k}, {k} % 2)", P(I, I))]
FMAPS = ["if {k} % 2 == 0 {{ Some({k} / 2) }} else {{ None }}", "if {k} > 1 {{ Some({k} - 1) }} else {{ None }}"]
FLATS = ["0..({k} % 3)", "{k}..({k} + 2)"]


class St:
    """typing state along a chain"""

    def __init__(self, t, de=True, es=True):
        self.t, self.de, self.es = t, de, es


def step_adapter(a, st, nparams):
    """returns (rust text, descriptor text with {n} placeholders, new St, is_reversing) or None"""
    name = a[0]
    t = st.t
    if name == "copied":
        if t[0] != "R":
            return None
        return "copied()", "[copied]", St(t[1], st.de, st.es), False
    if name == "flatten":
        if t != SL and t != R(SL):
            return None
        return "flatten()", "[flatten]", St(R(I), st.de, False), False
    if not has_key(t):
        return None
    if name == "enumerate":
        return "enumerate()", "[enumerate]", St(P(U, t), st.de and st.es, st.es), False
    if name == "filter":
        k = key_expr("x", R(t))
        return "filter(|x| %s)" % PREDS[a[1]].format(k=k), "[filter,%d]" % a[1], St(t, st.de, False), False
    if name == "take_while":
        k = key_expr("x", R(t))
        return "take_while(|x| %s)" % PREDS[a[1]].format(k=k), "[take_while,%d]" % a[1], St(t, False, False), False
    if name == "skip_while":
        k = key_expr("x", R(t))
        return "skip_while(|x| %s)" % PREDS[a[1]].format(k=k), "[skip_while,%d]" % a[1], St(t, False, False), False
    if name == "filter_map":
        k = key_expr("x", t)
        return "filter_map(|x| %s)" % FMAPS[a[1]].format(k=k), "[filter_map,%d]" % a[1], St(I, st.de, False), False
    if name == "flat_map":
        k = key_expr("x", t)
        return "flat_map(|x| %s)" % FLATS[a[1]].format(k=k), "[flat_map,%d]" % a[1], St(I, st.de, False), False
    if name == "map":
        k = key_expr("x", t)
        body, nt = MAPS[a[1]]
        return "map(|x| %s)" % body.format(k=k), "[map,%d]" % a[1], St(nt, st.de, st.es), False
    if name == "rev":
        if not st.de:
            return None
        return "rev()", "[rev]", St(t, st.de, st.es), True
    if name == "skip":
        i = len(nparams)
        nparams.append("n%d" % i)
        return "skip(n%d)" % i, "[skip,{n%d}]" % i, St(t, st.de and st.es, st.es), False
    if name == "take":
        i = len(nparams)
        nparams.append("n%d" % i)
        return "take(n%d)" % i, "[take,{n%d}]" % i, St(t, st.de and st.es, st.es), False
    if name == "zip":
        return "zip(zsrc)", "[zip]", St(P(t, R(I)), st.de and st.es, st.es), False
    raise ValueError(a)


def consumer_text(c, st, nparams):
    """(konst method text, std method text, descriptor, needs, reversing)"""
    name = c[0]
    t = st.t
    if not has_key(t):
        return None
    kv = key_expr("x", t)
    kr = key_expr("x", R(t))
    if name == "for_each":
        return None  # handled separately
    if name in ("all", "any", "position"):
        p = PREDS[c[1]].format(k=kv)
        return "%s(|x| %s)" % (name, p), ".%s(|x| %s)" % (name, p), "[%s,%d]" % (name, c[1]), (False, False), False
    if name == "rposition":
        p = PREDS[c[1]].format(k=kv)
        # documented exception: counts from the back = position in the reversed iteration
        return "rposition(|x| %s)" % p, ".rev().position(|x| %s)" % p, "[rposition,%d]" % c[1], (True, True), True
    if name == "count":
        return "count()", ".count()", "[count]", (False, False), False
    if name == "next":
        return "next()", ".next()", "[next]", (False, False), False
    if name == "find":
        p = PREDS[c[1]].format(k=kr)
        return "find(|x| %s)" % p, ".find(|x| %s)" % p, "[find,%d]" % c[1], (False, False), False
    if name == "rfind":
        p = PREDS[c[1]].format(k=kr)
        return "rfind(|x| %s)" % p, ".rfind(|x| %s)" % p, "[rfind,%d]" % c[1], (True, False), True
    if name == "find_map":
        f = FMAPS[c[1]].format(k=kv)
        return "find_map(|x| %s)" % f, ".find_map(|x| %s)" % f, "[find_map,%d]" % c[1], (False, False), False
    if name == "fold":
        return "fold(0i64, |a, x| (a * 7 + %s) %% 1000003)" % kv, ".fold(0i64, |a, x| (a * 7 + %s) %% 1000003)" % kv, "[fold]", (False, False), False
    if name == "rfold":
        return "rfold(0i64, |a, x| (a * 7 + %s) %% 1000003)" % kv, ".rfold(0i64, |a, x| (a * 7 + %s) %% 1000003)" % kv, "[rfold]", (True, False), True
    if name == "nth":
        i = len(nparams)
        nparams.append("n%d" % i)
        return "nth(n%d)" % i, ".nth(n%d)" % i, "[nth,{n%d}]" % i, (False, False), False
    raise ValueError(c)


ADAPTERS_S1 = [("copied",), ("enumerate",), ("filter", 0), ("filter", 1), ("filter_map", 0), ("flat_map", 0),
               ("flat_map", 1), ("map", 0), ("map", 2), ("rev",), ("skip",), ("skip_while", 2), ("take",),
               ("take_while", 1), ("zip",)]
CONSUMERS = [("for_each",), ("collect",), ("all", 1), ("any", 0), ("count",), ("find", 0), ("find_map", 1), ("rfind", 0),
             ("fold",), ("rfold",), ("next",), ("nth",), ("position", 0), ("rposition", 2), ("evalfe",)]


class Chain:
    pass


def build_chain(kind, adapters, cons):
    """kind: 's1' (source &[i64]) or 's2' (source &[&[i64]]). Returns Chain or None."""
    st = St(R(I)) if kind == "s1" else St(R(SL))
    nparams = []
    ktexts, dtexts = [], []
    nrev = 0
    pos_before_rev = False
    seen_pos = False
    zips_before_rev = 0
    zips = 0
    has_zip = False
    for a in adapters:
        r = step_adapter(a, st, nparams)
        if r is None:
            return None
        txt, d, st, isrev = r
        ktexts.append(txt)
        dtexts.append(d)
        if a[0] in ("take", "skip", "take_while", "skip_while"):
            seen_pos = True
        if a[0] == "zip":
            zips += 1
            has_zip = True
        if isrev:
            nrev += 1
            pos_before_rev = seen_pos
            zips_before_rev = zips
    ch = Chain()
    ch.kind = kind
    ch.has_zip = has_zip
    ch.shape = []
    if any(a[0] in ("flat_map", "flatten") for a in adapters):
        ch.shape.append("nested")
    if has_zip:
        ch.shape.append("zip")
    if not has_key(st.t):
        return None
    cname = cons[0]
    if cname in ("for_each", "collect", "evalfe"):
        ch.cons_kind = cname
        ch.cons_desc = "[for_each]" if cname != "collect" else "[collect]"
        cons_rev = False
    else:
        r = consumer_text(cons, st, nparams)
        if r is None:
            return None
        ch.ktxt_cons, ch.stxt_cons, ch.cons_desc, needs, cons_rev = r
        ch.cons_kind = "value"
        if needs[0] and not st.de:
            return None
        if needs[1] and not st.es:
            return None
        if cons_rev:
            nrev += 1
            pos_before_rev = seen_pos
            zips_before_rev = zips
    if nrev > 1:
        return None
    ch.reverses = nrev == 1
    if ch.reverses:
        ch.shape.append("rev")
    ch.pos_before_rev = pos_before_rev and ch.reverses
    ch.zips_before_rev = zips_before_rev if ch.reverses else 0
    ch.adapters = adapters
    ch.ktexts = ktexts
    ch.desc = "[" + ",".join(dtexts) + "]"
    ch.nparams = nparams
    ch.item = st.t
    return ch


def rust_fn(idx, ch):
    """one function evaluating the chain both ways"""
    params = "".join(", %s: usize" % n for n in ch.nparams)
    srcty = "&[i64]" if ch.kind == "s1" else "&[&[i64]]"
    kad = "".join(", " + t for t in ch.ktexts)
    # the std chain: same method texts joined by dots (flatten straight on a slice-of-slices needs .copied())
    std = "src.iter()"
    for i, (a, t) in enumerate(zip(ch.adapters, ch.ktexts)):
        if a[0] == "flatten" and std.endswith("src.iter()") and ch.kind == "s2":
            std += ".copied()"
        rev_later = ch.reverses and not any(b[0] == "rev" for b in ch.adapters[:i + 1])
        if a[0] == "enumerate" and rev_later:
            # documented exception: enumerate numbers from 0 in ITERATION order, i.e. when a
            # reversal follows, the std chain's numbering is mirrored
            std = "({ let it = %s; let n = it.len(); it.enumerate().map(move |(i, x)| (n - 1 - i, x)) })" % std
        else:
            std += "." + t
    out = ["#[inline(never)]\nfn ch%d(src: %s, zsrc: &[i64]%s) -> (String, String) {" % (idx, srcty, params)]
    if ch.cons_kind == "for_each":
        out.append("    let mut kv: Vec<String> = Vec::new();")
        out.append("    konst::iter::for_each!{x in src%s => kv.push(x.sh());}" % kad)
        out.append("    let mut sv: Vec<String> = Vec::new();")
        out.append("    %s.for_each(|x| sv.push(x.sh()));" % std)
        out.append('    (format!("[{}]", kv.join(",")), format!("[{}]", sv.join(",")))')
    elif ch.cons_kind in ("evalfe", "collect"):
        out.append("    let mut kv: Vec<String> = Vec::new();")
        out.append("    konst::iter::eval!(src%s, for_each(|x| kv.push(x.sh())));" % kad)
        out.append("    let sv: Vec<String> = %s.map(|x| x.sh()).collect();" % std)
        out.append('    (format!("[{}]", kv.join(",")), format!("[{}]", sv.join(",")))')
    else:
        out.append("    let k = konst::iter::eval!(src%s, %s);" % (kad, ch.ktxt_cons))
        out.append("    let s = %s%s;" % (std, ch.stxt_cons))
        out.append("    (k.sh(), s.sh())")
    out.append("}")
    return "\n".join(out)


def rust_type(t):
    k = t[0]
    if k == "I":
        return "i64"
    if k == "U":
        return "usize"
    if k == "R":
        return "&" + rust_type(t[1])
    if k == "P":
        return "(%s, %s)" % (rust_type(t[1]), rust_type(t[2]))
    raise ValueError(t)


CC_SOURCES = [[], [2], [3, 1, 2, 0]]
CC_ZSRC = [4, 5, 6, 7]
CC_NS = [2, 1, 3]


def rust_cc(idx, ch):
    """collect_const! form: constant source, constant arguments; one block per literal source"""
    kad = "".join(", " + t for t in ch.ktexts)
    std_tail = ""
    out = ["#[inline(never)]\n#[allow(non_upper_case_globals)]\nfn cc%d(out: &mut Out) {" % idx]
    out.append("    const zsrc: &[i64] = &[%s];" % ", ".join("%di64" % z for z in CC_ZSRC))
    for i, n in enumerate(ch.nparams):
        out.append("    const %s: usize = %d;" % (n, CC_NS[i % len(CC_NS)]))
    desc = ch.desc
    for i, n in enumerate(ch.nparams):
        desc = desc.replace("{%s}" % n, str(CC_NS[i % len(CC_NS)]))
    for src in CC_SOURCES:
        lit = "&[%s]" % ", ".join("%di64" % x for x in src) if src else "&[0i64; 0]"
        std = "SRC.iter()"
        for i, (a, t) in enumerate(zip(ch.adapters, ch.ktexts)):
            rev_later = ch.reverses and not any(b[0] == "rev" for b in ch.adapters[:i + 1])
            if a[0] == "enumerate" and rev_later:
                std = "({ let it = %s; let n = it.len(); it.enumerate().map(move |(i, x)| (n - 1 - i, x)) })" % std
            else:
                std += "." + t
        out.append("    {")
        out.append("        const SRC: &[i64] = %s;" % lit)
        out.append("        let k = konst::iter::collect_const!(%s => SRC%s);" % (rust_type(ch.item), kad))
        out.append("        let kv: Vec<String> = k.iter().map(|x| x.sh()).collect();")
        out.append("        let sv: Vec<String> = %s.map(|x| x.sh()).collect();" % std)
        out.append("        let slen = SRC.len();")
        out.append("        let mut known = %s;" % ("true" if ch.pos_before_rev else "false"))
        if ch.zips_before_rev:
            out.append("        { let mut cur = slen; for _ in 0..%d { if cur != zsrc.len() { known = true; } cur = cur.min(zsrc.len()); } }" % ch.zips_before_rev)
        shape = "+".join(ch.shape + ["collect_const"])
        out.append('        let tag = if known { "known-rap" } else if slen == 0 { "-" } else { "%s" };' % shape)
        out.append('        let args = format!("{} {} %s [collect]", list(SRC), list(zsrc));' % desc.replace("{", "{{").replace("}", "}}"))
        out.append('        let (k, s) = (format!("[{}]", kv.join(",")), format!("[{}]", sv.join(",")));')
        out.append('        out.line("c10.eval", &args, &k, if known { "-" } else { &s }, tag);')
        out.append('        out.line("c10.spec", &args, "-", &s, tag);')
        out.append("    }")
    out.append("}")
    return "\n".join(out)


SHOW = r"""
trait Sh { fn sh(&self) -> String; }
impl Sh for i64 { fn sh(&self) -> String { self.to_string() } }
impl Sh for usize { fn sh(&self) -> String { self.to_string() } }
impl Sh for bool { fn sh(&self) -> String { if *self { "1".into() } else { "0".into() } } }
impl<T: Sh + ?Sized> Sh for &T { fn sh(&self) -> String { (**self).sh() } }
impl<A: Sh, B: Sh> Sh for (A, B) { fn sh(&self) -> String { format!("({},{})", self.0.sh(), self.1.sh()) } }
impl<T: Sh> Sh for Option<T> { fn sh(&self) -> String { match self { Some(x) => format!("S({})", x.sh()), None => "N".into() } } }
impl<T: Sh> Sh for [T] { fn sh(&self) -> String { let v: Vec<String> = self.iter().map(|x| x.sh()).collect(); format!("[{}]", v.join(",")) } }

fn srcs1(maxlen: usize) -> Vec<Vec<i64>> { all_seqs(&[0i64, 1, 2, 3], maxlen) }
fn srcs2() -> Vec<Vec<&'static [i64]>> {
    const A: &[i64] = &[];
    const B: &[i64] = &[1];
    const C: &[i64] = &[2, 3];
    all_seqs(&[A, B, C], 3)
}
fn zsrcs(src_len: usize, has_zip: bool) -> Vec<Vec<i64>> {
    if !has_zip { return vec![vec![]]; }
    vec![(0..src_len as i64).map(|i| 4 + (i % 3)).collect(), vec![9], vec![9, 8, 7, 6, 5]]
}
fn list(v: &[i64]) -> String { let s: Vec<String> = v.iter().map(|x| x.to_string()).collect(); format!("[{}]", s.join(",")) }
"""


def driver_code(idx, ch, maxlen_expr):
    """the loop that runs one chain over all inputs and prints the lines"""
    np = len(ch.nparams)
    # small arguments on every input; arguments next to the usize / isize / u32 limits (a counter kept in
    # a narrower or signed type, `n + 1` overflowing) on a third of the inputs
    nvals = ("[0usize, 1, 2, 3, usize::MAX, 1usize << 63, (1usize << 63) - 1, 1usize << 32, usize::MAX - 1]" if np <= 1
             else "[0usize, 1, 3, usize::MAX, 1usize << 63]")
    L = []
    if ch.kind == "s1":
        L.append("    for src in srcs1(%s).iter() {" % maxlen_expr)
        L.append("        let srcd = list(src);")
        L.append("        let srcr: &[i64] = src;")
        L.append("        let slen = src.len();")
        L.append("        let bigok = src.iter().sum::<i64>() % 3 == 1;")
    else:
        L.append("    for src in srcs2().iter() {")
        L.append('        let srcd = format!("[{}]", src.iter().map(|s| list(s)).collect::<Vec<_>>().join(","));')
        L.append("        let srcr: &[&[i64]] = src;")
        L.append("        let slen = src.len();")
        L.append("        let bigok = slen == 2;")
    L.append("        for zsrc in zsrcs(slen, %s).iter() {" % ("true" if ch.has_zip else "false"))
    indent = "            "
    for i in range(np):
        L.append(indent + "for n%d in %s {" % (i, nvals))
        indent += "    "
        L.append(indent + "if n%d > 4 && !bigok { continue; }" % i)
    call = "ch%d(srcr, zsrc%s)" % (idx, "".join(", n%d" % i for i in range(np)))
    desc = ch.desc
    cdesc = ch.cons_desc
    fmt_desc = (desc + " " + cdesc).replace("{", "{{").replace("}", "}}")
    # re-open the numeric placeholders
    for i in range(np):
        fmt_desc = fmt_desc.replace("{{n%d}}" % i, "{n%d}" % i)
    # a panic inside the macro expansion (e.g. an arithmetic overflow of a counter) is a result too
    L.append(indent + "let r = std::panic::catch_unwind(std::panic::AssertUnwindSafe(|| %s));" % call)
    L.append(indent + 'let (k, s, ok) = match r { Ok((k, s)) => (k, s, true), Err(_) => ("PANIC".to_string(), "-".to_string(), false) };')
    L.append(indent + 'let args = format!("{} {} %s", srcd, list(zsrc)%s);' % (fmt_desc, "".join(", n%d = n%d" % (i, i) for i in range(np))))
    # known-finding class: a reversing method after a positional adapter or an unbalanced zip
    L.append(indent + "let mut known = %s;" % ("true" if ch.pos_before_rev else "false"))
    if ch.zips_before_rev:
        L.append(indent + "{ let mut cur = slen; for _ in 0..%d { if cur != zsrc.len() { known = true; } cur = cur.min(zsrc.len()); } }" % ch.zips_before_rev)
    shape = "+".join(ch.shape) if ch.shape else "plain"
    L.append(indent + 'let tag = if known { "known-rap" } else if slen == 0 { "-" } else { "%s" };' % shape)
    L.append(indent + 'out.line("c10.eval", &args, &k, if known || !ok { "-" } else { &s }, tag);')
    L.append(indent + 'if ok { out.line("c10.spec", &args, "-", &s, tag); }')
    for i in range(np):
        indent = indent[:-4]
        L.append(indent + "}")
    L.append("        }")
    L.append("    }")
    return "\n".join(L)


def enumerate_chains(tier, seed):
    rng = random.Random(seed * 1000003 + 10)
    chains = []
    seen = set()

    def add(kind, ads, cons):
        key = (kind, tuple(ads), cons)
        if key in seen:
            return
        ch = build_chain(kind, list(ads), cons)
        if ch is not None:
            seen.add(key)
            chains.append(ch)

    # every consumer on short chains
    for cons in CONSUMERS:
        add("s1", [], cons)
        add("s1", [("copied",)], cons)
        add("s1", [("rev",)], cons)
        add("s1", [("filter", 0), ("enumerate",)], cons)
        add("s1", [("flat_map", 1), ("take",)], cons)
        add("s2", [("flatten",)], cons)
        add("s2", [("copied",), ("flatten",), ("rev",)], cons)
    # the regression shapes of finding F7 and their in-class neighbours
    for pre in ([("take",)], [("skip",)], [("zip",)], [("enumerate",), ("zip",)], [("map", 0)], [("filter", 1)], [("flat_map", 0)]):
        for cons in (("collect",), ("rfind", 0), ("rfold",), ("rposition", 2)):
            add("s1", list(pre), cons)
        add("s1", list(pre) + [("rev",)], ("collect",))
        add("s1", list(pre) + [("rev",), ("take",)], ("collect",))
    # all typeable depth-2 adapter chains, consumers rotating
    ci = 0
    for a in ADAPTERS_S1:
        for b in ADAPTERS_S1:
            for _ in range(2):
                add("s1", [a, b], CONSUMERS[ci % len(CONSUMERS)])
                ci += 1
    # random deeper chains
    n3 = 160 if tier == "quick" else 1200
    n45 = 40 if tier == "quick" else 500
    tries = 0
    target = len(chains) + n3
    while len(chains) < target and tries < 100000:
        tries += 1
        ads = [rng.choice(ADAPTERS_S1) for _ in range(3)]
        add("s1", ads, rng.choice(CONSUMERS))
    target = len(chains) + n45
    while len(chains) < target and tries < 200000:
        tries += 1
        ads = [rng.choice(ADAPTERS_S1) for _ in range(rng.choice([4, 5]))]
        add("s1", ads, rng.choice(CONSUMERS))
    # slice-of-slices sources
    for _ in range(30 if tier == "quick" else 150):
        tail = [rng.choice(ADAPTERS_S1) for _ in range(rng.choice([0, 1, 2]))]
        head = rng.choice([[("flatten",)], [("copied",), ("flatten",)], [("rev",), ("flatten",)], [("take",), ("flatten",)]])
        add("s2", head + tail, rng.choice(CONSUMERS))
    return chains


def produce(tier, seed, release, out_path):
    chains = enumerate_chains(tier, seed)
    per_bin = 170
    bins = {}
    names = []
    maxlen = "3" if tier == "quick" else "4"
    for b in range(0, len(chains), per_bin):
        part = chains[b:b + per_bin]
        name = "c10_chains_%02d" % (b // per_bin)
        src = [common.PRELUDE, SHOW]
        for i, ch in enumerate(part):
            src.append(rust_fn(b + i, ch))
        src.append("fn main() {\n    std::panic::set_hook(Box::new(|_| {}));\n    let mut out = Out::new();")
        for i, ch in enumerate(part):
            src.append("    {\n" + driver_code(b + i, ch, maxlen) + "\n    }")
        src.append("    out.flush();\n}")
        bins[name] = "\n".join(src)
        names.append(name)
    # the collect_const! form (two-pass const evaluation) on a subset with constant inputs
    cc = [ch for ch in chains if ch.kind == "s1" and ch.cons_kind in ("collect", "for_each", "evalfe")]
    cc = cc[:: max(1, len(cc) // (70 if tier == "quick" else 250))]
    src = [common.PRELUDE, SHOW]
    for i, ch in enumerate(cc):
        src.append(rust_cc(i, ch))
    src.append("fn main() {\n    let mut out = Out::new();")
    for i, ch in enumerate(cc):
        src.append("    cc%d(&mut out);" % i)
    src.append("    out.flush();\n}")
    bins["c10_collect_const"] = "\n".join(src)
    names.append("c10_collect_const")
    crate = "kv_c10_" + tier
    common.make_crate(crate, bins)
    err = common.build(crate, release=release)
    if err:
        return err
    open(out_path, "w").close()
    for n in names:
        err = common.run_bin(crate, n, [], out_path, release=release)
        if err:
            return err
    return ""


if __name__ == "__main__":
    print(produce(sys.argv[1] if len(sys.argv) > 1 else "quick", 1, False, "/tmp/c10.lines"))
