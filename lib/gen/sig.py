"""'Valid programs keep compiling' probes (family <prop>.sig): small programs that use konst's
public API the way std's counterpart can be used — a remainder()/as_str()/as_slice() that outlives
the iterator it came from, results returned from `const fn`s and stored in `const`s, iterator-DSL
arguments that borrow temporaries, and every macro family invoked in a crate that defines its OWN
macros named like std's (`matches!`, `assert!`, `panic!`, `unreachable!`, `concat!`, ...: a konst
macro must reach std's through `$crate`, not pick up the user's).  Each program is one [[bin]];
rustc's verdict is read with `cargo check --keep-going`.

    family <prop>.sig   args = <k> <hex of the program's name>
    impl  = "compiles" | "REJECTED <first error>"        model = "compiles"
"""
import os

from . import common

ALLOW = "#![allow(unused, dead_code, unused_mut, unused_variables, unused_macros, unused_imports)]\n"

SHADOW = ALLOW + "\n".join(
    'macro_rules! %s { ($($t:tt)*) => { compile_error!("the user\'s `%s!` was picked up by a konst macro") }; }' % (n, n)
    for n in ["matches", "assert", "assert_eq", "assert_ne", "debug_assert", "unreachable", "panic", "unimplemented", "todo",
              "concat", "stringify", "vec", "format_args", "write", "line", "column", "file", "cfg", "include_str", "env"]) + "\n"

C06 = ALLOW + r'''
use konst::string;
fn rest(s: &str) -> &str { let it = string::split(s, ","); it.remainder() }
fn rest2(s: &str) -> &str { let it = string::rsplit(s, ','); let r = it.remainder(); let _ = it.next(); r }
fn rest3(s: &str) -> &str { string::split_terminator(s, ",").remainder() }
fn rest4(s: &str) -> &str { string::rsplit_terminator(s, ',').remainder() }
fn piece<'a>(s: &'a str) -> &'a str { match string::split(s, "-").next() { Some((p, _)) => p, None => "" } }
fn rpiece<'a>(s: &'a str) -> (&'a str, &'a str) { match string::split(s, "-").rev().next() { Some((p, it)) => (p, it.remainder()), None => ("", "") } }
fn once<'a>(s: &'a str) -> Option<(&'a str, &'a str)> { string::split_once(s, "=") }
const R: &str = string::split("a,b", ",").remainder();
const fn cf(s: &str) -> &str { match string::split(s, ",").next() { Some((_, it)) => it.remainder(), None => "" } }
const fn cf2(s: &str) -> &str { match string::rsplit_terminator(s, ',').next() { Some((_, it)) => it.remainder(), None => "" } }
const fn cf3<'a>(s: &'a str) -> &'a str { match string::rsplit(s, "--").copy().next_back() { Some((p, _)) => p, None => "" } }
fn main() { let _ = (rest("a,b"), rest2("a,b"), rest3("a"), rest4("a"), piece("x-y"), rpiece("x-y"), once("k=v"), R, cf("a,b"), cf2("a,b,"), cf3("a--b")); }
'''

C07 = ALLOW + r'''
use konst::string;
fn tail(s: &str) -> &str { match string::chars(s).next() { Some((_, it)) => it.as_str(), None => "" } }
fn tail2(s: &str) -> &str { let it = string::char_indices(s); let r = it.as_str(); let _ = it.next_back(); r }
fn tail3(s: &str) -> &str { match string::chars(s).rev().next() { Some((_, it)) => it.rev().as_str(), None => "" } }
fn tail4(s: &str) -> &str { match string::char_indices(s).rev().next_back() { Some((_, it)) => it.copy().rev().as_str(), None => "" } }
const T: &str = string::chars("h\u{e9}llo").as_str();
const fn first(s: &str) -> Option<char> { match string::chars(s).next() { Some((c, _)) => Some(c), None => None } }
const fn last_idx(s: &str) -> Option<(usize, char)> { match string::char_indices(s).next_back() { Some((p, _)) => Some(p), None => None } }
const fn enc(c: char) -> usize { konst::chr::encode_utf8(c).as_str().len() }
const E: &str = konst::chr::encode_utf8('\u{e9}').as_str();
const B: &[u8] = konst::chr::encode_utf8('\u{1f600}').as_bytes();
const F: Option<char> = konst::chr::from_u32(0x41);
fn main() { let _ = (tail("ab"), tail2("ab"), tail3("ab"), tail4("ab"), T, first("x"), last_idx("xy"), enc('a'), E, B, F); }
'''

C08 = ALLOW + r'''
use konst::slice;
fn rem1(s: &[u8]) -> &[u8] { slice::chunks_exact(s, 2).remainder() }
fn rem2(s: &[u8]) -> &[u8] { let it = slice::rchunks_exact(s, 2); let r = it.remainder(); let _ = it.next(); r }
fn rem3(s: &[u8]) -> &[u8] { let it = slice::array_chunks::<_, 3>(s); let r = it.remainder(); let _ = it.next_back(); r }
fn rest(s: &[u8]) -> &[u8] { match slice::iter(s).next() { Some((_, it)) => it.as_slice(), None => &[] } }
fn rest2(s: &[u8]) -> &[u8] { match slice::iter_copied(s).next_back() { Some((_, it)) => it.as_slice(), None => &[] } }
fn win<'a>(s: &'a [u8]) -> &'a [u8] { match slice::windows(s, 2).next() { Some((w, _)) => w, None => &[] } }
fn chunk<'a>(s: &'a [u8]) -> &'a [u8] { match slice::chunks(s, 2).rev().next() { Some((w, _)) => w, None => &[] } }
fn rchunk<'a>(s: &'a [u8]) -> &'a [u8] { match slice::rchunks(s, 2).copy().next_back() { Some((w, _)) => w, None => &[] } }
fn chunks_of<'a>(s: &'a [u8]) -> (&'a [[u8; 2]], &'a [u8]) { slice::as_chunks::<u8, 2>(s) }
fn rchunks_of<'a>(s: &'a [u8]) -> (&'a [u8], &'a [[u8; 2]]) { slice::as_rchunks::<u8, 2>(s) }
const D: &[u8] = &[1, 2, 3, 4, 5];
const R: &[u8] = slice::array_chunks::<_, 3>(D).remainder();
const R2: &[u8] = slice::chunks_exact(D, 2).remainder();
const R3: &[u8] = slice::rchunks_exact(D, 2).rev().remainder();
const fn cf<'a>(s: &'a [u8]) -> &'a [u8] { slice::array_chunks::<u8, 2>(s).remainder() }
const fn arr<'a>(s: &'a [u8]) -> Option<&'a [u8; 2]> { match slice::array_chunks::<u8, 2>(s).next() { Some((a, _)) => Some(a), None => None } }
fn main() { let _ = (rem1(D), rem2(D), rem3(D), rest(D), rest2(D), win(D), chunk(D), rchunk(D), chunks_of(D), rchunks_of(D), R, R2, R3, cf(D), arr(D)); }
'''

C10 = ALLOW + r'''
use konst::{iter, slice};
fn f1(xs: &[u32], a: u32) -> usize { iter::eval!(xs, zip(&[a]), count()) }
fn f2(xs: &[u32], a: u32, b: u32) -> u32 { iter::eval!(xs, copied(), zip(slice::iter_copied(&[a, b])), map(|(x, y)| x * y), fold(0u32, |s, v| s + v)) }
fn f3(xs: &[u32], a: u32) -> u32 { let mut s = 0; iter::for_each!{(x, y) in xs, zip(&[a, a + 1]) => s += *x + *y; } s }
const fn f4(xs: &[u32], a: u32) -> u32 { iter::eval!(xs, copied(), zip(&[a, a]), map(|(x, y)| x + *y), fold(0u32, |s, v| s + v)) }
fn f5(a: u32) -> Option<u32> { iter::eval!(&[a, a + 1, a + 2], copied(), rev(), nth(0)) }
fn f6(xs: &[u32], k: usize) -> u32 { iter::eval!(xs, copied(), skip(k), take(k + 1), fold(0u32, |s, v| s + v)) }
fn f7(xs: &[u32], a: u32) -> u32 { iter::eval!(xs, flat_map(|x| &[*x, a]), copied(), fold(0u32, |s, v| s + v)) }
fn f8(xs: &[u32], a: u32) -> Option<usize> { iter::eval!(xs, zip(&[a, a]), rposition(|(x, y)| *x == *y)) }
fn f9(a: u32) -> Option<&'static u32> { iter::eval!(&[1u32, 2, 3], skip_while(|x| **x < a), next()) }
fn main() { let _ = (f1(&[1], 1), f2(&[1], 1, 2), f3(&[1], 1), f4(&[1], 1), f5(1), f6(&[1], 0), f7(&[1], 1), f8(&[1], 1), f9(2)); }
'''

SH_C19 = r'''
use konst::{option, result};
fn key(x: &u8) -> u8 { *x }
fn body() {
    let _ = konst::min!(1u8, 2); let _ = konst::max!(1u8, 2);
    let _ = konst::min_by!(1u8, 2, |a, b| konst::const_cmp!(*a, *b)); let _ = konst::max_by!(1u8, 2, |a, b| konst::const_cmp!(*a, *b));
    let _ = konst::min_by_key!(1u8, 2, |x| *x); let _ = konst::max_by_key!(1u8, 2, key);
    let _ = konst::min_by_key!(1u8, 2, key); let _ = konst::max_by_key!(1u8, 2, |x| *x);
    let _ = option::unwrap_or!(Some(1u8), 2); let _ = option::unwrap_or_else!(None::<u8>, || 3); let _ = option::ok_or!(Some(1u8), 2u8);
    let _ = option::ok_or_else!(None::<u8>, || 5u8); let _ = option::map!(Some(1u8), |x| x + 1); let _ = option::and_then!(Some(1u8), |x| Some(x));
    let _ = option::or_else!(None::<u8>, || Some(1)); let _ = option::flatten!(Some(Some(1u8))); let _ = option::filter!(Some(1u8), |x| *x > 0);
    let _ = option::copied(Some(&1u8));
    let _ = result::unwrap_or!(Ok::<u8, u8>(1), 2); let _ = result::unwrap_or_else!(Err::<u8, u8>(1), |e| e); let _ = result::ok!(Ok::<u8, u8>(1)); let _ = result::err!(Ok::<u8, u8>(1));
    let _ = result::map!(Ok::<u8, u8>(1), |x| x + 1); let _ = result::map_err!(Ok::<u8, u8>(1), |x| x + 1); let _ = result::and_then!(Ok::<u8, u8>(1), |x| Ok(x)); let _ = result::or_else!(Ok::<u8, u8>(1), |x| Err::<u8, u8>(x));
    let _ = result::unwrap_err_or_else!(Ok::<u8, u8>(1), |x| x);
}
// arguments that borrow from temporaries: they must live as long as std::cmp's would
fn name(n: usize) -> String { "x".repeat(n) }
fn temporaries() -> usize {
    konst::min!(name(20).as_str(), name(3).as_str()).len()
        + konst::max!(name(2).as_str(), name(3).as_str()).len()
        + konst::min_by!(name(2).as_str(), name(3).as_str(), |a, b| konst::const_cmp!(a.len(), b.len())).len()
        + konst::max_by!(name(2).as_str(), name(3).as_str(), |a, b| konst::const_cmp!(a.len(), b.len())).len()
        + konst::min_by_key!(name(2).as_str(), name(3).as_str(), |s| s.len()).len()
        + konst::max_by_key!(name(2).as_str(), name(3).as_str(), |s| s.len()).len()
        + option::unwrap_or!(name(1).as_str().strip_prefix('x'), name(2).as_str()).len()
}
fn b2() -> Result<u8, u8> { let x = konst::try_!(Ok::<u8, u8>(3)); let (mut a, mut b, mut c) = (0u8, 0u8, 0u8); konst::try_rebind!{(a, b, c) = Ok::<(u8, u8, u8), u8>((1, 2, 3))} konst::rebind_if_ok!{(a, b) = Ok::<(u8, u8), u8>((1, 2))} Ok(x + a + b + c) }
fn b3() -> Option<u8> { let x = konst::try_opt!(Some(3u8)); Some(x) }
fn main() { body(); let _ = b2(); let _ = b3(); let _ = temporaries(); }
'''

SH_C10 = r'''
use konst::iter;
fn body(xs: &[u8]) -> (u8, usize, Option<usize>, bool, Option<&u8>, u8) {
    (iter::eval!(xs, copied(), filter(|x| *x > 1), map(|x| x * 2), rev(), take(2), fold(0u8, |a, x| a + x)),
     iter::eval!(xs, enumerate(), skip(1), zip(0u8..), flat_map(|p| &[p, p]), count()),
     iter::eval!(xs, position(|x| *x == 2)), iter::eval!(xs, skip_while(|x| **x < 2), take_while(|x| **x < 9), any(|x| *x == 3)),
     iter::eval!(xs, rfind(|x| **x < 3)), iter::eval!(xs, copied(), filter_map(|x| if x > 1 { Some(x) } else { None }), rfold(0u8, |a, x| a + x)))
}
const COLL: [u8; 2] = iter::collect_const!(u8 => &[1u8, 2, 3], copied(), filter(|x| *x != 2));
fn each(xs: &[u8]) -> u8 { let mut s = 0; iter::for_each!{x in xs, copied(), rev() => s += x; } s }
fn main() { let _ = body(&[1, 2, 3]); let _ = COLL; let _ = each(&[1]); let _ = iter::eval!(&[1u8, 2], all(|x| *x > 0)); let _ = iter::eval!(&[[1u8, 2]], flatten(), nth(1)); let _ = iter::eval!(&[1u8], find_map(|x| Some(*x))); }
'''

SH_C11 = r'''
use konst::array;
fn body() -> ([u8; 3], [usize; 2], [u8; 2], [usize; 2]) { (array::map!([1u8, 2, 3], |x| x + 1), array::from_fn!(|i| i), array::map_!([1u8, 2], |x| x), array::from_fn_!(|i| i)) }
const C: [u8; 2] = konst::iter::collect_const!(u8 => 0..2);
fn b() -> [u8; 2] { let mut b = array::ArrayBuilder::<u8, 2>::new(); b.push(1); b.push(2); b.build() }
fn main() { let _ = body(); let _ = C; let _ = b(); }
'''

SH_C15 = r'''
struct P { a: String, b: u8 }
struct T(String, u8);
fn body(p: P, t: (String, u8), arr: [String; 3], q: T) -> usize {
    konst::destructure!{P{a, b} = p} konst::destructure!{(x, y) = t} konst::destructure!{[h, rest @ ..] = arr} konst::destructure!{T(u, v) = q}
    a.len() + b as usize + x.len() + y as usize + h.len() + rest.len() + u.len() + v as usize
}
fn cons() -> Vec<String> { let mut c = konst::array::ArrayConsumer::new([String::new(), String::new()]); let mut v = Vec::new(); while let Some(x) = c.next() { v.push(core::mem::ManuallyDrop::into_inner(x)); } v }
fn main() { let _ = body(P { a: String::new(), b: 1 }, (String::new(), 1), [String::new(), String::new(), String::new()], T(String::new(), 1)); let _ = cons(); }
'''

SH_C18 = r'''
fn body(mut p: konst::Parser<'_>) -> u8 { konst::parser_method!{p, strip_prefix; "a" | "b" => 1, "cd" => 2, _ => 0} }
fn b2(mut p: konst::Parser<'_>) -> u8 { konst::parser_method!{p, find_skip; "x" => 1, r#"y"# => 2, _ => 0} }
fn main() { let _ = (body(konst::Parser::new("ab")), b2(konst::Parser::new("ab"))); }
'''

SH_C20 = r'''
use konst::{slice, string};
const A: (&str, &str, [u8; 3]) = (string::str_concat!(&["a", "b"]), string::str_join!(",", &["a", "b"]), slice::slice_concat!(u8, &[&[1], &[2, 3]]));
const B: &str = string::from_iter!(&["a", "b"]);
const C: &str = string::str_concat!(&['a', 'b']);
fn main() { let _ = (A, B, C); }
'''

C02P = ALLOW + r'''
use konst::slice;
fn a<'a>(s: &'a [u8], i: usize) -> (&'a [u8], &'a [u8], &'a [u8]) { (slice::slice_from(s, i), slice::slice_up_to(s, i), slice::slice_range(s, 1, i)) }
fn b<'a>(s: &'a [u8], i: usize) -> (Option<&'a [u8]>, Option<&'a [u8]>, Option<&'a [u8]>, Option<&'a u8>) { (slice::get_from(s, i), slice::get_up_to(s, i), slice::get_range(s, 1, i), slice::get(s, i)) }
fn c<'a>(s: &'a [u8], i: usize) -> (&'a [u8], &'a [u8]) { slice::split_at(s, i) }
fn d<'a>(s: &'a mut [u8], i: usize) -> (&'a mut [u8], &'a mut [u8]) { slice::split_at_mut(s, i) }
fn e<'a>(s: &'a mut [u8], i: usize) -> &'a mut [u8] { slice::slice_from_mut(s, i) }
fn f<'a>(s: &'a mut [u8], i: usize) -> &'a mut [u8] { slice::slice_up_to_mut(s, i) }
fn g<'a>(s: &'a mut [u8], i: usize) -> Option<&'a mut [u8]> { slice::get_range_mut(s, 1, i) }
fn h<'a>(s: &'a mut [u8]) -> Option<(&'a mut u8, &'a mut [u8])> { slice::split_first_mut(s) }
fn arr<'a>(s: &'a [u8]) -> Option<&'a [u8; 2]> { match slice::try_into_array::<u8, 2>(s) { Ok(a) => Some(a), Err(_) => None } }
fn arrm<'a>(s: &'a mut [u8]) -> Option<&'a mut [u8; 2]> { match slice::try_into_array_mut::<u8, 2>(s) { Ok(a) => Some(a), Err(_) => None } }
const D: &[u8] = &[1, 2, 3, 4, 5];
const X: (&[u8], &[u8], Option<&[u8]>, (&[u8], &[u8])) = (slice::slice_from(D, 1), slice::slice_up_to(D, 9), slice::get_range(D, 1, 3), slice::split_at(D, 2));
const CH: (&[[u8; 2]], &[u8]) = slice::as_chunks::<u8, 2>(D);
const fn cf<'a, T>(s: &'a [T], i: usize) -> &'a [T] { slice::slice_range(s, i, usize::MAX) }
const fn cm(mut a: [u8; 3]) -> [u8; 3] { let (l, r) = slice::split_at_mut(&mut a, 1); l[0] += r[1]; a }
struct NotCopy(String);
fn generic<'a>(s: &'a [NotCopy]) -> (&'a [NotCopy], Option<&'a NotCopy>) { (slice::slice_from(s, 1), slice::get(s, 0)) }
fn main() { let mut v = [1u8, 2, 3]; let _ = (a(D, 1), b(D, 1), c(D, 1), X, CH, cf(D, 1), cm([1, 2, 3]), arr(&D[..2])); let _ = d(&mut v, 1); let _ = e(&mut v, 1); let _ = f(&mut v, 1); let _ = g(&mut v, 2); let _ = h(&mut v); let _ = arrm(&mut v[..2]); let _ = generic(&[]); }
'''

C0345P = ALLOW + r'''
use konst::string;
// results borrow the haystack, never the pattern
fn s1<'a>(h: &'a str, p: &str) -> (Option<&'a str>, Option<&'a str>, Option<&'a str>, Option<&'a str>) { (string::find_skip(h, p), string::find_keep(h, p), string::rfind_skip(h, p), string::rfind_keep(h, p)) }
fn s2<'a>(h: &'a str, p: &str) -> (Option<&'a str>, Option<&'a str>) { (string::strip_prefix(h, p), string::strip_suffix(h, p)) }
fn s3<'a>(h: &'a str, p: &str) -> (&'a str, &'a str, &'a str) { (string::trim_start_matches(h, p), string::trim_end_matches(h, p), string::trim_matches(h, p)) }
fn s4<'a>(h: &'a str, c: char) -> (Option<(&'a str, &'a str)>, Option<(&'a str, &'a str)>) { (string::split_once(h, c), string::rsplit_once(h, c)) }
fn s5<'a>(h: &'a str) -> (&'a str, &'a str, &'a str) { (string::trim(h), string::trim_start(h), string::trim_end(h)) }
fn s6<'a>(h: &'a str, i: usize) -> (&'a str, &'a str, &'a str, (&'a str, &'a str)) { (string::str_from(h, i), string::str_up_to(h, i), string::str_range(h, 0, i), string::split_at(h, i)) }
fn s7<'a>(h: &'a str, i: usize) -> (Option<&'a str>, Option<&'a str>, Option<&'a str>) { (string::get_from(h, i), string::get_up_to(h, i), string::get_range(h, 0, i)) }
fn s9(h: &str, n: &String, b: &Box<str>, c: &std::borrow::Cow<'_, str>) -> (Option<usize>, Option<usize>, bool, Option<usize>) { use std::borrow::Borrow; (string::find(h, n.as_ref()), string::rfind(h, b.as_ref()), string::contains(h, c.as_ref()), string::find(h, n.borrow())) }
fn s10<'a>(h: &'a str) -> (&'a str, Option<&'a str>, Option<(&'a str, &'a str)>) { let n = String::from("ab"); (string::trim_matches(h, n.as_str()), string::find_skip(h, n.as_str()), string::split_once(h, n.as_str())) }
fn s8(h: &str, p: &String) -> (Option<usize>, Option<usize>, bool, bool, bool) { let p: &str = p; (string::find(h, p), string::rfind(h, p), string::contains(h, p), string::starts_with(h, p), string::ends_with(h, p)) }
fn b1<'a>(h: &'a [u8], p: &[u8]) -> (Option<&'a [u8]>, Option<&'a [u8]>, &'a [u8], &'a [u8]) { (konst::slice::bytes_strip_prefix(h, p), konst::slice::bytes_find_skip(h, p), konst::slice::bytes_trim(h), konst::slice::bytes_trim_matches(h, p)) }
fn b2(h: &[u8]) -> (Option<usize>, Option<usize>, bool) { (konst::slice::bytes_find(h, b"ab"), konst::slice::bytes_rfind(h, &[1u8, 2][..]), konst::slice::bytes_contain(h, "x")) }
const H: &str = "  aé-b  ";
const C1: (Option<&str>, &str, Option<(&str, &str)>, &str, Option<&str>) = (string::find_skip(H, "é"), string::trim(H), string::split_once(H, '-'), string::str_from(H, 2), string::get_range(H, 2, 5));
const fn cf<'a>(h: &'a str, p: &str) -> &'a str { match string::find_keep(h, p) { Some(r) => string::trim_end_matches(r, ' '), None => h } }
const fn cb(h: &str, i: usize) -> bool { string::is_char_boundary(h, i) }
fn main() { let p = String::from("a"); let _ = s9(H, &p, &Box::from("a"), &std::borrow::Cow::Borrowed("a")); let _ = s10(H); let _ = (s1(H, &p), s2(H, &p), s3(H, &p), s4(H, '-'), s5(H), s6(H, 2), s7(H, 2), s8(H, &p), b1(H.as_bytes(), b" "), b2(b"ab"), C1, cf(H, "a"), cb(H, 3)); }
'''

C121314P = ALLOW + r'''
use konst::{Parser, parsing::{ParseError, ParseValueResult, ErrorKind, ParseDirection}, primitive, result, try_, unwrap_ctx};
const N: (u8, i64, u128, bool) = (unwrap_ctx!(primitive::parse_u8("12")), unwrap_ctx!(primitive::parse_i64("-5")), unwrap_ctx!(primitive::parse_u128("7")), unwrap_ctx!(primitive::parse_bool("true")));
const fn pair(s: &str) -> Result<(u32, u32), ParseError<'_>> {
    let p = Parser::new(s);
    let (a, p) = try_!(p.parse_u32());
    let p = try_!(p.strip_prefix(','));
    let (b, p) = try_!(p.trim_start().parse_u32());
    Ok((a, b))
}
// the remainder and the pieces borrow the parsed string
fn rem<'a>(s: &'a str) -> &'a str { Parser::new(s).trim().remainder() }
fn piece<'a>(s: &'a str, d: &str) -> Option<(&'a str, &'a str)> { match Parser::new(s).split(d) { Ok((x, p)) => Some((x, p.remainder())), Err(_) => None } }
fn rpiece<'a>(s: &'a str) -> Option<&'a str> { match Parser::new(s).rsplit_terminator(';') { Ok((x, _)) => Some(x), Err(_) => None } }
fn keep<'a>(s: &'a str) -> Option<&'a str> { match Parser::new(s).split_keep("=") { Ok((x, _)) => Some(x), Err(_) => None } }
fn short_lived_patterns<'a>(s: &'a str, sep: char) -> (&'a str, &'a str, &'a str, &'a str) {
    let d = sep.to_string();
    let d = d.as_str();
    let p = Parser::new(s);
    let a = match p.split(d) { Ok((x, _)) => x, Err(_) => "" };
    let b = match p.rsplit(d) { Ok((x, _)) => x, Err(_) => "" };
    let c = match p.split_terminator(d) { Ok((x, _)) => x, Err(_) => "" };
    let e = match p.rsplit_terminator(d) { Ok((x, _)) => x, Err(_) => "" };
    let _k = match p.split_keep(d) { Ok((x, _)) => x, Err(_) => "" };
    let r1 = match p.strip_prefix(d) { Ok(q) => q.remainder(), Err(_) => "" };
    let r2 = match p.strip_suffix(d) { Ok(q) => q.remainder(), Err(_) => "" };
    let r3 = p.trim_matches(d).trim_start_matches(d).trim_end_matches(d).remainder();
    let r4 = match p.find_skip(d) { Ok(q) => q.remainder(), Err(_) => "" };
    let r5 = match p.rfind_skip(d) { Ok(q) => q.remainder(), Err(_) => "" };
    let _ = (c, e, r1, r2, r4, r5);
    (a, b, r3, r4)
}
fn copyable(p: Parser<'_>) -> (usize, usize) { let q = p; (p.start_offset(), q.end_offset()) }
fn err_of<'a>(s: &'a str) -> Option<(usize, ParseDirection, ErrorKind)> { match Parser::with_start_offset(s, 4).rfind_skip("zz") { Ok(_) => None, Err(e) => { let e2 = e.copy(); Some((e2.offset(), e.error_direction(), e.kind())) } } }
const fn all_ops(p: Parser<'_>) -> Parser<'_> { p.skip(1).skip_back(1).trim().trim_start().trim_end().trim_matches('x').trim_start_matches("y").trim_end_matches('z') }
const fn fallible(p: Parser<'_>) -> Result<Parser<'_>, ParseError<'_>> { let p = try_!(p.find_skip("a")); let p = try_!(p.rfind_skip('b')); let p = try_!(p.strip_suffix("c")); Ok(p) }
const fn pv(p: Parser<'_>) -> ParseValueResult<'_, i8> { p.parse_i8() }
mod shadowed { type Result<T> = core::result::Result<T, ()>; type Option = (); pub fn f(p: konst::Parser<'_>) -> bool { konst::parse_with!(p, u16).is_ok() } }
const P: Result<(u32, u32), ParseError<'static>> = pair("3, 4");
fn main() { let _ = short_lived_patterns("a,b", ','); let _ = (N, pair("1,2").is_ok(), rem(" a "), piece("a-b", "-"), rpiece("a;b;"), keep("k=v"), copyable(Parser::new("ab")), err_of("abc"), all_ops(Parser::new("xyz")).remainder(), fallible(Parser::new("abc")).is_ok(), pv(Parser::new("-3")).is_ok(), P.is_ok(), shadowed::f(Parser::new("1"))); }
'''

C16P = ALLOW + r'''
macro_rules! matches { ($($t:tt)*) => { compile_error!("user matches") }; }
macro_rules! assert { ($($t:tt)*) => { compile_error!("user assert") }; }
macro_rules! panic { ($($t:tt)*) => { compile_error!("user panic") }; }
macro_rules! unreachable { ($($t:tt)*) => { compile_error!("user unreachable") }; }
use core::cmp::Ordering;
use konst::{const_cmp, const_cmp_for, const_eq, const_eq_for, assertc_eq, assertc_ne, string, slice};
const S1: &[u8] = &[1, 2];
const S2: &[u8] = &[1, 3];
const A: (bool, Ordering, bool, Ordering) = (const_eq!("a", "a"), const_cmp!(1u8, 2u8), const_eq!(Some(3i64), None), const_cmp!(S1, S2));
const B: (bool, Ordering) = (const_eq_for!(slice; S1, S1), const_cmp_for!(slice; S1, S2));
const C: (bool, Ordering) = (const_eq_for!(option; Some(1u8), Some(1u8)), const_cmp_for!(option; None::<u8>, Some(1u8)));
const D: (bool, Ordering, bool, Ordering) = (string::eq_str("a", "b"), string::cmp_str("a", "b"), slice::eq_bytes(b"a", b"a"), slice::cmp_bytes(b"a", b"b"));
const E: (bool, Ordering, bool) = (konst::slice::cmp::eq_slice_u16(&[1], &[1]), konst::slice::cmp::cmp_slice_i128(&[-1], &[1]), konst::slice::cmp::eq_slice_str(&["a"], &["a"]));
const F: (bool, Ordering) = (konst::eq_option_str(Some("a"), Some("a")), konst::cmp_option_str(None, Some("a")));
const _: () = { assertc_eq!("a", "a"); assertc_ne!(1u8, 2u8); };
const fn user_cmp(a: &(u8, &str), b: &(u8, &str)) -> Ordering { konst::try_equal!(const_cmp!(a.0, b.0)); const_cmp!(a.1, b.1) }
const T1: &[(u8, &str)] = &[(1u8, "a")];
const T2: &[(u8, &str)] = &[(1u8, "b")];
const G: Ordering = const_cmp_for!(slice; T1, T2, user_cmp);
const H: (u8, &str) = (konst::min!(3u8, 4), konst::max_by_key!("ab", "c", |s| s.len()));
fn main() { let _ = (A, B, C, D, E, F, G, H); }
'''

SHADOW_TYPES = '#![allow(unused, non_camel_case_types, non_snake_case, non_upper_case_globals)]\n' + r'''// user items named like std's: modules, types, variants, functions
mod core {}
mod std {}
mod alloc {}
mod konst_kernel {}
type Result<T> = ::core::result::Result<T, ()>;
struct Option;
struct Vec;
struct String;
struct Box;
struct Ordering;
struct PhantomData;
struct ManuallyDrop;
struct MaybeUninit;
fn drop() {}
fn forget() {}
'''

SH_ALL = r'''use konst::{array, iter, option, result, slice, string};
fn c19() {
    let _ = konst::min!(1u8, 2); let _ = konst::max_by_key!(1u8, 2, |x| *x); let _ = konst::min_by!(1u8, 2, |a, b| konst::const_cmp!(*a, *b));
    let _ = option::unwrap_or!(::core::option::Option::Some(1u8), 2); let _ = option::map!(::core::option::Option::Some(1u8), |x| x + 1);
    let _ = result::unwrap_or!(::core::result::Result::<u8, u8>::Ok(1), 2); let _ = result::map_err!(::core::result::Result::<u8, u8>::Ok(1), |x| x + 1);
}
fn c16() { let _ = (konst::const_eq!("a", "a"), konst::const_cmp!(1u8, 2u8), konst::const_cmp_for!(option; ::core::option::Option::Some(1u8), ::core::option::Option::None::<u8>), konst::const_eq_for!(slice; &[1u8][..], &[1u8][..])); }
fn c10(xs: &[u8]) { let _ = iter::eval!(xs, copied(), filter(|x| *x > 1), map(|x| x * 2), rev(), take(2), fold(0u8, |a, x| a + x)); let _ = iter::eval!(xs, position(|x| *x == 2)); let _ = iter::eval!(xs, enumerate(), zip(0u8..), count()); }
const COLL: [u8; 2] = iter::collect_const!(u8 => &[1u8, 2, 3], copied(), filter(|x| *x != 2));
fn c11() { let _ = (array::map!([1u8, 2, 3], |x| x + 1), array::from_fn!(|i| i) as [usize; 2], array::map_!([1u8, 2], |x| x), array::from_fn_!(|i| i) as [usize; 2]); }
struct P { a: u16, b: u8 }
fn c15(p: P, t: (u16, u8), arr: [u16; 3]) -> usize { konst::destructure!{P{a, b} = p} konst::destructure!{(x, y) = t} konst::destructure!{[h, rest @ ..] = arr} a as usize + b as usize + x as usize + y as usize + h as usize + rest.len() }
fn c18(mut p: konst::Parser<'_>) -> u8 { konst::parser_method!{p, strip_prefix; "a" | "b" => 1, "cd" => 2, _ => 0} }
const C20: (&str, &str, [u8; 3]) = (string::str_concat!(&["a", "b"]), string::str_join!(",", &["a", "b"]), slice::slice_concat!(u8, &[&[1], &[2, 3]]));
fn c12(p: konst::Parser<'_>) -> bool { konst::parse_with!(p, u8).is_ok() }
const U: u8 = konst::unwrap_ctx!(konst::primitive::parse_u8("12"));
fn main() { c19(); c16(); c10(&[1, 2, 3]); c11(); let _ = c15(P { a: 1, b: 2 }, (1, 2), [1, 2, 3]); let _ = c18(konst::Parser::new("ab")); let _ = c12(konst::Parser::new("1")); let _ = (COLL, C20, U); }
'''

PROGRAMS = {
    "C02": {"results_borrow_the_slice_and_are_const": C02P},
    "C03": {"results_borrow_the_haystack_and_are_const": C0345P},
    "C04": {"results_borrow_the_haystack_and_are_const": C0345P},
    "C05": {"results_borrow_the_haystack_and_are_const": C0345P},
    "C12": {"user_items_named_like_std_modules_and_types": SHADOW_TYPES + SH_ALL, "parser_results_borrow_the_input_and_are_const": C121314P},
    "C13": {"parser_results_borrow_the_input_and_are_const": C121314P},
    "C14": {"parser_results_borrow_the_input_and_are_const": C121314P},
    "C16": {"user_items_named_like_std_modules_and_types": SHADOW_TYPES + SH_ALL, "comparison_macros_in_consts_with_user_macros_named_like_std_macros": C16P},
    "C06": {"remainder_and_pieces_outlive_the_iterator": C06},
    "C07": {"as_str_and_items_outlive_the_iterator": C07},
    "C08": {"remainder_as_slice_and_items_outlive_the_iterator": C08},
    "C10": {"user_items_named_like_std_modules_and_types": SHADOW_TYPES + SH_ALL, "adapter_arguments_may_borrow_temporaries": C10, "user_macros_named_like_std_macros": SHADOW + SH_C10},
    "C11": {"user_items_named_like_std_modules_and_types": SHADOW_TYPES + SH_ALL, "user_macros_named_like_std_macros": SHADOW + SH_C11},
    "C15": {"user_items_named_like_std_modules_and_types": SHADOW_TYPES + SH_ALL, "user_macros_named_like_std_macros": SHADOW + SH_C15},
    "C18": {"user_items_named_like_std_modules_and_types": SHADOW_TYPES + SH_ALL, "user_macros_named_like_std_macros": SHADOW + SH_C18},
    "C19": {"user_items_named_like_std_modules_and_types": SHADOW_TYPES + SH_ALL, "user_macros_named_like_std_macros": SHADOW + SH_C19},
    "C20": {"user_items_named_like_std_modules_and_types": SHADOW_TYPES + SH_ALL, "user_macros_named_like_std_macros": SHADOW + SH_C20},
}



# programs that MUST be rejected: a result may not outlive what it borrows from (family <prop>.sigfail)
def _fail(body):
    return ALLOW + body + "\nfn main() {}\n"


MUST_FAIL = {
    "C02": {
        "as_chunks_of_a_local": _fail("fn f() -> &'static [[u8; 2]] { let v = vec![1u8, 2, 3, 4]; konst::slice::as_chunks::<u8, 2>(&v).0 }"),
        "as_rchunks_remainder_of_a_local": _fail("fn f() -> &'static [u8] { let v = vec![1u8, 2, 3]; konst::slice::as_rchunks::<u8, 2>(&v).0 }"),
        "slice_from_of_a_local": _fail("fn f() -> &'static [u8] { let v = vec![1u8, 2, 3]; konst::slice::slice_from(&v, 1) }"),
        "split_at_mut_aliasing": _fail("fn f(v: &mut [u8]) { let (a, b) = konst::slice::split_at_mut(v, 1); v[0] = 1; a[0] = b[0]; }"),
        "try_into_array_of_a_local": _fail("fn f() -> &'static [u8; 2] { let v = vec![1u8, 2]; konst::slice::try_into_array::<u8, 2>(&v).unwrap() }"),
    },
    "C03": {
        "str_from_of_a_local": _fail("fn f() -> &'static str { let s = String::from(\"abc\"); konst::string::str_from(&s, 1) }"),
        "get_range_of_a_local": _fail("fn f() -> Option<&'static str> { let s = String::from(\"abc\"); konst::string::get_range(&s, 0, 1) }"),
        "split_at_of_a_local": _fail("fn f() -> &'static str { let s = String::from(\"abc\"); konst::string::split_at(&s, 1).1 }"),
    },
    "C04": {
        "find_skip_of_a_local": _fail("fn f() -> Option<&'static str> { let s = String::from(\"abc\"); konst::string::find_skip(&s, \"a\") }"),
        "rfind_keep_of_a_local": _fail("fn f() -> Option<&'static str> { let s = String::from(\"abc\"); konst::string::rfind_keep(&s, 'a') }"),
        "split_once_of_a_local": _fail("fn f() -> Option<(&'static str, &'static str)> { let s = String::from(\"a=b\"); konst::string::split_once(&s, '=') }"),
    },
    "C05": {
        "trim_matches_of_a_local": _fail("fn f() -> &'static str { let s = String::from(\"abc\"); konst::string::trim_matches(&s, \"a\") }"),
        "strip_prefix_of_a_local": _fail("fn f() -> Option<&'static str> { let s = String::from(\"abc\"); konst::string::strip_prefix(&s, 'a') }"),
        "bytes_trim_of_a_local": _fail("fn f() -> &'static [u8] { let s = vec![32u8, 1]; konst::slice::bytes_trim(&s) }"),
    },
    "C06": {
        "remainder_of_a_local": _fail("fn f() -> &'static str { let s = String::from(\"a,b\"); konst::string::split(&s, \",\").remainder() }"),
        "piece_of_a_local": _fail("fn f() -> &'static str { let s = String::from(\"a,b\"); konst::string::rsplit(&s, ',').next().unwrap().0 }"),
    },
    "C07": {
        "as_str_of_a_local": _fail("fn f() -> &'static str { let s = String::from(\"ab\"); konst::string::chars(&s).as_str() }"),
        "char_indices_as_str_of_a_local": _fail("fn f() -> &'static str { let s = String::from(\"ab\"); konst::string::char_indices(&s).next().unwrap().1.as_str() }"),
    },
    "C08": {
        "remainder_of_a_local": _fail("fn f() -> &'static [u8] { let v = vec![1u8, 2, 3]; konst::slice::array_chunks::<u8, 2>(&v).remainder() }"),
        "window_of_a_local": _fail("fn f() -> &'static [u8] { let v = vec![1u8, 2, 3]; konst::slice::windows(&v, 2).next().unwrap().0 }"),
        "as_slice_of_a_local": _fail("fn f() -> &'static [u8] { let v = vec![1u8, 2, 3]; konst::slice::iter(&v).as_slice() }"),
    },
    "C13": {
        "remainder_of_a_local": _fail("fn f() -> &'static str { let s = String::from(\"ab\"); konst::Parser::new(&s).trim().remainder() }"),
        "piece_of_a_local": _fail("fn f() -> &'static str { let s = String::from(\"a,b\"); konst::Parser::new(&s).split(',').unwrap().0 }"),
    },
    "C15": {
        # a reference is not the aggregate: moving the fields out of `&mut S` / `&S` would duplicate them
        "destructure_braced_from_mut_ref": _fail("struct P { a: String, b: String }\nfn f(p: &mut P) -> (String, String) { konst::destructure!{P{a, b} = p} (a, b) }"),
        "destructure_braced_from_mut_ref_expr": _fail("struct P { a: String, b: String }\nfn f(mut p: P) -> (String, String) { konst::destructure!{P{a, b} = &mut p} (a, b) }"),
        "destructure_tuple_struct_from_mut_ref": _fail("struct T(String, String);\nfn f(mut p: T) -> (String, String) { konst::destructure!{T(a, b) = &mut p} (a, b) }"),
        "destructure_tuple_from_mut_ref": _fail("fn f(mut p: (String, String)) -> (String, String) { konst::destructure!{(a, b): &mut (String, String) = &mut p} (a, b) }"),
        "destructure_tuple_from_mut_ref_untyped": _fail("fn f(mut p: (String, String)) -> (String, String) { konst::destructure!{(a, b) = &mut p} (a, b) }"),
        "destructure_array_from_mut_ref": _fail("fn f(mut p: [String; 2]) -> (String, String) { konst::destructure!{[a, b] = &mut p} (a, b) }"),
        "destructure_array_from_mut_ref_typed": _fail("fn f(mut p: [String; 2]) -> (String, String) { konst::destructure!{[a, b]: &mut [String; 2] = &mut p} (a, b) }"),
        "destructure_generic_const_fn_from_mut_ref": _fail("struct P<T> { a: T, b: T }\nconst fn f<T>(p: &mut P<T>) -> (T, T) { konst::destructure!{P{a, b}: &mut P<T> = p} (a, b) }"),
        "destructure_type_path_from_mut_ref": _fail("struct P<T> { a: T, b: T }\nfn f(mut p: P<String>) -> (String, String) { konst::destructure!{P<String>, {a, b} = &mut p} (a, b) }"),
        "destructure_braced_from_shared_ref": _fail("struct P { a: String, b: String }\nfn f(p: &P) -> (String, String) { konst::destructure!{P{a, b} = p} (a, b) }"),
        "destructure_tuple_struct_from_shared_ref": _fail("struct T(String, String);\nfn f(p: &T) -> (String, String) { konst::destructure!{T(a, b) = p} (a, b) }"),
        "destructure_array_from_shared_ref": _fail("fn f(p: &[String; 2]) -> (String, String) { konst::destructure!{[a, b] = p} (a, b) }"),
        "destructure_box_is_not_the_struct": _fail("struct P { a: String, b: String }\nfn f(p: Box<P>) -> (String, String) { konst::destructure!{P{a, b} = p} (a, b) }"),
        "destructure_drop_type_braced": _fail("struct P { a: String, b: String }\nimpl Drop for P { fn drop(&mut self) {} }\nfn f(p: P) -> (String, String) { konst::destructure!{P{a, b} = p} (a, b) }"),
        "destructure_drop_type_tuple_struct": _fail("struct T(String, String);\nimpl Drop for T { fn drop(&mut self) {} }\nfn f(p: T) -> (String, String) { konst::destructure!{T(a, b) = p} (a, b) }"),
    },
    "C20": {
        "to_bytes_of_a_local": _fail("fn f() -> &'static [u8] { let v = vec![97u8, 0]; let c = konst::ffi::cstr::from_bytes_until_nul(&v).unwrap(); konst::ffi::cstr::to_bytes(c) }"),
    },
}


def produce_for(prop, tier, seed, release, out_path):
    progs = PROGRAMS.get(prop, {})
    fails = MUST_FAIL.get(prop, {})
    crate = "sig_" + prop.lower()
    names = sorted(progs)
    fnames = sorted(fails)
    bins = {"%s_%d" % (crate, k): progs[n] for k, n in enumerate(names)}
    bins.update({"%s_f%d" % (crate, k): fails[n] for k, n in enumerate(fnames)})
    common.make_crate(crate, bins)
    res, err = common.check_bins(crate)
    if err:
        return err
    with open(out_path, "w") as f:
        for k, n in enumerate(names):
            b = "%s_%d" % (crate, k)
            errs = res.get(b)
            if errs is None:
                imp = "REJECTED (no verdict from cargo check)"
            elif errs:
                imp = "REJECTED " + errs[0].replace("\t", " ").replace("\n", " ")[:200]
            else:
                imp = "compiles"
            f.write("%s.sig\t%d x%s\t%s\t-\tvalid-program\n" % (prop.lower(), k, n.encode().hex(), imp))
        for k, n in enumerate(fnames):
            b = "%s_f%d" % (crate, k)
            errs = res.get(b)
            if errs is None:
                imp = "no verdict from cargo check"
            elif errs:
                imp = "rejected"
            else:
                imp = "COMPILES (a program that must be rejected: a result outlives what it borrows from, or a value is moved out twice)"
            f.write("%s.sigfail\t%d x%s\t%s\t-\tmust-fail\n" % (prop.lower(), k, n.encode().hex(), imp))
    return ""
