"""C15 producer: destructure! programs.

Every case builds a value out of ledger elements (identities 1, 2, ... in construction
order; zero-sized ledger types carry fixed identities >= 901), destructures it with one
pattern shape and reports
    imm   = identities dropped while the destructure! statement ran   (`_` and `..`)
    bound = the variables it declared, in order, with the identities each one owns
            (payloads are checked bit-for-bit through the new variables)
    end   = identities dropped when the scope ended
The model column is coq/Model/Destructure.v on the same (kind, shape, pattern).

value AST : ("E", id) | ("Z", id) | ("u8",) | ("tup", [v]) | ("ts", [v]) | ("bs", [v]) |
            ("pk", [v]) | ("arr", [v])
pattern   : "b" | "_" | "rb" | "rs" | ("n", [p])      (field order = order of the list)
"""
import itertools
import random

from . import common

CRATE = "c15gen"

FIELDS = "abcdefghijklmnop"

LEDGER = r'''
use std::cell::{Cell, RefCell};
thread_local! { static LOG: RefCell<Vec<i64>> = RefCell::new(Vec::new()); }
fn mix(id: u32) -> u64 { (id as u64).wrapping_mul(0x9E37_79B9_7F4A_7C15) ^ 0xA5A5_5A5A_0F0F_F0F0 }
fn take_log() -> Vec<i64> { LOG.with(|l| std::mem::take(&mut *l.borrow_mut())) }
fn logd(x: i64) { LOG.with(|l| l.borrow_mut().push(x)); }
pub struct E { id: u32, pay: u64 }
impl E { fn new(id: u32) -> E { E { id, pay: mix(id) } } }
impl Drop for E { fn drop(&mut self) { logd(if self.pay == mix(self.id) { self.id as i64 } else { -(self.id as i64) - 1_000_000 }); } }
pub struct Z901; impl Drop for Z901 { fn drop(&mut self) { logd(901); } }
pub struct Z902; impl Drop for Z902 { fn drop(&mut self) { logd(902); } }
pub trait Ids { fn ids(&self, out: &mut Vec<i64>); }
impl Ids for E { fn ids(&self, out: &mut Vec<i64>) { out.push(if self.pay == mix(self.id) { self.id as i64 } else { -(self.id as i64) - 1_000_000 }); } }
impl Ids for Z901 { fn ids(&self, out: &mut Vec<i64>) { out.push(901); } }
impl Ids for Z902 { fn ids(&self, out: &mut Vec<i64>) { out.push(902); } }
impl Ids for u8 { fn ids(&self, out: &mut Vec<i64>) { if *self != 0xA7 { out.push(-7); } } }
impl<T: Ids, const N: usize> Ids for [T; N] { fn ids(&self, out: &mut Vec<i64>) { for x in self { x.ids(out); } } }
fn ids_of<T: Ids>(x: &T) -> Vec<i64> { let mut v = Vec::new(); x.ids(&mut v); v }
fn show_ids(l: &[i64]) -> String { show_list(l.iter(), |v| v.to_string()) }
'''


def type_defs():
    out = []
    # tuples up to 16
    for n in range(0, 17):
        ps = ["T%d" % i for i in range(n)]
        body = " ".join("self.%d.ids(out);" % i for i in range(n))
        out.append("impl<%s> Ids for (%s) { fn ids(&self, out: &mut Vec<i64>) { %s } }" % (
            ", ".join(p + ": Ids" for p in ps), "".join(p + ", " for p in ps), body))
    for n in range(0, 17):
        ps = ["T%d" % i for i in range(n)]
        gen = ("<%s>" % ", ".join(ps)) if n else ""
        geni = ("<%s>" % ", ".join(p + ": Ids" for p in ps)) if n else ""
        out.append("pub struct Ts%d%s(%s);" % (n, gen, ", ".join("pub " + p for p in ps)))
        out.append("impl%s Ids for Ts%d%s { fn ids(&self, out: &mut Vec<i64>) { %s } }" % (
            geni, n, gen, " ".join("self.%d.ids(out);" % i for i in range(n))))
        fl = ", ".join("pub %s: %s" % (FIELDS[i], ps[i]) for i in range(n))
        out.append("pub struct Bs%d%s { %s }" % (n, gen, fl))
        out.append("impl%s Ids for Bs%d%s { fn ids(&self, out: &mut Vec<i64>) { %s } }" % (
            geni, n, gen, " ".join("self.%s.ids(out);" % FIELDS[i] for i in range(n))))
        if 1 <= n <= 4:
            out.append("#[repr(packed)] pub struct Pk%d%s { %s }" % (n, gen, fl))
    return "\n".join(out)


def ty(v):
    k = v[0]
    if k == "E":
        return "E"
    if k == "Z":
        return "Z%d" % v[1]
    if k == "u8":
        return "u8"
    if k == "tup":
        return "(" + "".join(ty(x) + ", " for x in v[1]) + ")"
    if k == "arr":
        return "[%s; %d]" % (ty(v[1][0]) if v[1] else "E", len(v[1]))
    name = {"ts": "Ts", "bs": "Bs", "pk": "Pk"}[k]
    n = len(v[1])
    return "%s%d%s" % (name, n, ("<" + ", ".join(ty(x) for x in v[1]) + ">") if n else "")


def expr(v):
    k = v[0]
    if k == "E":
        return "E::new(%d)" % v[1]
    if k == "Z":
        return "Z%d" % v[1]
    if k == "u8":
        return "0xA7u8"
    if k == "tup":
        return "(" + "".join(expr(x) + ", " for x in v[1]) + ")"
    if k == "arr":
        return "[" + ", ".join(expr(x) for x in v[1]) + "]"
    n = len(v[1])
    if k == "ts":
        return "Ts%d(%s)" % (n, ", ".join(expr(x) for x in v[1]))
    nm = "Bs" if k == "bs" else "Pk"
    return "%s%d { %s }" % (nm, n, ", ".join("%s: %s" % (FIELDS[i], expr(x)) for i, x in enumerate(v[1])))


def shape(v):
    k = v[0]
    if k in ("E", "Z"):
        return str(v[1])
    if k == "u8":
        return "[]"
    return "[" + ",".join(shape(x) for x in v[1]) + "]"


def pat_code(p):
    if p == "b":
        return "1"
    if p == "_":
        return "0"
    if p == "rb":
        return "2"
    if p == "rs":
        return "3"
    return "[" + ",".join(pat_code(x) for x in p[1]) + "]"


class Namer:
    def __init__(self):
        self.vars = []

    def fresh(self):
        n = "v%d" % len(self.vars)
        self.vars.append(n)
        return n


def nested_pat(p, v, nm):
    """an ordinary Rust pattern for value v (used below the top level)"""
    if p == "b":
        return nm.fresh()
    if p == "_":
        return "_"
    subs = v[1]
    k = v[0]
    parts = [nested_pat(q, s, nm) for q, s in zip(p[1], subs)]
    if k == "tup":
        return "(" + "".join(x + ", " for x in parts) + ")"
    if k == "arr":
        return "[" + ", ".join(parts) + "]"
    if k == "ts":
        return "Ts%d(%s)" % (len(subs), ", ".join(parts))
    return "Bs%d { %s }" % (len(subs), ", ".join("%s: %s" % (FIELDS[i], x) for i, x in enumerate(parts)))


def top_pat(kind, order, pats, vals, nm, shorthand):
    """the pattern part of destructure!{ PAT = value }.
    order: for braced/packed structs, the field indices in the order the user lists them;
    pats/vals are already in that order."""
    if kind == "tup":
        return "(" + ", ".join(nested_pat(p, v, nm) for p, v in zip(pats, vals)) + ("," if len(pats) == 1 else "") + ")"
    if kind == "ts":
        return "Ts%d(%s)" % (len(pats), ", ".join(nested_pat(p, v, nm) for p, v in zip(pats, vals)))
    if kind in ("bs", "pk"):
        parts = []
        for fi, p, v in zip(order, pats, vals):
            f = FIELDS[fi]
            if p == "b" and shorthand:
                # `field` shorthand binds a variable named like the field
                nm.vars.append(f)
                parts.append(f)
            else:
                parts.append("%s: %s" % (f, nested_pat(p, v, nm)))
        return "%s%d { %s }" % ("Bs" if kind == "bs" else "Pk", len(pats), ", ".join(parts))
    # array: elements are single token trees: ident, `_`, `..`, `name @ ..`, or (pattern)
    parts = []
    vi = 0
    nrest = len(vals) - (len(pats) - 1)
    for p in pats:
        if p == "rb":
            parts.append("%s @ .." % nm.fresh())
            vi += nrest
        elif p == "rs":
            parts.append("..")
            vi += nrest
        else:
            if p == "b":
                parts.append(nm.fresh())
            elif p == "_":
                parts.append("_")
            else:
                parts.append("(" + nested_pat(p, vals[vi], nm) + ")")
            vi += 1
    return "[" + ", ".join(parts) + "]"


KIND_CODE = {"tup": 0, "ts": 1, "bs": 2, "pk": 3, "arr": 4}


class Ctr:
    def __init__(self):
        self.n = 0

    def e(self):
        self.n += 1
        return ("E", self.n)


def masks(n, full_upto=4):
    if n <= full_upto:
        return [list(m) for m in itertools.product("b_", repeat=n)]
    alt = ["b" if i % 2 == 0 else "_" for i in range(n)]
    alt2 = ["_" if i % 2 == 0 else "b" for i in range(n)]
    first = ["_"] + ["b"] * (n - 1)
    last = ["b"] * (n - 1) + ["_"]
    return [["b"] * n, ["_"] * n, alt, alt2, first, last]


def gen_cases(tier, seed):
    """list of (kind, order, vals(in declaration order), pats(in user order), annotate, shorthand)"""
    cases = []
    rng = random.Random(seed * 31 + 15)

    def leaves(n):
        c = Ctr()
        return [c.e() for _ in range(n)]

    # tuples 0..16, tuple structs 0..16, braced 0..16 (declaration order)
    for n in range(0, 17):
        for m in masks(n):
            cases.append(("tup", None, leaves(n), m, n in (2, 5), False))
            cases.append(("ts", None, leaves(n), m, False, False))
            cases.append(("bs", list(range(n)), leaves(n), m, n == 3, n % 2 == 0))
    # braced and packed structs: every field order x every mask
    for n in (2, 3):
        for order in itertools.permutations(range(n)):
            for m in masks(n):
                for sh in (False, True):
                    cases.append(("bs", list(order), leaves(n), m, False, sh))
    for n in (1, 2, 3, 4):
        orders = list(itertools.permutations(range(n))) if n <= 3 else [tuple(range(4)), (3, 1, 0, 2)]
        for order in orders:
            for m in masks(n):
                # first field is a u8 so that the ledger fields sit at odd addresses
                c = Ctr()
                vals = [("u8",)] + [c.e() for _ in range(n - 1)]
                cases.append(("pk", list(order), vals, m, False, True))
    # arrays: no rest
    for n in range(0, 5):
        for m in masks(n, 3):
            cases.append(("arr", None, leaves(n), m, n == 2, False))
    # arrays with a rest pattern: every prefix/suffix split, both rest kinds
    maxn = 5 if tier == "quick" else 6
    for n in range(0, maxn + 1):
        for pre in range(0, n + 1):
            for suf in range(0, n - pre + 1):
                for rest in ("rb", "rs"):
                    for pm in masks(pre, 2):
                        for sm in masks(suf, 2):
                            cases.append(("arr", None, leaves(n), pm + [rest] + sm, False, False))
    # zero-sized and generic fields
    z1, z2 = ("Z", 901), ("Z", 902)
    for m in masks(3):
        cases.append(("tup", None, [z1, ("E", 1), z2], m, False, False))
        cases.append(("bs", [2, 0, 1], [z1, ("E", 1), z2], m, False, True))
        cases.append(("ts", None, [("E", 1), z1, ("E", 2)], m, False, False))
        cases.append(("pk", [0, 1, 2], [("u8",), z1, ("E", 1)], m, False, False))
    for pre in range(0, 3):
        for rest in ("rb", "rs"):
            cases.append(("arr", None, [z1] * 4, ["b"] * pre + [rest] + ["_"], False, False))
    # nested values: bound whole, dropped whole, or taken apart by a nested pattern
    def nested_values():
        c = Ctr()
        return [
            ("tup", [c.e(), c.e()]),
            ("ts", [c.e(), c.e()]),
            ("bs", [c.e(), c.e()]),
            ("arr", [c.e(), c.e()]),
            c.e(),
        ]
    sub = ["b", "_", ("n", ["b", "_"]), ("n", ["_", "b"]), ("n", ["b", "b"]), ("n", ["_", "_"])]
    for top in ("tup", "ts", "bs"):
        for which in range(4):
            for sp in sub:
                for other in ("b", "_"):
                    vals = nested_values()
                    vs = [vals[which], vals[4]]
                    cases.append((top, [0, 1] if top == "bs" else None, vs, [sp, other], False, False))
    for sp in sub:
        for rest in ("rb", "rs", None):
            c = Ctr()
            vs = [("tup", [c.e(), c.e()]) for _ in range(3)]
            pats = [sp] + ([rest] if rest else ["b", "_"])
            cases.append(("arr", None, vs, pats, False, False))
    # two levels
    c = Ctr()
    deep = ("tup", [("bs", [c.e(), ("arr", [c.e(), c.e()])]), c.e()])
    for p in (("n", [("n", ["b", ("n", ["_", "b"])]), "_"]), ("n", [("n", ["_", "b"]), "b"]), ("n", ["b", "b"])):
        cases.append(("tup", None, [deep, ("E", 9)], [p, "b"], False, False))
    # seeded random wide tuples / structs
    for _ in range(40 if tier == "quick" else 400):
        n = rng.randint(5, 16)
        m = [rng.choice("b_") for _ in range(n)]
        k = rng.choice(["tup", "ts", "bs"])
        order = list(range(n))
        if k == "bs":
            rng.shuffle(order)
        cases.append((k, order if k == "bs" else None, leaves(n), m, False, rng.random() < 0.5))
    return cases


def case_code(i, case):
    kind, order, decl_vals, pats, annotate, shorthand = case
    whole = (kind, decl_vals)
    if kind in ("bs", "pk"):
        vals = [decl_vals[j] for j in order]      # the order the pattern lists the fields in
    else:
        vals = decl_vals
    nm = Namer()
    pat = top_pat(kind, order, pats, vals, nm, shorthand)
    ann = (": " + ty(whole)) if annotate else ""
    args = "%d [%s] [%s]" % (KIND_CODE[kind], ",".join(shape(v) for v in vals), ",".join(pat_code(p) for p in pats))
    tag = []
    if "_" in pat_code_flat(pats):
        tag.append("under")
    if any(p in ("rb", "rs") for p in pats):
        tag.append("rest")
    if any(isinstance(p, tuple) for p in pats):
        tag.append("nested")
    if kind == "pk":
        tag.append("packed")
    if any(v[0] == "Z" for v in decl_vals):
        tag.append("zst")
    if kind in ("bs", "pk") and order != sorted(order):
        tag.append("reordered")
    bound = ", ".join("ids_of(&%s)" % v for v in nm.vars)
    return """fn case_%(i)d() {
    let value: %(ty)s = %(expr)s;
    take_log();
    let imm; let bound: Vec<Vec<i64>>;
    {
        konst::destructure!{ %(pat)s%(ann)s = value }
        imm = take_log();
        bound = vec![%(bound)s];
    }
    let end = take_log();
    emit("c15.destructure", "%(args)s",
         fields(&[("imm", show_ids(&imm)), ("bound", show_list(bound.iter(), |b| show_ids(b))), ("end", show_ids(&end))]),
         "%(tag)s");
}
""" % {"i": i, "ty": ty(whole), "expr": expr(whole), "pat": pat, "ann": ann, "bound": bound, "args": args,
       "tag": "+".join(tag) or "-"}


def pat_code_flat(pats):
    out = []
    for p in pats:
        if isinstance(p, tuple):
            out += pat_code_flat(p[1])
        else:
            out.append(p)
    return out


MAIN = common.PRELUDE + LEDGER + """
%(types)s
fn emit(fam: &str, args: &str, imp: String, tag: &str) {
    println!("{}\\t{}\\t{}\\t-\\t{}", fam, args, imp, tag);
}
%(cases)s
fn main() {
%(calls)s
}
"""


def produce(tier, seed, release, out_path):
    cases = gen_cases(tier, seed)
    seen = set()
    uniq = []
    for c in cases:
        key = repr(c)
        if key not in seen:
            seen.add(key)
            uniq.append(c)
    code = [case_code(i, c) for i, c in enumerate(uniq)]
    src = MAIN % {"types": type_defs(), "cases": "\n".join(code),
                  "calls": "\n".join("    case_%d();" % i for i in range(len(uniq)))}
    common.make_crate(CRATE, {CRATE + "_main": src})
    err = common.build(CRATE, release=False)
    if err:
        return err
    return common.run_bin(CRATE, CRATE + "_main", [], out_path, release=False, timeout=300, append=False)
