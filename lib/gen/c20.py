"""C20 producer: the concat/join macros take CONSTANT arguments, so every case is a macro
invocation in a generated program (crate c20gen, bins c20_macros_<k> and c20_macros_rand).

For every generated argument list the program prints one five-column line
    family \t args \t impl \t std \t tag
where impl = the macro's result, std = what <[&str]>::concat / join / collect::<String> /
<[&[T]]>::concat return on the same list, and args is rendered BY THE PROGRAM from the very
constant the macro received (pieces as hex byte strings / chars as u32), so the model is
fed what rustc saw, not what this script believes it wrote.

Enumeration (bounded-exhaustive; L = 4 in the quick tier, 5 in the thorough tier):
  c20.concat     str pieces: every list of 0..=L pieces over {"", "a", "é", "🧠x"} (341 / 1365);
                 char pieces: every list of 0..=L chars over {a, é, 个, 🧠} + every UTF-8
                 length boundary; argument forms: inline literal (an inline empty list takes the
                 macro's literal-[] arm), named `&[T]` constant, named `&[T; N]` constant,
                 `&[x; 0]`, const fn call
  c20.join       10 separators (str: "", ",", "é", "-_-", "🧠", "é,"; char: ',', 'é', '个', '🧠')
                 x every list of 0..=4 pieces (3410); thorough adds the 5-piece lists with three
                 rotating separators each
  c20.from_iter  the same lists as iterators: by reference, named constant, copied(),
                 map(|x| *x), plus char ranges across every UTF-8 length boundary and the
                 surrogate gap, flat_map / filter / rev / skip / take / zip forms whose items are
                 computed by std
  c20.slice_concat  every list of 0..=L slices over {[], [1], [2,3], [4,5,6]} as u8 and over
                 {[], [-1], [7,-300]} as i16, all argument forms
plus a seeded random bin with longer lists (5..=9 pieces).
"""
import itertools
import os
import random
import re

from . import common

CRATE = "c20gen"
STR_PIECES = ["", "a", "é", "🧠x"]
CHR_PIECES = ["a", "é", "个", "🧠"]
CHR_BOUNDS = [0x0, 0x7F, 0x80, 0x7FF, 0x800, 0xD7FF, 0xE000, 0xFFFF, 0x10000, 0x10FFFF]
STR_SEPS = ["", ",", "é", "-_-", "🧠", "é,"]
CHR_SEPS = [",", "é", "个", "🧠"]
U8_SLICES = [[], [1], [2, 3], [4, 5, 6]]
I16_SLICES = [[], [-1], [7, -300]]

HEAD = common.PRELUDE + """
use konst::string::{self, str_concat, str_join};
use konst::slice::slice_concat;

fn strs(l: &[&str]) -> String { show_list(l.iter(), |s| hex(s.as_bytes())) }
fn chars(l: &[char]) -> String { show_list(l.iter(), |c| (*c as u32).to_string()) }
fn ints<T: Copy + Into<i64>>(l: &[T]) -> String { show_list(l.iter(), |x| { let v: i64 = (*x).into(); v.to_string() }) }
fn slices<T: Copy + Into<i64>>(l: &[&[T]]) -> String { show_list(l.iter(), |s| ints(s)) }
"""


def rs_str(s):
    out = '"'
    for ch in s:
        o = ord(ch)
        if ch in '"\\':
            out += "\\" + ch
        elif 32 <= o < 127:
            out += ch
        else:
            out += "\\u{%x}" % o
    return out + '"'


def rs_chr(c):
    o = c if isinstance(c, int) else ord(c)
    if 32 < o < 127 and chr(o) not in "'\\":
        return "'%s'" % chr(o)
    return "'\\u{%x}'" % o


def seqs(alphabet, max_len):
    for n in range(max_len + 1):
        for t in itertools.product(alphabet, repeat=n):
            yield list(t)


def str_tag(pieces, sep=None):
    t = "n%d" % len(pieces)
    if any(p == "" for p in pieces):
        t += ".e"
    if any(len(p.encode()) != len(p) for p in pieces):
        t += ".m"
    if sep is not None:
        b = len(sep.encode())
        t += ".sep%d" % b
    if sep is None and len(pieces) == 1 and t == "n1":
        return "-"
    return t


def chr_tag(cs):
    t = "n%d" % len(cs)
    lens = sorted(set(len(chr(c).encode("utf-8", "surrogatepass")) for c in cs))
    return t + "".join(".b%d" % l for l in lens)


class Emit:
    """collects case blocks; every block is a `{ ... }` statement using `out`."""

    def __init__(self):
        self.blocks = []
        self.failed = {}      # block index -> "PANIC" | "COMPILE-ERROR" (found by a failed build)
        self.ranges = []      # (first line, last line) of every block in the last program text

    def add(self, body):
        self.blocks.append(body)

    def block_text(self, k):
        """the case as a `{ ... }` statement; a case whose macro invocation rustc rejected
        (const-evaluation panic = the macro panicked on this argument, or any other error) is
        emitted WITHOUT the invocation and reports that outcome as its impl column, so that it
        shows up as a concrete failing input instead of a crate that does not build"""
        body = self.blocks[k]
        if k in self.failed:
            lines = [l for l in body.split("\n") if not l.startswith("const R:")]
            body = "\n".join(lines)
            lit = '"%s"' % self.failed[k]
            assert "&hex(R.as_bytes())" in body or "&ints(&R)" in body
            body = body.replace("&hex(R.as_bytes())", lit).replace("&ints(&R)", lit)
        return "{\n" + body + "\n}"

    # ---- str_concat!
    def concat(self, kind, items, form):
        if kind == "s":
            ty, lit, show = "&str", "[" + ", ".join(rs_str(p) for p in items) + "]", "strs"
            tag = str_tag(items)
            std = "let stdv: String = S.concat();"
            zero = '[""; 0]'
        else:
            ty, lit, show = "char", "[" + ", ".join(rs_chr(c) for c in items) + "]", "chars"
            tag = chr_tag([c if isinstance(c, int) else ord(c) for c in items])
            std = "let stdv: String = S.iter().collect::<String>();"
            zero = "['q'; 0]"
        n = len(items)
        pre = "const S: &[%s] = &%s;\n" % (ty, lit)
        if form == "lit":
            call = "str_concat!(&%s)" % lit
        elif form == "cs":
            call = "str_concat!(S)"
        elif form == "ca":
            pre += "const A: &[%s; %d] = &%s;\n" % (ty, n, lit)
            call = "str_concat!(A)"
        elif form == "rep":
            assert n == 0
            call = "str_concat!(&%s)" % zero
        elif form == "fn":
            pre += "const fn func() -> [%s; %d] { %s }\n" % (ty if kind == "c" else "&'static str", n, lit)
            call = "str_concat!(&func())"
        else:
            raise ValueError(form)
        self.add(pre + "const R: &str = %s;\n%s\n" % (call, std) +
                 'out.line("c20.concat", &format!("%s %s {}", %s(S)), &hex(R.as_bytes()), &hex(stdv.as_bytes()), "%s");'
                 % (form, kind, show, tag))

    # ---- str_join!
    def join(self, sepkind, sep, items, form):
        lit = "[" + ", ".join(rs_str(p) for p in items) + "]"
        n = len(items)
        pre = "const S: &[&str] = &%s;\n" % lit
        if sepkind == "s":
            pre += "const SEP: &str = %s;\n" % rs_str(sep)
            sep_lit = rs_str(sep)
            sep_show = "hex(SEP.as_bytes())"
            std = "let stdv: String = S.join(SEP);"
        else:
            pre += "const SEP: char = %s;\n" % rs_chr(sep)
            sep_lit = rs_chr(sep)
            sep_show = "(SEP as u32).to_string()"
            std = "let stdv: String = S.join(SEP.encode_utf8(&mut [0u8; 4]) as &str);"
        if form == "lit":
            call = "str_join!(%s, &%s)" % (sep_lit, lit)
        elif form == "cs":
            call = "str_join!(SEP, S)"
        elif form == "ca":
            pre += "const A: &[&str; %d] = &%s;\n" % (n, lit)
            call = "str_join!(SEP, A)"
        elif form == "rep":
            assert n == 0
            call = 'str_join!(SEP, &["foo"; 0])'
        elif form == "fn":
            pre += "const fn func() -> [&'static str; %d] { %s }\n" % (n, lit)
            call = "str_join!(SEP, &func())"
        else:
            raise ValueError(form)
        tag = str_tag(items, sep)
        self.add(pre + "const R: &str = %s;\n%s\n" % (call, std) +
                 'out.line("c20.join", &format!("%s %s {} {}", %s, strs(S)), &hex(R.as_bytes()), &hex(stdv.as_bytes()), "%s");'
                 % (form, sepkind, sep_show, tag))

    # ---- string::from_iter!
    def from_iter(self, kind, items, variant):
        if kind == "s":
            ty, lit, show = "&str", "[" + ", ".join(rs_str(p) for p in items) + "]", "strs"
            tag = str_tag(items)
            zero = '[""; 0]'
        else:
            ty, lit, show = "char", "[" + ", ".join(rs_chr(c) for c in items) + "]", "chars"
            tag = chr_tag([ord(c) for c in items])
            zero = "[' '; 0]"
        if tag == "-":
            tag = "n1"
        pre = "const S: &[%s] = &%s;\n" % (ty, lit)
        if variant == "ref":
            call = "string::from_iter!(&%s)" % (lit if items else zero)
        elif variant == "const":
            call = "string::from_iter!(S)"
        elif variant == "copied":
            call = "string::from_iter!(S, copied())"
        elif variant == "map":
            call = "string::from_iter!(S, map(|x| *x))"
        else:
            raise ValueError(variant)
        self.add(pre + "const R: &str = %s;\nlet stdv: String = S.iter().copied().collect::<String>();\n" % call +
                 'out.line("c20.from_iter", &format!("%s {}", %s(S)), &hex(R.as_bytes()), &hex(stdv.as_bytes()), "%s.%s");'
                 % (kind, show, tag, variant))

    def from_iter_expr(self, kind, konst_expr, std_expr, tag):
        """items are whatever the std iterator [std_expr] yields"""
        if kind == "s":
            items = "let items: Vec<&str> = %s.collect();" % std_expr
            show = "strs(&items)"
        else:
            items = "let items: Vec<char> = %s.collect();" % std_expr
            show = "chars(&items)"
        self.add("const R: &str = string::from_iter!(%s);\n%s\nlet stdv: String = %s.collect::<String>();\n" % (konst_expr, items, std_expr) +
                 'out.line("c20.from_iter", &format!("%s {}", %s), &hex(R.as_bytes()), &hex(stdv.as_bytes()), "%s");'
                 % (kind, show, tag))

    # ---- slice_concat!
    def slice_concat(self, ty, items, form):
        lit = "[" + ", ".join("&[" + ", ".join(str(x) for x in s) + "]" for s in items) + "]"
        n = len(items)
        total = sum(len(s) for s in items)
        pre = "const S: &[&[%s]] = &%s;\n" % (ty, lit)
        if form == "lit":
            call = "slice_concat!(%s, &%s)" % (ty, lit)
        elif form == "cs":
            call = "slice_concat!(%s, S)" % ty
        elif form == "ca":
            pre += "const A: &[&[%s]; %d] = &%s;\n" % (ty, n, lit)
            call = "slice_concat!(%s, A)" % ty
        elif form == "fn":
            pre += "const fn func() -> [&'static [%s]; %d] { %s }\n" % (ty, n, lit)
            call = "slice_concat!(%s, &func())" % ty
        else:
            raise ValueError(form)
        tag = "n%d.t%d%s" % (n, total, ".e" if any(len(s) == 0 for s in items) else "")
        self.add(pre + "const R: [%s; %d] = %s;\nlet stdv: Vec<%s> = S.concat();\n" % (ty, total, call, ty) +
                 'out.line("c20.slice_concat", &slices(S), &ints(&R), &ints(&stdv), "%s");' % tag)

    def program(self, per_fn=60):
        text = HEAD
        self.ranges = []
        calls = []
        for k0 in range(0, len(self.blocks), per_fn):
            name = "part_%d" % (k0 // per_fn)
            text += "#[inline(never)]\nfn %s(out: &mut Out) {\n" % name
            for k in range(k0, min(k0 + per_fn, len(self.blocks))):
                b = self.block_text(k)
                first = text.count("\n") + 1
                text += b + "\n"
                self.ranges.append((first, text.count("\n")))
            text += "}\n"
            calls.append("    %s(&mut out);" % name)
        text += "fn main() {\n    let mut out = Out::new();\n" + "\n".join(calls) + "\n    out.flush();\n}\n"
        return text

    def block_at(self, line):
        for k, (a, b) in enumerate(self.ranges):
            if a <= line <= b:
                return k
        return None




def internal_item_names():
    """names of the items (const / static / fn / type / struct) that konst's macros declare in
    their expansions, READ FROM /repo's macro sources at run time (items are not hygienic in
    macro_rules: a user item of the same name that the argument expression mentions must still
    mean the user's item).  A fixed list is added so that the family never becomes empty."""
    import kv
    names = set(["LEN", "CONC", "STR", "CAP", "N", "ARR", "ARGS", "ITER", "ITEM", "RET", "MAKE", "MIN_VAL", "MAX_VAL", "T", "V"])
    for root in ("konst/src", "konst_kernel/src"):
        for dp, _dn, fn in os.walk(os.path.join(kv.REPO, root)):
            for f in fn:
                if not f.endswith(".rs"):
                    continue
                try:
                    txt = open(os.path.join(dp, f), errors="replace").read()
                except OSError:
                    continue
                if "macro_rules!" not in txt:
                    continue
                for m in re.finditer(r"^\s+(?:pub\s+)?(?:const|static)\s+([A-Za-z_][A-Za-z0-9_]*)\s*:", txt, re.M):
                    names.add(m.group(1))
    return sorted(n for n in names if re.match(r"^[A-Z][A-Z0-9_]*$", n) and n not in ("R", "S", "A", "SEP"))


def renamed(body, mapping):
    for old, new in mapping.items():
        body = re.sub(r"\b%s\b" % old, new, body)
    return body


def name_collision_cases():
    """every macro with an argument expression that mentions user constants whose names are the
    names of the macros' own internal items"""
    e = Emit()
    for n in internal_item_names():
        n2 = "LEN" if n != "LEN" else "CONC"
        t = Emit()
        t.concat("s", ["a", "é"], "cs")
        t.concat("c", ["é", "x"], "ca")
        t.join("s", "-_", ["a", "", "b"], "cs")
        t.join("c", "é", ["x", "y"], "ca")
        t.from_iter("s", ["ab", "é"], "const")
        t.slice_concat("u8", [[1], [2, 3]], "cs")
        t.slice_concat("i16", [[-1], [], [7, -300]], "ca")
        for b in t.blocks:
            e.add(renamed(b, {"S": n, "A": n + "_", "SEP": n2 if n2 != n else n + "__"}).replace('"cs ', '"cs ').replace(", \"n", ", \"n"))
    return e


FORMS = ["lit", "cs", "ca", "fn"]


def fixed_cases(thorough):
    """list of Emit objects (one per bin)"""
    bins = []

    # ---------------- bin 0: str_concat!
    e = Emit()
    for f in ["lit", "cs", "ca", "rep", "fn"]:
        e.concat("s", [], f)
        e.concat("c", [], f)
    for i, l in enumerate(seqs(STR_PIECES, 5 if thorough else 4)):
        if l:
            e.concat("s", l, FORMS[i % 4])
    for i, l in enumerate(seqs(CHR_PIECES, 5 if thorough else 4)):
        if l:
            e.concat("c", l, FORMS[(i + 1) % 4])
    for c in CHR_BOUNDS:
        e.concat("c", [c], "lit")
        e.concat("c", [c, ord("a")], "cs")
        e.concat("c", [0x10FFFF, c], "ca")
    e.concat("c", CHR_BOUNDS, "cs")
    e.concat("c", list(reversed(CHR_BOUNDS)), "lit")
    # the suite's own examples
    e.concat("s", ["these ", "are ", "words"], "cs")
    e.concat("c", ["ñ", "个", "人", "b"], "lit")
    bins.append(e)

    # ---------------- bins 1..: str_join!
    seps = [("s", s) for s in STR_SEPS] + [("c", c) for c in CHR_SEPS]
    joins = []
    for sk, sep in seps:
        for f in ["lit", "cs", "ca", "rep", "fn"]:
            joins.append((sk, sep, [], f))
    i = 0
    for l in seqs(STR_PIECES, 5 if thorough else 4):
        if not l:
            continue
        if len(l) <= 4:
            for sk, sep in seps:
                joins.append((sk, sep, l, FORMS[i % 4]))
                i += 1
        else:
            # thorough only: 5-piece lists with three rotating separators each
            for d in range(3):
                sk, sep = seps[(i + 3 * d) % len(seps)]
                joins.append((sk, sep, l, FORMS[(i // len(seps)) % 4]))
            i += 1
    joins.append(("s", "-_-", ["foo", "bar", "hello"], "lit"))
    joins.append(("c", "@", ["foo", "bar", "baz"], "ca"))
    nb = 8 if thorough else 4
    for k in range(nb):
        e = Emit()
        for j in joins[k::nb]:
            e.join(*j)
        bins.append(e)

    # ---------------- from_iter! and slice_concat!
    e = Emit()
    variants = ["ref", "const", "copied", "map"]
    for i, l in enumerate(seqs(STR_PIECES, 5 if thorough else 4)):
        e.from_iter("s", l, variants[i % 4])
    for i, l in enumerate(seqs(CHR_PIECES, 5 if thorough else 4)):
        e.from_iter("c", l, variants[(i + 2) % 4])
    e.from_iter_expr("c", "'a'..='z'", "('a'..='z')", "range.b1")
    e.from_iter_expr("c", "'\\u{7e}'..='\\u{82}'", "('\\u{7e}'..='\\u{82}')", "range.b1.b2")
    e.from_iter_expr("c", "'\\u{7fe}'..'\\u{803}'", "('\\u{7fe}'..'\\u{803}')", "range.b2.b3")
    e.from_iter_expr("c", "'\\u{d7fd}'..='\\u{e002}'", "('\\u{d7fd}'..='\\u{e002}')", "range.surrogate-gap")
    e.from_iter_expr("c", "'\\u{fffe}'..='\\u{10001}'", "('\\u{fffe}'..='\\u{10001}')", "range.b3.b4")
    e.from_iter_expr("c", "'\\u{10fffd}'..='\\u{10ffff}'", "('\\u{10fffd}'..='\\u{10ffff}')", "range.max")
    e.from_iter_expr("c", "'b'..'b'", "('b'..'b')", "range.empty")
    e.from_iter_expr("s", '&["foo", "bar", "baz"], flat_map(|s| &[*s, ", "])',
                     '["foo", "bar", "baz"].iter().flat_map(|s| [*s, ", "])', "flat_map")
    e.from_iter_expr("s", '0..5, flat_map(|i| &[konst::string::str_up_to("abcd", i), "."])',
                     '(0..5).flat_map(|i| [&"abcd"[..i], "."])', "flat_map.range")
    e.from_iter_expr("s", '&["a", "", "é", "", "🧠x"], filter(|s| !s.is_empty())',
                     '["a", "", "é", "", "🧠x"].iter().copied().filter(|s| !s.is_empty())', "filter")
    e.from_iter_expr("c", "&['a', 'é', '个', '🧠', 'b'], copied(), filter(|c| c.len_utf8() != 2), rev()",
                     "['a', 'é', '个', '🧠', 'b'].iter().copied().filter(|c| c.len_utf8() != 2).rev()", "filter.rev")
    e.from_iter_expr("c", "&['a', 'é', '个', '🧠', 'b'], skip(1), take(3)",
                     "['a', 'é', '个', '🧠', 'b'].iter().copied().skip(1).take(3)", "skip.take")
    e.from_iter_expr("s", '&["x", "yy"], zip(&["1", "22"]), flat_map(|(a, b)| &[*a, *b])',
                     '["x", "yy"].iter().zip(["1", "22"].iter()).flat_map(|(a, b)| [*a, *b])', "zip.flat_map")
    bins.append(e)

    e = Emit()
    for i, l in enumerate(seqs(U8_SLICES, 5 if thorough else 4)):
        e.slice_concat("u8", l, FORMS[i % 4])
    for f in FORMS:
        e.slice_concat("u8", [], f)
        e.slice_concat("u8", [[]], f)
        e.slice_concat("u8", [[], [], []], f)
    for i, l in enumerate(seqs(I16_SLICES, 5 if thorough else 4)):
        e.slice_concat("i16", l, FORMS[(i + 1) % 4])
    e.slice_concat("u32", [[], [3, 5, 8], [13, 21], []], "fn")
    e.slice_concat("u8", [[], [8, 13], [21, 34, 55]], "lit")
    bins.append(e)
    return bins


def stress_cases(thorough):
    """long arguments: lists around the 16/32/64 block sizes, with the characters a
    byte-wise / block-wise fast path gets wrong (code point >= 0x100 whose low byte is
    ascii or zero, 2- and 4-byte chars) at the block edges; long pieces; many pieces"""
    e = Emit()
    ns = [15, 16, 17, 31, 32, 33, 63, 64, 65, 96] if thorough else [16, 31, 32, 33, 64, 65]
    specials = [0x4E2A, 0x100, 0xE9, 0x1F9E0, 0x80, 0x10000, 0x7FF, 0x2A00]
    k = 0
    for n in ns:
        e.concat("c", ["a"] * n, FORMS[k % 4])
        for c in specials:
            for p in sorted(set([0, n - 1, n // 2, 31 if n > 31 else 0, 32 if n > 32 else 0])):
                l = [ord("a") + (i % 26) for i in range(n)]
                l[p] = c
                e.concat("c", l, FORMS[k % 4])
                k += 1
        l = [specials[i % len(specials)] for i in range(n)]
        e.concat("c", l, "cs")
        e.from_iter("c", [chr(x) for x in l], ["ref", "const", "copied", "map"][k % 4])
        l2 = [ord("a") + (i % 26) for i in range(n)]
        l2[n - 1] = 0x4E2A
        e.from_iter("c", [chr(x) for x in l2], ["ref", "const", "copied", "map"][(k + 1) % 4])
        # many str pieces, long str pieces
        e.concat("s", [STR_PIECES[i % 4] for i in range(n)], FORMS[(k + 2) % 4])
        e.concat("s", ["a" * n, "é" * n, "", "个" * (n // 3) + "b"], FORMS[(k + 3) % 4])
        e.concat("s", ["x" * (n - 1) + "个"], "lit")
        for sk, sep in [("s", ","), ("s", ""), ("s", "é,"), ("c", "个"), ("c", ",")]:
            e.join(sk, sep, [STR_PIECES[(i + 1) % 4] for i in range(n)], FORMS[k % 4])
            e.join(sk, sep, ["a" * n, "", "é" * n], FORMS[(k + 1) % 4])
            k += 1
        e.slice_concat("u8", [[(7 * i + j) % 256 for j in range(i % 3)] for i in range(n)], FORMS[k % 4])
        e.slice_concat("u8", [[(3 * j) % 256 for j in range(n)], [], [(5 * j + 1) % 256 for j in range(n + 1)]], FORMS[(k + 1) % 4])
        e.slice_concat("i16", [[(-1) ** j * j * 300 for j in range(n)], [7]], FORMS[(k + 2) % 4])
    return e


def random_cases(seed, thorough):
    rng = random.Random(seed * 7919 + 20)
    e = Emit()
    n = 120 if thorough else 40
    for _ in range(n):
        k = rng.randrange(5)
        ln = rng.randrange(5, 10)
        if k == 0:
            e.concat("s", [rng.choice(STR_PIECES + ["ab", "个"]) for _ in range(ln)], rng.choice(FORMS))
        elif k == 1:
            e.concat("c", [rng.choice(CHR_PIECES + ["߿", "￿"]) for _ in range(ln)], rng.choice(FORMS))
        elif k == 2:
            sk = rng.choice(["s", "c"])
            sep = rng.choice(STR_SEPS) if sk == "s" else rng.choice(CHR_SEPS)
            e.join(sk, sep, [rng.choice(STR_PIECES + ["ab", "个"]) for _ in range(ln)], rng.choice(FORMS))
        elif k == 3:
            kind = rng.choice(["s", "c"])
            al = STR_PIECES + ["ab"] if kind == "s" else CHR_PIECES
            e.from_iter(kind, [rng.choice(al) for _ in range(ln)], rng.choice(["ref", "const", "copied", "map"]))
        else:
            e.slice_concat("u8", [[rng.randrange(256) for _ in range(rng.randrange(4))] for _ in range(ln)], rng.choice(FORMS))
    return e


def cargo_build(crate, release, timeout=2400):
    """like common.build, but keeps going and returns the complete stderr"""
    import kv
    d = os.path.join(common.GEN, crate)
    with kv.Lock("cargo.lock"):
        cmd = ["cargo", "build", "--offline", "-q", "--bins", "--keep-going"] + (["--release"] if release else [])
        p = kv.run(cmd, cwd=d, timeout=timeout)
    return p.returncode == 0, p.stderr


def mark_failures(emits, stderr):
    """map every rustc error to the case block it points into; returns (#newly marked, #unmapped)"""
    new = 0
    unmapped = 0
    for chunk in re.split(r"\n\s*\n", stderr):
        chunk = chunk.strip()
        if not chunk.startswith("error") or chunk.startswith("error: could not compile") or chunk.startswith("error: aborting"):
            continue
        m = re.search(r"src/bin/(\w+)\.rs:(\d+):\d+", chunk)
        k = None
        if m and m.group(1) in emits:
            k = emits[m.group(1)].block_at(int(m.group(2)))
        if k is None:
            unmapped += 1
            continue
        e = emits[m.group(1)]
        if k not in e.failed:
            e.failed[k] = "PANIC" if ("E0080" in chunk or "evaluation panicked" in chunk) else "COMPILE-ERROR"
            new += 1
    return new, unmapped


def produce(tier, seed, release, out_path):
    thorough = tier == "thorough"
    t = "t" if thorough else "q"
    crate = CRATE + "_" + t          # one crate per tier: switching tiers does not rebuild
    emits = {}
    for k, e in enumerate(fixed_cases(thorough)):
        emits["c20_macros_%s%d" % (t, k)] = e
    # the seeded cases live in their own small bin: a new seed rebuilds only that
    emits["c20_macros_%s_rand" % t] = random_cases(int(seed), thorough)
    emits["c20_macros_%s_stress" % t] = stress_cases(thorough)
    emits["c20_macros_%s_names" % t] = name_collision_cases()
    for attempt in range(6):
        common.make_crate(crate, {b: e.program() for b, e in emits.items()})
        ok, stderr = cargo_build(crate, release)
        if ok:
            break
        new, unmapped = mark_failures(emits, stderr)
        if new == 0:
            errs = re.findall(r"^error[^\n]*(?:\n\s+-->[^\n]*)?", stderr, re.M)
            return "generated crate %s does not build against /repo: %s" % (crate, " | ".join(errs[:6]) or stderr[-1500:])
    else:
        return "generated crate %s still does not build after removing the rejected invocations" % crate
    open(out_path, "w").close()
    for b in emits:
        err = common.run_bin(crate, b, [], out_path, release)
        if err:
            return err
    return ""
