"""C01 producer (compile-time half): every unsafe-backed API family of konst evaluated by rustc's
const evaluator (CTFE), which rejects undefined behaviour (out-of-bounds / misaligned / uninitialised
reads, invalid values) with error[E0080].  One `const` item per case; the same expression is
evaluated again at run time and the two values are compared:

    family c01.ctfe   args = <case number> <hex of the expression text>
    impl = "same"                 the constant equals the run-time value
         = "DIFF ..."             CTFE and run time disagree
         = "REJECTED <message>"   rustc refused to evaluate the constant on this tree
    model = "same"                (coq/Glue/C01.v: const evaluation of a safe API succeeds and
                                   agrees with the run-time evaluation, whose value the other
                                   families compare with the model)

Cases are written once, by hand, against the public API (crate features rust_1_83 + alloc); a case
that rustc rejects is reported individually (the build is retried without it).
"""
import os
import re

from . import common

CRATE = "c01ctfe"

HEAD = common.PRELUDE.replace("#![allow(", "#![allow(deprecated, unused_unsafe, unused_braces, unused_parens, ") + r"""
use konst::{array, chr, iter, option, result, slice as ks, string as kstr};
use konst::array::{ArrayBuilder, ArrayConsumer};
use konst::ffi::cstr;
use konst::parsing::Parser;
use core::mem::{ManuallyDrop, MaybeUninit};

const ARR: [u16; 5] = [10, 20, 30, 40, 50];
const ZS: [(); 7] = [(); 7];
const S: &str = "aé锈🧠-x";
const WS: &str = " \t\u{c}aé \n";
const BIG: usize = usize::MAX;
/// `T3[x]` panics (index out of bounds) for x >= 3: a trap for closure calls std would not make
const T3: [bool; 3] = [true, true, false];

#[derive(Debug, PartialEq, Clone, Copy)]
#[repr(C, packed)]
struct P1(u8, u32, u64);
#[derive(Debug, PartialEq, Clone, Copy)]
#[repr(C, packed(2))]
struct P2(u8, u32, u64);
#[derive(Debug, PartialEq, Clone, Copy)]
#[repr(packed(4))]
struct P4 { a: u8, b: u64, c: u16 }
#[derive(Debug, PartialEq, Clone, Copy)]
struct Plain { a: u8, b: u32, c: (u16, u8) }
#[derive(Debug, PartialEq, Clone, Copy)]
struct Tup(u8, (u32, u8), [u16; 2]);

/// F10 regression: a user trait with a method called `len`, implemented for arrays, is in scope
/// where the array macros are invoked; they must not pick it up
mod hijack {
    pub trait Shape { fn len(&self) -> usize; fn next(&self) -> usize; }
    impl<T, const N: usize> Shape for [T; N] { fn len(&self) -> usize { 0 } fn next(&self) -> usize { 0 } }
    pub const fn mapped() -> [u64; 3] { konst::array::map!([1u64, 2, 3], |x| x + 1) }
    pub const fn made() -> [usize; 4] { konst::array::from_fn!(|i| i * 2) }
    pub const fn mapped_val() -> [u32; 2] { konst::array::map_!([5u32, 6], |x| x * 2) }
    pub const fn made_val() -> [u8; 3] { konst::array::from_fn_!(|i| i as u8 + 1) }
    pub const fn collected() -> [u8; 2] { konst::iter::collect_const!(u8 => &[1u8, 2, 3], copied(), skip(1)) }
    pub const fn concatenated() -> [u8; 3] { konst::slice::slice_concat!(u8, &[&[1], &[2, 3]]) }
}

const fn d_p1(p: P1) -> (u8, u32, u64) { konst::destructure!{P1(a, b, c) = p} (a, b, c) }
const fn d_p2(p: P2) -> (u8, u32, u64) { konst::destructure!{P2(a, b, c) = p} (a, b, c) }
const fn d_p4(p: P4) -> (u8, u64, u16) { konst::destructure!{P4{a, b, c} = p} (a, b, c) }
const fn d_p4r(p: P4) -> (u8, u64, u16) { konst::destructure!{P4{c, a: x, b} = p} (x, b, c) }
const fn d_plain(p: Plain) -> (u8, u32, u16, u8) { konst::destructure!{Plain{a, b, c: (d, e)} = p} (a, b, d, e) }
const fn d_tup(p: Tup) -> (u8, u32, u8, u16) { konst::destructure!{Tup(a, (b, c), [d, _]) = p} (a, b, c, d) }
const fn d_tuple(p: (u8, (u16, u32), [u8; 3])) -> (u8, u16, u32, u8, u8) {
    konst::destructure!{(a, (b, c), [d, rest @ ..]) = p}
    (a, b, c, d, rest[1])
}
const fn d_arr(p: [u32; 5]) -> (u32, u32, u32) { konst::destructure!{[a, _, mid @ .., z] = p} (a, mid[0] + mid[1], z) }
const fn d_arr0(p: [u32; 0]) -> u8 { konst::destructure!{[] = p} 7 }
const fn d_tuple16(p: (u8, u8, u8, u8, u8, u8, u8, u8, u8, u8, u8, u8, u8, u8, u8, u64)) -> u64 {
    konst::destructure!{(a, _, _, _, _, _, _, h, _, _, _, _, _, _, o, z) = p}
    a as u64 + h as u64 + o as u64 + z
}

const fn chars_sum(s: &str) -> (u32, usize) {
    let mut it = kstr::chars(s);
    let mut sum = 0u32;
    let mut n = 0usize;
    while let Some((c, nit)) = it.next() { sum = sum.wrapping_mul(31).wrapping_add(c as u32); n += 1; it = nit; }
    (sum, n)
}
const fn rchars_sum(s: &str) -> (u32, usize) {
    let mut it = kstr::chars(s);
    let mut sum = 0u32;
    let mut n = 0usize;
    while let Some((c, nit)) = it.next_back() { sum = sum.wrapping_mul(31).wrapping_add(c as u32); n += 1; it = nit; }
    (sum, n)
}
const fn mixed_chars(s: &str) -> (u32, usize) {
    let mut it = kstr::char_indices(s);
    let mut sum = 0u32;
    let mut n = 0usize;
    let mut front = true;
    loop {
        let r = if front { it.copy().next() } else { it.copy().next_back() };
        match r {
            Some(((i, c), nit)) => { sum = sum.wrapping_mul(31).wrapping_add(c as u32 + i as u32); n += 1; it = nit; front = !front; }
            None => break,
        }
    }
    (sum, n + it.as_str().len())
}
const fn split_lens<const R: bool>(s: &str, d: &str) -> (usize, usize) {
    // (number of pieces, weighted sum of piece lengths)
    let mut n = 0usize;
    let mut w = 0usize;
    if R {
        let mut it = kstr::rsplit(s, d);
        while let Some((p, nit)) = it.next() { n += 1; w = w * 7 + p.len() + nit.remainder().len(); it = nit; }
    } else {
        let mut it = kstr::split(s, d);
        while let Some((p, nit)) = it.next() { n += 1; w = w * 7 + p.len() + nit.remainder().len(); it = nit; }
    }
    (n, w)
}
const fn term_lens<const R: bool>(s: &str, d: char) -> (usize, usize) {
    let mut n = 0usize;
    let mut w = 0usize;
    if R {
        let mut it = kstr::rsplit_terminator(s, d);
        while let Some((p, nit)) = it.next() { n += 1; w = w * 7 + p.len(); it = nit; }
    } else {
        let mut it = kstr::split_terminator(s, d);
        while let Some((p, nit)) = it.next() { n += 1; w = w * 7 + p.len(); it = nit; }
    }
    (n, w)
}
const fn enc(c: char) -> (usize, u8, u8) {
    let e = chr::encode_utf8(c);
    let b = e.as_bytes();
    (e.as_str().len(), b[0], b[b.len() - 1])
}
const fn builder_hist(k: usize) -> (usize, bool, usize, u32) {
    let mut b = ArrayBuilder::<u32, 4>::new();
    let mut i = 0;
    while i < k { b.push(i as u32 * 3 + 1); i += 1; }
    let c = b.copy();
    let sl = c.as_slice();
    let mut sum = 0u32;
    let mut j = 0;
    while j < sl.len() { sum += sl[j]; j += 1; }
    let r = (b.len(), b.is_full(), b.as_mut_slice().len(), sum);
    core::mem::forget(b);
    core::mem::forget(c);
    r
}
const fn builder_build() -> [u8; 3] {
    let mut b = ArrayBuilder::<u8, 3>::new();
    b.push(4); b.push(5); b.push(6);
    b.build()
}
const fn consumer_hist(front: usize, back: usize) -> (u32, usize, u32) {
    let mut c = ArrayConsumer::new([1u32, 2, 3, 4, 5]);
    let mut acc = 0u32;
    let mut i = 0;
    while i < front { if let Some(x) = c.next() { acc = acc * 10 + ManuallyDrop::into_inner(x); } i += 1; }
    let mut i = 0;
    while i < back { if let Some(x) = c.next_back() { acc = acc * 10 + ManuallyDrop::into_inner(x); } i += 1; }
    let d = c.copy();
    let sl = d.as_slice();
    let mut rest = 0u32;
    let mut j = 0;
    while j < sl.len() { rest = rest * 10 + sl[j]; j += 1; }
    let n = c.as_mut_slice().len();
    core::mem::forget(c);
    core::mem::forget(d);
    (acc, n, rest)
}
const fn consumer_drain() -> u32 {
    let mut c = ArrayConsumer::new([7u32, 8, 9]);
    let mut acc = 0;
    while let Some(x) = c.next() { acc = acc * 10 + ManuallyDrop::into_inner(x); }
    c.assert_is_empty();
    acc
}
const fn mu_array<const N: usize>() -> [u16; N] {
    let mut a = konst::maybe_uninit::uninit_array::<u16, N>();
    let mut i = 0;
    while i < N { konst::maybe_uninit::write(&mut a[i], i as u16 * 2 + 1); i += 1; }
    unsafe { konst::maybe_uninit::array_assume_init(a) }
}
const fn mu_const_array<const N: usize>() -> [u16; N] {
    let mut a: [MaybeUninit<u16>; N] = konst::maybe_uninit::UNINIT_ARRAY::<u16, N>::V;
    let mut i = 0;
    while i < N { a[i] = MaybeUninit::new(i as u16 + 3); i += 1; }
    unsafe { konst::maybe_uninit::array_assume_init(a) }
}
const fn mu_cell(v: u64) -> (u64, u64) {
    let mut mu = MaybeUninit::<u64>::uninit();
    let r = konst::maybe_uninit::write(&mut mu, v);
    *r += 1;
    let a = *unsafe { konst::maybe_uninit::assume_init_mut(&mut mu) };
    let p = konst::maybe_uninit::as_mut_ptr(&mut mu);
    let b = unsafe { *p };
    (a, b)
}
const fn md_cell(v: u32) -> (u32, u32, u32) {
    let mut md = ManuallyDrop::new(v);
    let a = *konst::manually_drop::as_inner(&md);
    *konst::manually_drop::as_inner_mut(&mut md) += 5;
    let b = *konst::manually_drop::as_inner(&md);
    let c = unsafe { konst::manually_drop::take(&mut md) };
    (a, b, c)
}
const fn ptr_cell(v: u32) -> (u32, bool, u32, bool, bool, bool, u32, u32) {
    let mut x = v;
    let a = match unsafe { konst::ptr::as_ref(&x as *const u32) } { Some(r) => *r, None => 0 };
    let b = unsafe { konst::ptr::as_ref(core::ptr::null::<u32>()) }.is_none();
    let c = match unsafe { konst::ptr::as_mut(&mut x as *mut u32) } { Some(r) => { *r += 1; *r } None => 0 };
    let d = unsafe { konst::ptr::as_mut(core::ptr::null_mut::<u32>()) }.is_none();
    let e = konst::ptr::nonnull::new(core::ptr::null_mut::<u32>()).is_none();
    let f = konst::ptr::nonnull::new(&mut x as *mut u32).is_some();
    let nn = konst::ptr::nonnull::from_mut(&mut x);
    let g = *unsafe { konst::ptr::nonnull::as_mut(nn) };
    let h = *unsafe { konst::ptr::nonnull::as_ref(konst::ptr::nonnull::from_ref(&x)) };
    (a, b, c, d, e, f, g, h)
}
const fn ptr_unsized(s: &str) -> (usize, bool, usize) {
    let a = match unsafe { konst::ptr::as_ref(s as *const str) } { Some(r) => r.len(), None => 99 };
    let nullp: *const [u8] = core::ptr::slice_from_raw_parts(core::ptr::null::<u8>(), 3);
    let b = unsafe { konst::ptr::as_ref(nullp) }.is_none();
    let c = unsafe { konst::ptr::nonnull::as_ref(konst::ptr::nonnull::from_ref(s.as_bytes())) }.len();
    (a, b, c)
}
const fn parser_seq(s: &'static str) -> (u64, usize, usize, usize) {
    let p = Parser::new(s).trim_start();
    match p.parse_u64() {
        Ok((v, p)) => match p.strip_prefix(",") {
            Ok(p) => { let p = p.trim_end().skip(1).skip_back(1); (v, p.start_offset(), p.end_offset(), p.remainder().len()) }
            Err(e) => (v, e.offset(), 1000, 0),
        },
        Err(e) => (0, e.offset(), 2000, 0),
    }
}
const fn parser_back(s: &'static str) -> (usize, usize, usize) {
    let p = Parser::with_start_offset(s, 10);
    match p.rsplit(';') {
        Ok((piece, p)) => match p.rfind_skip("é") {
            Ok(p) => (piece.len(), p.start_offset(), p.end_offset()),
            Err(e) => (piece.len(), e.offset(), 3000),
        },
        Err(e) => (0, e.offset(), 4000),
    }
}
const fn mut_slices() -> ([u16; 6], usize, usize, usize) {
    let mut a = [1u16, 2, 3, 4, 5, 6];
    { let s = ks::slice_from_mut(&mut a, 4); s[0] = 50; }
    { let s = ks::slice_up_to_mut(&mut a, 1); s[0] = 10; }
    { let s = ks::slice_range_mut(&mut a, 2, 3); s[0] = 30; }
    let l1 = ks::slice_from_mut(&mut a, BIG).len();
    let l2 = ks::slice_up_to_mut(&mut a, BIG).len();
    let l3 = { let (x, y) = ks::split_at_mut(&mut a, 2); x[1] = 20; y[1] = 40; y.len() };
    (a, l1, l2, l3)
}
const fn mut_getters() -> ([u16; 4], bool, bool, bool) {
    let mut a = [1u16, 2, 3, 4];
    if let Some(s) = ks::get_range_mut(&mut a, 1, 3) { s[0] = 20; s[1] = 30; }
    if let Some(x) = ks::get_mut(&mut a, 3) { *x = 40; }
    if let Some(x) = ks::first_mut(&mut a) { *x = 11; }
    if let Some(x) = ks::last_mut(&mut a) { *x += 1; }
    if let Some((f, rest)) = ks::split_first_mut(&mut a) { *f += rest.len() as u16; }
    if let Some((l, rest)) = ks::split_last_mut(&mut a) { *l += rest[0]; }
    let n1 = ks::get_from_mut(&mut a, 5).is_none();
    let n2 = ks::get_up_to_mut(&mut a, 5).is_none();
    let n3 = ks::get_range_mut(&mut a, 3, 2).is_none();
    (a, n1, n2, n3)
}
"""

# (tag, type, expression)
CASES = []


def case(tag, ty, expr):
    CASES.append((tag, ty, expr))


IDX = ["0", "2", "5", "6", "BIG - 1", "BIG"]
for i in IDX:
    case("slice", "&'static [u16]", "ks::slice_from(&ARR, %s)" % i)
    case("slice", "&'static [u16]", "ks::slice_up_to(&ARR, %s)" % i)
    case("slice", "&'static [u16]", "ks::slice_range(&ARR, %s, 4)" % i)
    case("slice", "&'static [u16]", "ks::slice_range(&ARR, 1, %s)" % i)
    case("slice", "Option<&'static [u16]>", "ks::get_from(&ARR, %s)" % i)
    case("slice", "Option<&'static [u16]>", "ks::get_up_to(&ARR, %s)" % i)
    case("slice", "Option<&'static [u16]>", "ks::get_range(&ARR, %s, 4)" % i)
    case("slice", "Option<&'static [u16]>", "ks::get_range(&ARR, 1, %s)" % i)
    case("slice", "(&'static [u16], &'static [u16])", "ks::split_at(&ARR, %s)" % i)
    case("slice", "Option<&'static u16>", "ks::get(&ARR, %s)" % i)
    case("slice-zst", "usize", "ks::slice_from(&ZS, %s).len()" % i)
    case("slice-zst", "usize", "ks::slice_up_to(&ZS, %s).len()" % i)
    case("slice-zst", "(usize, usize)", "{ let (a, b) = ks::split_at(&ZS, %s); (a.len(), b.len()) }" % i)
    case("slice-zst", "bool", "ks::get_range(&ZS, 3, %s).is_some()" % i)
case("slice", "(usize, u16, usize)", "{ let (c, r) = ks::as_chunks::<u16, 2>(&ARR); (c.len(), c[1][1], r.len()) }")
case("slice", "(usize, u16, usize)", "{ let (r, c) = ks::as_rchunks::<u16, 3>(&ARR); (c.len(), c[0][0], r.len()) }")
case("slice", "(usize, usize)", "{ let (c, r) = ks::as_chunks::<u16, 7>(&ARR); (c.len(), r.len()) }")
case("slice-zst", "(usize, usize)", "{ let (c, r) = ks::as_chunks::<(), 2>(&ZS); (c.len(), r.len()) }")
case("slice-zst", "(usize, usize)", "{ let (r, c) = ks::as_rchunks::<(), 3>(&ZS); (c.len(), r.len()) }")
case("slice", "u16", "match ks::try_into_array::<u16, 5>(&ARR) { Ok(a) => a[4], Err(_) => 0 }")
case("slice", "bool", "ks::try_into_array::<u16, 4>(&ARR).is_err()")
case("slice-mut", "([u16; 6], usize, usize, usize)", "mut_slices()")
case("slice-mut", "([u16; 4], bool, bool, bool)", "mut_getters()")
# slice iterators through the DSL
case("slice-iter", "[u16; 4]", "iter::collect_const!(u16 => ks::windows(&ARR, 2), map(|w| w[0] + w[1]))")
case("slice-iter", "[u16; 3]", "iter::collect_const!(u16 => ks::chunks(&ARR, 2), map(|c| c[c.len() - 1]))")
case("slice-iter", "[u16; 3]", "iter::collect_const!(u16 => ks::rchunks(&ARR, 2), map(|c| c[0]))")
case("slice-iter", "[u16; 2]", "iter::collect_const!(u16 => ks::chunks_exact(&ARR, 2), rev(), map(|c| c[1]))")
case("slice-iter", "[u16; 2]", "iter::collect_const!(u16 => ks::rchunks_exact(&ARR, 2), map(|c| c[0]))")
case("slice-iter", "[u16; 2]", "iter::collect_const!(u16 => ks::array_chunks::<u16, 2>(&ARR), map(|c| c[0] * 2))")
case("slice-iter", "[u16; 5]", "iter::collect_const!(u16 => ks::iter_copied(&ARR), rev())")
case("slice-iter", "usize", "iter::eval!(ks::windows(&ZS, 3), count())")
case("slice-iter", "usize", "iter::eval!(ks::chunks(&ZS, 3), map(|c| c.len()), fold(0usize, |a, x| a * 10 + x))")
# strings
for pat in ['"é"', "'锈'", '"-x"', '"zz"', '""', "'a'", '"🧠-"']:
    case("str-search", "(Option<usize>, Option<usize>, bool)", "(kstr::find(S, %s), kstr::rfind(S, %s), kstr::contains(S, %s))" % (pat, pat, pat))
    case("str-search", "(Option<&'static str>, Option<&'static str>)", "(kstr::find_skip(S, %s), kstr::find_keep(S, %s))" % (pat, pat))
    case("str-search", "(Option<&'static str>, Option<&'static str>)", "(kstr::rfind_skip(S, %s), kstr::rfind_keep(S, %s))" % (pat, pat))
    case("str-strip", "(Option<&'static str>, Option<&'static str>)", "(kstr::strip_prefix(S, %s), kstr::strip_suffix(S, %s))" % (pat, pat))
    case("str-strip", "(bool, bool)", "(kstr::starts_with(S, %s), kstr::ends_with(S, %s))" % (pat, pat))
    case("str-trim", "(&'static str, &'static str, &'static str)", "(kstr::trim_start_matches(S, %s), kstr::trim_end_matches(S, %s), kstr::trim_matches(S, %s))" % (pat, pat, pat))
    case("str-split", "(Option<(&'static str, &'static str)>, Option<(&'static str, &'static str)>)", "(kstr::split_once(S, %s), kstr::rsplit_once(S, %s))" % (pat, pat))
case("str-trim", "(&'static str, &'static str, &'static str)", "(kstr::trim(WS), kstr::trim_start(WS), kstr::trim_end(WS))")
case("str-trim", "&'static str", 'kstr::trim_matches("ababa", "aba")')
case("str-trim", "&'static str", 'kstr::trim_start_matches("éééa", "é")')
for i in ["0", "1", "3", "6", "10", "12", "13", "BIG"]:
    case("str-slice", "(Option<&'static str>, Option<&'static str>)", "(kstr::get_from(S, %s), kstr::get_up_to(S, %s))" % (i, i))
    case("str-slice", "Option<&'static str>", "kstr::get_range(S, 1, %s)" % i)
    case("str-slice", "bool", "kstr::is_char_boundary(S, %s)" % i)
for i in ["0", "1", "3", "6", "10", "12", "13", "BIG"]:
    case("str-slice", "(&'static str, &'static str)", "(kstr::str_from(S, %s), kstr::str_up_to(S, %s))" % (i, i))
    case("str-slice", "&'static str", "kstr::str_range(S, 1, %s)" % i)
    case("str-slice", "(&'static str, &'static str)", "kstr::split_at(S, %s)" % i)
for s in ["S", '""', '"\\u{800}\\u{7ff}\\u{10ffff}\\u{d7ff}\\u{e000}"', "WS"]:
    case("chars", "(u32, usize)", "chars_sum(%s)" % s)
    case("chars", "(u32, usize)", "rchars_sum(%s)" % s)
    case("chars", "(u32, usize)", "mixed_chars(%s)" % s)
for (s, d) in [("S", '"-"'), ("S", '"é"'), ("S", '""'), ('",a,,b,"', '","'), ('"aaab"', '"aab"'), ('""', '"a"'), ('""', '""')]:
    case("split", "(usize, usize)", "split_lens::<false>(%s, %s)" % (s, d))
    case("split", "(usize, usize)", "split_lens::<true>(%s, %s)" % (s, d))
for (s, d) in [('",a,,b,"', "','"), ("S", "'锈'"), ('"x"', "'x'"), ('""', "'x'")]:
    case("split", "(usize, usize)", "term_lens::<false>(%s, %s)" % (s, d))
    case("split", "(usize, usize)", "term_lens::<true>(%s, %s)" % (s, d))
for c in ["'a'", "'\\u{7f}'", "'\\u{80}'", "'\\u{7ff}'", "'\\u{800}'", "'\\u{d7ff}'", "'\\u{e000}'", "'\\u{ffff}'", "'\\u{10000}'", "'\\u{10ffff}'"]:
    case("chr", "(usize, u8, u8)", "enc(%s)" % c)
for n in ["0", "0x7f", "0xd7ff", "0xd800", "0xdfff", "0xe000", "0x10ffff", "0x110000", "u32::MAX"]:
    case("chr", "Option<char>", "chr::from_u32(%s)" % n)
# array builders
case("array", "[u64; 3]", "hijack::mapped()")
case("array", "[usize; 4]", "hijack::made()")
case("array", "[u32; 2]", "hijack::mapped_val()")
case("array", "[u8; 3]", "hijack::made_val()")
case("array", "[u8; 2]", "hijack::collected()")
case("array", "[u8; 3]", "hijack::concatenated()")
case("array", "[u16; 5]", "array::map!(ARR, |x| x + 1)")
case("array", "[u8; 0]", "array::map!([0u8; 0], |x: u8| x + 1)")
case("array", "[usize; 4]", "array::from_fn!(|i| i * i)")
case("array", "[u32; 3]", "array::map_!([1u32, 2, 3], |x| x * 7)")
case("array", "[usize; 5]", "array::from_fn_!(|i| i + 10)")
case("array", "[u8; 3]", "iter::collect_const!(u8 => 0..6, filter(|x| *x % 2 == 0))")
case("array", "[u8; 0]", "iter::collect_const!(u8 => 3..3)")
case("array", "[(usize, u16); 2]", "iter::collect_const!((usize, u16) => &ARR, copied(), enumerate(), skip(1), take(2))")
for k in range(5):
    case("builder", "(usize, bool, usize, u32)", "builder_hist(%d)" % k)
case("builder", "[u8; 3]", "builder_build()")
for (f, b) in [(0, 0), (1, 0), (0, 1), (2, 2), (3, 2), (5, 0), (0, 5), (4, 3)]:
    case("consumer", "(u32, usize, u32)", "consumer_hist(%d, %d)" % (f, b))
case("consumer", "u32", "consumer_drain()")
# destructure!
case("destructure-packed", "(u8, u32, u64)", "d_p1(P1(1, 0x01020304, 0x1122334455667788))")
case("destructure-packed", "(u8, u32, u64)", "d_p2(P2(2, 0xa1b2c3d4, 0x8877665544332211))")
case("destructure-packed", "(u8, u64, u16)", "d_p4(P4 { a: 3, b: 0xfedcba9876543210, c: 0xbeef })")
case("destructure-packed", "(u8, u64, u16)", "d_p4r(P4 { a: 4, b: 77, c: 5 })")
case("destructure", "(u8, u32, u16, u8)", "d_plain(Plain { a: 1, b: 2, c: (3, 4) })")
case("destructure", "(u8, u32, u8, u16)", "d_tup(Tup(9, (8, 7), [6, 5]))")
case("destructure", "(u8, u16, u32, u8, u8)", "d_tuple((1, (2, 3), [4, 5, 6]))")
case("destructure", "(u32, u32, u32)", "d_arr([1, 2, 3, 4, 5])")
case("destructure", "u8", "d_arr0([])")
case("destructure", "u64", "d_tuple16((1, 0, 0, 0, 0, 0, 0, 2, 0, 0, 0, 0, 0, 0, 3, 1 << 40))")
# wrappers
case("wrappers", "[u16; 0]", "mu_array::<0>()")
case("wrappers", "[u16; 5]", "mu_array::<5>()")
case("wrappers", "[u16; 33]", "mu_array::<33>()")
case("wrappers", "[u16; 4]", "mu_const_array::<4>()")
case("wrappers", "(u64, u64)", "mu_cell(41)")
case("wrappers", "(u32, u32, u32)", "md_cell(10)")
case("wrappers", "(u32, bool, u32, bool, bool, bool, u32, u32)", "ptr_cell(5)")
case("wrappers", "(usize, bool, usize)", "ptr_unsized(S)")
# CStr
for lit in ['b"ab\\0c"', 'b"\\0"', 'b"abc"', 'b""', 'b"a\\0\\0"', 'b"\\xff\\xfe\\0"']:
    case("cstr", "(usize, usize, bool)", "match cstr::from_bytes_until_nul(%s) { Ok(c) => (cstr::to_bytes(c).len(), cstr::to_bytes_with_nul(c).len(), cstr::to_str(c).is_ok()), Err(_) => (99, 99, false) }" % lit)
    case("cstr", "(usize, usize)", "match cstr::from_bytes_with_nul(%s) { Ok(c) => (cstr::to_bytes(c).len(), cstr::to_bytes_with_nul(c).len()), Err(_) => (99, 99) }" % lit)
# concat / join
case("concat", "&'static str", 'kstr::str_concat!(&["a", "é", "", "🧠x"])')
case("concat", "&'static str", "kstr::str_concat!(&['a', 'é', '🧠'])")
case("concat", "&'static str", 'kstr::str_join!("é,", &["a", "", "b"])')
case("concat", "&'static str", "kstr::str_join!('锈', &[\"x\", \"y\"])")
case("concat", "&'static str", 'kstr::str_concat!(&[])')
case("concat", "&'static str", "kstr::from_iter!(&[\"ab\", \"é\"], flat_map(|s| kstr::chars(s)), rev())")
case("concat", "[u8; 3]", "ks::slice_concat!(u8, &[&[1], &[], &[2, 3]])")
case("concat", "[u16; 0]", "ks::slice_concat!(u16, &[])")
# Parser
for s in ['"  12,aé;x "', '"7,"', '"x"', '"  300,é"', '"18446744073709551616,"']:
    case("parser", "(u64, usize, usize, usize)", "parser_seq(%s)" % s)
for s in ['"aé-b;c"', '"abc"', '";é"', '"é;"']:
    case("parser", "(usize, usize, usize)", "parser_back(%s)" % s)
# Parser: zero-length and over-long skips at both ends (the boundary scan must not look outside)
for s0 in ['"a"', '"é"', '""', '"ab-é"']:
    for op in ["skip(0)", "skip_back(0)", "skip(1)", "skip_back(1)", "skip(BIG)", "skip_back(BIG)", "skip(1).skip_back(0)", "skip_back(1).skip(0)"]:
        case("parser", "(usize, usize, usize)", "{ let p = Parser::new(%s).%s; (p.start_offset(), p.end_offset(), p.remainder().len()) }" % (s0, op))
# parser_method! in a const fn: every form, with a match, without, and with an empty literal
for (form, arms) in [("strip_prefix", '"a" | "é" => 1, "" => 2, _ => 0'), ("strip_suffix", '"a" | "é" => 1, "" => 2, _ => 0'), ("strip_prefix", '"zz" => 1, _ => 0'), ("strip_suffix", '"zz" => 1, _ => 0'),
                      ("find_skip", '"-" => 1, "é" => 2, _ => 0'), ("rfind_skip", '"-" => 1, "é" => 2, _ => 0'), ("find_skip", '"zz" => 1, _ => 0'), ("rfind_skip", '"zz" => 1, _ => 0')]:
    for s0 in ['"a-é"', '"é-a"', '""', '"x"']:
        case("pm", "(u8, usize, usize, usize)", "{ let mut p = Parser::new(%s); let b: u8 = konst::parser_method!{p, %s; %s}; (b, p.start_offset(), p.end_offset(), p.remainder().len()) }" % (s0, form, arms))
for (form, arms) in [("trim_start_matches", '"a" | "-"'), ("trim_end_matches", '"a" | "-"'), ("trim_start_matches", '"zz"'), ("trim_end_matches", '"zz"')]:
    for s0 in ['"a-a-é-a"', '"x"', '""', '"aa"']:
        case("pm", "(usize, usize, usize)", "{ let mut p = Parser::new(%s); konst::parser_method!{p, %s; %s}; (p.start_offset(), p.end_offset(), p.remainder().len()) }" % (s0, form, arms))
# integer / bool parsing
for (f, s) in [("parse_u8", '"255"'), ("parse_u8", '"256"'), ("parse_i8", '"-128"'), ("parse_i8", '"-129"'), ("parse_u64", '"00018446744073709551615"'),
               ("parse_i128", '"-170141183460469231731687303715884105728"'), ("parse_usize", '""'), ("parse_i32", '"+1"'), ("parse_u16", '"12a"')]:
    case("parse", "Option<i128>", "match konst::primitive::%s(%s) { Ok(v) => Some(v as i128), Err(_) => None }" % (f, s))
case("parse", "(bool, bool, bool)", '(matches!(konst::primitive::parse_bool("true"), Ok(true)), matches!(konst::primitive::parse_bool("false"), Ok(false)), konst::primitive::parse_bool("tru").is_err())')
# iterator DSL and ranges
case("dsl", "u16", "iter::eval!(&ARR, copied(), filter(|x| *x > 10), map(|x| x / 10), fold(0u16, |a, x| a * 10 + x))")
case("dsl", "u16", "iter::eval!(&ARR, copied(), rev(), skip(1), take(3), fold(0u16, |a, x| a * 10 + x / 10))")
case("dsl", "Option<usize>", "iter::eval!(&ARR, position(|x| *x == 30))")
case("dsl", "Option<usize>", "iter::eval!(&ARR, rposition(|x| *x == 40))")
case("dsl", "Option<&'static u16>", "iter::eval!(&ARR, rfind(|x| **x < 35))")
case("dsl", "Option<(u16, u8)>", "iter::eval!(&ARR, copied(), zip(1u8..), nth(3))")
case("dsl", "u32", "iter::eval!(0u32..4, flat_map(|x| x..4), fold(0u32, |a, x| a * 3 + x))")
case("dsl", "(bool, bool, usize)", "(iter::eval!(&ARR, all(|x| *x >= 10)), iter::eval!(&ARR, any(|x| *x == 35)), iter::eval!(&ARR, skip_while(|x| **x < 30), take_while(|x| **x < 50), count()))")
# short-circuit / laziness: a closure is not called again once the adapter or consumer has made up
# its mind, exactly as in std (T3 traps any call with an element >= 3: an out-of-bounds index)
case("dsl", "Option<u8>", "iter::eval!(&[0u8, 1, 2, 9, 200], copied(), skip_while(|x| T3[*x as usize]), nth(1))")
case("dsl", "u8", "iter::eval!(&[0u8, 1, 2, 9, 200], copied(), take_while(|x| T3[*x as usize]), fold(0u8, |a, x| a + x))")
case("dsl", "bool", "iter::eval!(&[0u8, 1, 2, 9, 200], copied(), any(|x| !T3[x as usize]))")
case("dsl", "bool", "iter::eval!(&[0u8, 1, 2, 9, 200], copied(), all(|x| T3[x as usize]))")
case("dsl", "Option<u8>", "iter::eval!(&[0u8, 1, 2, 9, 200], copied(), find(|x| !T3[*x as usize]))")
case("dsl", "Option<usize>", "iter::eval!(&[0u8, 1, 2, 9, 200], copied(), position(|x| !T3[x as usize]))")
case("dsl", "Option<u8>", "iter::eval!(&[0u8, 1, 2, 9, 200], copied(), find_map(|x| if T3[x as usize] { None } else { Some(x + 1) }))")
case("dsl", "[u8; 2]", "iter::collect_const!(u8 => &[0u8, 1, 2, 9, 200], copied(), skip_while(|x| T3[*x as usize]), skip(1))")
case("dsl", "Option<u8>", "iter::eval!(&[200u8, 9, 2, 1, 0], copied(), rfind(|x| !T3[*x as usize]))")
case("dsl", "Option<u8>", "iter::eval!(&[0u8, 1, 2, 9, 200], copied(), map(|x| x + T3[x as usize] as u8), next())")
case("range", "[u8; 6]", "iter::collect_const!(u8 => 250..=255)")
case("range", "[i8; 3]", "iter::collect_const!(i8 => -128..-125, rev())")
case("range", "[char; 4]", "iter::collect_const!(char => '\\u{d7fe}'..='\\u{e001}')")
case("range", "[u128; 2]", "iter::collect_const!(u128 => (u128::MAX - 1)..=u128::MAX)")
case("range", "[u8; 3]", "iter::collect_const!(u8 => 250.., take(3))")
# comparisons / option / result
case("cmp", "(bool, core::cmp::Ordering, core::cmp::Ordering)", '(kstr::eq_str("aé", "aé"), kstr::cmp_str("ab", "b"), kstr::cmp_str("abc", "ab"))')
case("cmp", "(bool, core::cmp::Ordering)", "(ks::eq_bytes(&[1, 2], &[1, 2]), ks::cmp_bytes(&[2], &[1, 1]))")
# comparisons of slices / strings of 8, 9, 16, 33 elements (a word-at-a-time loop starts there)
for n in [8, 9, 16, 33]:
    a = "&[" + ", ".join(str(i % 7) for i in range(n)) + "]"
    b = "&[" + ", ".join(str(i % 7 if i != n - 2 else 9) for i in range(n)) + "]"
    sa = '"' + "".join("abcdefg"[i % 7] for i in range(n)) + '"'
    sb = '"' + "".join("abcdefg"[i % 7] if i != n - 2 else "z" for i in range(n)) + '"'
    case("cmp", "(bool, bool, core::cmp::Ordering)", "(ks::eq_bytes(%s, %s), ks::eq_bytes(%s, %s), ks::cmp_bytes(%s, %s))" % (a, a, a, b, a, b))
    case("cmp", "(bool, bool, core::cmp::Ordering)", "(kstr::eq_str(%s, %s), kstr::eq_str(%s, %s), kstr::cmp_str(%s, %s))" % (sa, sa, sa, sb, sa, sb))
    case("cmp", "(bool, core::cmp::Ordering, bool)", "(konst::slice::cmp::eq_slice_i8(%s, %s), konst::slice::cmp::cmp_slice_u16(%s, %s), konst::slice::cmp::eq_slice_bool(&[true; %d], &[true; %d]))" % (a, b, a, b, n, n))
    case("cmp", "(bool, core::cmp::Ordering)", "(konst::const_eq!(%s, %s), konst::const_cmp!(%s, %s))" % (sa, sb, sa, sb))
case("optres", "(u8, u8, Option<u8>, Result<u8, u8>)", "(option::unwrap_or!(None::<u8>, 5), option::unwrap_or_else!(Some(3u8), || 9), option::map!(Some(2u8), |x| x * 2), option::ok_or!(None::<u8>, 7u8))")
case("optres", "(u8, Option<u8>, Result<u8, u16>)", "(result::unwrap_or!(Err::<u8, u8>(1), 4), result::ok!(Ok::<u8, u8>(6)), result::map_err!(Err::<u8, u8>(2), |e| e as u16 * 300))")


def program(failed, tags=None):
    """failed: dict case number -> message (those cases are not compiled; their line says REJECTED)"""
    lines = [HEAD]
    marks = {}
    body = ["fn main() {", "    let mut out = Out::new();"]
    for k, (tag, ty, expr) in enumerate(CASES):
        if tags is not None and tag not in tags:
            continue
        args = "%d %s" % (k, "x" + expr.encode().hex())
        if k in failed:
            body.append('    out.line("c01.ctfe", "%s", "REJECTED %s", "-", "%s");' % (args, failed[k].replace('"', "'").replace("\\", "/")[:200], tag))
            continue
        start = sum(l.count("\n") + 1 for l in lines) + 1
        lines.append("const C%d: %s = %s;" % (k, ty, expr))
        marks[k] = (start, start)
        body.append("    { let r: %s = %s; let c: %s = C%d; out.line(\"c01.ctfe\", \"%s\", &(if c == r { \"same\".to_string() } else { format!(\"DIFF const={:?} runtime={:?}\", c, r) }), \"-\", \"%s\"); }"
                    % (ty, expr, ty, k, args, tag))
    body.append("}")
    src = "\n".join(lines) + "\n"
    body_start = src.count("\n") + 1
    # main-body lines: one per case, in order (line number -> case)
    bl = {}
    n = body_start + 2
    for k in range(len(CASES)):
        if tags is not None and CASES[k][0] not in tags:
            continue
        bl[n] = k
        n += 1
    return src + "\n".join(body) + "\n", marks, bl


def cargo_build(crate, release, timeout=2400):
    import kv
    d = os.path.join(common.GEN, crate)
    with kv.Lock("cargo.lock"):
        kv.invalidate_if_repo_changed()
        cmd = ["cargo", "build", "--offline", "-q", "--bins"] + (["--release"] if release else [])
        p = kv.run(cmd, cwd=d, timeout=timeout)
    return p.returncode == 0, p.stderr


def produce(tier, seed, release, out_path, crate=CRATE, tags=None):
    failed = {}
    binname = crate + "_main"
    for attempt in range(8):
        src, marks, bl = program(failed, tags)
        common.make_crate(crate, {binname: src})
        ok, stderr = cargo_build(crate, release)
        if ok:
            break
        new = 0
        for chunk in re.split(r"\n\s*\n", stderr):
            chunk = chunk.strip()
            if not chunk.startswith("error") or chunk.startswith("error: could not compile") or chunk.startswith("error: aborting"):
                continue
            head = chunk.split("\n")[0]
            ks = set()
            for m in re.finditer(r"src/bin/%s\.rs:(\d+):\d+" % binname, chunk):
                ln = int(m.group(1))
                for k, (a, b) in marks.items():
                    if a <= ln <= b:
                        ks.add(k)
                if ln in bl:
                    ks.add(bl[ln])
            for k in ks:
                if k not in failed:
                    failed[k] = head
                    new += 1
        if new == 0:
            errs = re.findall(r"^error[^\n]*(?:\n\s+-->[^\n]*)?", stderr, re.M)
            return "generated crate %s does not build against /repo: %s" % (crate, " | ".join(errs[:6]) or stderr[-1500:])
    else:
        return "generated crate %s still does not build after removing the rejected constants" % crate
    open(out_path, "w").close()
    return common.run_bin(crate, binname, [], out_path, release)
