"""see lib/gen/ctfe_tags.py"""
from . import ctfe_tags


def produce(tier, seed, release, out_path):
    return ctfe_tags.produce_for("C18", tier, seed, release, out_path)
