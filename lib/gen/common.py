"""Helpers for line producers that generate Rust programs.

A generated crate lives under /verif/.build/gen/<name>/, depends on /repo/konst by path
(rebuilt from the working tree), shares the cargo target dir with the harness, and gets
harness/src/common.rs as `mod common` so that it renders values exactly like the harness.
"""
import json
import os
import re
import shutil
import subprocess
import sys
import threading

sys.path.insert(0, os.path.dirname(os.path.dirname(os.path.abspath(__file__))))
import kv

GEN = os.path.join(kv.BUILD, "gen")

CARGO_TOML = """[package]
name = "%(name)s"
version = "0.0.0"
edition = "2021"
publish = false
autobins = false

[workspace]

[dependencies]
konst = { path = "%(repolink)s/konst", features = [%(features)s] }

[profile.dev]
opt-level = 0
debug = false
overflow-checks = true
debug-assertions = true
incremental = false

[profile.release]
opt-level = 1
debug = false

%(bins)s
"""


def write_if_changed(path, text):
    """Leave the file alone when it already holds `text`; otherwise replace it ATOMICALLY (a
    producer of the other profile, or another check, may be compiling this crate right now: it must
    never see a truncated file)."""
    try:
        with open(path) as f:
            if f.read() == text:
                return
    except (OSError, UnicodeDecodeError):
        pass
    os.makedirs(os.path.dirname(path), exist_ok=True)
    tmp = "%s.tmp.%d.%d" % (path, os.getpid(), threading.get_ident())
    with open(tmp, "w") as f:
        f.write(text)
    os.replace(tmp, path)


def make_crate(name, bins, features=("rust_1_83", "alloc")):
    """bins: dict bin_name -> Rust source (each a full program; `mod common;` available via
    #[path]). Returns crate dir."""
    kv.link_repo()
    d = os.path.join(GEN, name)
    # The dev and the release job of one check (threads of one process) and other checks (other
    # processes) may lay out the same crate at the same time, and the directory may hold the
    # programs of an earlier run of another tier: one writer at a time, every file replaced
    # atomically and only when its text differs, and a stale file that somebody else has already
    # removed is not an error.
    with kv.Lock("gen_layout_%s.lock" % name):
        os.makedirs(os.path.join(d, "src", "bin"), exist_ok=True)
        os.makedirs(os.path.join(d, ".cargo"), exist_ok=True)
        write_if_changed(os.path.join(d, ".cargo", "config.toml"), "[net]\noffline = true\n")
        with open(os.path.join(kv.HARNESS, "src", "common.rs")) as f:
            write_if_changed(os.path.join(d, "src", "common.rs"), f.read())
        lock_src = os.path.join(kv.REPO, "Cargo.lock")
        if os.path.exists(lock_src):
            with open(lock_src) as f:
                write_if_changed(os.path.join(d, "Cargo.lock"), f.read())
        sect = []
        keep = set()
        for b, src in bins.items():
            write_if_changed(os.path.join(d, "src", "bin", b + ".rs"), src)
            keep.add(b + ".rs")
            sect.append('[[bin]]\nname = "%s"\npath = "src/bin/%s.rs"\n' % (b, b))
        for f in os.listdir(os.path.join(d, "src", "bin")):
            if f not in keep:
                try:
                    os.remove(os.path.join(d, "src", "bin", f))
                except FileNotFoundError:
                    pass
        feats = ", ".join('"%s"' % f for f in features)
        write_if_changed(os.path.join(d, "Cargo.toml"), CARGO_TOML % {"name": name, "features": feats, "bins": "\n".join(sect), "repolink": kv.REPO_LINK})
    return d


PRELUDE = """#![allow(unused, dead_code, unused_imports, unused_variables, unused_mut, clippy::all)]
#[path = "../common.rs"]
mod common;
use common::*;
"""


def build(name, release=False, timeout=2400):
    d = os.path.join(GEN, name)
    with kv.Lock("cargo.lock"):
        kv.invalidate_if_repo_changed()
        cmd = ["cargo", "build", "--offline", "-q", "--bins"] + (["--release"] if release else [])
        p = kv.run(cmd, cwd=d, timeout=timeout)
    if p.returncode != 0:
        errs = re.findall(r"^error[^\n]*(?:\n\s+-->[^\n]*)?", p.stderr, re.M)
        return "generated crate %s does not build against /repo: %s" % (name, " | ".join(errs[:6]) or p.stderr[-1500:])
    return ""


def run_bin(name, binname, args, out_file, release=False, timeout=1200, append=True):
    exe = os.path.join(kv.TARGET, "release" if release else "debug", binname)
    with open(out_file, "a" if append else "w") as f:
        p = subprocess.run([exe] + [str(a) for a in args], stdout=f, stderr=subprocess.PIPE, env=kv.env_base(), timeout=timeout)
    if p.returncode != 0:
        return "generated program %s exited with %s: %s" % (binname, p.returncode, p.stderr.decode(errors="replace")[-600:])
    return ""


def check_bins(name, timeout=2400):
    """cargo check --keep-going over every [[bin]] of the crate; returns (dict bin -> list of
    error messages (empty = compiles), error string)."""
    d = os.path.join(GEN, name)
    with kv.Lock("cargo.lock"):
        kv.invalidate_if_repo_changed()
        p = kv.run(["cargo", "check", "--offline", "--keep-going", "--bins", "--message-format=json"], cwd=d, timeout=timeout)
    res = {}
    seen_any = False
    for line in p.stdout.splitlines():
        if not line.startswith("{"):
            continue
        try:
            m = json.loads(line)
        except ValueError:
            continue
        tgt = m.get("target", {})
        if "bin" not in tgt.get("kind", []):
            continue
        b = tgt.get("name")
        if m.get("reason") == "compiler-artifact":
            seen_any = True
            res.setdefault(b, [])
        elif m.get("reason") == "compiler-message" and m["message"].get("level") == "error":
            seen_any = True
            res.setdefault(b, []).append(m["message"].get("message", ""))
    if not seen_any:
        return res, "cargo check produced no per-bin results: " + p.stderr[-1200:]
    return res, ""
