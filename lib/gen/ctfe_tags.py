"""Per-property subsets of the compile-time producer (lib/gen/c01ctfe.py): the SAME generated crate
(built once per source state, then a cargo no-op) is run and only the cases whose tag belongs to the
property are kept.  See c01ctfe.py for the family (c01.ctfe) and its verdicts."""
import os

from . import c01ctfe

TAGS = {
    "C02": ("slice", "slice-zst", "slice-mut"),
    "C03": ("str-slice",),
    "C04": ("str-search", "str-split"),
    "C05": ("str-strip", "str-trim"),
    "C06": ("split", "str-split"),
    "C07": ("chars", "chr"),
    "C08": ("slice-iter",),
    "C09": ("range",),
    "C10": ("dsl", "range"),
    "C11": ("array", "builder"),
    "C12": ("parse",),
    "C13": ("parser", "pm"),
    "C14": ("parser",),
    "C15": ("destructure", "destructure-packed", "consumer", "builder", "array"),
    "C16": ("cmp",),
    "C18": ("pm",),
    "C19": ("optres",),
    "C20": ("concat", "cstr"),
}


def produce_for(prop, tier, seed, release, out_path):
    tmp = out_path + ".all"
    err = c01ctfe.produce(tier, seed, release, tmp)
    if err:
        return err
    keep = TAGS[prop]
    with open(out_path, "w") as f:
        for line in open(tmp):
            cols = line.rstrip("\n").split("\t")
            if len(cols) >= 5 and cols[4] in keep:
                f.write(line)
    os.remove(tmp)
    return ""
