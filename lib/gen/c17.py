"""C17 producer: misused macros must be rejected at compile time.

One generated program (= one [[bin]]) per case; rustc (`cargo check --keep-going`) is the
implementation column: ACCEPT, or REJECT:<guards> where <guards> is the set of guard kinds
recognised in the diagnostics (konst's own compile_error! texts by a stable fragment, rustc's
type errors by error code), rendered in the fixed order of KINDS / METHODS below (the same
tables as coq/Model/Guards.v).  A rejection none of whose diagnostics is recognised is
REJECT:other.

Line format:  family \t args \t impl \t - \t tag
  c17.dsl            <macro> [[name,shape],...]         macro: for_each|collect|eval
                                                        shape: n (no parentheses) e `()` g (arguments given)
  c17.parser_method  <form> p [pat,...]                 pattern-only syntax
                     <form> b [[[pat,...],body,comma],...]   match-like syntax; body e|b; comma 0|1
                                                        pat: s r c y (literal forms) w `_` k q b i h m z (non-literal; m z = inside concat!)
  c17.destructure    <shape> <pk> <ann> [elem,...] <n> <drop> <ref>
                                                        shape braced|tstruct|tuple|array; pk path|type|none
                                                        elem: field index | r (`..`) | a (`rem @ ..`, arrays)
                                                        n = number of fields/elements of the value's type
tag = misuse class, or 'control' for the minimally different valid program.
"""
import json
import os
import re
import sys

sys.path.insert(0, os.path.dirname(os.path.dirname(os.path.abspath(__file__))))
import kv
from gen import common

CRATE = "c17"

# ------------------------------------------------------------------ tables (mirror Guards.v)

METHODS = ["copied", "filter", "filter_map", "flat_map", "flatten", "map", "take_while", "rev",
           "rfind", "all", "any", "count", "find", "find_map", "rfold", "fold", "for_each", "nth",
           "next", "position", "rposition", "zip", "enumerate", "take", "skip", "skip_while"]

# diagnostic kinds in rendering order; (kind, carries a method name)
KINDS = [("noparens", True), ("rev2", True), ("unsup", True), ("notcallable", True), ("unsup_eval", True),
         ("args", True), ("noexpr", False), ("closure", True), ("fold", False), ("trailing", False),
         ("pm_method", False), ("pm_after_default", False), ("pm_more", False), ("pm_nonlit", False),
         ("rest_struct", False), ("rest_tstruct", False), ("rest_tuple", False),
         ("E0308", False), ("E0027", False), ("E0026", False), ("E0769", False), ("E0527", False), ("E0528", False),
         ("nomatch", False)]

# stable fragments of konst's own messages -> kind; group 1 (if any) = method name
FRAGMENTS = [
    (r"method call expected arguments: (\w+)", "noparens"),
    (r"cannot call two iterator-reversing methods in `konst::iter` macros, called: (\w+)", "rev2"),
    (r"^unsupported iterator method: (\w+)", "unsup"),
    (r"the `(\w+)` method cannot be called in this macro", "notcallable"),
    (r"^Unsupported iterator method: `(\w+)`", "unsup_eval"),
    (r"`(\w+)` does not take arguments", "args"),
    (r"expected an expression to be passed", "noexpr"),
    (r"`(\w+)` expects to be passed a \d-parameter closure", "closure"),
    (r"fold method expects accumulator and closure arguments", "fold"),
    (r"Unsupported trailing syntax", "trailing"),
    (r"Expected the second argument \(the name of the Parser method\)", "pm_method"),
    (r"expected no branches after the first `_ => <expression>` branch", "pm_after_default"),
    (r"expected more branches, ending with a `_ => <expression>` branch", "pm_more"),
    (r"Expected one of: string literal, concat!", "pm_nonlit"),
    (r"`\.\.` patterns are not supported in top-level struct patterns", "rest_struct"),
    (r"`\.\.` patterns are not supported in top-level tuple struct patterns", "rest_tstruct"),
    (r"`\.\.` patterns are not supported in top-level tuple patterns", "rest_tuple"),
    (r"no rules expected|unexpected end of macro invocation", "nomatch"),
    # E0027 without its code: the unmentioned fields are private to the struct's module
    (r"pattern requires `\.\.` due to inaccessible fields", "E0027"),
]
# rustc's own type errors only count as guards for destructure! (elsewhere they are follow-up noise
# after a compile_error!)
CODES = {"E0308", "E0027", "E0026", "E0769", "E0527", "E0528"}


def classify(errors, use_codes):
    """errors: list of (code|None, message). Returns 'ACCEPT' or 'REJECT:..'."""
    if not errors:
        return "ACCEPT"
    found = set()
    for code, msg in errors:
        if code in CODES:
            if use_codes:
                found.add((code, ""))
            continue
        for rx, kind in FRAGMENTS:
            m = re.search(rx, msg)
            if m:
                name = m.group(1) if m.groups() else ""
                if name and name not in METHODS:
                    name = "other"
                found.add((kind, name))
                break
    if not found:
        return "REJECT:other"
    out = []
    for kind, named in KINDS:
        if named:
            for nm in METHODS + ["other"]:
                if (kind, nm) in found:
                    out.append("%s(%s)" % (kind, nm))
        elif (kind, "") in found:
            out.append(kind)
    return "REJECT:" + "+".join(out)


# ------------------------------------------------------------------ DSL programs

CONSUMERS = ["rfind", "all", "any", "count", "find", "find_map", "rfold", "fold", "for_each", "nth",
             "next", "position", "rposition"]
ARGLESS = ["rev", "copied", "enumerate", "flatten", "count", "next"]


def dsl_method_text(name, shape, ty):
    """text of one method call and the item type after it (None: cannot be typed here)."""
    if shape == "n":
        return name, ty
    if name not in METHODS:
        return name + ("()" if shape == "e" else "(2)"), ty
    if shape == "e":
        arg = ""
    elif name in ("filter", "take_while", "all", "find", "rfind", "position", "rposition"):
        arg = "|_| true"
    elif name in ("skip_while", "any"):
        arg = "|_| false"
    elif name == "map":
        arg = "|x| x"
    elif name in ("filter_map", "find_map"):
        arg = "|x| Some(x)"
    elif name == "flat_map":
        if ty == "&u8":
            arg = "|x| core::slice::from_ref(x)"
        elif ty == "u8":
            arg = "|x| x..x"
        else:
            return None, None
    elif name in ("fold", "rfold"):
        arg = "0u32, |a, _| a + 1"
    elif name == "for_each":
        arg = "|_| ()"
    elif name in ("nth", "take", "skip"):
        arg = "1"
    elif name == "zip":
        arg = "0usize..9"
    else:
        arg = "7"          # an argument handed to an argument-less method
    nty = ty
    if name == "copied":
        if not ty.startswith("&"):
            return None, None
        nty = ty[1:]
    elif name == "enumerate":
        nty = "(usize, %s)" % ty
    elif name == "zip":
        nty = "(%s, usize)" % ty
    elif name == "flatten":
        if ty != "&&[u8]":
            return None, None
        nty = "&u8"
    return "%s(%s)" % (name, arg), nty


def dsl_program(macro, methods):
    """methods: list of (name, shape). Returns Rust source or None."""
    needs_slices = any(n == "flatten" for n, _ in methods)
    if needs_slices:
        src, ty = "&[&[3u8, 5] as &[u8], &[8u8]]", "&&[u8]"
    else:
        src, ty = "&[3u8, 5, 8]", "&u8"
    parts = []
    for name, shape in methods:
        t, ty2 = dsl_method_text(name, shape, ty)
        if t is None:
            return None
        if name in CONSUMERS or name not in METHODS:
            ty2 = ty
        parts.append(t)
        ty = ty2
    chain = "".join(", " + p for p in parts)
    head = "#![allow(unused, unreachable_code, clippy::all)]\n"
    if macro == "for_each":
        return head + "fn main() {\n    konst::iter::for_each!{_x in %s%s => { let _ = 0u8; }}\n}\n" % (src, chain)
    if macro == "collect":
        return head + "const ARR: &[%s] = &konst::iter::collect_const!(%s => %s%s);\nfn main() { let _ = ARR; }\n" % (ty, ty, src, chain)
    if macro == "eval":
        return head + "fn main() {\n    let _r = konst::iter::eval!(%s%s);\n}\n" % (src, chain)
    raise ValueError(macro)


def dsl_args(macro, methods):
    return "%s [%s]" % (macro, ",".join("[%s,%s]" % (n if n in METHODS else "other", s) for n, s in methods))


def dsl_cases(tier, seed=1):
    """list of (tag, macro, methods)."""
    thorough = tier == "thorough"
    out = []
    g = lambda n: (n, "g")
    e = lambda n: (n, "e")
    macros = ["for_each", "collect", "eval"]

    def add(tag, macro, methods, control=None):
        out.append((tag, macro, list(methods)))
        if control is not None:
            out.append(("control", macro, list(control)))

    # --- two reversing methods
    for m in macros:
        add("rev-twice", m, [e("rev"), e("rev")], [e("rev")])
        add("rev-twice", m, [e("rev"), g("map"), e("rev")], [e("rev"), g("map")])
    for c in ["rfind", "rfold", "rposition"]:
        add("rev-twice", "eval", [e("rev"), g(c)], [g(c)])
        add("rev-twice", "eval", [e("rev"), g("filter"), g(c)], [e("rev"), g("filter"), g(c[1:])])
    add("rev-twice", "eval", [e("rev"), e("rev"), e("rev")], [e("rev"), e("copied")])
    if thorough:
        for m in macros:
            add("rev-twice", m, [g("take"), e("rev"), e("enumerate"), e("rev")], [g("take"), e("rev"), e("enumerate")])
            add("rev-twice", m, [e("rev"), g("zip"), g("skip"), e("rev"), g("map")], [g("zip"), g("skip"), e("rev"), g("map")])
        for c in ["rfind", "rfold", "rposition"]:
            add("rev-twice", "eval", [e("rev"), e("rev"), g(c)], [g(c[1:])])

    # --- unsupported method names
    unknown = ["step_by", "last"] + (["sum", "chain", "peekable", "foo"] if thorough else [])
    for m in macros:
        for u in unknown:
            add("unsupported", m, [g(u)], [])
            add("unsupported", m, [g("map"), e(u), e("rev")], [g("map"), e("rev")])
    # --- consumers inside the adapter-only macros
    for m in ["for_each", "collect"]:
        for c in CONSUMERS:
            sh = "e" if c in ARGLESS else "g"
            if thorough or c in ("count", "rfind", "fold", "next", "for_each", "position"):
                add("consumer-in-adapter-macro", m, [(c, sh)], [])
            if thorough:
                add("consumer-in-adapter-macro", m, [g("filter"), (c, sh)], [g("filter")])
    for c in CONSUMERS:
        sh = "e" if c in ARGLESS else "g"
        add("control", "eval", [(c, sh)])
        if thorough:
            add("control", "eval", [g("filter"), e("enumerate"), (c, sh)])
    # --- consumer not in last position (eval)
    add("consumer-not-last", "eval", [e("count"), g("map")], [g("map"), e("count")])
    add("consumer-not-last", "eval", [e("next"), e("rev")], [e("rev"), e("next")])
    add("consumer-not-last", "eval", [g("for_each"), g("for_each")], [g("for_each")])
    add("consumer-not-last", "eval", [e("count"), e("count")], [e("count")])
    add("consumer-not-last", "eval", [g("for_each"), e("count")], [e("count")])
    add("consumer-not-last", "eval", [g("position"), e("enumerate")], [e("enumerate"), g("position")])
    if thorough:
        add("consumer-not-last", "eval", [g("nth"), g("any")], [g("any")])
        add("consumer-not-last", "eval", [g("any"), g("for_each")], [g("any")])
        add("consumer-not-last", "eval", [g("all"), g("take")], [g("take"), g("all")])
        add("consumer-not-last", "eval", [g("find"), e("copied")], [e("copied"), g("find")])
    # --- arguments to argument-less methods; missing parentheses
    for m in macros:
        for a in ARGLESS:
            if a in ("count", "next") and m != "eval":
                continue
            pre = [g("map")] if thorough else []
            add("args-to-argless", m, [g(a)], [e(a)])
            add("no-parentheses", m, [(a, "n")], [e(a)])
            if thorough:
                if a not in ("count", "next"):
                    add("args-to-argless", m, [g("filter"), g(a), g("map")], [g("filter"), e(a), g("map")])
                add("no-parentheses", m, [g("filter"), (a, "n")], [g("filter"), e(a)])
    add("no-parentheses", "for_each", [("map", "n")], [g("map")])
    add("no-parentheses", "eval", [("fold", "n")], [g("fold")])
    add("args-to-argless", "eval", [g("rev"), g("copied"), g("count")], [e("rev"), e("copied"), e("count")])
    # --- methods that need arguments, called with ()
    need = [n for n in METHODS if n not in ARGLESS]
    for n in need:
        if n in CONSUMERS:
            add("missing-arguments", "eval", [e(n)], [g(n)])
        else:
            ms = ["for_each", "collect", "eval"] if thorough else ["for_each" if need.index(n) % 2 else "collect"]
            for m in ms:
                add("missing-arguments", m, [e(n)], [g(n)])
                if thorough:
                    add("missing-arguments", m, [e("rev"), e(n), g("map")], [e("rev"), g(n), g("map")])
    # --- several misuses at once / errors hidden by an earlier dead end
    add("mixed", "for_each", [e("map"), e("count")], [g("map")])
    add("mixed", "for_each", [g("rev"), e("rev")], [e("rev")])
    add("mixed", "collect", [e("flat_map"), g("copied")], [g("flat_map"), e("copied")])
    add("mixed", "eval", [e("take"), g("rev"), e("rfind")], [g("take"), e("rev"), g("find")])
    add("mixed", "eval", [("rev", "n"), ("rev", "n")], [e("rev")])
    if thorough:
        add("mixed", "eval", [e("zip"), e("skip"), e("nth")], [g("zip"), g("skip"), g("nth")])
        add("mixed", "collect", [e("flatten"), g("copied"), e("filter")], [e("flatten"), e("copied"), g("filter")])
        add("mixed", "for_each", [g("flatten"), e("map"), g("step_by")], [e("flatten"), g("map")])
        add("mixed", "eval", [e("filter"), g("step_by"), g("count")], [g("filter"), e("count")])
    # --- bounded-exhaustive: every single method x every argument shape x every macro
    def natural(n):
        return (n, "e" if n in ARGLESS else "g")

    def klass(macro, ms):
        """tag of a chain from the property's own vocabulary (not from the model)"""
        names = [n for n, _ in ms]
        if any(n not in METHODS for n in names):
            return "unsupported"
        if any(s == "n" for _, s in ms):
            return "no-parentheses"
        if any((s == "g") != (n not in ARGLESS) for n, s in ms):
            return "args-to-argless" if any(s == "g" and n in ARGLESS for n, s in ms) else "missing-arguments"
        if sum(1 for n in names if n in ("rev", "rfind", "rfold", "rposition")) > 1:
            return "rev-twice"
        cons = [i for i, n in enumerate(names) if n in CONSUMERS]
        if cons and macro != "eval":
            return "consumer-in-adapter-macro"
        if cons and cons != [len(names) - 1]:
            return "consumer-not-last"
        return "control"

    for m in macros:
        for n in METHODS + ["last"]:
            for sh in ("n", "e", "g"):
                ms = [(n, sh)]
                add(klass(m, ms), m, ms)
    # --- every ordered pair of methods with their natural argument shapes (thorough: every macro;
    #     quick: every pair that involves a reversing method or a consumer, in eval!)
    for m in macros:
        for a in METHODS:
            for b in METHODS:
                interesting = (a in ("rev", "rfind", "rfold", "rposition") or b in ("rev", "rfind", "rfold", "rposition")
                               or a in CONSUMERS)
                both_adapters = a not in CONSUMERS and b not in CONSUMERS
                if ((thorough and (m == "eval" or interesting or (m == "for_each" and both_adapters and a < b)))
                        or (m == "eval" and interesting)):
                    ms = [natural(a), natural(b)]
                    add(klass(m, ms), m, ms)
    # --- seeded random chains of 3-4 methods with random argument shapes
    import random
    rng = random.Random(1234 + int(seed))
    for _ in range(150 if thorough else 60):
        m = rng.choice(macros)
        k = rng.choice([3, 3, 4])
        ms = []
        for _i in range(k):
            n = rng.choice(METHODS)
            sh = natural(n)[1] if rng.random() < 0.8 else rng.choice(["n", "e", "g"])
            ms.append((n, sh))
        add(klass(m, ms), m, ms)
    # --- long valid chains
    add("control", "for_each", [g("filter"), g("map"), e("enumerate"), g("skip"), g("take"), e("rev")])
    add("control", "collect", [g("zip"), g("skip_while"), g("take_while"), e("rev"), g("filter_map")])
    add("control", "eval", [e("copied"), g("flat_map"), e("rev"), g("fold")])
    add("control", "eval", [e("flatten"), e("copied"), g("map"), e("enumerate"), g("nth")])
    return out


# ------------------------------------------------------------------ parser_method! programs

FORMS = ["find_skip", "rfind_skip", "strip_prefix", "strip_suffix", "trim_start_matches", "trim_end_matches"]
MATCH_FORMS = FORMS[:4]
TRIM_FORMS = FORMS[4:]
PAT_TEXT = {
    "s": '"ab"', "r": 'r#"cd"#', "c": 'concat!("e", "f")', "y": "stringify!(gh)",
    "w": "_", "k": "KPAT", "q": "pats::QPAT", "b": 'b"ij"', "i": "7", "h": "'z'",
    # a non-literal hidden inside concat!(..): as an argument after a literal, and alone
    "m": 'concat!("e", KPAT)', "z": "concat!(KPAT)",
    # deep nesting / long argument lists: the guard must hold at every depth and position
    "n": 'concat!("a", concat!("b", concat!("c", concat!("d", concat!(KPAT)))))',
    "g": 'concat!(%s, KPAT)' % ", ".join('"%c"' % (97 + i) for i in range(20)),
    "d": 'concat!(concat!(concat!(concat!(concat!("e", "f")))))',
    "l": 'concat!(%s)' % ", ".join('"%c"' % (97 + i) for i in range(21)),
}
LIT_OK = "srcydl"


def pm_program(form, syntax, body):
    head = ("#![allow(unused, unreachable_code, unreachable_patterns, clippy::all)]\n"
            "use konst::{parser_method, parsing::Parser};\n"
            "const KPAT: &str = \"kk\";\nmod pats { pub const QPAT: &str = \"qq\"; }\n")
    if syntax == "p":
        inner = " | ".join(PAT_TEXT[p] for p in body)
        return head + "fn main() {\n    let mut parser = Parser::new(\"abcdefgh\");\n    parser_method!{parser, %s; %s }\n    let _ = parser.remainder();\n}\n" % (form, inner)
    brs = []
    for i, (pats, bkind, comma) in enumerate(body):
        val = str(i) + "u32"
        b = " | ".join(PAT_TEXT[p] for p in pats) + " => " + (val if bkind == "e" else "{ %s }" % val) + ("," if comma else "")
        brs.append(b)
    return head + ("fn main() {\n    let mut parser = Parser::new(\"abcdefgh\");\n    let _v: u32 = parser_method!{parser, %s;\n        %s\n    };\n"
                   "    let _ = parser.remainder();\n}\n") % (form, "\n        ".join(brs))


def pm_args(form, syntax, body):
    f = form if form in FORMS else "bogus"
    if syntax == "p":
        return "%s p [%s]" % (f, ",".join(body))
    return "%s b [%s]" % (f, ",".join("[[%s],%s,%d]" % (",".join(p), b, c) for p, b, c in body))


def pm_cases(tier):
    thorough = tier == "thorough"
    out = []

    def add(tag, form, syntax, body, control=None):
        out.append((tag, form, syntax, body))
        if control is not None:
            out.append(("control", form, syntax, control))

    E, B = "e", "b"
    dflt = (["w"], E, 1)
    dflt_nc = (["w"], E, 0)
    nonlits = ["k", "b", "m", "z", "n", "g"] + (["q", "i", "h", "w"] if thorough else ["w"])
    for form in MATCH_FORMS:
        first = form == MATCH_FORMS[0] or thorough
        # non-literal pattern, alone and inside an or-pattern
        for nl in nonlits:
            if first or nl == "k":
                if nl != "w":
                    add("non-literal-pattern", form, "b", [([nl], E, 1), dflt], [(["s"], E, 1), dflt])
                add("non-literal-pattern", form, "b", [(["s", nl], E, 1), (["r"], B, 0), dflt_nc], [(["s", "c"], E, 1), (["r"], B, 0), dflt_nc])
        # missing default branch
        add("missing-default", form, "b", [(["s"], E, 1)], [(["s"], E, 1), dflt])
        add("missing-default", form, "b", [(["s"], E, 1), (["r", "y"], B, 0)], [(["s"], E, 1), (["r", "y"], B, 0), dflt_nc])
        if first:
            add("missing-default", form, "b", [(["s"], E, 0)], [(["s"], E, 1), dflt_nc])
            add("missing-default", form, "p", ["s", "r"], None)
            add("missing-default", form, "b", [], [dflt_nc])
        # misplaced default branch
        add("misplaced-default", form, "b", [dflt, (["s"], E, 1)], [(["s"], E, 1), dflt])
        add("misplaced-default", form, "b", [(["s"], E, 1), dflt, (["r"], E, 1), dflt], [(["s"], E, 1), (["r"], E, 1), dflt])
        if first:
            add("misplaced-default", form, "b", [(["w"], B, 0), (["s"], E, 1), dflt], [(["s"], B, 0), (["s"], E, 1), dflt])
            add("misplaced-default", form, "b", [(["w"], B, 0), dflt_nc], [(["c"], B, 0), dflt_nc])
            add("misplaced-default", form, "b", [dflt, dflt], [dflt])
            add("missing-comma", form, "b", [(["s"], E, 0), dflt], [(["s"], B, 0), dflt])
        # every literal form is accepted
        add("control", form, "b", [(["s", "r", "c", "y"], B, 1), (["s"], B, 0), (["y"], E, 1), (["w"], B, 0)])
        add("control", form, "b", [(["d", "l"], B, 1), (["l"], E, 1), (["w"], B, 0)])
    for form in TRIM_FORMS:
        add("control", form, "p", ["s"])
        add("control", form, "p", ["s", "r", "c", "y"])
        add("control", form, "p", ["d", "l"])
        for nl in nonlits:
            add("non-literal-pattern", form, "p", [nl], ["s"])
            if thorough or form == TRIM_FORMS[0]:
                add("non-literal-pattern", form, "p", ["s", nl, "r"], ["s", "c", "r"])
        add("match-syntax-in-trim", form, "b", [(["s"], E, 1), dflt], None)
        if thorough:
            add("match-syntax-in-trim", form, "b", [dflt_nc], None)
    # --- bounded-exhaustive: every branch list of length <= 2 (thorough: <= 3 over a smaller
    #     alphabet) over {literal, `_`, constant} x {expression, block} x {comma, no comma}
    import itertools

    def pm_class(bs):
        """tag from the property's own vocabulary"""
        if not bs or bs[-1][0] != ["w"]:
            return "missing-default"
        if any(b[0] == ["w"] for b in bs[:-1]):
            return "misplaced-default"
        if any(p not in LIT_OK for b in bs[:-1] for p in b[0]):
            return "non-literal-pattern"
        if any(b[2] == 0 and b[1] == "e" for b in bs[:-1]):
            return "missing-comma"
        return "control"

    kinds = [(ps, bk, c) for ps in (["s"], ["w"], ["k"]) for bk in (E, B) for c in (0, 1)]
    for n in (1, 2):
        for bs in itertools.product(kinds, repeat=n):
            add(pm_class(list(bs)), "strip_prefix", "b", list(bs))
    if thorough:
        kinds3 = [(ps, bk, c) for ps in (["s"], ["w"]) for bk in (E, B) for c in (0, 1)]
        last3 = [(["w"], E, 0), (["w"], E, 1), (["s"], E, 1)]
        for bs in itertools.product(kinds3, kinds3, last3):
            add(pm_class(list(bs)), "find_skip", "b", list(bs))
    add("unknown-method", "skip_prefix", "b", [(["s"], E, 1), dflt], None)
    add("unknown-method", "trim_matches", "p", ["s"], None)
    return out


# ------------------------------------------------------------------ destructure! programs

FIELD_NAMES = ["fa", "fb", "fc", "fd", "fe", "ff", "fg", "fh", "fi", "fj", "fk", "fl", "fm", "fn_", "fo", "fp"]


def de_program(shape, pk, ann, elems, n, drop, isref):
    """value type has n fields/elements (all String-like Drop-carrying fields: Vec<u8>)."""
    head = "#![allow(unused, unreachable_code, clippy::all)]\nuse konst::destructure;\n"
    decl = ""
    ety = "Vec<u8>"
    mk = "Vec::new()"
    gen = "<T>" if n else ""
    pub = "pub " if pk == "type" else ""     # private fields: E0027 is worded differently
    if shape == "braced":
        decl = "struct Foo%s { %s }\n" % (gen, " ".join("%s%s: T," % (pub, f) for f in FIELD_NAMES[:n]))
        vty = "Foo<%s>" % ety if n else "Foo"
        val = "Foo { %s }" % " ".join("%s: %s," % (f, mk) for f in FIELD_NAMES[:n])
    elif shape == "tstruct":
        decl = "struct Foo%s(%s);\n" % (gen, " ".join("%sT," % pub for _ in range(n)))
        vty = "Foo<%s>" % ety if n else "Foo"
        val = "Foo(%s)" % " ".join("%s," % mk for _ in range(n))
    elif shape == "tuple":
        vty = "(%s)" % " ".join("%s," % ety for _ in range(n))
        val = "(%s)" % " ".join("%s," % mk for _ in range(n))
    else:
        vty = "[%s; %d]" % (ety, n)
        val = "[%s]" % ", ".join(mk for _ in range(n))
    if drop:
        decl += "impl%s Drop for Foo%s { fn drop(&mut self) {} }\n" % (gen, gen)
    # the pattern
    def el(i, e):
        if e == "r":
            return ".."
        if e == "a":
            return "rest @ .."
        return "v%d" % i
    if shape == "braced":
        items = []
        for i, e in enumerate(elems):
            if e == "r":
                items.append("..")
            else:
                fname = FIELD_NAMES[e] if e < len(FIELD_NAMES) else "zz"
                items.append("%s: v%d" % (fname, i) if i % 2 else fname)
        pat = "{ %s }" % ", ".join(items)
    elif shape == "array":
        pat = "[%s]" % ", ".join(el(i, e) for i, e in enumerate(elems))
    else:
        pat = "(%s)" % ", ".join(el(i, e) for i, e in enumerate(elems))
    if shape in ("braced", "tstruct"):
        if pk == "path":
            path = "Foo "
        else:
            path = "%s%s" % (vty, " " if shape == "braced" else ", ")
        pat = path + pat
    annot = ""
    if ann:
        annot = ": %s%s" % ("&" if isref else "", vty)
    rhs = "&value" if isref else "value"
    return head + decl + "fn main() {\n    let value: %s = %s;\n    destructure!{%s%s = %s}\n}\n" % (vty, val, pat, annot, rhs)


def de_args(shape, pk, ann, elems, n, drop, isref):
    return "%s %s %d [%s] %d %d %d" % (shape, pk, ann, ",".join(str(e) for e in elems), n, drop, isref)


def de_cases(tier):
    thorough = tier == "thorough"
    out = []

    def add(tag, *c):
        out.append((tag,) + c)

    for shape in ["braced", "tstruct", "tuple", "array"]:
        pks = ["path", "type"] if shape in ("braced", "tstruct") else ["none"]
        for pk in pks:
            for ann in (0, 1):
                full = [0, 1, 2]
                n = 3
                # control
                add("control", shape, pk, ann, full, n, 0, 0)
                # reference
                add("reference", shape, pk, ann, full, n, 0, 1)
                # Drop
                if shape in ("braced", "tstruct"):
                    add("drop-type", shape, pk, ann, full, n, 1, 0)
                    if thorough:
                        add("drop-type+reference", shape, pk, ann, full, n, 1, 1)
                # wrong field / element count
                add("too-few-fields", shape, pk, ann, [0, 1], n, 0, 0)
                add("too-many-fields", shape, pk, ann, [0, 1, 2, 3], n, 0, 0)
                if thorough:
                    add("too-few-fields", shape, pk, ann, [0], 2, 0, 0)
                    add("control", shape, pk, ann, [0], 1, 0, 0)
                    add("control", shape, pk, ann, [0, 1, 2, 3, 4], 5, 0, 0)
                    add("too-few-fields", shape, pk, ann, [0, 1, 2, 3], 5, 0, 0)
                    add("too-few-fields+reference", shape, pk, ann, [0, 1], n, 0, 1)
                if shape == "braced":
                    add("unknown-field", shape, pk, ann, [0, 1, 9], n, 0, 0)
                    if thorough:
                        add("control", shape, pk, ann, [2, 0, 1], n, 0, 0)
                # `..`
                if shape != "array":
                    add("rest-pattern", shape, pk, ann, [0, 1, "r"], n, 0, 0)
                    add("rest-pattern", shape, pk, ann, [0, "r"], n, 0, 0)
                    if thorough or ann == 0:
                        add("rest-pattern", shape, pk, ann, ["r"], n, 0, 0)
                        add("rest-pattern", shape, pk, ann, ["r", 2], n, 0, 0)
                        add("rest-pattern", shape, pk, ann, [0, "r", 2], n, 0, 0)
                        add("rest-pattern", shape, pk, ann, [0, 1, 2, "r"], n, 0, 0)
                        add("rest-pattern+drop+reference", shape, pk, ann, [0, "r"], n, 1 if pk != "none" else 0, 1)
                else:
                    add("control", shape, pk, ann, [0, "a"], n, 0, 0)
                    add("control", shape, pk, ann, [0, "r", 2], n, 0, 0)
                    add("control", shape, pk, ann, ["a", 0, 1, 2], n, 0, 0)
                    add("too-many-fields", shape, pk, ann, [0, 1, "a", 2, 3], n, 0, 0)
                    add("reference", shape, pk, ann, [0, "a"], n, 0, 1)
                    add("two-rest-patterns", shape, pk, ann, ["r", 0, "a"], n, 0, 0)
    # many fields (the macros walk a fixed list of 16 tuple-field names): the guards at the far end
    for shape in ["braced", "tstruct", "tuple", "array"]:
        pk = "path" if shape in ("braced", "tstruct") else "none"
        for n in ([8, 15, 16] if thorough else [8, 16]):
            full = list(range(n))
            for ann in ((0, 1) if (thorough or n == 16) else (0,)):
                add("control", shape, pk, ann, full, n, 0, 0)
                add("too-few-fields", shape, pk, ann, full[:-1], n, 0, 0)
                if shape != "braced":
                    add("too-many-fields", shape, pk, ann, full + [n], n, 0, 0)
                else:
                    add("unknown-field", shape, pk, ann, full[:-1] + [99], n, 0, 0)
                if shape != "array":
                    add("rest-pattern", shape, pk, ann, full + ["r"], n, 0, 0)
                    add("rest-pattern", shape, pk, ann, full[:-1] + ["r"], n, 0, 0)
                    add("rest-pattern", shape, pk, ann, full[:n // 2] + ["r"] + full[n // 2 + 1:], n, 0, 0)
                    add("reference", shape, pk, ann, full, n, 0, 1)
                    if shape != "tuple":
                        add("drop-type", shape, pk, ann, full, n, 1, 0)
                else:
                    add("control", shape, pk, ann, full[:-1] + ["a"], n, 0, 0)
                    add("too-many-fields", shape, pk, ann, full + ["a", n], n, 0, 0)
    # degenerate empty patterns (no field is read): the guards are not expanded at all
    for shape in ["braced", "tstruct", "tuple", "array"]:
        pk = "path" if shape in ("braced", "tstruct") else "none"
        add("control", shape, pk, 0, [], 0, 0, 0)
        add("empty-pattern+reference", shape, pk, 0, [], 0, 0, 1)
        if pk == "path":
            add("empty-pattern+drop-type", shape, pk, 0, [], 0, 1, 0)
        add("too-few-fields", shape, pk, 0, [], 2, 0, 0)
    return out


# ------------------------------------------------------------------ driver

def all_programs(tier, seed=1):
    """list of (family, args, tag, source)"""
    progs = []
    seen = set()
    for tag, macro, methods in dsl_cases(tier, seed):
        src = dsl_program(macro, methods)
        a = dsl_args(macro, methods)
        if src is None or ("dsl", a) in seen:
            continue
        seen.add(("dsl", a))
        progs.append(("c17.dsl", a, tag, src))
    for tag, form, syntax, body in pm_cases(tier):
        a = pm_args(form, syntax, body)
        if ("pm", a) in seen:
            continue
        seen.add(("pm", a))
        progs.append(("c17.parser_method", a, tag, pm_program(form, syntax, body)))
    for c in de_cases(tier):
        tag, rest = c[0], c[1:]
        a = de_args(*rest)
        if ("de", a) in seen:
            continue
        seen.add(("de", a))
        progs.append(("c17.destructure", a, tag, de_program(*rest)))
    return progs


def check_bins_with_codes(name, timeout=2400):
    """like common.check_bins, but keeps rustc's error code next to each message."""
    d = os.path.join(common.GEN, name)
    with kv.Lock("cargo.lock"):
        kv.invalidate_if_repo_changed()
        p = kv.run(["cargo", "check", "--offline", "--keep-going", "--bins", "--message-format=json"], cwd=d, timeout=timeout)
    res = {}
    seen_any = False
    for line in p.stdout.splitlines():
        if not line.startswith("{"):
            continue
        try:
            m = json.loads(line)
        except ValueError:
            continue
        tgt = m.get("target", {})
        if "bin" not in tgt.get("kind", []):
            continue
        b = tgt.get("name")
        if m.get("reason") == "compiler-artifact":
            seen_any = True
            res.setdefault(b, [])
        elif m.get("reason") == "compiler-message" and m["message"].get("level") == "error":
            seen_any = True
            code = (m["message"].get("code") or {}).get("code")
            res.setdefault(b, []).append((code, m["message"].get("message", "")))
    if not seen_any:
        return res, "cargo check produced no per-bin results: " + p.stderr[-1200:]
    return res, ""


def produce(tier, seed, release, out_path, debug=False):
    progs = all_programs(tier, seed)
    bins = {}
    names = []
    for i, (fam, a, tag, src) in enumerate(progs):
        b = "c17_p%04d" % i
        names.append(b)
        bins[b] = "// %s %s  [%s]\n%s" % (fam, a, tag, src)
    common.make_crate(CRATE, bins)
    res, err = check_bins_with_codes(CRATE)
    if err:
        return err
    missing = [b for b in names if b not in res]
    if missing:
        return "cargo check gave no verdict for %d programs, e.g. %s" % (len(missing), missing[0])
    with open(out_path, "w") as f:
        for b, (fam, a, tag, src) in zip(names, progs):
            errs = [e for e in res[b] if not e[1].startswith("aborting due to")]
            verdict = classify(errs, fam == "c17.destructure")
            f.write("%s\t%s\t%s\t-\t%s\n" % (fam, a, verdict, tag))
            if debug:
                sys.stderr.write("%s %s %s [%s] -> %s\n" % (b, fam, a, tag, verdict))
                for code, msg in errs:
                    sys.stderr.write("      %s %s\n" % (code, msg.split("\n")[0][:150]))
    return ""


if __name__ == "__main__":
    tier = sys.argv[1] if len(sys.argv) > 1 else "quick"
    e = produce(tier, 1, False, "/tmp/c17_scratch/lines.tsv", debug=True)
    print("error:", e)
