"""C11 producer: programs whose inputs are const items.

  c11.collect  iter::collect_const!(u64 => &SRC, copied(), <stages>) for chains of
               filter / map / take / skip / take_while / skip_while whose closures may
               `break` or `continue` (they act on the one loop the DSL expands to);
               impl = the const array, std = the same chain on std iterators (chains
               without early exits), model = two-pass collect over the model's chain.
  c11.const    a const item initialised by array::map! / from_fn! / map_! / from_fn_!
               with a scripted closure body; it must compile exactly when the model
               reaches Built (a const-eval panic or a `return` is a compile error), and
               then have the model's value.
"""
import os
import random

from . import common

CRATE = "c11gen"

# ---------------------------------------------------------------- collect_const! chains

# closure = (exit, trig, body, par); exit 0 none / 1 break / 2 continue
PREDS = [(0, 0, 0, 0), (0, 0, 1, 4), (0, 0, 2, 4), (1, 3, 0, 0), (2, 2, 1, 5), (1, 4, 2, 2), (2, 4, 0, 0)]
MAPS = [(0, 0, 0, 10), (0, 0, 1, 0), (1, 4, 0, 10), (2, 1, 1, 0), (2, 3, 0, 1)]


def stage_menu():
    m = []
    for c in PREDS:
        m.append((1,) + c)
    for c in MAPS:
        m.append((2,) + c)
    for n in (0, 1, 2, 9):
        m.append((3, n))
    for n in (0, 1, 3, 9):
        m.append((4, n))
    for c in PREDS[:2] + PREDS[3:5]:
        m.append((5,) + c)
    for c in PREDS[1:3] + PREDS[3:6]:
        m.append((6,) + c)
    return m


SOURCES = [[], [1], [1, 2, 3, 4, 5], [2, 4, 5, 6, 8, 3, 1]]


def pred_text(c, std):
    ex, trig, body, par = c
    b = {0: "*x % 2 == 0", 1: "*x < %d" % par, 2: "*x != %d" % par}[body]
    if std or ex == 0:
        return "|x| { %s }" % b
    return "|x| { if *x == %d { %s } %s }" % (trig, "break" if ex == 1 else "continue", b)


def map_text(c, std):
    ex, trig, body, par = c
    b = {0: "x + %d" % par, 1: "x * 2"}[body]
    if std or ex == 0:
        return "|x| { %s }" % b
    return "|x| { if x == %d { %s } %s }" % (trig, "break" if ex == 1 else "continue", b)


def stage_text(s, std):
    k = s[0]
    if k == 1:
        return ("filter(%s)" % pred_text(s[1:], std))
    if k == 2:
        return ("map(%s)" % map_text(s[1:], std))
    if k == 3:
        return "take(%d)" % s[1]
    if k == 4:
        return "skip(%d)" % s[1]
    if k == 5:
        return "take_while(%s)" % pred_text(s[1:], std)
    return "skip_while(%s)" % pred_text(s[1:], std)


def has_exit(chain):
    return any(len(s) == 5 and s[1] != 0 for s in chain)


def chain_tag(src, chain):
    t = []
    if any(len(s) == 5 and s[1] == 1 for s in chain):
        t.append("break")
    if any(len(s) == 5 and s[1] == 2 for s in chain):
        t.append("continue")
    if any(s[0] in (3, 5) for s in chain):
        t.append("take")
    if any(s[0] in (4, 6) for s in chain):
        t.append("skip")
    if not src:
        return "-"
    return "+".join(t) or "plain"


def collect_cases(tier, seed):
    menu = stage_menu()
    rng = random.Random(seed * 7919 + 11)
    chains = [[]] + [[s] for s in menu]
    pairs = [[a, b] for a in menu for b in menu]
    triples_n = 150 if tier == "quick" else 1500
    if tier == "quick":
        rng.shuffle(pairs)
        pairs = pairs[:400]
    chains += pairs
    for _ in range(triples_n):
        chains.append([rng.choice(menu) for _ in range(3)])
    cases = []
    for ch in chains:
        if len(ch) <= 1:
            srcs = SOURCES
        else:
            srcs = [SOURCES[2], SOURCES[3]] if tier == "thorough" else [rng.choice(SOURCES[2:])]
        for src in srcs:
            cases.append((src, ch))
    return cases


def show_list(l):
    return "[" + ",".join(str(x) for x in l) + "]"


def collect_program(cases):
    items = []
    body = []
    for i, (src, ch) in enumerate(cases):
        n = len(src)
        items.append("const SRC%d: [u64; %d] = %s;" % (i, n, show_list(src)))
        kon = ", ".join(["&SRC%d" % i, "copied()"] + [stage_text(s, False) for s in ch])
        items.append("const COL%d: &[u64] = &konst::iter::collect_const!(u64 => %s);" % (i, kon))
        args = "%s [%s]" % (show_list(src), ",".join(show_list(s) for s in ch))
        if has_exit(ch):
            std = '"-".to_string()'
        else:
            std_chain = "SRC%d.iter().copied()" % i + "".join("." + stage_text(s, True) for s in ch)
            std = "show_list(%s.collect::<Vec<u64>>(), |v| v.to_string())" % std_chain
        body.append('    emit("c11.collect", "%s", show_list(COL%d.iter(), |v| v.to_string()), %s, "%s");'
                    % (args, i, std, chain_tag(src, ch)))
    return items, body


# ---------------------------------------------------------------- const items of the four macros

MACROS = {0: "map", 1: "from_fn", 2: "map_", 3: "from_fn_"}


def const_expr(which, n, script):
    """the initialiser of a `[u64; n]` const: closure body scripted per evaluation"""
    arms = []
    if which == 0:
        val = "3 * x + 1 + 100 * (k as u64 - 1)"
    elif which == 1:
        val = "3 * (x as u64) + 1 + 100 * (k as u64 - 1)"
    elif which == 2:
        val = "3 * x + 1"
    else:
        val = "3 * (x as u64) + 1"
    codes = sorted(set(script))
    for c in codes:
        if c == 0:
            arms.append("0 => %s," % val)
        elif c == 1:
            arms.append("1 => break,")
        elif c == 2:
            arms.append("2 => continue,")
        elif c == 3:
            arms.append("3 => return [0u64; %d]," % n)
    arms.append('_ => panic!("script"),')
    closure = "|x| { let c = SCRIPT[k]; k += 1; match c { %s } }" % " ".join(arms)
    inp = ("[" + ", ".join("%du64" % (10 + i) for i in range(n)) + "]") if n else "[0u64; 0]"
    if which in (0, 2):
        call = "konst::array::%s!(%s, %s)" % (MACROS[which], inp, closure)
    else:
        call = "konst::array::%s!(%s)" % (MACROS[which], closure)
    return "{ const SCRIPT: [u8; %d] = %s; let mut k = 0usize; let out: [u64; %d] = %s; out }" % (
        len(script) + 1, show_list(list(script) + [9]), n, call)


def const_cases(tier):
    pos = []
    neg = []
    for which in range(4):
        for n in range(0, 4 if tier == "quick" else 6):
            pos.append((which, n, [0] * n))
    # `continue` in the kernel macros re-evaluates the body for the same index: still Built
    pos.append((0, 2, [2, 0, 0]))
    pos.append((1, 2, [0, 2, 0]))
    pos.append((0, 3, [0, 2, 2, 0, 0]))
    for which in range(4):
        neg.append((which, 2, [1]))          # break before the first element
        neg.append((which, 2, [0, 1]))       # break before the last element
        neg.append((which, 2, [0, 4]))       # panic
        neg.append((which, 1, [3]))          # return
        if tier == "thorough":
            neg.append((which, 3, [0, 0, 1]))
            neg.append((which, 1, [4]))
            neg.append((which, 3, [0, 3]))
    # by-value macros: `continue` skips an element, the builder stays under-filled
    neg.append((2, 2, [2, 0]))
    neg.append((3, 2, [0, 2]))
    neg.append((2, 1, [2]))
    return pos, neg


def const_tag(script):
    names = {1: "break", 2: "continue", 3: "return", 4: "panic"}
    t = [names[c] for c in sorted(set(script)) if c in names]
    return "+".join(t) or ("values" if script else "-")


MAIN_TMPL = common.PRELUDE + """
fn emit(fam: &str, args: &str, imp: String, std_: String, tag: &str) {
    println!("{}\\t{}\\t{}\\t{}\\t{}", fam, args, imp, std_, tag);
}
%(items)s

fn main() {
%(body)s
}
"""

NEG_TMPL = """#![allow(unused, dead_code, unreachable_code)]
const X: [u64; %(n)d] = %(expr)s;
fn main() { println!("{:?}", X); }
"""


def produce(tier, seed, release, out_path):
    cases = collect_cases(tier, seed)
    items, body = collect_program(cases)
    pos, neg = const_cases(tier)
    for i, (which, n, script) in enumerate(pos):
        items.append("const K%d: [u64; %d] = %s;" % (i, n, const_expr(which, n, script)))
        body.append('    emit("c11.const", "%d %d %s", format!("B{}", show_list(K%d.iter(), |v| v.to_string())), "-".to_string(), "%s");'
                    % (which, n, show_list(script), i, const_tag(script)))
    bins = {CRATE + "_main": MAIN_TMPL % {"items": "\n".join(items), "body": "\n".join(body)}}
    neg_names = {}
    for i, (which, n, script) in enumerate(neg):
        name = "%s_neg%d" % (CRATE, i)
        neg_names[name] = (which, n, script)
        bins[name] = NEG_TMPL % {"n": n, "expr": const_expr(which, n, script)}
    common.make_crate(CRATE, bins)
    # the must-not-compile family first (cargo check over every bin; the main bin is checked too)
    res, err = common.check_bins(CRATE)
    if err:
        return err
    if res.get(CRATE + "_main"):
        return "generated crate %s: the positive programs do not compile against the repository: %s" % (
            CRATE, " | ".join(res[CRATE + "_main"][:4]))
    with open(out_path, "w") as f:
        for name, (which, n, script) in sorted(neg_names.items()):
            if name not in res:
                return "cargo check reported nothing for %s" % name
            imp = "COMPILE_ERROR" if res[name] else "COMPILES"
            f.write("c11.const\t%d %d %s\t%s\t-\t%s\n" % (which, n, show_list(script), imp, const_tag(script)))
    # build and run only the positive program (the negative bins would fail the build)
    d = os.path.join(common.GEN, CRATE)
    with common.kv.Lock("cargo.lock"):
        p = common.kv.run(["cargo", "build", "--offline", "-q", "--bin", CRATE + "_main"], cwd=d, timeout=2400)
    if p.returncode != 0:
        return "generated crate %s does not build against the repository: %s" % (CRATE, p.stderr[-1500:])
    return common.run_bin(CRATE, CRATE + "_main", [], out_path, release=False, timeout=300, append=True)
