"""konst's `debug` cargo feature adds its own code (extra validity checks inside
`__from_u8_subslice_of_str`): the string functions of C03 / C04 / C05 / C06 are swept against std in a
crate that enables it.  family c03.dbg, one line per function group:
    impl = "same" | "DIFF <first differing input>"        model = "same"
"""
from . import common

SRC = common.PRELUDE + r'''
use konst::string as ks;
use std::panic::catch_unwind;

fn all(alpha: &[char], n: usize) -> Vec<String> {
    let mut out = vec![String::new()];
    let mut level = vec![String::new()];
    for _ in 0..n {
        let mut next = Vec::new();
        for s in &level { for c in alpha { let mut t = s.clone(); t.push(*c); next.push(t); } }
        out.extend(next.iter().cloned());
        level = next;
    }
    out
}
fn p<T: std::fmt::Debug + PartialEq>(name: &str, arg: String, k: std::thread::Result<T>, s: std::thread::Result<T>, bad: &mut Option<String>) {
    let same = match (&k, &s) { (Ok(a), Ok(b)) => a == b, (Err(_), Err(_)) => true, _ => false };
    if !same && bad.is_none() { *bad = Some(format!("{}({}): konst {:?} std {:?}", name, arg, k.ok(), s.ok())); }
}
fn main() {
    std::panic::set_hook(Box::new(|_| {}));
    let mut out = Out::new();
    let strs = all(&['a', 'é', '锈', '🧠', '-'], 3);
    let pats = all(&['a', 'é', '-'], 2);
    let mut bad: [Option<String>; 4] = [None, None, None, None];
    for s in &strs {
        let s: &str = s;
        for i in 0..=s.len() + 1 {
            p("str_from", format!("{:?},{}", s, i), catch_unwind(|| ks::str_from(s, i).to_string()), catch_unwind(|| s[i.min(s.len())..].to_string()), &mut bad[0]);
            p("str_up_to", format!("{:?},{}", s, i), catch_unwind(|| ks::str_up_to(s, i).to_string()), catch_unwind(|| s[..i.min(s.len())].to_string()), &mut bad[0]);
            p("get_from", format!("{:?},{}", s, i), catch_unwind(|| ks::get_from(s, i).map(|x| x.to_string())), catch_unwind(|| s.get(i..).map(|x| x.to_string())), &mut bad[0]);
            p("get_up_to", format!("{:?},{}", s, i), catch_unwind(|| ks::get_up_to(s, i).map(|x| x.to_string())), catch_unwind(|| s.get(..i).map(|x| x.to_string())), &mut bad[0]);
            p("split_at", format!("{:?},{}", s, i), catch_unwind(|| { let (a, b) = ks::split_at(s, i); (a.to_string(), b.to_string()) }), catch_unwind(|| { let (a, b) = s.split_at(i.min(s.len())); (a.to_string(), b.to_string()) }), &mut bad[0]);
            for j in 0..=s.len() + 1 {
                p("get_range", format!("{:?},{},{}", s, i, j), catch_unwind(|| ks::get_range(s, i, j).map(|x| x.to_string())), catch_unwind(|| s.get(i..j).map(|x| x.to_string())), &mut bad[0]);
            }
        }
        for n in &pats {
            let n: &str = n;
            if !n.is_empty() {
                p("find_skip", format!("{:?},{:?}", s, n), catch_unwind(|| ks::find_skip(s, n).map(|x| x.to_string())), catch_unwind(|| s.find(n).map(|i| s[i + n.len()..].to_string())), &mut bad[1]);
                p("find_keep", format!("{:?},{:?}", s, n), catch_unwind(|| ks::find_keep(s, n).map(|x| x.to_string())), catch_unwind(|| s.find(n).map(|i| s[i..].to_string())), &mut bad[1]);
                p("rfind_skip", format!("{:?},{:?}", s, n), catch_unwind(|| ks::rfind_skip(s, n).map(|x| x.to_string())), catch_unwind(|| s.rfind(n).map(|i| s[..i].to_string())), &mut bad[1]);
                p("rfind_keep", format!("{:?},{:?}", s, n), catch_unwind(|| ks::rfind_keep(s, n).map(|x| x.to_string())), catch_unwind(|| s.rfind(n).map(|i| s[..i + n.len()].to_string())), &mut bad[1]);
                p("split_once", format!("{:?},{:?}", s, n), catch_unwind(|| ks::split_once(s, n).map(|(a, b)| (a.to_string(), b.to_string()))), catch_unwind(|| s.split_once(n).map(|(a, b)| (a.to_string(), b.to_string()))), &mut bad[1]);
                p("rsplit_once", format!("{:?},{:?}", s, n), catch_unwind(|| ks::rsplit_once(s, n).map(|(a, b)| (a.to_string(), b.to_string()))), catch_unwind(|| s.rsplit_once(n).map(|(a, b)| (a.to_string(), b.to_string()))), &mut bad[1]);
            }
            p("strip_prefix", format!("{:?},{:?}", s, n), catch_unwind(|| ks::strip_prefix(s, n).map(|x| x.to_string())), catch_unwind(|| s.strip_prefix(n).map(|x| x.to_string())), &mut bad[2]);
            p("strip_suffix", format!("{:?},{:?}", s, n), catch_unwind(|| ks::strip_suffix(s, n).map(|x| x.to_string())), catch_unwind(|| s.strip_suffix(n).map(|x| x.to_string())), &mut bad[2]);
            p("trim_start_matches", format!("{:?},{:?}", s, n), catch_unwind(|| ks::trim_start_matches(s, n).to_string()), catch_unwind(|| if n.is_empty() { s.to_string() } else { s.trim_start_matches(n).to_string() }), &mut bad[2]);
            p("trim_end_matches", format!("{:?},{:?}", s, n), catch_unwind(|| ks::trim_end_matches(s, n).to_string()), catch_unwind(|| if n.is_empty() { s.to_string() } else { s.trim_end_matches(n).to_string() }), &mut bad[2]);
            p("split", format!("{:?},{:?}", s, n), catch_unwind(|| { let mut v = Vec::new(); let mut it = ks::split(s, n); while let Some((x, ni)) = it.next() { v.push(x.to_string()); it = ni; if v.len() > 20 { break; } } v }), catch_unwind(|| s.split(n).map(|x| x.to_string()).collect::<Vec<_>>()), &mut bad[3]);
            p("rsplit", format!("{:?},{:?}", s, n), catch_unwind(|| { let mut v = Vec::new(); let mut it = ks::rsplit(s, n); while let Some((x, ni)) = it.next() { v.push(x.to_string()); it = ni; if v.len() > 20 { break; } } v }), catch_unwind(|| s.rsplit(n).map(|x| x.to_string()).collect::<Vec<_>>()), &mut bad[3]);
        }
        p("trim", format!("{:?}", s), catch_unwind(|| (ks::trim(s).to_string(), ks::trim_start(s).to_string(), ks::trim_end(s).to_string())), catch_unwind(|| (s.trim_matches(|c: char| c.is_ascii_whitespace()).to_string(), s.trim_start_matches(|c: char| c.is_ascii_whitespace()).to_string(), s.trim_end_matches(|c: char| c.is_ascii_whitespace()).to_string())), &mut bad[2]);
        p("chars", format!("{:?}", s), catch_unwind(|| { let mut v = Vec::new(); let mut it = ks::chars(s); while let Some((c, ni)) = it.next() { v.push((c, ni.as_str().to_string())); it = ni; } v }), catch_unwind(|| { let mut v = Vec::new(); let mut it = s.chars(); while let Some(c) = it.next() { v.push((c, it.as_str().to_string())); } v }), &mut bad[3]);
    }
    for (k, name) in ["slicing", "search", "strip-trim", "split-chars"].iter().enumerate() {
        let imp = match &bad[k] { None => "same".to_string(), Some(b) => format!("DIFF {}", b.replace('\t', " ")) };
        out.line("c03.dbg", &format!("{} x{}", k, hex(name.as_bytes())), &imp, "-", "debug-feature");
    }
    out.flush();
}
'''


def produce(tier, seed, release, out_path):
    crate = "dbgfeat"
    common.make_crate(crate, {"dbgfeat_main": SRC}, features=("rust_1_83", "alloc", "debug"))
    err = common.build(crate, release)
    if err:
        return err
    open(out_path, "w").close()
    return common.run_bin(crate, "dbgfeat_main", [], out_path, release)
