"""C15 producer (compile-time half): the by-value APIs (destructure! incl. packed(1/2/4) structs,
nested tuples, arrays with rest patterns, a 16-tuple; ArrayConsumer / ArrayBuilder histories;
array::map_! / from_fn_!) evaluated by rustc's const evaluator — the subset of lib/gen/c01ctfe.py
whose cases move values out of aggregates.  A field read with the wrong alignment or from a dead
slot is rejected by the const evaluator (E0080) and reported as that case; the moved-out values
are compared with the run-time values.  Same family (c01.ctfe) and glue as C01's producer."""
from . import c01ctfe

TAGS = ("destructure", "destructure-packed", "consumer", "builder", "array")


def produce(tier, seed, release, out_path):
    return c01ctfe.produce(tier, seed, release, out_path, crate="c15ctfe", tags=TAGS)
