"""C10, the side-effect half: HOW MANY source items an iterator-DSL chain takes from its source
(= how often the closures in front of the first adapter are evaluated), against the identical
chain on std iterators.  `observe_at` of the property names "side effects of iter::for_each! vs the
std chain on the same data"; lib/gen/c10.py compares values only.

Every chain starts with `copied(), map(|x| { COUNT; x + 1 })`: the counter is the number of items
pulled from the source.  Lines (same argument format as c10.eval, so Glue.C10 parses them):

  c10.pull  src zsrc ms cons   impl = pulls by konst   std = pulls by the real std chain
                                                      ('-' for the known-finding class)
                               model = Model.DslPulls.pulled

Known-finding class F11 (tag known-take-eager): every chain with a `take` -- the expansion tests the
take counter when the NEXT item arrives, so one more item than std's Take is pulled through
everything in front of the `take`.  Those cases are compared with the model only; chains without
`take` (take_while, skip, skip_while, filter, flat_map, early-exit consumers) must agree with std.
"""
import os
import sys

sys.path.insert(0, os.path.dirname(os.path.abspath(__file__)))
import common

# (descriptor, rust text) of adapters after the counting prefix; items are i64 throughout
ADS = {
    "take": ("[take,{n}]", "take(n)"),
    "take2": ("[take,2]", "take(2)"),
    "skip": ("[skip,{n}]", "skip(n)"),
    "skip1": ("[skip,1]", "skip(1)"),
    "map1": ("[map,1]", "map(|x| x * 2)"),
    "filter0": ("[filter,0]", "filter(|x| *x % 2 == 0)"),
    "filter2": ("[filter,2]", "filter(|x| *x != 1)"),
    "take_while1": ("[take_while,1]", "take_while(|x| *x < 3)"),
    "skip_while1": ("[skip_while,1]", "skip_while(|x| *x < 3)"),
    "filter_map1": ("[filter_map,1]", "filter_map(|x| if x > 1 { Some(x - 1) } else { None })"),
    "flat_map1": ("[flat_map,1]", "flat_map(|x| x..(x + 2))"),
    "flat_map0": ("[flat_map,0]", "flat_map(|x| 0..(x % 3))"),
    "enumerate_k": None,   # changes the item type: not used
}

CHAINS = [
    # with take: the known class
    ["take"], ["map1", "take"], ["filter0", "take"], ["filter2", "take"], ["take", "map1"], ["take", "filter0"],
    ["skip1", "take"], ["take", "skip1"], ["flat_map1", "take"], ["flat_map0", "take"], ["take", "flat_map1"],
    ["take_while1", "take"], ["take", "take_while1"], ["skip_while1", "take"], ["filter_map1", "take"],
    ["take", "take2"], ["take2", "take"], ["filter0", "take", "map1"],
    # without take: controls, compared with std
    [], ["map1"], ["filter0"], ["take_while1"], ["skip_while1"], ["skip"], ["skip", "filter2"], ["filter_map1"],
    ["flat_map1"], ["flat_map0", "filter0"], ["take_while1", "map1"], ["filter2", "take_while1"], ["skip", "take_while1"],
]

# (descriptor, konst consumer text, std consumer text)
CONS = [
    ("[for_each]", None, None),
    ("[count]", "count()", ".count() as i64"),
    ("[fold]", "fold(0i64, |a, x| (a * 7 + x) % 1000003)", ".fold(0i64, |a, x| (a * 7 + x) % 1000003)"),
    ("[find,0]", "find(|x| *x % 2 == 0)", ".find(|x| *x % 2 == 0).unwrap_or(-1)"),
    ("[next]", "next()", ".next().unwrap_or(-1)"),
    ("[any,0]", "any(|x| x % 2 == 0)", ".any(|x| x % 2 == 0) as i64"),
    ("[all,1]", "all(|x| x < 3)", ".all(|x| x < 3) as i64"),
    ("[position,0]", "position(|x| x % 2 == 0)", ".position(|x| x % 2 == 0).map(|p| p as i64).unwrap_or(-1)"),
    ("[nth,1]", "nth(1)", ".nth(1).unwrap_or(-1)"),
]

SRCS = ["[]", "[1]", "[2]", "[1, 2]", "[2, 1, 4]", "[1, 2, 3, 4]", "[3, 2, 2, 1, 6]", "[4, 4, 1, 2, 5, 3]"]


def fn_text(idx, chain, cons):
    ktxt = ", ".join(ADS[a][1] for a in chain)
    stxt = "".join("." + ADS[a][1] for a in chain)
    cd, kc, sc = cons
    L = ["fn p%d(src: &[i64], n: usize) -> (u32, u32) {" % idx,
         "    let kc = std::cell::Cell::new(0u32);",
         "    let sc = std::cell::Cell::new(0u32);"]
    pre_k = "copied(), map(|x| { kc.set(kc.get() + 1); x + 1 })" + (", " + ktxt if ktxt else "")
    pre_s = "src.iter().copied().map(|x| { sc.set(sc.get() + 1); x + 1 })" + stxt
    if kc is None:
        L.append("    let mut kv: Vec<i64> = Vec::new();")
        L.append("    konst::iter::for_each!{x in src, %s => kv.push(x); }" % pre_k)
        L.append("    let sv: Vec<i64> = %s.collect();" % pre_s)
        L.append("    assert!(kv == sv);")
    else:
        L.append("    let kr = konst::iter::eval!(src, %s, %s);" % (pre_k, kc))
        L.append("    let sr = %s%s;" % (pre_s, sc))
        L.append("    std::hint::black_box((kr, sr));")
    L.append("    (kc.get(), sc.get())")
    L.append("}")
    return "\n".join(L)


def produce(tier, seed, release, out_path):
    fns = []
    drv = []
    idx = 0
    nmax = 5 if tier == "quick" else 8
    for chain in CHAINS:
        for cons in CONS:
            fns.append(fn_text(idx, chain, cons))
            has_n = any(a in ("take", "skip") for a in chain)
            known = any(a.startswith("take") and a != "take_while1" for a in chain)
            desc = "[[copied],[map,0]" + "".join("," + ADS[a][0] for a in chain) + "] " + cons[0]
            tag = "known-take-eager" if known else ("control:" + ("+".join(chain) if chain else "plain"))
            drv.append("    for src in SRCS.iter() { for n in 0..%d { let (k, s) = p%d(src, n);" % (nmax if has_n else 1, idx))
            if "{n}" in desc:
                drv.append('        let args = format!("{} [] %s", list(src), n = n);' % desc)
            else:
                drv.append('        let args = format!("{} [] %s", list(src));' % desc)
            # known class: std's count is printed only where konst agrees with it, so that a tree in which
            # take has been repaired is reported as "the model no longer corresponds", not as a failing input
            drv.append('        let sstd = if %s && k != s { "-".to_string() } else { s.to_string() };' % ("true" if known else "false"))
            drv.append('        out.line("c10.pull", &args, &k.to_string(), &sstd, "%s"); } }' % tag)
            idx += 1
    src = [common.PRELUDE,
           "fn list(s: &[i64]) -> String { format!(\"[{}]\", s.iter().map(|x| x.to_string()).collect::<Vec<_>>().join(\",\")) }",
           "static SRCS: &[&[i64]] = &[%s];" % ", ".join("&" + s for s in SRCS)]
    src += fns
    src.append("fn main() {\n    let mut out = Out::new();")
    src += drv
    src.append("    out.flush();\n}")
    crate = "kv_c10pull"
    common.make_crate(crate, {"c10_pull": "\n".join(src)})
    err = common.build(crate, release=release)
    if err:
        return err
    open(out_path, "w").close()
    return common.run_bin(crate, "c10_pull", [], out_path, release=release)


if __name__ == "__main__":
    print(produce(sys.argv[1] if len(sys.argv) > 1 else "quick", 1, False, "/tmp/c10pull.lines"))
