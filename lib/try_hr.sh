#!/bin/bash
# harmless-refactoring test: apply /tmp/hrout_<p>/change<k>.diff to /tmp/hr_<p>, run the given checks, expect OK
p=$1; k=$2; shift 2
wt=/tmp/hr_$p
git -C $wt checkout -q -- . ; git -C $wt clean -fdq
git -C $wt apply /tmp/hrout_$p/change$k.diff || { echo "PATCH DOES NOT APPLY"; exit 1; }
for prop in "$@"; do
  cd /verif && KV_BUILD=/verif/.build_scratch/hr KV_REPO=$wt ./check $prop --tier quick 2>&1 | grep -E "^NOTE|VIOLATION|FRAMEWORK|-> " | cut -c1-400
done
git -C $wt checkout -q -- .
