#!/bin/bash
# round-3: confirm the demo on the author's worktree, then run the check against the patched tree
prop=$1; k=$2; p=$(echo $prop | tr A-Z a-z); wt=/tmp/mut3_$p; out=/tmp/mutout3_$p
export CARGO_NET_OFFLINE=true
cd $wt && git checkout -q -- .
( cd $out/demo$k && CARGO_TARGET_DIR=/tmp/seeded_target cargo run --offline -q >/dev/null 2>&1; echo "demo-unchanged exit=$?" )
git -C $wt apply $out/change$k.diff || { echo "PATCH DOES NOT APPLY"; exit 1; }
( cd $out/demo$k && CARGO_TARGET_DIR=/tmp/seeded_target cargo run --offline -q >/dev/null 2>&1; echo "demo-changed exit=$?" )
cd /verif && KV_BUILD=/verif/.build_scratch/t3 KV_REPO=$wt ./check $prop --tier ${3:-quick} 2>&1 | grep -E "^NOTE|VIOLATION|KNOWN|-> " | cut -c1-330
git -C $wt checkout -q -- .
