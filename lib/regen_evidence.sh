#!/bin/bash
# regenerate every evidence file from a quick run on /repo itself (never with KV_REPO set)
cd "$(dirname "$0")/.." || exit 2
unset KV_REPO
rc=0
for i in $(seq -w 1 20); do
  ./check C$i --tier quick | tail -1 || rc=1
done
python3 lib/mk_design_tables.py
exit $rc
