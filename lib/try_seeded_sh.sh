#!/bin/bash
# like try_seeded.sh but the demo is a run.sh script
prop=$1; diff=$2; demo=$3; wt=$4
export CARGO_NET_OFFLINE=true CARGO_TARGET_DIR=/tmp/seeded_target
cd $wt && git checkout -q -- .
( bash $demo/run.sh 2>&1 | tail -2; echo "demo-unchanged exit=${PIPESTATUS[0]}" )
git -C $wt apply $diff || { echo "PATCH DOES NOT APPLY"; exit 1; }
( bash $demo/run.sh 2>&1 | tail -2; echo "demo-changed exit=${PIPESTATUS[0]}" )
cd /verif && KV_REPO=$wt ./check $prop --tier quick 2>&1 | grep -E "VIOLATION|KNOWN|-> "
git -C $wt checkout -q -- .
