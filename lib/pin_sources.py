#!/usr/bin/env python3
"""Maintenance: record the library source text the models were written against
(lib/pinned_src/).  Run after a `fix:` commit to /repo once the models/harnesses have been
brought in line with it.  See lib/covgate.py."""
import os
import sys
sys.path.insert(0, os.path.dirname(os.path.abspath(__file__)))
import covgate
covgate.pin()
print(open(os.path.join(covgate.PIN_DIR, "PIN.json")).read())
