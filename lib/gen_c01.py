#!/usr/bin/env python3
"""Development-time helper: (re)generates coq/Properties/C01.v.
Part 1 = the theorems proved for C01 itself (Proofs/SafetyProofs.v);
Part 2 = the side conditions of the other unsafe sites, proved under the property that owns
the code (C02, C03, C07, C08, C11, C15, C20), re-stated verbatim inside a Module that imports
exactly what the owning Properties file imports (the models re-use constructor names)."""
import os
import re

V = os.path.dirname(os.path.dirname(os.path.abspath(__file__)))
REUSE = [
    ("C02", "SliceSites", ["C02_raw_parts_sound", "C02_raw_parts_ub", "C02_slice_ops_in_bounds", "C02_chunk_ops_in_bounds", "C02_try_into_array_iff"],
     "from_raw_parts / ptr.offset in __slice_from_impl, __slice_up_to_impl, split_at_mut, try_into_array, as_chunks, as_rchunks: reached only with an in-bounds offset and length, for every usize width and element size (ZSTs included)"),
    ("C03", "StrSites", ["C03_str_range_clamped", "C03_panic_iff_inside_char", "C03_boundary_iff_split", "C03_match_on_boundaries"],
     "__from_u8_subslice_of_str in str_up_to/str_from/str_range/split_at/get_*: called only on char boundaries (otherwise the safe panic)"),
    ("C07", "CharSites", ["C07_decode_scalar", "C07_from_u32_iff", "C07_chars_never_panics", "C07_char_indices_never_panics", "C07_chars_as_str_middle", "C07_encode_eq_std"],
     "transmute::<u32,char> in string_to_char / from_u32_unchecked: only ever applied to Unicode scalar values; Utf8Encoded::as_str: the encoder writes well-formed UTF-8"),
    ("C08", "SliceIterSites", ["C08_views_inside", "C08_as_chunks", "C08_as_rchunks"],
     "every sub-slice the slice iterators hand out lies inside the slice"),
    ("C11", "ArrayInitSites", ["C11_map_built_full", "C11_from_fn_built_full", "C11_collect_built_full", "C11_builder_build_iff_full", "C11_map_by_val_built"],
     "array_assume_init in array::map!/from_fn!/collect_const!/ArrayBuilder::build/map_!: only on arrays whose every slot was written"),
    ("C15", "MoveSites", ["C15_consumer_next", "C15_consumer_next_back", "C15_consumer_as_slice", "C15_consumer_drop", "C15_builder_drop", "C15_destructure_exactly_once"],
     "assume_init_read / ptr::read in ArrayConsumer, ArrayBuilder, destructure!: only live (initialised, not yet moved) slots are read, each once"),
    ("C20", "ConcatCStrSites", ["C20_concat_utf8", "C20_join_utf8", "C20_from_iter_total", "C20_to_bytes_with_nul_ub", "C20_until_nul_result"],
     "from_utf8 re-validation of concatenated strings cannot fail; the CStr pointer walk stays inside the bytes because a terminator exists"),
]


def grab(prop, name):
    s = open(os.path.join(V, "coq", "Properties", prop + ".v")).read()
    m = re.search(r"Theorem %s\b((?:(?!\nProof\.).)*?)\nProof\.\s*exact\s+([^\n]+?)\.\s*Qed\." % re.escape(name), s, re.S)
    if not m:
        raise SystemExit("not found: %s in %s" % (name, prop))
    return m.group(1).rstrip(), m.group(2).strip()


def scope_of(prop):
    s = open(os.path.join(V, "coq", "Properties", prop + ".v")).read()
    m = re.findall(r"(?:Local )?Open Scope (\w+)\.", s)
    return m[-1] if m else "Z_scope"


def imports_of(prop):
    s = open(os.path.join(V, "coq", "Properties", prop + ".v")).read()
    mods = []
    for m in re.finditer(r"From KV Require Import\s+(.*?)\.\s*\n", s, re.S):
        mods += m.group(1).split()
    return mods


head = open(os.path.join(V, "lib", "c01_head.v")).read()
out = [head]
allmods = []
for prop, modname, names, what in REUSE:
    for m in imports_of(prop):
        if m not in allmods:
            allmods.append(m)
out.append("(* ======================================================================================\n"
           "   Part 2 — side conditions of the remaining unsafe sites, proved under the property that\n"
           "   owns the code and re-stated here verbatim.\n"
           "   ====================================================================================== *)\n")
out.append("From KV Require " + " ".join(allmods) + ".\n")
prints = []
for prop, modname, names, what in REUSE:
    out.append("(** %s *)\nModule %s.\n  Import %s.\n  Local Open Scope %s.\n" % (what, modname, " ".join("KV." + m for m in imports_of(prop)), scope_of(prop)))
    for n in names:
        st, lem = grab(prop, n)
        out.append("  Theorem C01_%s %s\n  Proof. exact %s. Qed.\n" % (n, st.replace("\n", "\n  "), lem))
        prints.append("%s.C01_%s" % (modname, n))
    out.append("End %s.\n" % modname)
out.append("\n".join("Print Assumptions %s." % p for p in prints) + "\n")
open(os.path.join(V, "coq", "Properties", "C01.v"), "w").write("\n".join(out))
print("wrote C01.v with", len(prints), "re-stated theorems")
