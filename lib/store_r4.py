#!/usr/bin/env python3
"""package the round-4 changes (/tmp/r4/out_cNN) as seeded/<id>-r4-<k>/ and seeded/harmless/<id>/"""
import json, os, shutil, sys
V = os.path.dirname(os.path.dirname(os.path.abspath(__file__)))
needs = json.load(open('/tmp/r4/needs.json'))
def copy_demo(src, dst):
    if os.path.isdir(src):
        shutil.copytree(src, dst, ignore=shutil.ignore_patterns('target', 'Cargo.lock'), dirs_exist_ok=True)
for i in range(1, 21):
    nn = '%02d' % i
    out = '/tmp/r4/out_c' + nn
    for k in (1, 2):
        sid = 'C%s-r4-%d' % (nn, k)
        d = os.path.join(V, 'seeded', sid)
        os.makedirs(d, exist_ok=True)
        shutil.copy(os.path.join(out, 'change%d.diff' % k), os.path.join(d, 'patch.diff'))
        copy_demo(os.path.join(out, 'demo%d' % k), os.path.join(d, 'demo'))
        if os.path.exists(os.path.join(out, 'NOTES.md')):
            shutil.copy(os.path.join(out, 'NOTES.md'), os.path.join(d, 'notes_from_author.md'))
        n, res = needs[sid]
        json.dump({
            "property": 'C' + nn, "breaks": 'C' + nn,
            "source": "written by an independent sub-agent (round 4: asked for changes that need something specific to manifest — two cooperating sites, a multi-step sequence, an unusual small input / type / profile / feature) that saw only the property text and a scratch worktree of /repo (nothing from /verif)",
            "needs_to_manifest": n,
            "confirmed_by_integrator": "applied in the scratch worktree: builds; the author's before/after test-result lines are identical to the baseline (tests_*.txt); demo exits 0 on the unchanged tree and non-zero with the patch (lib/try4.sh)",
            "check_run": "KV_REPO=<scratch worktree with patch> ./check C%s --tier quick" % nn,
            "result": res, "notes": "round 4"}, open(os.path.join(d, 'meta.json'), 'w'), indent=1, ensure_ascii=False)
    hd = os.path.join(V, 'seeded', 'harmless', 'C' + nn)
    os.makedirs(hd, exist_ok=True)
    shutil.copy(os.path.join(out, 'harmless.diff'), os.path.join(hd, 'patch.diff'))
    copy_demo(os.path.join(out, 'demo3'), os.path.join(hd, 'demo'))
print('stored')
