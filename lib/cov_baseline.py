#!/usr/bin/env python3
"""Generator-quality report: line coverage of the library by each property's runtime producers on
the CURRENT tree (every line counted as if it were changed).  Prints, per property, the executable
lines inside entered functions that no generated input executes.  usage: lib/cov_baseline.py [Cxx ...] [--tier quick]"""
import json, os, sys
sys.path.insert(0, os.path.dirname(os.path.abspath(__file__)))
import kv, covgate
args = [a for a in sys.argv[1:] if not a.startswith("--")]
tier = "thorough" if "--thorough" in sys.argv else "quick"
props = args or ["C%02d" % i for i in range(1, 21)]
allsrc = {}
for rel in covgate.source_files(kv.REPO):
    n = open(os.path.join(kv.REPO, rel), errors="replace").read().count("\n") + 1
    allsrc[rel] = list(range(1, n + 1))
report = {}
for p in props:
    cfg = json.load(open(os.path.join(kv.VERIF, "lib", "props.d", p + ".json")))
    if not any(not g.startswith("gen:") for g in cfg["groups"]):
        print(p, "only generated programs (no runtime coverage)")
        continue
    lines, funcs, err = covgate.run_coverage(cfg["groups"], tier, 1)
    if lines is None:
        print(p, "ERROR", err)
        continue
    g, undec = covgate.gaps(allsrc, lines, funcs)
    executed = sum(1 for f in lines.values() for c in f.values() if c > 0)
    report[p] = {"executed_lines": executed, "unexecuted_in_entered_functions": g}
    print("%s: %d library lines executed; %d executable lines inside entered functions never executed" % (p, executed, len(g)))
    for x in g:
        print("      %s:%d  %s" % (x["file"], x["line"], x["text"]))
json.dump(report, open(os.path.join(kv.BUILD, "cov_baseline.json"), "w"), indent=1)
if "--write" in sys.argv:
    # per-function tolerance for the coverage gate (see covgate.load_tolerance)
    path = os.path.join(kv.VERIF, "lib", "pinned_cov.json")
    tol = json.load(open(path)) if os.path.exists(path) else {}
    for p, r in report.items():
        d = {}
        for x in r["unexecuted_in_entered_functions"]:
            src = open(os.path.join(kv.REPO, x["file"]), errors="replace").read().split("\n")
            if covgate.PUNCT_RE.match(src[x["line"] - 1]):
                continue
            k = "%s::%s" % (x["file"], covgate.fn_name_at(src, x["line"]))
            d[k] = d.get(k, 0) + 1
        tol[p] = d
    json.dump(tol, open(path, "w"), indent=1, sort_keys=True)
    print("wrote", path)
