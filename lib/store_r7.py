#!/usr/bin/env python3
"""package the round-7 changes (/tmp/r7/out_cNN) as seeded/<id>-r7-<k>/"""
import json, os, shutil
V = os.path.dirname(os.path.dirname(os.path.abspath(__file__)))
NEEDS = {
 "C05-r7-1": ("a build of konst with debug_assertions off (a `cfg!(debug_assertions)` threshold enables a 4-bytes-per-step loop in strip_suffix / ends_with whose suffix arm compares each group of four against the reversed group): bytes_end_with(b\"aaab\", b\"aaab\") == false in --release only",
              "MISSED by the dev-profile quick check; CAUGHT since the run-time producers of C03-C08, C11-C16, C20 run in the dev AND the release profile in the quick tier (11385 mismatches)"),
 "C05-r7-2": ("slice::bytes_* given a `&char` pattern in U+0080..=U+00FF (\"fits in a byte\" confused with \"is ASCII\": the needle becomes one Latin-1 byte)", "CAUGHT at once"),
 "C08-r7-1": ("rev() of a multi-field slice iterator reinterprets the struct as its reversed twin (union transmute between two distinct repr(Rust) structs) instead of moving the fields: right with the layout rustc happens to choose, undefined behaviour / wrong fields with any other field order",
              "MISSED (values agree with the default layout); CAUGHT since the Miri build uses -Zrandomize-layout with a seed-derived -Zlayout-seed and the Miri `slice` section reverses every slice iterator part-way and steps it from both ends (Miri: constructing invalid value / dangling reference)"),
 "C08-r7-2": ("slice_from / slice_up_to return a detached `&[]` for an empty tail: only the ADDRESS of an empty remainder changes (as_ptr / offset_from of an empty slice)", "NOT A VIOLATION of C08 as stated (contents and lengths of every yielded piece and remainder are unchanged; the property does not speak of addresses of empty slices) - kept as a behaviour-adjacent change; every check stays quiet"),
 "C10-r7-1": ("skip_while keeps calling its predicate after skipping has ended: needs a predicate that is true again for a later element", "CAUGHT at once"),
 "C10-r7-2": ("the DSL keeps its iterators in ManuallyDrop: an early exit never drops a user-defined iterator with a Drop impl", "NOT A VIOLATION of C10 as stated (values and closure evaluations are unchanged; the property does not speak of destructors of user iterators) - every check stays quiet. The author's remark about the UNCHANGED crate (take pulls one item more than std) became finding F11"),
 "C13-r7-1": ("Parser::trim_matches with a needle that overlaps itself (\"aba\", \"aa\") on input where the trailing occurrences overlap the leading ones", "MISSED by C13 (CAUGHT by C05's check); CAUGHT by C13 since its op list has self-overlapping needles"),
 "C13-r7-2": ("a split-family call on a parser which an earlier call from the other end (or trim / skip_back) has left exhausted with yielded_last_split set", "CAUGHT at once"),
 "C15-r7-1": ("destructure!'s type assertion takes references: a `&mut Struct` source is accepted and every field is read out of the referent, which keeps owning it (double drop from safe code)", "MISSED by C15 (CAUGHT by C17's check: the by-reference programs of its grid); CAUGHT by C15 since gen:sig_c15 has must-be-rejected destructure programs (&mut / & / Box sources, Drop types)"),
 "C15-r7-2": ("ArrayConsumer / ArrayBuilder history with a clone whose element clone panics part-way", "CAUGHT at once"),
 "C19-r7-1": ("min!/max! bind their arguments with `let` inside a block: an argument that borrows from a temporary created in the argument expression (String::from(\"a\").as_str()) no longer compiles (E0716)", "MISSED; CAUGHT since gen:sig_c19 has the temporaries() program (min!, max!, *_by!, *_by_key!, unwrap_or! with arguments borrowing from temporaries)"),
 "C19-r7-2": ("max_by! with a pseudo-closure that has an explicit return type", "CAUGHT at once"),
}
for sid, (need, res) in NEEDS.items():
    nn = sid[1:3]; k = sid[-1]
    out = '/tmp/r7/out_c' + nn
    d = os.path.join(V, "seeded", "outside_property" if "NOT A VIOLATION" in res else "", sid)
    os.makedirs(d, exist_ok=True)
    shutil.copy(os.path.join(out, 'change%s.diff' % k), os.path.join(d, 'patch.diff'))
    src = os.path.join(out, 'demo%s' % k)
    if os.path.isdir(src):
        shutil.copytree(src, os.path.join(d, 'demo'), ignore=shutil.ignore_patterns('target', 'Cargo.lock'), dirs_exist_ok=True)
    if os.path.exists(os.path.join(out, 'NOTES.md')):
        shutil.copy(os.path.join(out, 'NOTES.md'), os.path.join(d, 'notes_from_author.md'))
    json.dump({
        "property": 'C' + nn, "breaks": 'C' + nn,
        "source": "written by an independent sub-agent (round 7: asked for changes hidden in a place the usual harnesses do not look - one build profile, layout assumptions, temporaries, rarely combined APIs) that saw only the property text and a scratch worktree of /repo (nothing from /verif)",
        "needs_to_manifest": need,
        "confirmed_by_integrator": "applied in the scratch worktree: builds; the author's before/after test-result lines are identical to the baseline (tests_*.txt); demo exits 0 on the unchanged tree and non-zero with the patch (lib/try4.sh)",
        "check_run": "KV_REPO=<scratch worktree with patch> ./check C%s --tier quick" % nn,
        "result": res, "notes": "round 7"}, open(os.path.join(d, 'meta.json'), 'w'), indent=1, ensure_ascii=False)
print('stored')
