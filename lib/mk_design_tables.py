#!/usr/bin/env python3
"""Regenerates the machine-written tables of DESIGN.md (between the BEGIN/END markers) from
seeded/*/meta.json, evidence/*.json and coq/Properties/*.v."""
import glob
import json
import os
import re

V = os.path.dirname(os.path.dirname(os.path.abspath(__file__)))


def seeded_table():
    rows = ["| seeded change | breaks | needs, in order to manifest | result of `KV_REPO=<patched tree> ./check <id> --tier quick` |", "|---|---|---|---|"]
    for d in sorted(glob.glob(os.path.join(V, "seeded", "C*"))):
        m = json.load(open(os.path.join(d, "meta.json")))
        rows.append("| `seeded/%s` | %s | %s | %s |" % (os.path.basename(d), m["property"], m["needs_to_manifest"].replace("|", "/"), m["result"].replace("|", "/")))
    return "\n".join(rows)


def status_table():
    rows = ["| property | theorems (all `Closed under the global context`) | quick-tier cases (distinct non-trivial) | producers | seeded changes caught |", "|---|---|---|---|---|"]
    for i in range(1, 21):
        pid = "C%02d" % i
        pf = os.path.join(V, "coq", "Properties", pid + ".v")
        n = len(re.findall(r"^\s*(?:Theorem|Lemma|Example|Corollary)\s", open(pf).read(), re.M)) if os.path.exists(pf) else 0
        ev = os.path.join(V, "evidence", pid + ".json")
        evs = "-"
        if os.path.exists(ev):
            e = json.load(open(ev))
            c = e["coverage"]
            evs = "%d (%d) [%s]" % (c.get("evaluations", 0), c.get("distinct_nontrivial", 0), e.get("tier"))
        pr = json.load(open(os.path.join(V, "lib", "props.d", pid + ".json")))
        seeded = [os.path.basename(d) for d in sorted(glob.glob(os.path.join(V, "seeded", pid + "-*")))]
        rows.append("| %s | %d | %s | %s | %s |" % (pid, n, evs, ", ".join(pr["groups"]), ", ".join(seeded) or "-"))
    return "\n".join(rows)


def splice(text, name, body):
    b, e = "<!-- BEGIN %s -->" % name, "<!-- END %s -->" % name
    if b not in text:
        return text + "\n%s\n%s\n%s\n" % (b, body, e)
    return text[: text.index(b) + len(b)] + "\n" + body + "\n" + text[text.index(e):]


p = os.path.join(V, "DESIGN.md")
t = open(p).read()
t = splice(t, "STATUS-TABLE", status_table())
t = splice(t, "SEEDED-TABLE", seeded_table())
open(p, "w").write(t)
print("DESIGN.md tables regenerated")
