#!/bin/bash
# runs every thorough check on a scratch COPY of the evidence dir (does not overwrite committed quick evidence)
cd "$(dirname "$0")/.." || exit 2
for i in $(seq -w 1 20); do
  /usr/bin/time -f "C$i wall %es" ./check C$i --tier thorough 2>&1 | grep -E "VIOLATION|FRAMEWORK|wall|-> " | cut -c1-300
done
