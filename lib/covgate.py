"""Completeness of the correspondence on CHANGED code.

The theorems are about the hand-written model; the tie to /repo is the behavioural
correspondence (every generated input is run through the implementation and through the
extracted model).  That tie says nothing about an implementation code path that no generated
input enters -- e.g. a fast path that is only taken for inputs longer than anything generated.
On the pinned source this was settled when the generators were written (the models were
written against that text, path by path).  For any OTHER source text the check has to earn it
again:

  1. lib/pinned_src/ holds the text of every library source file the models were written
     against.  If /repo's files are identical, nothing here runs.
  2. Otherwise the harness is built with `-C instrument-coverage` (nightly toolchain, whose
     llvm-tools are installed) and the property's runtime producers are run; every executable
     line that is new or changed w.r.t. the pinned text, and that lies inside a function this
     property's producers enter, must have been executed at least once.  Those are the lines
     for which "implementation agrees with the model" was actually observed.
  3. Lines that stay unexecuted are a gap in the correspondence: the caller escalates (thorough
     generators + KV_HUGE sizes, all compared with the model) and, if the gap remains, reports
     that the correspondence no longer checks (VIOLATION ... no-failing-input-found, naming the
     lines).

Limits (stated in DESIGN.md): code produced by macro_rules! expansion carries no line
coverage (rustc attributes it to the invocation), and compile-time evaluation is invisible to
coverage; changed lines without coverage data are listed in the evidence as "not decidable by
coverage" and never raise an alarm by themselves.
"""
import difflib
import glob
import hashlib
import json
import os
import re
import shutil
import subprocess

import kv

PIN_DIR = os.path.join(kv.VERIF, "lib", "pinned_src")
CRATE_SRC = ["konst/src", "konst_kernel/src", "konst_proc_macros/src", "konst_macro_rules/src"]
LLVM_BIN = os.path.expanduser("~/.rustup/toolchains/nightly-x86_64-unknown-linux-gnu/lib/rustlib/x86_64-unknown-linux-gnu/bin")


def source_files(root):
    out = []
    for c in CRATE_SRC:
        for p in glob.glob(os.path.join(root, c, "**", "*.rs"), recursive=True):
            out.append(os.path.relpath(p, root))
    return sorted(out)


def pin(repo=None):
    """(re)write lib/pinned_src from the given tree (maintenance command: lib/pin_sources.py)"""
    repo = repo or kv.REPO
    shutil.rmtree(PIN_DIR, ignore_errors=True)
    for rel in source_files(repo):
        dst = os.path.join(PIN_DIR, rel)
        os.makedirs(os.path.dirname(dst), exist_ok=True)
        shutil.copy(os.path.join(repo, rel), dst)
    head = subprocess.run(["git", "-C", repo, "rev-parse", "HEAD"], capture_output=True, text=True).stdout.strip()
    json.dump({"commit": head, "files": len(source_files(repo))}, open(os.path.join(PIN_DIR, "PIN.json"), "w"))


def changed_lines(repo=None):
    """{relpath: sorted list of line numbers of the CURRENT file that are new or changed w.r.t. the
    pinned text}; {} when every file is identical (deleted files are reported with an empty list)"""
    repo = repo or kv.REPO
    if not os.path.isdir(PIN_DIR):
        return {}
    out = {}
    cur = set(source_files(repo))
    pinned = set(source_files(PIN_DIR))
    for rel in sorted(cur | pinned):
        if rel not in cur:
            out[rel] = []
            continue
        new = open(os.path.join(repo, rel), errors="replace").read()
        if rel not in pinned:
            out[rel] = list(range(1, new.count("\n") + 2))
            continue
        old = open(os.path.join(PIN_DIR, rel), errors="replace").read()
        if old == new:
            continue
        a, b = old.split("\n"), new.split("\n")
        lines = []
        for tag, _i1, _i2, j1, j2 in difflib.SequenceMatcher(None, a, b, autojunk=False).get_opcodes():
            if tag in ("replace", "insert"):
                lines.extend(range(j1 + 1, j2 + 1))
        # whitespace-only / comment-only lines are not code
        keep = [l for l in lines if b[l - 1].strip() and not b[l - 1].strip().startswith("//")]
        out[rel] = keep
    return out


def _cov_dirs():
    return os.path.join(kv.BUILD, "cov_target"), os.path.join(kv.BUILD, "cov")


def build_instrumented(timeout=1800):
    target, _ = _cov_dirs()
    env = kv.env_base()
    env["CARGO_TARGET_DIR"] = target
    env["RUSTFLAGS"] = "-C instrument-coverage"
    # instrumented build products that RUN during the build (the proc-macro crate) write a profile
    # too: keep it out of the repository under test
    os.makedirs(_cov_dirs()[1], exist_ok=True)
    env["LLVM_PROFILE_FILE"] = os.path.join(_cov_dirs()[1], "build_%p_%m.profraw")
    with kv.Lock("cov.lock"):
        kv.link_repo()
        p = subprocess.run(["cargo", "+nightly", "build", "--offline", "-q"], cwd=kv.harness_crate(),
                           capture_output=True, text=True, env=env, timeout=timeout)
    if p.returncode != 0:
        return None, "instrumented (nightly, -C instrument-coverage) harness build failed: " + p.stderr[-600:]
    return os.path.join(target, "debug", "kv_harness"), ""


def run_coverage(groups, tier, seed, huge=False, timeout=3000):
    """-> ({relpath: {line: count}}, {relpath: [(first_line, last_line, count)]}, error)"""
    exe, err = build_instrumented()
    if exe is None:
        return None, None, err
    _, cdir = _cov_dirs()
    shutil.rmtree(cdir, ignore_errors=True)
    os.makedirs(cdir)
    raws = []
    for g in groups:
        if g.startswith("gen:"):
            continue
        env = kv.env_base()
        raw = os.path.join(cdir, g + ".profraw")
        env["LLVM_PROFILE_FILE"] = raw
        if huge:
            env["KV_HUGE"] = "1"
        try:
            subprocess.run([exe, g, tier, str(seed)], stdout=subprocess.DEVNULL, stderr=subprocess.DEVNULL, env=env, timeout=timeout)
        except subprocess.TimeoutExpired:
            return None, None, "instrumented harness timed out on group " + g
        if os.path.exists(raw):
            raws.append(raw)
    if not raws:
        return {}, {}, ""
    prof = os.path.join(cdir, "all.profdata")
    p = subprocess.run([os.path.join(LLVM_BIN, "llvm-profdata"), "merge", "-sparse"] + raws + ["-o", prof], capture_output=True, text=True)
    if p.returncode != 0:
        return None, None, "llvm-profdata failed: " + p.stderr[-300:]
    ign = r"(/rustc/|\.cargo/|/harness/src/|/rustlib/)"
    lc = subprocess.run([os.path.join(LLVM_BIN, "llvm-cov"), "export", exe, "-instr-profile=" + prof, "-format=lcov",
                         "--ignore-filename-regex=" + ign], capture_output=True, text=True)
    if lc.returncode != 0:
        return None, None, "llvm-cov export failed: " + lc.stderr[-300:]
    lines = {}
    cur = None
    for l in lc.stdout.splitlines():
        if l.startswith("SF:"):
            cur = _rel(l[3:])
            if cur is not None:
                lines.setdefault(cur, {})
        elif l.startswith("DA:") and cur is not None:
            a, b = l[3:].split(",")[:2]
            lines[cur][int(a)] = max(lines[cur].get(int(a), 0), int(b))
    js = subprocess.run([os.path.join(LLVM_BIN, "llvm-cov"), "export", exe, "-instr-profile=" + prof, "-format=text",
                         "--ignore-filename-regex=" + ign], capture_output=True, text=True)
    funcs = {}
    if js.returncode == 0:
        try:
            data = json.loads(js.stdout)
            for fn in data["data"][0]["functions"]:
                if not fn.get("regions") or not fn.get("filenames"):
                    continue
                rel = _rel(fn["filenames"][0])
                if rel is None:
                    continue
                # regions of file 0 (fileid index 5 == 0): the span of the function is their hull
                regs = [r for r in fn["regions"] if len(r) < 6 or r[5] == 0]
                if not regs:
                    continue
                lo = min(r[0] for r in regs)
                hi = max(r[2] for r in regs)
                funcs.setdefault(rel, []).append((lo, hi, fn.get("count", 0)))
        except (ValueError, KeyError, IndexError):
            pass
    for f in raws:
        os.remove(f)
    return lines, funcs, ""


def _rel(path):
    m = re.search(r"/repolink/(.*)$", path)
    if m:
        return m.group(1)
    rp = os.path.realpath(path)
    root = os.path.realpath(kv.REPO)
    if rp.startswith(root + "/"):
        return rp[len(root) + 1:]
    return None


FN_RE = re.compile(r"\bfn\s+([A-Za-z_][A-Za-z0-9_]*)")
PUNCT_RE = re.compile(r"^[\s{}()\[\];,]*(else)?[\s{}()\[\];,]*$")


def fn_name_at(src_lines, line):
    """name of the nearest `fn` item at or before the (1-based) line; '' if none"""
    for i in range(min(line, len(src_lines)) - 1, -1, -1):
        m = FN_RE.search(src_lines[i])
        if m:
            return m.group(1)
    return ""


def load_tolerance(prop):
    """{(file, fn): number of executable lines of that function that the property's producers never
    executed on the PINNED text} -- unreachable fallback arms, panics for impossible inputs.  A rewrite
    of such a function may carry the same number of unexecuted lines without the correspondence being
    any weaker than it was (lib/pinned_cov.json, written by lib/cov_baseline.py --write)."""
    path = os.path.join(kv.VERIF, "lib", "pinned_cov.json")
    if not os.path.exists(path):
        return {}
    d = json.load(open(path)).get(prop, {})
    return {tuple(k.split("::", 1)): v for k, v in d.items()}


def apply_tolerance(gap_list, tolerance, repo=None):
    """split the gaps into (flagged, tolerated) using the per-function tolerance"""
    repo = repo or kv.REPO
    by_fn = {}
    for g in gap_list:
        src = open(os.path.join(repo, g["file"]), errors="replace").read().split("\n")
        by_fn.setdefault((g["file"], fn_name_at(src, g["line"])), []).append(g)
    flagged, tolerated = [], []
    for key, gs in by_fn.items():
        if len(gs) <= tolerance.get(key, 0):
            tolerated.extend(gs)
        else:
            flagged.extend(gs)
    return flagged, tolerated


def gaps(changed, lines, funcs, repo=None):
    """changed lines that have coverage data, lie in a function that was entered, and were never
    executed.  -> (gap list [{file, line, text}], undecidable {file: n lines without data})"""
    repo = repo or kv.REPO
    out, undec = [], {}
    for rel, ls in changed.items():
        if not ls:
            continue
        src = open(os.path.join(repo, rel), errors="replace").read().split("\n")
        data = lines.get(rel, {})
        fl = funcs.get(rel, [])
        for l in ls:
            if l not in data:
                undec[rel] = undec.get(rel, 0) + 1
                continue
            if data[l] > 0:
                continue
            if PUNCT_RE.match(src[l - 1]):
                continue            # a closing brace / `else` alone on its line is not code
            entered = any(lo <= l <= hi and c > 0 for lo, hi, c in fl)
            if entered:
                out.append({"file": rel, "line": l, "text": src[l - 1].strip()[:160]})
    return out, undec


def gaps_for(prop_cfg, tier, seed, changed, huge=False, prop=None):
    lines, funcs, err = run_coverage(prop_cfg["groups"], tier, seed, huge=huge)
    if lines is None:
        return None, {}, err
    g, undec = gaps(changed, lines, funcs)
    if prop:
        g, tolerated = apply_tolerance(g, load_tolerance(prop))
        if tolerated:
            undec["(tolerated: as many unexecuted lines as the pinned text had in the same function)"] = len(tolerated)
    return g, undec, ""
