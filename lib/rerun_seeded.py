#!/usr/bin/env python3
"""Re-runs the stored seeded changes (seeded/<id>/) against the current checks: a regression
suite for the machinery itself.

For every id: a scratch git worktree of /repo (under /tmp, removed afterwards) is reset,
the author's demo is run on it (must exit 0), the patch is applied, the demo is run again
(must exit non-zero: the change really breaks the property), then
`KV_REPO=<worktree> KV_BUILD=<scratch build dir> ./check <prop> --tier quick` must exit 1 with a
VIOLATION line for that property.  Nothing is ever applied to /repo itself.

usage: lib/rerun_seeded.py [-j N] [id ...]        (default: every seeded/C*; N = 4)
       lib/rerun_seeded.py [-j N] --harmless [harmless/Cxx ...]   the behaviour-preserving rewrites
           (seeded/harmless/): the demo must pass before and after and the check must stay QUIET
writes seeded/RERUN.json (id -> verdict) and prints one line per id.
"""
import glob
import json
import os
import re
import shutil
import subprocess
import sys
import threading
import time

V = os.path.dirname(os.path.dirname(os.path.abspath(__file__)))
ENV = dict(os.environ, CARGO_NET_OFFLINE="true")


def sh(cmd, **kw):
    return subprocess.run(cmd, shell=True, capture_output=True, text=True, env=kw.pop("env", ENV), **kw)


def demo_exit(demo_src, wt, slot):
    """copy of the demo with its konst path pointed at the worktree; returns its exit code"""
    d = "/tmp/kv_seeded_demo_%d" % slot
    shutil.rmtree(d, ignore_errors=True)
    shutil.copytree(demo_src, d, ignore=shutil.ignore_patterns("target", "Cargo.lock"))
    ct = os.path.join(d, "Cargo.toml")
    t = open(ct).read()
    t = re.sub(r'path\s*=\s*"/tmp/(?:r\d+/)?[A-Za-z0-9_]+/', 'path = "%s/' % wt, t)
    open(ct, "w").write(t)
    if os.path.exists(os.path.join(wt, "Cargo.lock")):
        shutil.copy(os.path.join(wt, "Cargo.lock"), os.path.join(d, "Cargo.lock"))
    rs = os.path.join(d, "run.sh")
    if os.path.exists(rs):
        # round-7 demos: a script (several profiles / toolchains / must-be-rejected programs)
        t = open(rs).read()
        t = re.sub(r'/tmp/(?:r\d+/)?wt_c\d+', wt, t)
        t = re.sub(r'(CARGO_TARGET_DIR=)%s/target[A-Za-z0-9_/]*' % re.escape(wt), r'\1/tmp/kv_seeded_target_%d' % slot, t)
        open(rs, "w").write(t)
        r = sh("bash run.sh", cwd=d, timeout=3600)
    else:
        r = sh("cargo run --offline -q", cwd=d, env=dict(ENV, CARGO_TARGET_DIR="/tmp/kv_seeded_target_%d" % slot), timeout=1800)
    shutil.rmtree(d, ignore_errors=True)
    return r.returncode


def one(sid, slot, wt):
    harmless = sid.startswith("harmless/")
    d = os.path.join(V, "seeded", sid)
    if harmless:
        prop = sid.split("/")[1]
    else:
        meta = json.load(open(os.path.join(d, "meta.json")))
        prop = meta["property"]
    sh("git checkout -q -- . && git clean -fdq", cwd=wt)
    res = {"property": prop}
    demo = os.path.join(d, "demo")
    has_demo = os.path.exists(os.path.join(demo, "Cargo.toml"))
    if has_demo:
        res["demo_unchanged_exit"] = demo_exit(demo, wt, slot)
    a = sh("git apply %s" % os.path.join(d, "patch.diff"), cwd=wt)
    if a.returncode != 0:
        res["verdict"] = "PATCH-DOES-NOT-APPLY"
        return res
    if has_demo:
        res["demo_changed_exit"] = demo_exit(demo, wt, slot)
    t0 = time.time()
    c = sh("./check %s --tier quick" % prop, cwd=V,
           env=dict(ENV, KV_REPO=wt, KV_BUILD=os.path.join(V, ".build_scratch", "slot%d" % slot)), timeout=3600)
    res["check_exit"] = c.returncode
    res["check_wall_s"] = round(time.time() - t0, 1)
    vio = [l for l in c.stdout.splitlines() if l.startswith("VIOLATION")]
    res["violation_lines"] = vio[:3]
    summ = [l for l in c.stdout.splitlines() if "-> " in l]
    res["summary"] = summ[-1] if summ else c.stdout[-300:]
    caught = c.returncode == 1 and any(("property=%s " % prop) in l for l in vio)
    if harmless:
        # a behaviour-preserving rewrite: the demo passes before and after, and the check must stay quiet
        res["verdict"] = "QUIET" if (c.returncode == 0 and not vio) else ("ALARM " + " ".join(vio)[:160])
        sh("git checkout -q -- . && git clean -fdq", cwd=wt)
        return res
    res["verdict"] = "CAUGHT" if caught else "MISSED"
    if caught and any("no-failing-input-found" in l for l in vio):
        res["verdict"] = "CAUGHT (no-failing-input-found)"
    sh("git checkout -q -- . && git clean -fdq", cwd=wt)
    return res


def main():
    args = sys.argv[1:]
    j = 4
    if args and args[0] == "-j":
        j = int(args[1])
        args = args[2:]
    if args and args[0] == "--harmless":
        args = args[1:] or sorted("harmless/" + os.path.basename(p) for p in glob.glob(os.path.join(V, "seeded", "harmless", "C*")))
    ids = args or sorted(os.path.basename(p) for p in glob.glob(os.path.join(V, "seeded", "C*")))
    # one property never runs in two slots at once (Properties/Cxx.vo, replays/Cxx_*.json)
    def prop_of(i):
        return i.split("/")[1] if i.startswith("harmless/") else i.split("-")[0]
    props = sorted({prop_of(i) for i in ids})
    slot_of = {p: k % j for k, p in enumerate(props)}
    results = {}
    lock = threading.Lock()
    sh("./check --setup", cwd=V)

    def worker(slot):
        mine = [i for i in ids if slot_of[prop_of(i)] == slot]
        if not mine:
            return
        wt = "/tmp/kv_seeded_wt_%d" % slot
        sh("git -C /repo worktree remove --force %s" % wt)
        shutil.rmtree(wt, ignore_errors=True)
        r = sh("git -C /repo worktree add --detach %s HEAD" % wt)
        if r.returncode != 0:
            with lock:
                print("cannot create worktree %s: %s" % (wt, r.stderr))
            return
        try:
            for sid in mine:
                try:
                    res = one(sid, slot, wt)
                except Exception as ex:      # noqa
                    res = {"verdict": "ERROR", "error": repr(ex)}
                with lock:
                    results[sid] = res
                    print("%-10s %-8s demo %s->%s  %s" % (sid, res.get("verdict"), res.get("demo_unchanged_exit"), res.get("demo_changed_exit"), res.get("summary", "")[-90:]), flush=True)
        finally:
            sh("git -C /repo worktree remove --force %s" % wt)
            shutil.rmtree(wt, ignore_errors=True)
            shutil.rmtree("/tmp/kv_seeded_target_%d" % slot, ignore_errors=True)
            shutil.rmtree(os.path.join(V, ".build_scratch", "slot%d" % slot), ignore_errors=True)

    ths = [threading.Thread(target=worker, args=(s,)) for s in range(j)]
    for t in ths:
        t.start()
    for t in ths:
        t.join()
    sh("git -C /repo worktree prune")
    out = os.path.join(V, "seeded", "RERUN.json")
    old = json.load(open(out)) if os.path.exists(out) else {}
    old.update(results)
    json.dump(old, open(out, "w"), indent=1, sort_keys=True)
    bad = [i for i, r in results.items() if not str(r.get("verdict", "")).startswith(("CAUGHT", "QUIET"))]
    print("%d seeded changes re-run, %d caught, not caught: %s" % (len(results), len(results) - len(bad), bad or "none"))
    return 1 if bad else 0


if __name__ == "__main__":
    sys.exit(main())
