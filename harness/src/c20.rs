//! C20, run-time half: konst::ffi::cstr constructors and conversions against
//! core::ffi::CStr, on EVERY byte string over small alphabets that contain the nul
//! byte, an ASCII byte, an invalid byte and a valid two-byte sequence.
//! (The concat/join macros take constants; they are covered by the generated program
//! of lib/gen/c20.py.)
//!
//! c20.cstr      bytes   until=S(view)|N ; with=S(view)|N ; conv=S(tbwn,tb,to_str)|N
//!               a CStr / a conversion result is rendered as the place (offset:len) it
//!               occupies inside the argument, so pointer identity is part of the comparison
//! c20.cstr_err  bytes   ok | notterm | interior(pos)   (konst's own error kind; std's
//!               differs on b"a\0b" and the property only fixes success/failure: std = "-")
use crate::common::*;
use konst::ffi::cstr;
use std::ffi::CStr;

fn show_cstr(whole: &[u8], c: &CStr) -> String {
    // CStr::to_bytes_with_nul is std's accessor of the fat reference
    view_of(whole, c.to_bytes_with_nul())
}

fn impl_line(b: &[u8]) -> String {
    let until = cstr::from_bytes_until_nul(b);
    let with = cstr::from_bytes_with_nul(b);
    let conv = match &until {
        Ok(c) => {
            let c: &CStr = c;
            format!(
                "S({},{},{})",
                view_of(b, cstr::to_bytes_with_nul(c)),
                view_of(b, cstr::to_bytes(c)),
                show_opt(cstr::to_str(c).ok(), |s| view_of(b, s.as_bytes()))
            )
        }
        Err(_) => "N".to_string(),
    };
    fields(&[
        ("until", show_opt(until.ok(), |c| show_cstr(b, c))),
        ("with", show_opt(with.ok(), |c| show_cstr(b, c))),
        ("conv", conv),
    ])
}

fn std_line(b: &[u8]) -> String {
    let until = CStr::from_bytes_until_nul(b);
    let with = CStr::from_bytes_with_nul(b);
    let conv = match &until {
        Ok(c) => format!(
            "S({},{},{})",
            view_of(b, c.to_bytes_with_nul()),
            view_of(b, c.to_bytes()),
            show_opt(c.to_str().ok(), |s| view_of(b, s.as_bytes()))
        ),
        Err(_) => "N".to_string(),
    };
    fields(&[
        ("until", show_opt(until.ok(), |c| show_cstr(b, c))),
        ("with", show_opt(with.ok(), |c| show_cstr(b, c))),
        ("conv", conv),
    ])
}

fn err_kind(b: &[u8]) -> String {
    match cstr::from_bytes_with_nul(b) {
        Ok(_) => "ok".to_string(),
        Err(e) => {
            let s = e.to_string();
            const P: &str = "input bytes contain an internal nul byte at: ";
            if let Some(n) = s.strip_prefix(P) {
                format!("interior({})", n)
            } else if s == "input bytes don't terminate with nul" {
                "notterm".to_string()
            } else {
                format!("other({})", s.replace(|c: char| c.is_whitespace(), "_"))
            }
        }
    }
}

/// non-triviality class: where the first nul sits and what follows it
fn tag(b: &[u8]) -> String {
    let valid = |s: &[u8]| if std::str::from_utf8(s).is_ok() { "u" } else { "x" };
    match b.iter().position(|&x| x == 0) {
        None => "-".to_string(),
        Some(p) if p + 1 == b.len() => format!("last.{}{}", if p == 0 { "empty." } else { "" }, valid(&b[..p])),
        Some(p) => format!(
            "inner.{}{}.{}",
            if p == 0 { "empty." } else { "" },
            valid(&b[..p]),
            if *b.last().unwrap() == 0 { "nulend" } else { "open" }
        ),
    }
}

fn case(out: &mut Out, b: &[u8]) {
    // own allocation of exactly this length for every case
    let v: Vec<u8> = b.to_vec();
    let b: &[u8] = &v;
    let a = hex(b);
    let t = tag(b);
    let i = catch(|| impl_line(b));
    let s = catch(|| std_line(b));
    out.line("c20.cstr", &a, &i, &s, &t);
    let e = catch(|| err_kind(b));
    out.line("c20.cstr_err", &a, &e, "-", &t);
}

pub fn run(cfg: &Cfg, out: &mut Out) {
    // witnesses first: the suite's inputs and the design-time observations
    for w in [
        &b"foo\0"[..], b"bar\0qux\0", b"foo\xFF\xFF\0", b"a\0b", b"a\0b\0", b"", b"\0", b"\0\0", b"a",
        b"\xC3\xA9\0", b"\xC3\0\xA9\0", b"\xC3\xA9",
    ] {
        case(out, w);
    }
    // ALL byte strings over {0, 'a', 0xFF}
    let n1 = if cfg.thorough { 8 } else { 6 };
    for s in all_seqs(&[0u8, b'a', 0xFF], n1) {
        case(out, &s);
    }
    // ALL byte strings over {0, 'a', 0xC3, 0xA9, 0xFF}: valid and broken two-byte sequences
    let n2 = if cfg.thorough { 7 } else { 5 };
    for s in all_seqs(&[0u8, b'a', 0xC3, 0xA9, 0xFF], n2) {
        case(out, &s);
    }
    // every byte value before / after / as the terminator
    for x in 0..=255u8 {
        case(out, &[x]);
        case(out, &[x, 0]);
        case(out, &[0, x]);
        case(out, &[b'a', x, 0]);
        case(out, &[x, 0, x]);
    }
    // stress: long arguments (around the 8/16/32/64-byte block sizes) with the first nul at
    // EVERY position and each of the bytes a word-at-a-time scanner confuses with a nul
    // (0x01, 0x80, 0xFF, 0x7F) directly before it; with and without a second nul behind
    {
        let lens: &[usize] = if cfg.thorough { &[7, 8, 9, 15, 16, 17, 31, 32, 33, 47, 63, 64, 65, 96, 127, 128, 129] } else { &[8, 16, 31, 32, 33, 64, 65, 96] };
        let mut lens: Vec<usize> = lens.to_vec();
        if huge() {
            lens.extend([256usize, 1025]);
        }
        for &len in &lens {
            for fill in [b'a', 0x01u8, 0x80] {
                let base = vec![fill; len];
                case(out, &base);
                for p in 0..len {
                    for pre in [None, Some(0x01u8), Some(0x80), Some(0xFF), Some(0x7F), Some(b'a')] {
                        if fill != b'a' && pre.is_some() {
                            continue;
                        }
                        let mut v = base.clone();
                        v[p] = 0;
                        if let Some(x) = pre {
                            if p == 0 {
                                continue;
                            }
                            v[p - 1] = x;
                            if p >= 3 && x == 0x01 {
                                v[p - 2] = x;
                                v[p - 3] = x;
                            }
                        }
                        case(out, &v);
                        if p + 1 == len || (p % 5 == 0) {
                            let mut w = v.clone();
                            w.push(0);
                            case(out, &w);
                        }
                    }
                }
            }
        }
    }
    // seeded random: longer strings, nul-poor so that late terminators occur, with
    // pieces of multi-byte text
    let mut rng = Rng::new(cfg.seed ^ 0xC20);
    let pieces: [&[u8]; 9] = [b"a", b"z", "é".as_bytes(), "个".as_bytes(), "🧠".as_bytes(), b"\xFF", b"\x80", b"\xE4\xB8", b"\0"];
    let n = if cfg.thorough { 60_000 } else { 6_000 };
    for _ in 0..n {
        let len = 1 + rng.below(24) as usize;
        let nul_weight = 1 + rng.below(4);
        let mut v = Vec::new();
        for _ in 0..len {
            if rng.below(12) < nul_weight {
                v.push(0);
            } else {
                v.extend_from_slice(pieces[rng.below(8) as usize]);
            }
        }
        if rng.below(2) == 0 {
            v.push(0);
        }
        case(out, &v);
    }
}
