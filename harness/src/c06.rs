//! C06 — string split iterators vs std's split family.
use crate::common::*;
use konst::string as kstr;

const KINDS: [&str; 6] = ["split", "rsplit", "split_rev", "rsplit_rev", "term", "rterm"];

macro_rules! drain {
    ($h:expr, $it:expr) => {{
        let h: &str = $h;
        let mut it = $it;
        let mut v: Vec<(String, String)> = Vec::new();
        let mut guard = 0usize;
        loop {
            // a copy must have the same future: step the copy, keep the original for the next round
            let c = it.copy();
            match c.next() {
                Some((p, nit)) => {
                    v.push((view_str(h, p), view_str(h, nit.remainder())));
                    it = nit;
                }
                None => break,
            }
            guard += 1;
            if guard > h.len() + 8 {
                v.push(("RUNAWAY".into(), "RUNAWAY".into()));
                break;
            }
        }
        v
    }};
}

fn impl_steps<'a, P: kstr::Pattern<'a>>(kind: &str, h: &str, d: P) -> Vec<(String, String)> {
    match kind {
        "split" => drain!(h, kstr::split(h, d)),
        "rsplit" => drain!(h, kstr::rsplit(h, d)),
        "split_rev" => drain!(h, kstr::split(h, d).rev()),
        "rsplit_rev" => drain!(h, kstr::rsplit(h, d).rev()),
        "term" => drain!(h, kstr::split_terminator(h, d)),
        "rterm" => drain!(h, kstr::rsplit_terminator(h, d)),
        _ => unreachable!(),
    }
}

fn std_pieces(kind: &str, h: &str, d: &str) -> Vec<String> {
    let v: Vec<&str> = match kind {
        "split" | "rsplit_rev" => h.split(d).collect(),
        "rsplit" | "split_rev" => h.rsplit(d).collect(),
        "term" => h.split_terminator(d).collect(),
        "rterm" => {
            // documented mirrored rule: rsplit without the empty piece before a leading delimiter
            let mut v: Vec<&str> = h.rsplit(d).collect();
            if v.last().map_or(false, |p| p.is_empty()) {
                v.pop();
            }
            v
        }
        _ => unreachable!(),
    };
    v.into_iter().map(|p| view_str(h, p)).collect()
}

fn tag(h: &str, d: &str) -> String {
    if d.is_empty() {
        return if h.is_empty() { "emptyd+emptyh".into() } else { "emptyd".into() };
    }
    let n = h.matches(d).count();
    if n == 0 {
        return "-".into();
    }
    let mut t = vec![if n == 1 { "one" } else { "multi" }];
    if h.starts_with(d) {
        t.push("lead");
    }
    if h.ends_with(d) {
        t.push("trail");
    }
    if h.contains(&format!("{}{}", d, d)) {
        t.push("adj");
    }
    // overlapping occurrences (d has a border and two occurrences overlap)
    let hb = h.as_bytes();
    let db = d.as_bytes();
    let occ: Vec<usize> = (0..=hb.len().saturating_sub(db.len())).filter(|&i| hb.len() >= db.len() && &hb[i..i + db.len()] == db).collect();
    if occ.windows(2).any(|w| w[1] - w[0] < db.len()) {
        t.push("overlap");
    }
    t.join("+")
}

fn emit<'a, P: kstr::Pattern<'a> + Copy + std::panic::RefUnwindSafe>(out: &mut Out, suffix: &str, args: &str, h: &str, d: P, dstr: &str) {
    let mut pieces_impl = Vec::new();
    let mut steps_impl = Vec::new();
    let mut pieces_std = Vec::new();
    for k in KINDS {
        let r = std::panic::catch_unwind(|| impl_steps(k, h, d));
        match r {
            Ok(st) => {
                pieces_impl.push((k, show_list(st.iter(), |p| p.0.clone())));
                steps_impl.push((k, show_list(st.iter(), |p| format!("({},{})", p.0, p.1))));
            }
            Err(_) => {
                pieces_impl.push((k, "PANIC".to_string()));
                steps_impl.push((k, "PANIC".to_string()));
            }
        }
        pieces_std.push((k, show_list(std_pieces(k, h, dstr), |p| p)));
    }
    let tg = tag(h, dstr);
    out.line(&format!("c06.pieces{}", suffix), args, &fields(&pieces_impl), &fields(&pieces_std), &tg);
    out.line(&format!("c06.steps{}", suffix), args, &fields(&steps_impl), "-", &tg);
}

fn one_str(out: &mut Out, h: &str, d: &str) {
    let args = format!("{} {}", hex(h.as_bytes()), hex(d.as_bytes()));
    emit(out, "", &args, h, d, d);
}
fn one_char(out: &mut Out, h: &str, c: char) {
    let args = format!("{} {}", hex(h.as_bytes()), c as u32);
    let mut buf = [0u8; 4];
    let d: &str = c.encode_utf8(&mut buf);
    emit(out, "char", &args, h, c, d);
}

/// long inputs: pieces of block-ish length, false starts of the delimiter shortly before the real
/// one, a leading / trailing delimiter around a long piece (both directions)
fn stress(cfg: &Cfg, out: &mut Out) {
    let sizes: Vec<usize> = block_sizes(if cfg.thorough { 130 } else { 66 }).into_iter().filter(|x| *x == 0 || *x == 1 || *x >= 7).collect();
    for d in ["ab", "--", "é", "::=", "-"] {
        let first: String = d.chars().take(1).collect();
        for &l1 in &sizes {
            for &l2 in &[0usize, 1, 8, 31, 32, 33] {
                let p1 = "z".repeat(l1);
                let p2 = "y".repeat(l2);
                // plain, with a false start right before the delimiter, leading and trailing delimiters
                one_str(out, &format!("{}{}{}", p1, d, p2), d);
                one_str(out, &format!("{}{}{}{}", p1, first, d, p2), d);
                one_str(out, &format!("{}{}{}", d, p1, p2), d);
                one_str(out, &format!("{}{}{}", p1, p2, d), d);
                one_str(out, &format!("{}{}{}{}{}", first, d, p1, d, first), d);
            }
        }
    }
    for c in ['-', 'é', '锈'] {
        for &l1 in &sizes {
            let p1 = "é".repeat(l1);
            one_char(out, &format!("{}{}{}", c, p1, c), c);
            one_char(out, &format!("{}à{}x{}", p1, c, p1), c);
        }
    }
    let _ = cfg;
}


// ------------------------------------------------------------------ histories on one iterator
// F = next(), B = next_back().  Shapes F^k B^* and B^k F^* ("reverse at any point of the
// iteration") for every delimiter; every mixed history for char delimiters, where std's Split is
// double-ended too (occurrences of a char cannot overlap, so the pieces form a deque).

macro_rules! run_hist {
    ($h:expr, $it:expr, $hist:expr) => {{
        let h: &str = $h;
        let mut it = $it;
        let mut v: Vec<String> = Vec::new();
        for &c in $hist.iter() {
            let cp = it.copy();
            let r = if c == b'F' { cp.next() } else { cp.next_back() };
            match r {
                Some((p, nit)) => {
                    v.push(format!("({},{})", view_str(h, p), view_str(h, nit.remainder())));
                    it = nit;
                }
                None => v.push("N".into()),
            }
        }
        format!("[{}]", v.join(","))
    }};
}

/// what std yields for the same history on `h.split(d)` (pieces and the not-yet-split remainder,
/// computed from the consumed pieces); only meaningful when the pieces form a deque: histories of
/// the shapes F^k B^* / B^k F^* are answered with split's pieces for the leading run and
/// rsplit's / split's pieces of the remainder for the rest
fn std_hist(h: &str, d: &str, hist: &[u8]) -> String {
    let dl = d.len();
    let mut lo = 0usize; // remainder = h[lo..hi] while not finished
    let mut hi = h.len();
    let mut finished = false;
    let mut v: Vec<String> = Vec::new();
    for &c in hist {
        if finished {
            v.push("N".into());
            continue;
        }
        let r = &h[lo..hi];
        if c == b'F' {
            match r.find(d) {
                Some(pos) => {
                    let piece = (lo, pos);
                    lo += pos + dl;
                    v.push(format!("({},{})", show_view_ol(piece.0, piece.1), show_view_ol(lo, hi - lo)));
                }
                None => {
                    v.push(format!("({},e)", show_view_ol(lo, hi - lo)));
                    finished = true;
                }
            }
        } else {
            match r.rfind(d) {
                Some(pos) => {
                    let piece = (lo + pos + dl, hi - (lo + pos + dl));
                    hi = lo + pos;
                    v.push(format!("({},{})", show_view_ol(piece.0, piece.1), show_view_ol(lo, hi - lo)));
                }
                None => {
                    v.push(format!("({},e)", show_view_ol(lo, hi - lo)));
                    finished = true;
                }
            }
        }
    }
    format!("[{}]", v.join(","))
}

fn flip(hist: &[u8]) -> Vec<u8> {
    hist.iter().map(|&c| if c == b'F' { b'B' } else { b'F' }).collect()
}

fn hist_tag(hist: &[u8]) -> &'static str {
    let f = hist.iter().filter(|&&c| c == b'F').count();
    if f == 0 || f == hist.len() { "one-end" } else if hist.windows(2).filter(|w| w[0] != w[1]).count() == 1 { "reverse-midway" } else { "mixed" }
}

fn shaped_histories(npieces: usize) -> Vec<Vec<u8>> {
    let mut v = Vec::new();
    for k in 0..=npieces + 1 {
        for (a, b) in [(b'F', b'B'), (b'B', b'F')] {
            let mut hst = vec![a; k];
            hst.extend(vec![b; npieces + 2 - k.min(npieces + 1)]);
            v.push(hst);
        }
    }
    v.sort();
    v.dedup();
    v
}

fn hist_str(out: &mut Out, h: &str, d: &str) {
    if d.is_empty() {
        return;
    }
    let np = h.split(d).count();
    for hist in shaped_histories(np) {
        let args = format!("{} {} {}", hex(h.as_bytes()), hex(d.as_bytes()), hex(&hist));
        let i = catch(|| run_hist!(h, kstr::split(h, d), hist));
        out.line("c06.hist", &args, &i, &std_hist(h, d, &hist), hist_tag(&hist));
        let i = catch(|| run_hist!(h, kstr::rsplit(h, d), hist));
        out.line("c06.rhist", &args, &i, &std_hist(h, d, &flip(&hist)), hist_tag(&hist));
    }
}

fn hist_char(out: &mut Out, h: &str, c: char, all_mixed: bool) {
    let mut buf = [0u8; 4];
    let d: &str = c.encode_utf8(&mut buf);
    let np = h.split(c).count();
    let hists: Vec<Vec<u8>> = if all_mixed && np <= 5 { all_seqs(&[b'F', b'B'], np + 1).into_iter().filter(|s| s.len() == np + 1).collect() } else { shaped_histories(np) };
    for hist in hists {
        let args = format!("{} {} {}", hex(h.as_bytes()), c as u32, hex(&hist));
        let i = catch(|| run_hist!(h, kstr::split(h, c), hist));
        out.line("c06.histchar", &args, &i, &std_hist(h, d, &hist), hist_tag(&hist));
        let i = catch(|| run_hist!(h, kstr::rsplit(h, c), hist));
        out.line("c06.rhistchar", &args, &i, &std_hist(h, d, &flip(&hist)), hist_tag(&hist));
    }
}

/// std's own double-ended `split(char)` as a cross-check of `std_hist` (pieces only)
#[allow(dead_code)]
fn std_de_pieces(h: &str, c: char, hist: &[u8]) -> Vec<Option<String>> {
    let mut it = h.split(c);
    hist.iter().map(|&x| if x == b'F' { it.next() } else { it.next_back() }.map(|p| view_str(h, p))).collect()
}

fn histories(cfg: &Cfg, out: &mut Out) {
    for (h, d) in [("a,b", ","), (",a,,b,", ","), ("aaab", "aab"), ("aaa", "aa"), ("ababa", "aba"), ("", "a"), ("a", "a")] {
        hist_str(out, h, d);
    }
    let alpha = ['a', 'b', 'é', '-'];
    let hays = all_strings(&alpha, if cfg.thorough { 5 } else { 4 });
    let delims = all_strings(&alpha, 2);
    for h in &hays {
        for d in &delims {
            // every mixed history is compared with std only where the pieces form a deque for sure:
            // one-char delimiters; longer ones get the reverse-at-any-point shapes
            hist_str(out, h, d);
        }
        for c in alpha {
            hist_char(out, h, c, true);
        }
    }
    let mb = ['a', 'é', '锈', '🧠'];
    for h in all_strings(&mb, 3).iter() {
        for c in mb {
            hist_char(out, h, c, true);
        }
    }
    // long pieces around a block size, reversed midway
    for n in [31usize, 32, 33, 64] {
        let h = format!("{}-{}-{}", "z".repeat(n), "y".repeat(n + 1), "x".repeat(3));
        hist_str(out, &h, "-");
        hist_char(out, &h, '-', true);
    }
}

pub fn run(cfg: &Cfg, out: &mut Out) {
    stress(cfg, out);
    histories(cfg, out);
    // regression corpus: F1 shapes (overlap inside a failed partial match), leading/trailing/adjacent delimiters
    for (h, d) in [("aaab", "aab"), ("abbb", "abb"), (",a,,b,", ","), ("", "a"), ("", ""), ("ab", ""), ("éa锈", ""), ("aaa", "aa"), ("ababa", "aba")] {
        one_str(out, h, d);
    }
    let alpha = ['a', 'b', 'é', '-'];
    let hays = all_strings(&alpha, if cfg.thorough { 5 } else { 4 });
    let delims = all_strings(&alpha, if cfg.thorough { 3 } else { 2 });
    for h in &hays {
        for d in &delims {
            one_str(out, h, d);
        }
    }
    // longer delimiters on a binary alphabet (self-overlapping delimiters)
    let h2 = all_strings(&['a', 'b'], if cfg.thorough { 8 } else { 6 });
    let d2 = all_strings(&['a', 'b'], 3);
    for h in &h2 {
        for d in &d2 {
            if d.len() >= 2 {
                one_str(out, h, d);
            }
        }
    }
    // char delimiters and multi-byte text (empty-delimiter char stepping)
    let mb = ['a', 'é', '锈', '🧠'];
    let hays_mb = all_strings(&mb, if cfg.thorough { 4 } else { 3 });
    for h in &hays_mb {
        for c in mb {
            one_char(out, h, c);
        }
        one_str(out, h, "");
        one_str(out, h, "é锈");
        one_str(out, h, "🧠");
    }
    // seeded random
    let mut rng = Rng::new(cfg.seed ^ 0x06);
    let count = if cfg.thorough { 6000 } else { 1000 };
    for _ in 0..count {
        let dl = rng.below(4) as usize;
        let d: String = (0..dl).map(|_| *rng.pick(&alpha)).collect();
        let target = rng.below(24) as usize;
        let mut h = String::new();
        while h.chars().count() < target {
            match rng.below(3) {
                0 => h.push(*rng.pick(&alpha)),
                1 => h.push_str(&d),
                _ => {
                    let dc: Vec<char> = d.chars().collect();
                    let k = rng.below(dc.len() as u64 + 1) as usize;
                    h.extend(dc[..k].iter());
                }
            }
        }
        one_str(out, &h, &d);
    }
}
