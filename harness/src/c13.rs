//! C13 / C14 — Parser operation sequences: positions, errors, and agreement with the free
//! string functions.
use crate::common::*;
use konst::parsing::{ParseDirection, ParseError, Parser};
use konst::string as kstr;

#[derive(Clone, Copy, Debug)]
pub enum Op {
    Skip(usize),
    SkipBack(usize),
    Trim,
    TrimStart,
    TrimEnd,
    TrimMatches(&'static str),
    TrimStartMatches(&'static str),
    TrimEndMatches(&'static str),
    StripPrefix(&'static str),
    StripSuffix(&'static str),
    FindSkip(&'static str),
    RFindSkip(&'static str),
    Split(&'static str),
    RSplit(&'static str),
    SplitTerminator(&'static str),
    RSplitTerminator(&'static str),
    SplitKeep(&'static str),
    ParseU8,
    ParseI8,
    ParseU16,
    ParseI32,
    ParseU64,
    ParseBool,
    /// the remaining integer types: (width, signed, pointer-sized)
    ParseI16,
    ParseU32,
    ParseI64,
    ParseU128,
    ParseI128,
    ParseUsize,
    ParseIsize,
    /// char-pattern forms of the pattern operations (same model operation on the char's UTF-8 bytes)
    StripPrefixC(char),
    StripSuffixC(char),
    TrimMatchesC(char),
    TrimStartMatchesC(char),
    TrimEndMatchesC(char),
    FindSkipC(char),
    RFindSkipC(char),
    SplitC(char),
    RSplitC(char),
    SplitTerminatorC(char),
    RSplitTerminatorC(char),
    SplitKeepC(char),
}
use Op::*;

pub const PARSE_OPS: [Op; 6] = [ParseU8, ParseI8, ParseU16, ParseI32, ParseU64, ParseBool];
pub const MORE_PARSE_OPS: [Op; 7] = [ParseI16, ParseU32, ParseI64, ParseU128, ParseI128, ParseUsize, ParseIsize];
pub fn char_ops(c: char) -> [Op; 12] {
    [StripPrefixC(c), StripSuffixC(c), TrimMatchesC(c), TrimStartMatchesC(c), TrimEndMatchesC(c), FindSkipC(c), RFindSkipC(c),
     SplitC(c), RSplitC(c), SplitTerminatorC(c), RSplitTerminatorC(c), SplitKeepC(c)]
}
fn chex(c: char) -> String {
    let mut b = [0u8; 4];
    hex(c.encode_utf8(&mut b).as_bytes())
}
pub const OPS: [Op; 36] = [
    Skip(1), Skip(2), SkipBack(1), SkipBack(2), Trim, TrimStart, TrimEnd,
    TrimMatches("aba"), TrimMatches("aa"), TrimMatches("-a-"),
    TrimMatches("a"), TrimMatches("ab"), TrimMatches(""), TrimStartMatches("a"), TrimStartMatches("-"), TrimEndMatches("é"), TrimEndMatches("a"),
    StripPrefix("a"), StripPrefix("é"), StripPrefix(""), StripSuffix("a"), StripSuffix("-"),
    FindSkip("a"), FindSkip("-"), FindSkip("ab"), FindSkip(""), RFindSkip("a"), RFindSkip("é"),
    Split("-"), Split("a"), RSplit("-"), RSplit("ab"), SplitTerminator("-"), RSplitTerminator("-"), SplitKeep("-"), SplitKeep("a"),
];

impl Op {
    pub fn desc(&self) -> String {
        match *self {
            Skip(n) => format!("[skip,{}]", n),
            SkipBack(n) => format!("[skip_back,{}]", n),
            Trim => "[trim]".into(),
            TrimStart => "[trim_start]".into(),
            TrimEnd => "[trim_end]".into(),
            TrimMatches(p) => format!("[trim_matches,{}]", hex(p.as_bytes())),
            TrimStartMatches(p) => format!("[trim_start_matches,{}]", hex(p.as_bytes())),
            TrimEndMatches(p) => format!("[trim_end_matches,{}]", hex(p.as_bytes())),
            StripPrefix(p) => format!("[strip_prefix,{}]", hex(p.as_bytes())),
            StripSuffix(p) => format!("[strip_suffix,{}]", hex(p.as_bytes())),
            FindSkip(p) => format!("[find_skip,{}]", hex(p.as_bytes())),
            RFindSkip(p) => format!("[rfind_skip,{}]", hex(p.as_bytes())),
            Split(p) => format!("[split,{}]", hex(p.as_bytes())),
            RSplit(p) => format!("[rsplit,{}]", hex(p.as_bytes())),
            SplitTerminator(p) => format!("[split_terminator,{}]", hex(p.as_bytes())),
            RSplitTerminator(p) => format!("[rsplit_terminator,{}]", hex(p.as_bytes())),
            SplitKeep(p) => format!("[split_keep,{}]", hex(p.as_bytes())),
            ParseU8 => "[parse_int,8,F]".into(),
            ParseI8 => "[parse_int,8,T]".into(),
            ParseU16 => "[parse_int,16,F]".into(),
            ParseI32 => "[parse_int,32,T]".into(),
            ParseU64 => "[parse_int,64,F]".into(),
            ParseBool => "[parse_bool]".into(),
            ParseI16 => "[parse_int,16,T]".into(),
            ParseU32 => "[parse_int,32,F]".into(),
            ParseI64 => "[parse_int,64,T]".into(),
            ParseU128 => "[parse_int,128,F]".into(),
            ParseI128 => "[parse_int,128,T]".into(),
            ParseUsize => format!("[parse_int,{},F]", usize::BITS),
            ParseIsize => format!("[parse_int,{},T]", usize::BITS),
            StripPrefixC(c) => format!("[strip_prefix,{}]", chex(c)),
            StripSuffixC(c) => format!("[strip_suffix,{}]", chex(c)),
            TrimMatchesC(c) => format!("[trim_matches,{}]", chex(c)),
            TrimStartMatchesC(c) => format!("[trim_start_matches,{}]", chex(c)),
            TrimEndMatchesC(c) => format!("[trim_end_matches,{}]", chex(c)),
            FindSkipC(c) => format!("[find_skip,{}]", chex(c)),
            RFindSkipC(c) => format!("[rfind_skip,{}]", chex(c)),
            SplitC(c) => format!("[split,{}]", chex(c)),
            RSplitC(c) => format!("[rsplit,{}]", chex(c)),
            SplitTerminatorC(c) => format!("[split_terminator,{}]", chex(c)),
            RSplitTerminatorC(c) => format!("[rsplit_terminator,{}]", chex(c)),
            SplitKeepC(c) => format!("[split_keep,{}]", chex(c)),
        }
    }
}

type R<'a> = Result<(Option<String>, Parser<'a>), ParseError<'a>>;

fn apply<'a>(p: Parser<'a>, op: Op) -> R<'a> {
    Ok(match op {
        Skip(n) => (None, p.skip(n)),
        SkipBack(n) => (None, p.skip_back(n)),
        Trim => (None, p.trim()),
        TrimStart => (None, p.trim_start()),
        TrimEnd => (None, p.trim_end()),
        TrimMatches(x) => (None, p.trim_matches(x)),
        TrimStartMatches(x) => (None, p.trim_start_matches(x)),
        TrimEndMatches(x) => (None, p.trim_end_matches(x)),
        StripPrefix(x) => (None, p.strip_prefix(x)?),
        StripSuffix(x) => (None, p.strip_suffix(x)?),
        FindSkip(x) => (None, p.find_skip(x)?),
        RFindSkip(x) => (None, p.rfind_skip(x)?),
        Split(x) => {
            let (s, q) = p.split(x)?;
            (Some(hex(s.as_bytes())), q)
        }
        RSplit(x) => {
            let (s, q) = p.rsplit(x)?;
            (Some(hex(s.as_bytes())), q)
        }
        SplitTerminator(x) => {
            let (s, q) = p.split_terminator(x)?;
            (Some(hex(s.as_bytes())), q)
        }
        RSplitTerminator(x) => {
            let (s, q) = p.rsplit_terminator(x)?;
            (Some(hex(s.as_bytes())), q)
        }
        SplitKeep(x) => {
            let (s, q) = p.split_keep(x)?;
            (Some(hex(s.as_bytes())), q)
        }
        ParseU8 => {
            let (v, q) = p.parse_u8()?;
            (Some(v.to_string()), q)
        }
        ParseI8 => {
            let (v, q) = p.parse_i8()?;
            (Some(v.to_string()), q)
        }
        ParseU16 => {
            let (v, q) = p.parse_u16()?;
            (Some(v.to_string()), q)
        }
        ParseI32 => {
            let (v, q) = p.parse_i32()?;
            (Some(v.to_string()), q)
        }
        ParseU64 => {
            let (v, q) = p.parse_u64()?;
            (Some(v.to_string()), q)
        }
        ParseBool => {
            let (v, q) = p.parse_bool()?;
            (Some(show_bool(v).to_string()), q)
        }
        ParseI16 => {
            let (v, q) = p.parse_i16()?;
            (Some(v.to_string()), q)
        }
        ParseU32 => {
            let (v, q) = p.parse_u32()?;
            (Some(v.to_string()), q)
        }
        ParseI64 => {
            let (v, q) = p.parse_i64()?;
            (Some(v.to_string()), q)
        }
        ParseU128 => {
            let (v, q) = p.parse_u128()?;
            (Some(v.to_string()), q)
        }
        ParseI128 => {
            let (v, q) = p.parse_i128()?;
            (Some(v.to_string()), q)
        }
        ParseUsize => {
            let (v, q) = p.parse_usize()?;
            (Some(v.to_string()), q)
        }
        ParseIsize => {
            let (v, q) = p.parse_isize()?;
            (Some(v.to_string()), q)
        }
        StripPrefixC(x) => (None, p.strip_prefix(x)?),
        StripSuffixC(x) => (None, p.strip_suffix(x)?),
        TrimMatchesC(x) => (None, p.trim_matches(x)),
        TrimStartMatchesC(x) => (None, p.trim_start_matches(x)),
        TrimEndMatchesC(x) => (None, p.trim_end_matches(x)),
        FindSkipC(x) => (None, p.find_skip(x)?),
        RFindSkipC(x) => (None, p.rfind_skip(x)?),
        SplitC(x) => {
            let (s, q) = p.split(x)?;
            (Some(hex(s.as_bytes())), q)
        }
        RSplitC(x) => {
            let (s, q) = p.rsplit(x)?;
            (Some(hex(s.as_bytes())), q)
        }
        SplitTerminatorC(x) => {
            let (s, q) = p.split_terminator(x)?;
            (Some(hex(s.as_bytes())), q)
        }
        RSplitTerminatorC(x) => {
            let (s, q) = p.rsplit_terminator(x)?;
            (Some(hex(s.as_bytes())), q)
        }
        SplitKeepC(x) => {
            let (s, q) = p.split_keep(x)?;
            (Some(hex(s.as_bytes())), q)
        }
    })
}

/// apply one operation, dropping the yielded value (used by c01)
pub fn apply_pub<'a>(p: Parser<'a>, op: Op) -> Result<Parser<'a>, ParseError<'a>> {
    apply(p, op).map(|x| x.1)
}

fn dir(d: ParseDirection) -> &'static str {
    match d {
        ParseDirection::FromStart => "S",
        ParseDirection::FromEnd => "E",
        ParseDirection::FromBoth => "B",
    }
}

/// runs the sequence; returns (rendered trace, tag)
pub fn trace(orig: &str, base: usize, ops: &[Op]) -> (String, String) {
    let mut p = if base == 0 { Parser::new(orig) } else { Parser::with_start_offset(orig, base) };
    let mut out: Vec<String> = Vec::new();
    let mut changed = 0;
    let mut ended_err = false;
    for &op in ops {
        let before = p.remainder();
        match std::panic::catch_unwind(move || apply(p, op)) {
            Err(_) => {
                out.push("PANIC".into());
                break;
            }
            Ok(Ok((v, q))) => {
                let s = q.start_offset();
                let e = q.end_offset();
                let rem = q.remainder();
                let inv = s >= base && orig.as_bytes().get(s - base..e.wrapping_sub(base)).map_or(false, |x| x == rem.as_bytes());
                // the error the parser WOULD report here (into_error / into_other_error / copy),
                // and len / is_empty
                let e1 = q.into_error(konst::parsing::ErrorKind::Other);
                let e2 = q.into_other_error(&"custom");
                let e3 = e1.copy();
                let mut errs = format!("{}{}", e1.offset(), dir(e1.error_direction()));
                if (e2.offset(), dir(e2.error_direction()), format!("{:?}", e2.kind())) != (e1.offset(), dir(e1.error_direction()), "Other".to_string())
                    || (e3.offset(), dir(e3.error_direction()), format!("{:?}", e3.kind())) != (e1.offset(), dir(e1.error_direction()), "Other".to_string())
                {
                    errs.push_str("!other/copy");
                }
                if q.len() != rem.len() || q.is_empty() != rem.is_empty() {
                    errs.push_str("!len");
                }
                out.push(format!(
                    "ok({},{},{},{},{},{},{})",
                    s, e, hex(rem.as_bytes()), dir(q.parse_direction()),
                    v.unwrap_or("-".to_string()), show_bool(inv), errs
                ));
                if rem.len() != before.len() {
                    changed += 1;
                }
                p = q;
            }
            Ok(Err(er)) => {
                out.push(format!("err({},{},{:?})", er.offset(), dir(er.error_direction()), er.kind()));
                ended_err = true;
                break;
            }
        }
    }
    let tag = match (changed, ended_err) {
        (0, false) => "-".to_string(),
        (0, true) => "err".to_string(),
        (1, false) => "one".to_string(),
        (1, true) => "one+err".to_string(),
        (_, false) => "multi".to_string(),
        (_, true) => "multi+err".to_string(),
    };
    (format!("[{}]", out.join(",")), tag)
}

/// C14: the remainder each operation leaves = the free string function on the previous remainder
pub fn free_fn<'a>(prev: &'a str, op: Op) -> Option<Option<&'a str>> {
    Some(match op {
        Skip(_) | SkipBack(_) => return None,
        Trim => Some(kstr::trim(prev)),
        TrimStart => Some(kstr::trim_start(prev)),
        TrimEnd => Some(kstr::trim_end(prev)),
        TrimMatches(x) => Some(kstr::trim_matches(prev, x)),
        TrimStartMatches(x) => Some(kstr::trim_start_matches(prev, x)),
        TrimEndMatches(x) => Some(kstr::trim_end_matches(prev, x)),
        StripPrefix(x) => kstr::strip_prefix(prev, x),
        StripSuffix(x) => kstr::strip_suffix(prev, x),
        FindSkip(x) => kstr::find_skip(prev, x),
        RFindSkip(x) => kstr::rfind_skip(prev, x),
        Split(x) | SplitTerminator(x) => kstr::split_once(prev, x).map(|p| p.1),
        RSplit(x) | RSplitTerminator(x) => kstr::rsplit_once(prev, x).map(|p| p.0),
        SplitKeep(x) => kstr::find(prev, x).map(|i| &prev[i..]),
        ParseU8 | ParseI8 | ParseU16 | ParseI32 | ParseU64 | ParseBool => return None,
        ParseI16 | ParseU32 | ParseI64 | ParseU128 | ParseI128 | ParseUsize | ParseIsize => return None,
        TrimMatchesC(x) => Some(kstr::trim_matches(prev, x)),
        TrimStartMatchesC(x) => Some(kstr::trim_start_matches(prev, x)),
        TrimEndMatchesC(x) => Some(kstr::trim_end_matches(prev, x)),
        StripPrefixC(x) => kstr::strip_prefix(prev, x),
        StripSuffixC(x) => kstr::strip_suffix(prev, x),
        FindSkipC(x) => kstr::find_skip(prev, x),
        RFindSkipC(x) => kstr::rfind_skip(prev, x),
        SplitC(x) | SplitTerminatorC(x) => kstr::split_once(prev, x).map(|p| p.1),
        RSplitC(x) | RSplitTerminatorC(x) => kstr::rsplit_once(prev, x).map(|p| p.0),
        SplitKeepC(x) => kstr::find(prev, x).map(|i| &prev[i..]),
    })
}

fn emit(out: &mut Out, orig: &str, base: usize, ops: &[Op]) {
    let d: Vec<String> = ops.iter().map(|o| o.desc()).collect();
    let args = format!("{} {} [{}]", hex(orig.as_bytes()), base, d.join(","));
    let (tr, tag) = trace(orig, base, ops);
    out.line("c13.ops", &args, &tr, "-", &tag);
}

pub fn run(cfg: &Cfg, out: &mut Out) {
    // regression corpus: F3 (two-sided trims must not add the bytes trimmed at the end)
    for (s, ops) in [
        ("  a  ", vec![Trim]), ("  a  ", vec![Trim, Skip(1)]), ("aabaa", vec![TrimMatches("a"), FindSkip("b")]),
        ("ababa", vec![TrimMatches("ab")]), ("ababa", vec![TrimMatches("aba")]), ("ababa", vec![TrimMatches("aba"), Skip(1)]), ("aaa", vec![TrimMatches("aa")]),
        ("-a-a-", vec![TrimMatches("-a-"), SkipBack(1)]), ("aabaa", vec![TrimMatches("aa"), StripPrefix("b")]), ("é-é", vec![Skip(1), SkipBack(1)]), ("a-b-", vec![SplitTerminator("-"), SplitTerminator("-"), SplitTerminator("-")]),
        ("-a-b", vec![RSplitTerminator("-"), RSplitTerminator("-"), RSplitTerminator("-")]), ("a-b", vec![Split("-"), Split("-"), Split("-")]),
    ] {
        emit(out, s, 0, &ops);
        emit(out, s, 3, &ops);
    }
    let alpha = ['a', 'b', 'é', '-', ' '];
    let strs = all_strings(&alpha, if cfg.thorough { 4 } else { 3 });
    // depth 1 and 2, exhaustive
    for s in &strs {
        for base in [0usize, 7] {
            for a in OPS {
                emit(out, s, base, &[a]);
                for b in OPS {
                    emit(out, s, base, &[a, b]);
                }
            }
        }
    }
    // parse_* operations: every pair with at least one parse op, on digit-bearing strings
    // (base 7) and on the letter strings (errors after from-the-end operations)
    let dalpha = ['1', '2', '-', 'a', ' '];
    let dstrs = all_strings(&dalpha, if cfg.thorough { 4 } else { 3 });
    let mut allops: Vec<Op> = OPS.to_vec();
    allops.extend(PARSE_OPS.iter());
    for (set, bases) in [(&dstrs, &[0usize, 7][..]), (&strs, &[7usize][..])] {
        for s in set.iter() {
            for &base in bases {
                for a in PARSE_OPS {
                    emit(out, s, base, &[a]);
                }
                for &a in &allops {
                    for &b in &allops {
                        let pa = matches!(a, ParseU8 | ParseI8 | ParseU16 | ParseI32 | ParseU64 | ParseBool);
                        let pb = matches!(b, ParseU8 | ParseI8 | ParseU16 | ParseI32 | ParseU64 | ParseBool);
                        if pa || pb {
                            emit(out, s, base, &[a, b]);
                        }
                    }
                }
            }
        }
    }
    // zero-padded numbers (the digit run may be longer than the type's widest value)
    let mut padded: Vec<String> = Vec::new();
    for k in 1..=7 {
        for tail in ["7", "255", "256", "65535", "12:0030 rest"] {
            padded.push(format!("{}{}", "0".repeat(k), tail));
            padded.push(format!("-{}{}", "0".repeat(k), tail));
            padded.push(format!("{}{};x", "0".repeat(k), tail));
        }
        padded.push("0".repeat(k));
    }
    padded.push(format!("{}1", "0".repeat(25)));
    padded.push(format!("{}1", "0".repeat(45)));
    for s in &padded {
        for a in PARSE_OPS {
            emit(out, s, 0, &[a]);
            emit(out, s, 7, &[a, StripPrefix(":"), a]);
        }
    }
    for s in ["true", "false", "truefalse", "tru", " true", "255", "256", "-128", "-129", "65535x", "18446744073709551616", "007 ", "-0-"] {
        for a in PARSE_OPS {
            for b in PARSE_OPS {
                emit(out, s, 0, &[a, b]);
            }
            emit(out, s, 0, &[TrimStart, a]);
            emit(out, s, 0, &[SkipBack(1), a]);
        }
    }
    // stress: originals with a long run (around the 16/32/64/128-byte block sizes) of one
    // character at the start or at the end; every operation alone and followed by a probe.
    // Block-wise fast paths in trimming / skipping / digit scanning only show on these.
    {
        let mut sops: Vec<Op> = allops.clone();
        sops.extend([Skip(31), Skip(32), Skip(33), Skip(64), SkipBack(31), SkipBack(32), SkipBack(33), SkipBack(64),
                     TrimStartMatches(" "), TrimEndMatches(" "), TrimMatches("0"), StripPrefix("0"), Split(" "), RSplit("0")]);
        let probes: &[Op] = if cfg.thorough { &[Skip(1), SkipBack(1), ParseU8, StripPrefix("a"), TrimStart, FindSkip("-"), ParseI32] } else { &[Skip(1), SkipBack(1), ParseU8, StripPrefix("a")] };
        let ns: &[usize] = if cfg.thorough { &[15, 16, 17, 31, 32, 33, 63, 64, 65, 96, 127, 128, 129, 200] } else { &[31, 32, 33, 64, 65] };
        let mut ns: Vec<usize> = ns.to_vec();
        if huge() {
            ns.extend(HUGE_SIZES);
        }
        for c in [' ', '0', 'a', '-', 'é', '\t'] {
            for &n in &ns {
                let run_: String = std::iter::repeat(c).take(n).collect();
                for tail in ["", "a", "256", "x y", "-b", "99999999999999999999"] {
                    for s in [format!("{}{}", run_, tail), format!("{}{}", tail, run_)] {
                        for (i, &a) in sops.iter().enumerate() {
                            emit(out, &s, if i % 2 == 0 { 0 } else { 7 }, &[a]);
                            for &b in probes {
                                emit(out, &s, if i % 2 == 0 { 1000 } else { 0 }, &[a, b]);
                            }
                        }
                    }
                }
            }
        }
    }
    // all twelve integer types and bool through the Parser (the first six are in every pair above):
    // boundary numerals of every width, zero-padded, signed/unsigned, with a tail and a following probe
    {
        let mut nums: Vec<String> = Vec::new();
        for w in [8u32, 16, 32, 64, 128] {
            let umax = if w == 128 { u128::MAX } else { (1u128 << w) - 1 };
            let imax = umax >> 1;
            for v in [umax, umax - 1, imax, imax + 1, imax + 2] {
                nums.push(v.to_string());
                nums.push(format!("-{}", v));
                nums.push(format!("00{}", v));
            }
            nums.push(format!("{}0", umax));
            nums.push(format!("{}9", umax / 10));
        }
        nums.extend(["0", "-0", "-", "+1", "9", "-9", "340282366920938463463374607431768211456", "-170141183460469231731687303715884105729"].iter().map(|s| s.to_string()));
        for n in &nums {
            for tail in ["", ";x", "é"] {
                let s = format!("{}{}", n, tail);
                for a in MORE_PARSE_OPS {
                    emit(out, &s, 0, &[a]);
                    emit(out, &s, 7, &[a, Skip(1)]);
                    emit(out, &s, 0, &[SkipBack(1), a]);
                }
                for a in PARSE_OPS {
                    emit(out, &s, 7, &[a]);
                }
            }
        }
    }
    // char patterns (str::Pattern for char goes through encode_utf8) and one char of every UTF-8
    // lead-byte class in the text: skip / skip_back round to boundaries, patterns of every width
    {
        let sweep = lead_byte_sweep();
        let texts: Vec<String> = {
            let mut t: Vec<String> = Vec::new();
            for &c in &sweep {
                t.push(format!("{}", c));
                t.push(format!("a{}b", c));
                t.push(format!("{}{}", c, c));
                t.push(format!("-{}-{}a", c, c));
            }
            t
        };
        for s in &texts {
            for n in 1..=5usize {
                emit(out, s, 0, &[Skip(n)]);
                emit(out, s, 7, &[SkipBack(n)]);
                emit(out, s, 0, &[Skip(n), SkipBack(1)]);
                emit(out, s, 0, &[SkipBack(n), Skip(1)]);
            }
            for &c in &sweep {
                if s.contains(c) {
                    for a in char_ops(c) {
                        emit(out, s, 0, &[a]);
                        emit(out, s, 7, &[a, a]);
                    }
                }
            }
            for a in char_ops('a') {
                emit(out, s, 0, &[a, Skip(1)]);
            }
        }
        for s in &strs {
            for c in ['a', 'é', '-'] {
                for a in char_ops(c) {
                    emit(out, s, 0, &[a]);
                    emit(out, s, 7, &[a, a]);
                    emit(out, s, 0, &[TrimEnd, a]);
                }
            }
        }
    }
    // depth 3 and long sequences, seeded random
    let mut rng = Rng::new(cfg.seed ^ 0x13);
    let n3 = if cfg.thorough { 400_000 } else { 40_000 };
    for _ in 0..n3 {
        let s = if rng.below(3) == 0 { rng.pick(&dstrs).clone() } else { rng.pick(&strs).clone() };
        let ops = [*rng.pick(&allops), *rng.pick(&allops), *rng.pick(&allops)];
        emit(out, &s, *rng.pick(&[0usize, 7, 1000]), &ops);
    }
    let nl = if cfg.thorough { 20_000 } else { 3_000 };
    for _ in 0..nl {
        let len = rng.below(12) as usize;
        let s: String = (0..len).map(|_| *rng.pick(&alpha)).collect();
        let k = 1 + rng.below(12) as usize;
        let ops: Vec<Op> = (0..k).map(|_| *rng.pick(&allops)).collect();
        emit(out, &s, *rng.pick(&[0usize, 7]), &ops);
    }
}
