//! C05 — prefix/suffix tests, stripping, pattern trimming and ASCII-whitespace trimming
//! (string::{starts_with,ends_with,strip_prefix,strip_suffix,trim*}, slice::bytes_*) vs std.
use crate::common::*;
use konst::{slice as ks, string as kstr};

// ---------------------------------------------------------------- oracles for raw bytes

/// naive reference: remove whole repetitions of `n` while there is one at the start
fn ref_trim_start<'a>(mut h: &'a [u8], n: &[u8]) -> &'a [u8] {
    if n.is_empty() {
        return h;
    }
    while h.len() >= n.len() && &h[..n.len()] == n {
        h = &h[n.len()..];
    }
    h
}
fn ref_trim_end<'a>(mut h: &'a [u8], n: &[u8]) -> &'a [u8] {
    if n.is_empty() {
        return h;
    }
    while h.len() >= n.len() && &h[h.len() - n.len()..] == n {
        h = &h[..h.len() - n.len()];
    }
    h
}

/// std's slice methods for the tests and strips, the naive reference for the trims
fn oracle_bytes(h: &[u8], n: &[u8]) -> String {
    fields(&[
        ("sw", show_bool(h.starts_with(n)).into()),
        ("ew", show_bool(h.ends_with(n)).into()),
        ("sp", show_opt(h.strip_prefix(n), |s| view_of(h, s))),
        ("ss", show_opt(h.strip_suffix(n), |s| view_of(h, s))),
        ("ts", view_of(h, ref_trim_start(h, n))),
        ("te", view_of(h, ref_trim_end(h, n))),
        ("tm", view_of(h, ref_trim_end(ref_trim_start(h, n), n))),
    ])
}

// ---------------------------------------------------------------- implementation columns

macro_rules! impl_bytes_all {
    ($h:expr, $p:expr) => {{
        let h: &[u8] = $h;
        fields(&[
            ("sw", show_bool(ks::bytes_start_with(h, $p)).into()),
            ("ew", show_bool(ks::bytes_end_with(h, $p)).into()),
            ("sp", show_opt(ks::bytes_strip_prefix(h, $p), |s| view_of(h, s))),
            ("ss", show_opt(ks::bytes_strip_suffix(h, $p), |s| view_of(h, s))),
            ("ts", view_of(h, ks::bytes_trim_start_matches(h, $p))),
            ("te", view_of(h, ks::bytes_trim_end_matches(h, $p))),
            ("tm", view_of(h, ks::bytes_trim_matches(h, $p))),
        ])
    }};
}

macro_rules! impl_str_all {
    ($h:expr, $p:expr) => {{
        let h: &str = $h;
        fields(&[
            ("sw", show_bool(kstr::starts_with(h, $p)).into()),
            ("ew", show_bool(kstr::ends_with(h, $p)).into()),
            ("sp", show_opt(kstr::strip_prefix(h, $p), |s| view_str(h, s))),
            ("ss", show_opt(kstr::strip_suffix(h, $p), |s| view_str(h, s))),
            ("ts", view_str(h, kstr::trim_start_matches(h, $p))),
            ("te", view_str(h, kstr::trim_end_matches(h, $p))),
            ("tm", view_str(h, kstr::trim_matches(h, $p))),
        ])
    }};
}

// ---------------------------------------------------------------- non-triviality classes

fn has_border(n: &[u8]) -> bool {
    (1..n.len()).any(|k| n[..k] == n[n.len() - k..])
}
/// longest proper non-empty prefix of `n` that `r` starts with (0 if none)
fn partial_prefix(r: &[u8], n: &[u8]) -> usize {
    (1..n.len()).rev().find(|&k| r.len() >= k && r[..k] == n[..k]).unwrap_or(0)
}
fn partial_suffix(r: &[u8], n: &[u8]) -> usize {
    (1..n.len()).rev().find(|&k| r.len() >= k && r[r.len() - k..] == n[n.len() - k..]).unwrap_or(0)
}
fn tag(h: &[u8], n: &[u8]) -> String {
    if n.is_empty() {
        return "emptypat".into();
    }
    let mut t: Vec<String> = Vec::new();
    if n.len() > h.len() {
        t.push("long".into());
    }
    let s = ref_trim_start(h, n);
    let e = ref_trim_end(h, n);
    let ks_ = (h.len() - s.len()) / n.len();
    let ke = (h.len() - e.len()) / n.len();
    if ks_ > 0 {
        t.push(format!("s{}", ks_.min(3)));
    }
    if ke > 0 {
        t.push(format!("e{}", ke.min(3)));
    }
    if partial_prefix(s, n) > 0 {
        t.push(if s.len() < n.len() { "sp_short".into() } else { "sp".into() });
    }
    if partial_suffix(e, n) > 0 {
        t.push(if e.len() < n.len() { "ep_short".into() } else { "ep".into() });
    }
    if ks_ > 0 && ke > 0 && s.len() + e.len() < h.len() + n.len() && !s.is_empty() && !e.is_empty() {
        // the start run and the end run overlap or touch
        t.push("meet".into());
    }
    if has_border(n) {
        t.push("border".into());
    }
    if t.is_empty() { "-".into() } else { t.join("+") }
}

// ---------------------------------------------------------------- one case per pattern kind

fn one_str(out: &mut Out, h: &str, n: &str) {
    let args = format!("{} {}", hex(h.as_bytes()), hex(n.as_bytes()));
    let imp = catch(|| impl_str_all!(h, n));
    // the real std methods (&str patterns are not double-ended: trim_matches = both in turn)
    let st = fields(&[
        ("sw", show_bool(h.starts_with(n)).into()),
        ("ew", show_bool(h.ends_with(n)).into()),
        ("sp", show_opt(h.strip_prefix(n), |s| view_str(h, s))),
        ("ss", show_opt(h.strip_suffix(n), |s| view_str(h, s))),
        ("ts", view_str(h, h.trim_start_matches(n))),
        ("te", view_str(h, h.trim_end_matches(n))),
        ("tm", view_str(h, h.trim_start_matches(n).trim_end_matches(n))),
    ]);
    out.line("c05.str", &args, &imp, &st, &tag(h.as_bytes(), n.as_bytes()));
}
fn one_strchar(out: &mut Out, h: &str, c: char) {
    let args = format!("{} {}", hex(h.as_bytes()), c as u32);
    let imp = catch(|| impl_str_all!(h, c));
    let st = fields(&[
        ("sw", show_bool(h.starts_with(c)).into()),
        ("ew", show_bool(h.ends_with(c)).into()),
        ("sp", show_opt(h.strip_prefix(c), |s| view_str(h, s))),
        ("ss", show_opt(h.strip_suffix(c), |s| view_str(h, s))),
        ("ts", view_str(h, h.trim_start_matches(c))),
        ("te", view_str(h, h.trim_end_matches(c))),
        ("tm", view_str(h, h.trim_matches(c))),
    ]);
    let mut buf = [0u8; 4];
    let n = c.encode_utf8(&mut buf).as_bytes();
    out.line("c05.strchar", &args, &imp, &st, &tag(h.as_bytes(), n));
}
fn one_bytes(out: &mut Out, h: &[u8], n: &[u8]) {
    let args = format!("{} {}", hex(h), hex(n));
    let st = oracle_bytes(h, n);
    let tg = tag(h, n);
    let imp = catch(|| impl_bytes_all!(h, n));
    out.line("c05.bytes", &args, &imp, &st, &tg);
    // the same needle as a byte array and (when valid UTF-8) as a &str pattern
    let imp_arr = catch(|| match n.len() {
        0 => impl_bytes_all!(h, &[0u8; 0]),
        1 => impl_bytes_all!(h, <&[u8; 1]>::try_from(n).unwrap()),
        2 => impl_bytes_all!(h, <&[u8; 2]>::try_from(n).unwrap()),
        3 => impl_bytes_all!(h, <&[u8; 3]>::try_from(n).unwrap()),
        4 => impl_bytes_all!(h, <&[u8; 4]>::try_from(n).unwrap()),
        5 => impl_bytes_all!(h, <&[u8; 5]>::try_from(n).unwrap()),
        6 => impl_bytes_all!(h, <&[u8; 6]>::try_from(n).unwrap()),
        _ => impl_bytes_all!(h, n),
    });
    out.line("c05.bytes", &args, &imp_arr, &st, &tg);
    if let Ok(s) = std::str::from_utf8(n) {
        let imp_s = catch(|| impl_bytes_all!(h, s));
        out.line("c05.bytes", &args, &imp_s, &st, &tg);
    }
}
fn one_byteschar(out: &mut Out, h: &[u8], c: char) {
    let args = format!("{} {}", hex(h), c as u32);
    let mut buf = [0u8; 4];
    let n = c.encode_utf8(&mut buf).as_bytes().to_vec();
    let imp = catch(|| impl_bytes_all!(h, &c));
    out.line("c05.byteschar", &args, &imp, &oracle_bytes(h, &n), &tag(h, &n));
}

// ---------------------------------------------------------------- whitespace

fn ws_tag(s: &[u8]) -> String {
    let a = s.len() - s.trim_ascii_start().len();
    let b = s.len() - s.trim_ascii_end().len();
    let mut t: Vec<String> = Vec::new();
    if a > 0 {
        t.push(format!("lead{}", a.min(2)));
    }
    if b > 0 {
        t.push(format!("trail{}", b.min(2)));
    }
    if a == s.len() && a > 0 {
        t.push("allws".into());
    }
    // a byte that std's str::trim would remove but trim_ascii keeps, at an end
    let odd = |x: u8| matches!(x, 0x0B | 0x1C..=0x1F | 0x85 | 0xA0);
    if s.first().map_or(false, |x| odd(*x)) || s.last().map_or(false, |x| odd(*x)) {
        t.push("nearws".into());
    }
    if t.is_empty() { "-".into() } else { t.join("+") }
}
fn one_ws(out: &mut Out, s: &[u8]) {
    let imp = catch(|| {
        fields(&[
            ("t", view_of(s, ks::bytes_trim(s))),
            ("ts", view_of(s, ks::bytes_trim_start(s))),
            ("te", view_of(s, ks::bytes_trim_end(s))),
        ])
    });
    let st = fields(&[
        ("t", view_of(s, s.trim_ascii())),
        ("ts", view_of(s, s.trim_ascii_start())),
        ("te", view_of(s, s.trim_ascii_end())),
    ]);
    out.line("c05.ws", &hex(s), &imp, &st, &ws_tag(s));
}
fn one_wsstr(out: &mut Out, s: &str) {
    let imp = catch(|| {
        fields(&[
            ("t", view_str(s, kstr::trim(s))),
            ("ts", view_str(s, kstr::trim_start(s))),
            ("te", view_str(s, kstr::trim_end(s))),
        ])
    });
    // konst documents string::trim* as ASCII-whitespace trimming: the oracle is trim_ascii*
    let st = fields(&[
        ("t", view_str(s, s.trim_ascii())),
        ("ts", view_str(s, s.trim_ascii_start())),
        ("te", view_str(s, s.trim_ascii_end())),
    ]);
    out.line("c05.wsstr", &hex(s.as_bytes()), &imp, &st, &ws_tag(s.as_bytes()));
}

/// long inputs: patterns of every block-ish length with a single differing byte at every
/// position, whitespace runs of block length with every byte value next to / inside them, long
/// repetition runs for the pattern trims
fn stress(cfg: &Cfg, out: &mut Out) {
    let sizes = block_sizes(if cfg.thorough { 300 } else { 130 });
    let letters = b"abcdefgh";
    for &l in &sizes {
        if l == 0 {
            continue;
        }
        let pat = filler(l, l as u64, letters);
        let pats = std::str::from_utf8(&pat).unwrap().to_string();
        for tail in ["", "tail"] {
            // exact, then one byte flipped at every position (prefix and suffix side)
            let mut h = pat.clone();
            h.extend_from_slice(tail.as_bytes());
            one_str(out, std::str::from_utf8(&h).unwrap(), &pats);
            let mut h2 = tail.as_bytes().to_vec();
            h2.extend_from_slice(&pat);
            one_str(out, std::str::from_utf8(&h2).unwrap(), &pats);
            for i in 0..l {
                let mut m = pat.clone();
                m[i] = b'Z';
                let mut a = m.clone();
                a.extend_from_slice(tail.as_bytes());
                let mut b = tail.as_bytes().to_vec();
                b.extend_from_slice(&m);
                if tail.is_empty() || i % 3 == 0 {
                    one_str(out, std::str::from_utf8(&a).unwrap(), &pats);
                    one_str(out, std::str::from_utf8(&b).unwrap(), &pats);
                }
                if tail.is_empty() && (l % 8 <= 1 || i == l / 2) {
                    one_bytes(out, &a, &pat);
                }
                // two adjacent bytes exchanged (same multiset / OR / sum per word, different text)
                if tail.is_empty() && i + 1 < l && l >= 15 && pat[i] != pat[i + 1] {
                    let mut sw = pat.clone();
                    sw.swap(i, i + 1);
                    one_str(out, std::str::from_utf8(&sw).unwrap(), &pats);
                    // ... and two bytes whose OR equals the OR of the pattern's bytes
                    let mut orr = pat.clone();
                    orr[i] = pat[i] | pat[i + 1];
                    orr[i + 1] = pat[i] & pat[i + 1] | 0x40;
                    if orr != pat {
                        one_bytes(out, &orr, &pat);
                    }
                }
            }
        }
    }
    // whitespace runs of block length with every byte value at their edge and inside them
    for b in 0..=255u8 {
        for k in [0usize, 1, 7, 8, 15, 16, 31, 32, 33, 63, 64, 65] {
            let mut v = vec![b' '; k];
            v.push(b);
            v.extend_from_slice(b"am");
            v.push(b);
            v.extend(std::iter::repeat(b'\t').take(k));
            one_ws(out, &v);
            if k >= 7 {
                let mut w = vec![b' '; k / 2];
                w.push(b);
                w.extend(std::iter::repeat(b'\n').take(k - k / 2));
                w.extend_from_slice(b"x");
                w.extend(std::iter::repeat(b'\r').take(k / 2));
                w.push(b);
                w.extend(std::iter::repeat(b' ').take(k - k / 2));
                one_ws(out, &w);
            }
        }
    }
    for c in ['\u{a0}', '\u{3000}', '\u{85}', 'I', '`'] {
        for k in [31usize, 32, 33, 64] {
            let s = format!("{}{}core{}{}", " ".repeat(k), c, c, " ".repeat(k));
            one_wsstr(out, &s);
            let s2 = format!("{}{}{}", " ".repeat(k - 1), c, " ".repeat(k));
            one_wsstr(out, &s2);
        }
    }
    // long repetition runs / long needles for the pattern trims
    for nl in [1usize, 2, 3, 8, 16, 31, 32, 33] {
        let n = filler(nl, 77 + nl as u64, b"ab");
        let ns = std::str::from_utf8(&n).unwrap().to_string();
        for reps_l in [0usize, 1, 2, 5, 40] {
            for reps_r in [0usize, 1, 3, 33] {
                for core in ["", "x", "ab", "core-core"] {
                    for partial in [0usize, 1] {
                        let mut h = ns.repeat(reps_l);
                        h.push_str(&ns[..(partial * (nl / 2)).min(nl)]);
                        h.push_str(core);
                        h.push_str(&ns[(nl - (partial * (nl / 2)).min(nl))..]);
                        h.push_str(&ns.repeat(reps_r));
                        if h.len() <= 1500 {
                            one_str(out, &h, &ns);
                        }
                    }
                }
            }
        }
    }
    let _ = cfg;
}

pub fn run(cfg: &Cfg, out: &mut Out) {
    stress(cfg, out);
    // ------------------------------------------------------------ regression corpus first
    // F2: form feed is ASCII whitespace
    for s in [&b"\x0Cab\x0C"[..], b"\x0C", b" \x0C\t", b"\x0B a \x0B", b"\n\x0C\r x \x0C"] {
        one_ws(out, s);
        one_wsstr(out, std::str::from_utf8(s).unwrap());
    }
    // partial trailing repetition / rollback, needle longer than the remainder, self-overlap
    for (h, n) in [
        ("ababa", "ab"), ("abababx", "abab"), ("aaaa", "aa"), ("aaaaa", "aa"), ("abab", "aba"), ("ab", "abc"),
        ("#####huh###", "##"), ("oowowooooo", "oo"), ("éééaé", "é"), ("ééé", "éé"), ("", "a"), ("a", ""), ("", ""),
    ] {
        one_str(out, h, n);
        one_bytes(out, h.as_bytes(), n.as_bytes());
    }

    // ------------------------------------------------------------ pattern functions
    // every (haystack, needle) over a 4-letter alphabet with a 2-byte letter: empty,
    // longer-than-input and self-overlapping needles included
    let alpha = ['a', 'b', 'é', '-'];
    let hays = all_strings(&alpha, if cfg.thorough { 5 } else { 4 });
    let needles = all_strings(&alpha, 3);
    for h in &hays {
        for n in &needles {
            one_str(out, h, n);
        }
    }
    // char patterns of every UTF-8 length, on str and on bytes
    let chars = ['a', 'b', 'é', '-', '锈', '🧠', '\u{0}', '\u{7f}', '\u{80}', '\u{7ff}', '\u{800}', '\u{ffff}', '\u{10000}', '\u{10ffff}'];
    let hays_c = all_strings(&['a', 'é', '锈', '🧠'], if cfg.thorough { 5 } else { 4 });
    for h in &hays_c {
        for c in chars {
            one_strchar(out, h, c);
            one_byteschar(out, h.as_bytes(), c);
        }
    }
    // raw bytes (not UTF-8): the two halves of 'é' as independent letters, and 0xFF;
    // &[u8], &[u8; N] and (when valid) &str patterns
    let balpha = [b'a', b'b', 0xC3u8, 0xA9u8, 0xFF];
    let bhays = all_seqs(&balpha, if cfg.thorough { 5 } else { 4 });
    let bneedles = all_seqs(&balpha, if cfg.thorough { 3 } else { 2 });
    for h in &bhays {
        for n in &bneedles {
            one_bytes(out, h, n);
        }
    }
    // deep repetition structure over a binary alphabet: several whole repetitions followed
    // by a partial one at either end, needles with borders
    let h2 = all_strings(&['a', 'b'], if cfg.thorough { 11 } else { 9 });
    let n2 = all_strings(&['a', 'b'], if cfg.thorough { 5 } else { 4 });
    for h in &h2 {
        if h.len() < 5 {
            continue;
        }
        for n in &n2 {
            if n.is_empty() {
                continue;
            }
            // keep the pairs in which something is trimmed or nearly trimmed
            let (hb, nb) = (h.as_bytes(), n.as_bytes());
            let interesting = hb[0] == nb[0] || hb[hb.len() - 1] == nb[nb.len() - 1];
            if interesting {
                one_str(out, h, n);
                if n.len() >= 3 {
                    one_bytes(out, hb, nb);
                }
            }
        }
    }
    // the same over bytes for long needles ([u8; 5], [u8; 6])
    if cfg.thorough {
        let n3 = all_seqs(&[b'a', b'b'], 6);
        let h3 = all_seqs(&[b'a', b'b'], 8);
        for h in &h3 {
            for n in &n3 {
                if n.len() >= 5 {
                    one_bytes(out, h, n);
                }
            }
        }
    }

    // ------------------------------------------------------------ whitespace
    // every byte value at both ends of a one-byte core
    for b in 0..=255u8 {
        for b2 in 0..=255u8 {
            one_ws(out, &[b, b'x', b2]);
        }
    }
    // every single byte, every pair in which one byte is in the neighbourhood of the
    // whitespace set (thorough: every pair)
    let near: [u8; 16] = [0x00, 0x08, 0x09, 0x0A, 0x0B, 0x0C, 0x0D, 0x0E, 0x1C, 0x1F, 0x20, 0x21, b'x', 0x85, 0xA0, 0xFF];
    for b in 0..=255u8 {
        one_ws(out, &[b]);
        for b2 in 0..=255u8 {
            if cfg.thorough || near.contains(&b) || near.contains(&b2) {
                one_ws(out, &[b, b2]);
            }
        }
        // a whitespace byte outside, the probed byte inside (the loop must go on / stop)
        for w in [b' ', b'\t', b'\n', 0x0C, b'\r'] {
            one_ws(out, &[w, b, b'x', b, w]);
            one_ws(out, &[b, w, b'x', w, b]);
        }
    }
    // all short strings over the whitespace neighbourhood
    let wsalpha: [u8; 11] = [0x09, 0x0A, 0x0B, 0x0C, 0x0D, 0x20, 0x1F, 0x00, b'x', 0xC2, 0xA0];
    for s in all_seqs(&wsalpha, if cfg.thorough { 5 } else { 4 }) {
        one_ws(out, &s);
    }
    // &str: Unicode whitespace that is NOT ASCII whitespace must stay
    let wschars = ['\t', '\n', '\u{0B}', '\u{0C}', '\r', ' ', 'x', '\u{1F}', '\u{85}', '\u{A0}', '\u{2003}', '\u{3000}'];
    for s in all_strings(&wschars, if cfg.thorough { 4 } else { 3 }) {
        one_wsstr(out, &s);
    }
    for c in 0..=0x7Fu8 {
        let c = c as char;
        one_wsstr(out, &format!("{}", c));
        one_wsstr(out, &format!("{}é{}", c, c));
        one_wsstr(out, &format!(" {}x{}\t", c, c));
    }

    // ------------------------------------------------------------ seeded random
    let mut rng = Rng::new(cfg.seed ^ 0xC05);
    let count = if cfg.thorough { 20000 } else { 3000 };
    for _ in 0..count {
        // pattern trimming: k1 repetitions, a partial one, filler, a partial one, k2 repetitions
        let nl = 1 + rng.below(5) as usize;
        let nchars: Vec<char> = (0..nl).map(|_| *rng.pick(&alpha)).collect();
        let n: String = nchars.iter().collect();
        let mut h = String::new();
        for _ in 0..rng.below(4) {
            h.push_str(&n);
        }
        if rng.below(2) == 0 {
            let k = rng.below(nl as u64 + 1) as usize;
            h.extend(nchars[..k].iter());
        }
        for _ in 0..rng.below(6) {
            match rng.below(3) {
                0 => h.push(*rng.pick(&alpha)),
                1 => h.push_str(&n),
                _ => {
                    let k = rng.below(nl as u64 + 1) as usize;
                    h.extend(nchars[k..].iter());
                }
            }
        }
        if rng.below(2) == 0 {
            let k = rng.below(nl as u64 + 1) as usize;
            h.extend(nchars[k..].iter());
        }
        for _ in 0..rng.below(4) {
            h.push_str(&n);
        }
        one_str(out, &h, &n);
        one_bytes(out, h.as_bytes(), n.as_bytes());
        if nl == 1 {
            one_strchar(out, &h, nchars[0]);
            one_byteschar(out, h.as_bytes(), nchars[0]);
        }
        // whitespace: runs of near-whitespace bytes around a core
        let mut s: Vec<u8> = Vec::new();
        for _ in 0..rng.below(5) {
            s.push(*rng.pick(&wsalpha));
        }
        for _ in 0..rng.below(4) {
            s.push(rng.below(256) as u8);
        }
        for _ in 0..rng.below(5) {
            s.push(*rng.pick(&wsalpha));
        }
        one_ws(out, &s);
        if let Ok(st) = std::str::from_utf8(&s) {
            one_wsstr(out, st);
        }
    }
}
