//! C16 — eq_* / cmp_* functions and const_eq!/const_cmp!/const_eq_for!/const_cmp_for!/
//! assertc_eq!/assertc_ne! vs `==` / `Ord::cmp`.
//!
//! One line per PAIR of values; the line carries every function and macro form that applies to
//! that type as `k=v` fields.  Orderings print as L/E/G, booleans as T/F; a field covering the
//! four Option combinations (Some l,Some r) (Some l,None) (None,Some r) (None,None) prints four
//! letters.  assertc_* fields print `ok` or `PANIC`.
use crate::common::*;
use konst::nonzero::cmp::*;
use konst::other::cmp::*;
use konst::primitive::cmp::*;
use konst::range::cmp::*;
use konst::slice::cmp::*;
use konst::slice::{cmp_bytes, cmp_option_bytes, eq_bytes, eq_option_bytes};
use konst::{assertc_eq, assertc_ne, const_cmp, const_cmp_for, const_eq, const_eq_for};
use konst::{cmp_option_str, cmp_str, eq_option_str, eq_str};
use std::cmp::Ordering;
use std::num::*;

fn oc(o: Ordering) -> char {
    match o {
        Ordering::Less => 'L',
        Ordering::Equal => 'E',
        Ordering::Greater => 'G',
    }
}
fn bc(b: bool) -> char {
    if b { 'T' } else { 'F' }
}
fn s1(c: char) -> String {
    c.to_string()
}

// ---------------------------------------------------------------- primitive element types

pub trait Prim: Copy + Ord + std::fmt::Debug + std::panic::RefUnwindSafe + 'static {
    fn z(&self) -> String;
    /// three values: below / middle / above
    fn a3() -> Vec<Self>;
    /// five values incl. MIN, -1, 0, 1, MAX
    fn a5() -> Vec<Self>;
    /// boundary values of the type
    fn bounds() -> Vec<Self>;
}

const CANDS: &[i128] = &[
    0, 1, 2, 3, 126, 127, 128, 129, 254, 255, 256, 257, 32767, 32768, 65535, 65536,
    (1 << 31) - 1, 1 << 31, (1 << 32) - 1, 1 << 32, (1 << 63) - 1, 1 << 63, (1 << 64) - 1, 1 << 64,
    i128::MAX,
];

#[allow(irrefutable_let_patterns)]
macro_rules! impl_prim_int {
    ($($t:ty),*) => {$(
        impl Prim for $t {
            fn z(&self) -> String { self.to_string() }
            fn a3() -> Vec<Self> {
                if <$t>::MIN != 0 { vec![(0 as $t).wrapping_sub(1), 0, 1] } else { vec![0, 1, <$t>::MAX] }
            }
            fn a5() -> Vec<Self> {
                if <$t>::MIN != 0 { vec![<$t>::MIN, (0 as $t).wrapping_sub(1), 0, 1, <$t>::MAX] }
                else { vec![0, 1, 2, <$t>::MAX - 1, <$t>::MAX] }
            }
            fn bounds() -> Vec<Self> {
                let mut v: Vec<$t> = vec![<$t>::MIN, <$t>::MIN + 1, <$t>::MAX - 1, <$t>::MAX, <$t>::MAX / 2, <$t>::MAX / 2 + 1];
                for c in CANDS {
                    if let Ok(x) = <$t>::try_from(*c) { v.push(x); }
                    if let Ok(x) = <$t>::try_from(-*c) { v.push(x); }
                    if let Ok(x) = <$t>::try_from(-*c - 1) { v.push(x); }
                }
                v.sort();
                v.dedup();
                v
            }
        }
    )*};
}
impl_prim_int!(u8, u16, u32, u64, u128, usize, i8, i16, i32, i64, i128, isize);

impl Prim for bool {
    fn z(&self) -> String { (*self as u8).to_string() }
    fn a3() -> Vec<Self> { vec![false, true] }
    fn a5() -> Vec<Self> { vec![false, true] }
    fn bounds() -> Vec<Self> { vec![false, true] }
}
impl Prim for char {
    fn z(&self) -> String { (*self as u32).to_string() }
    fn a3() -> Vec<Self> { vec!['a', 'b', '\u{10FFFF}'] }
    fn a5() -> Vec<Self> { vec!['\0', 'a', '\u{D7FF}', '\u{E000}', '\u{10FFFF}'] }
    fn bounds() -> Vec<Self> {
        vec!['\0', '\u{1}', 'a', 'b', '\u{7F}', '\u{80}', '\u{FF}', '\u{100}', '\u{7FF}', '\u{800}', '\u{D7FF}', '\u{E000}',
             '\u{FFFF}', '\u{10000}', '\u{10FFFE}', '\u{10FFFF}']
    }
}

/// non-triviality class of a pair of sequences
fn seq_tag<T: Ord>(l: &[T], r: &[T]) -> &'static str {
    if l.is_empty() && r.is_empty() {
        return "-";
    }
    if l == r {
        return "eq";
    }
    let n = l.len().min(r.len());
    match (0..n).find(|&i| l[i] != r[i]) {
        None => "prefix",
        Some(i) => {
            let by_elem = l[i].cmp(&r[i]);
            let by_len = l.len().cmp(&r.len());
            if by_len != Ordering::Equal && by_len != by_elem {
                if i == 0 { "len-against-first" } else { "len-against-elem" }
            } else if i == 0 {
                "differ-first"
            } else {
                "differ-later"
            }
        }
    }
}

/// the four Option combinations of a pair
macro_rules! four {
    ($f:expr, $l:expr, $r:expr, $sh:expr) => {{
        let mut s = String::with_capacity(4);
        s.push($sh($f(Some($l), Some($r))));
        s.push($sh($f(Some($l), None)));
        s.push($sh($f(None, Some($r))));
        s.push($sh($f(None, None)));
        s
    }};
}

/// `ok` / `PANIC` for an assertion macro
macro_rules! asserts {
    ($e:expr) => {
        catch(move || {
            $e;
            "ok".to_string()
        })
    };
}
fn want(b: bool) -> String {
    if b { "ok".into() } else { "PANIC".into() }
}

/// order laws over all pairs / triples of a small domain: `ok` or the first counterexample
fn laws<T>(dom: &[T], cmp: impl Fn(&T, &T) -> Ordering, eq: impl Fn(&T, &T) -> bool, show: impl Fn(&T) -> String) -> String {
    let n = dom.len();
    let mut m = vec![Ordering::Equal; n * n];
    for i in 0..n {
        for j in 0..n {
            m[i * n + j] = cmp(&dom[i], &dom[j]);
        }
    }
    for i in 0..n {
        for j in 0..n {
            let c = m[i * n + j];
            if m[j * n + i] != c.reverse() {
                return format!("total:{}|{}", show(&dom[i]), show(&dom[j]));
            }
            if (c == Ordering::Equal) != eq(&dom[i], &dom[j]) {
                return format!("cmp-eq:{}|{}", show(&dom[i]), show(&dom[j]));
            }
            if (c == Ordering::Equal) != (i == j) {
                return format!("antisym:{}|{}", show(&dom[i]), show(&dom[j]));
            }
        }
    }
    for i in 0..n {
        for j in 0..n {
            let ab = m[i * n + j];
            if ab == Ordering::Greater {
                continue;
            }
            for k in 0..n {
                let bc_ = m[j * n + k];
                if bc_ == Ordering::Greater {
                    continue;
                }
                let ac = m[i * n + k];
                let strict = ab == Ordering::Less || bc_ == Ordering::Less;
                let good = if strict { ac == Ordering::Less } else { ac == Ordering::Equal };
                if !good {
                    return format!("trans:{}|{}|{}", show(&dom[i]), show(&dom[j]), show(&dom[k]));
                }
            }
        }
    }
    "ok".into()
}

fn dedup_domain<T: Ord + Clone>(mut v: Vec<T>) -> Vec<T> {
    v.sort();
    v.dedup();
    v
}

// ---------------------------------------------------------------- slices of primitives + scalars

macro_rules! prim_family {
    ($t:ty, $eqs:path, $cmps:path, $oeqs:path, $ocmps:path, $cmp1:path, $oeq1:path, $ocmp1:path; $cfg:expr, $out:expr, $rng:expr) => {{
        let cfg: &Cfg = $cfg;
        let out: &mut Out = $out;
        let rng: &mut Rng = $rng;
        let tn = stringify!($t);
        fn cmp_by_ref(a: &$t, b: &$t) -> Ordering {
            $cmp1(*a, *b)
        }
        fn eq_by_ref(a: &$t, b: &$t) -> bool {
            *a == *b
        }
        let slice_line = |out: &mut Out, l: &[$t], r: &[$t]| {
            let args = format!("{} {} {}", tn, show_list(l.iter(), |x| x.z()), show_list(r.iter(), |x| x.z()));
            let imp = catch(move || {
                fields(&[
                    ("eq", s1(bc($eqs(l, r)))),
                    ("cmp", s1(oc($cmps(l, r)))),
                    ("ceq", s1(bc(const_eq!(l, r)))),
                    ("ccmp", s1(oc(const_cmp!(l, r)))),
                    ("feq", s1(bc(const_eq_for!(slice; l, r)))),
                    ("feqk", s1(bc(const_eq_for!(slice; l, r, |x| *x)))),
                    ("feq2", s1(bc(const_eq_for!(slice; l, r, |x, y| *x == *y)))),
                    ("feqp", s1(bc(const_eq_for!(slice; l, r, eq_by_ref)))),
                    ("fcmp", s1(oc(const_cmp_for!(slice; l, r)))),
                    ("fcmpk", s1(oc(const_cmp_for!(slice; l, r, |x| *x)))),
                    ("fcmp2", s1(oc(const_cmp_for!(slice; l, r, |x, y| $cmp1(*x, *y))))),
                    ("fcmpp", s1(oc(const_cmp_for!(slice; l, r, cmp_by_ref)))),
                    ("oeq", four!($oeqs, l, r, bc)),
                    ("ocmp", four!($ocmps, l, r, oc)),
                    ("coeq", four!(|a: Option<&[$t]>, b: Option<&[$t]>| const_eq!(a, b), l, r, bc)),
                    ("cocmp", four!(|a: Option<&[$t]>, b: Option<&[$t]>| const_cmp!(a, b), l, r, oc)),
                    ("foeq", four!(|a: Option<&[$t]>, b: Option<&[$t]>| const_eq_for!(option; a, b), l, r, bc)),
                    ("focmp", four!(|a: Option<&[$t]>, b: Option<&[$t]>| const_cmp_for!(option; a, b), l, r, oc)),
                ])
            });
            let e = s1(bc(l == r));
            let c = s1(oc(l.cmp(r)));
            let oe = four!(|a: Option<&[$t]>, b: Option<&[$t]>| a == b, l, r, bc);
            let oo = four!(|a: Option<&[$t]>, b: Option<&[$t]>| a.cmp(&b), l, r, oc);
            let sd = fields(&[
                ("eq", e.clone()), ("cmp", c.clone()), ("ceq", e.clone()), ("ccmp", c.clone()),
                ("feq", e.clone()), ("feqk", e.clone()), ("feq2", e.clone()), ("feqp", e.clone()),
                ("fcmp", c.clone()), ("fcmpk", c.clone()), ("fcmp2", c.clone()), ("fcmpp", c.clone()),
                ("oeq", oe.clone()), ("ocmp", oo.clone()), ("coeq", oe.clone()), ("cocmp", oo.clone()),
                ("foeq", oe.clone()), ("focmp", oo.clone()),
            ]);
            out.line("c16.slice", &args, &imp, &sd, seq_tag(l, r));
        };

        // regression witnesses of finding F4 first
        let a3 = <$t as Prim>::a3();
        let lo = a3[0];
        let hi = a3[a3.len() - 1];
        slice_line(out, &[hi], &[lo, lo]);
        slice_line(out, &[lo, lo], &[hi]);
        slice_line(out, &[lo, hi], &[lo, lo, lo]);

        // all pairs over the 3-value alphabet up to length 3 (bool: 2 values up to length 4)
        let two = a3.len() == 2;
        let len_a = if two { if cfg.thorough { 5 } else { 4 } } else if cfg.thorough { 4 } else { 3 };
        let seqs = all_seqs(&a3, len_a);
        for l in &seqs {
            for r in &seqs {
                slice_line(out, l, r);
            }
        }
        // all pairs over the 5-value alphabet (MIN/-1/0/1/MAX) up to length 2 (thorough: 3)
        if !two {
            let seqs5 = all_seqs(&<$t as Prim>::a5(), if cfg.thorough { 3 } else { 2 });
            for l in &seqs5 {
                for r in &seqs5 {
                    slice_line(out, l, r);
                }
            }
        }
        // arrays [T; 2] (coerced to slices by const_eq!/const_cmp!), also against each other as Option-free values
        let a5 = <$t as Prim>::a5();
        for &a0 in &a5 { for &a1 in &a5 { for &b0 in &a5 { for &b1 in &a5 {
            let (l, r): ([$t; 2], [$t; 2]) = ([a0, a1], [b0, b1]);
            let args = format!("{} {} {}", tn, show_list(l.iter(), |x| x.z()), show_list(r.iter(), |x| x.z()));
            let imp = catch(move || fields(&[
                ("ceq", s1(bc(const_eq!(l, r)))),
                ("ccmp", s1(oc(const_cmp!(l, r)))),
                ("rceq", s1(bc(const_eq!(&l, &r)))),
                ("rccmp", s1(oc(const_cmp!(&&l, &&r)))),
            ]));
            let sd = fields(&[
                ("ceq", s1(bc(l == r))), ("ccmp", s1(oc(l.cmp(&r)))),
                ("rceq", s1(bc(l == r))), ("rccmp", s1(oc(l.cmp(&r)))),
            ]);
            out.line("c16.array", &args, &imp, &sd, seq_tag(&l, &r));
        }}}}
        // seeded random longer slices sharing a prefix
        let bnd = <$t as Prim>::bounds();
        for _ in 0..(if cfg.thorough { 3000 } else { 300 }) {
            let p = rng.below(10) as usize;
            let mut l: Vec<$t> = (0..p).map(|_| *rng.pick(&bnd)).collect();
            let mut r = l.clone();
            for _ in 0..rng.below(4) {
                l.push(*rng.pick(&bnd));
            }
            for _ in 0..rng.below(4) {
                r.push(*rng.pick(&bnd));
            }
            slice_line(out, &l, &r);
        }

        // ---- scalars: all pairs of boundary values
        for &a in &bnd {
            for &b in &bnd {
                let args = format!("{} {} {}", tn, a.z(), b.z());
                let imp = catch(move || {
                    fields(&[
                        ("cmp", s1(oc($cmp1(a, b)))),
                        ("ceq", s1(bc(const_eq!(a, b)))),
                        ("ccmp", s1(oc(const_cmp!(a, b)))),
                        ("oeq", four!($oeq1, a, b, bc)),
                        ("ocmp", four!($ocmp1, a, b, oc)),
                        ("coeq", four!(|x: Option<$t>, y: Option<$t>| const_eq!(x, y), a, b, bc)),
                        ("cocmp", four!(|x: Option<$t>, y: Option<$t>| const_cmp!(x, y), a, b, oc)),
                        ("foeq", four!(|x: Option<$t>, y: Option<$t>| const_eq_for!(option; x, y), a, b, bc)),
                        ("focmp", four!(|x: Option<$t>, y: Option<$t>| const_cmp_for!(option; x, y), a, b, oc)),
                        ("foeq2", four!(|x: Option<$t>, y: Option<$t>| const_eq_for!(option; x, y, |p, q| *p == *q), a, b, bc)),
                        ("focmp2", four!(|x: Option<$t>, y: Option<$t>| const_cmp_for!(option; x, y, |p, q| $cmp1(*p, *q)), a, b, oc)),
                        ("aeq", asserts!(assertc_eq!(a, b))),
                        ("ane", asserts!(assertc_ne!(a, b))),
                    ])
                });
                let e = s1(bc(a == b));
                let c = s1(oc(a.cmp(&b)));
                let oe = four!(|x: Option<$t>, y: Option<$t>| x == y, a, b, bc);
                let oo = four!(|x: Option<$t>, y: Option<$t>| x.cmp(&y), a, b, oc);
                let sd = fields(&[
                    ("cmp", c.clone()), ("ceq", e.clone()), ("ccmp", c.clone()),
                    ("oeq", oe.clone()), ("ocmp", oo.clone()), ("coeq", oe.clone()), ("cocmp", oo.clone()),
                    ("foeq", oe.clone()), ("focmp", oo.clone()), ("foeq2", oe.clone()), ("focmp2", oo.clone()),
                    ("aeq", want(a == b)), ("ane", want(a != b)),
                ]);
                let tag = if a == b { "eq" } else if a < b { "lt" } else { "gt" };
                out.line("c16.scalar", &args, &imp, &sd, tag);
            }
        }

        // ---- order laws over all pairs and triples (one summary line per type and domain)
        let dom = dedup_domain(all_seqs(&a3, if two { 4 } else { 3 }));
        let show = |v: &Vec<$t>| show_list(v.iter(), |x| x.z());
        out.line("c16.laws", &format!("{} slice {}", tn, dom.len()),
            &laws(&dom, |a, b| $cmps(a, b), |a, b| $eqs(a, b), show),
            &laws(&dom, |a, b| a.cmp(b), |a, b| a == b, show), "triples");
        out.line("c16.laws", &format!("{} const_cmp_for_slice {}", tn, dom.len()),
            &laws(&dom, |a, b| { let (a, b): (&[$t], &[$t]) = (a, b); const_cmp_for!(slice; a, b) },
                  |a, b| { let (a, b): (&[$t], &[$t]) = (a, b); const_eq_for!(slice; a, b) }, show),
            "-", "triples");
        let mut odom: Vec<Option<&[$t]>> = dom.iter().map(|v| Some(&v[..])).collect();
        odom.push(None);
        out.line("c16.laws", &format!("{} option_slice {}", tn, odom.len()),
            &laws(&odom, |a, b| $ocmps(*a, *b), |a, b| $oeqs(*a, *b), |v| show_opt(*v, |s| show_list(s.iter(), |x| x.z()))),
            &laws(&odom, |a, b| a.cmp(b), |a, b| a == b, |v| show_opt(*v, |s| show_list(s.iter(), |x| x.z()))), "triples");
        let mut sdom: Vec<Option<$t>> = bnd.iter().map(|x| Some(*x)).collect();
        sdom.push(None);
        out.line("c16.laws", &format!("{} option_scalar {}", tn, sdom.len()),
            &laws(&sdom, |a, b| $ocmp1(*a, *b), |a, b| $oeq1(*a, *b), |v| show_opt(*v, |x| x.z())),
            &laws(&sdom, |a, b| a.cmp(b), |a, b| a == b, |v| show_opt(*v, |x| x.z())), "triples");
        out.line("c16.laws", &format!("{} scalar {}", tn, bnd.len()),
            &laws(&bnd, |a, b| $cmp1(*a, *b), |a, b| const_eq!(*a, *b), |x| x.z()),
            &laws(&bnd, |a, b| a.cmp(b), |a, b| a == b, |x| x.z()), "triples");
    }};
}

// ---------------------------------------------------------------- NonZero

macro_rules! nonzero_family {
    ($nz:ty, $prim:ty, $eq:path, $cmp:path, $oeq:path, $ocmp:path; $out:expr) => {{
        let out: &mut Out = $out;
        let tn = stringify!($nz);
        let vals: Vec<$nz> = <$prim as Prim>::bounds().into_iter().filter_map(<$nz>::new).collect();
        for &a in &vals {
            for &b in &vals {
                let args = format!("{} {} {}", tn, a.get(), b.get());
                let imp = catch(move || {
                    fields(&[
                        ("eq", s1(bc($eq(a, b)))),
                        ("cmp", s1(oc($cmp(a, b)))),
                        ("ceq", s1(bc(const_eq!(a, b)))),
                        ("ccmp", s1(oc(const_cmp!(a, b)))),
                        ("oeq", four!($oeq, a, b, bc)),
                        ("ocmp", four!($ocmp, a, b, oc)),
                        ("coeq", four!(|x: Option<$nz>, y: Option<$nz>| const_eq!(x, y), a, b, bc)),
                        ("cocmp", four!(|x: Option<$nz>, y: Option<$nz>| const_cmp!(x, y), a, b, oc)),
                        ("foeq", four!(|x: Option<$nz>, y: Option<$nz>| const_eq_for!(option; x, y), a, b, bc)),
                        ("focmp", four!(|x: Option<$nz>, y: Option<$nz>| const_cmp_for!(option; x, y), a, b, oc)),
                    ])
                });
                let e = s1(bc(a == b));
                let c = s1(oc(a.cmp(&b)));
                let oe = four!(|x: Option<$nz>, y: Option<$nz>| x == y, a, b, bc);
                let oo = four!(|x: Option<$nz>, y: Option<$nz>| x.cmp(&y), a, b, oc);
                let sd = fields(&[
                    ("eq", e.clone()), ("cmp", c.clone()), ("ceq", e.clone()), ("ccmp", c.clone()),
                    ("oeq", oe.clone()), ("ocmp", oo.clone()), ("coeq", oe.clone()), ("cocmp", oo.clone()),
                    ("foeq", oe.clone()), ("focmp", oo.clone()),
                ]);
                out.line("c16.nonzero", &args, &imp, &sd, if a == b { "eq" } else { "ne" });
            }
        }
        let mut sdom: Vec<Option<$nz>> = vals.iter().map(|x| Some(*x)).collect();
        sdom.push(None);
        out.line("c16.laws", &format!("{} option_nonzero {}", tn, sdom.len()),
            &laws(&sdom, |a, b| $ocmp(*a, *b), |a, b| $oeq(*a, *b), |v| show_opt(*v, |x| x.get().to_string())),
            &laws(&sdom, |a, b| a.cmp(b), |a, b| a == b, |v| show_opt(*v, |x| x.get().to_string())), "triples");
    }};
}

// ---------------------------------------------------------------- ranges (equality only)

macro_rules! range_family {
    ($t:ty, $eq:path, $eqinc:path; $out:expr) => {{
        let out: &mut Out = $out;
        let tn = stringify!($t);
        let a5 = <$t as Prim>::a5();
        let vals = [a5[0], a5[1], a5[3], a5[4]];
        let mut rs: Vec<($t, $t)> = Vec::new();
        for &s in &vals {
            for &e in &vals {
                rs.push((s, e));
            }
        }
        for &(s1_, e1) in &rs {
            for &(s2, e2) in &rs {
                let args = format!("{} [{},{}] [{},{}]", tn, s1_.z(), e1.z(), s2.z(), e2.z());
                let imp = catch(move || {
                    fields(&[
                        ("eq", s1(bc($eq(&(s1_..e1), &(s2..e2))))),
                        ("ceq", s1(bc(const_eq!(s1_..e1, s2..e2)))),
                        ("feq", s1(bc(const_eq_for!(range; s1_..e1, s2..e2)))),
                        ("feq2", s1(bc(const_eq_for!(range; s1_..e1, s2..e2, |x, y| *x == *y)))),
                        ("ieq", s1(bc($eqinc(&(s1_..=e1), &(s2..=e2))))),
                        ("iceq", s1(bc(const_eq!(s1_..=e1, s2..=e2)))),
                        ("ifeq", s1(bc(const_eq_for!(range_inclusive; s1_..=e1, s2..=e2)))),
                        ("ifeq2", s1(bc(const_eq_for!(range_inclusive; s1_..=e1, s2..=e2, |x, y| **x == **y)))),
                    ])
                });
                let e = s1(bc((s1_..e1) == (s2..e2)));
                let ei = s1(bc((s1_..=e1) == (s2..=e2)));
                let sd = fields(&[
                    ("eq", e.clone()), ("ceq", e.clone()), ("feq", e.clone()), ("feq2", e.clone()),
                    ("ieq", ei.clone()), ("iceq", ei.clone()), ("ifeq", ei.clone()), ("ifeq2", ei.clone()),
                ]);
                let tag = if (s1_, e1) == (s2, e2) { "eq" } else if s1_ == s2 { "end-differs" } else if e1 == e2 { "start-differs" } else { "both-differ" };
                out.line("c16.range", &args, &imp, &sd, tag);
            }
        }
    }};
}

// ---------------------------------------------------------------- strings, slices of strings / byte slices

fn str_line(out: &mut Out, l: &str, r: &str) {
    let args = format!("{} {}", hex(l.as_bytes()), hex(r.as_bytes()));
    let imp = catch(move || {
        fields(&[
            ("eq", s1(bc(eq_str(l, r)))),
            ("cmp", s1(oc(cmp_str(l, r)))),
            ("ceq", s1(bc(const_eq!(l, r)))),
            ("ccmp", s1(oc(const_cmp!(l, r)))),
            ("oeq", four!(eq_option_str, l, r, bc)),
            ("ocmp", four!(cmp_option_str, l, r, oc)),
            ("coeq", four!(|a: Option<&str>, b: Option<&str>| const_eq!(a, b), l, r, bc)),
            ("cocmp", four!(|a: Option<&str>, b: Option<&str>| const_cmp!(a, b), l, r, oc)),
            ("foeq", four!(|a: Option<&str>, b: Option<&str>| const_eq_for!(option; a, b), l, r, bc)),
            ("focmp", four!(|a: Option<&str>, b: Option<&str>| const_cmp_for!(option; a, b), l, r, oc)),
            ("aeq", asserts!(assertc_eq!(l, r))),
            ("ane", asserts!(assertc_ne!(l, r))),
        ])
    });
    let e = s1(bc(l == r));
    let c = s1(oc(l.cmp(r)));
    let oe = four!(|a: Option<&str>, b: Option<&str>| a == b, l, r, bc);
    let oo = four!(|a: Option<&str>, b: Option<&str>| a.cmp(&b), l, r, oc);
    let sd = fields(&[
        ("eq", e.clone()), ("cmp", c.clone()), ("ceq", e.clone()), ("ccmp", c.clone()),
        ("oeq", oe.clone()), ("ocmp", oo.clone()), ("coeq", oe.clone()), ("cocmp", oo.clone()),
        ("foeq", oe.clone()), ("focmp", oo.clone()),
        ("aeq", want(l == r)), ("ane", want(l != r)),
    ]);
    out.line("c16.str", &args, &imp, &sd, seq_tag(l.as_bytes(), r.as_bytes()));
}

fn sstr_line(out: &mut Out, l: &[&str], r: &[&str]) {
    let args = format!("{} {}", show_list(l.iter(), |s| hex(s.as_bytes())), show_list(r.iter(), |s| hex(s.as_bytes())));
    let imp = catch(move || {
        fields(&[
            ("eq", s1(bc(eq_slice_str(l, r)))),
            ("cmp", s1(oc(cmp_slice_str(l, r)))),
            ("ceq", s1(bc(const_eq!(l, r)))),
            ("ccmp", s1(oc(const_cmp!(l, r)))),
            ("feq", s1(bc(const_eq_for!(slice; l, r)))),
            ("feqp", s1(bc(const_eq_for!(slice; l, r, konst::eq_str)))),
            ("fcmp", s1(oc(const_cmp_for!(slice; l, r)))),
            ("fcmpp", s1(oc(const_cmp_for!(slice; l, r, konst::cmp_str)))),
            ("oeq", four!(eq_option_slice_str, l, r, bc)),
            ("ocmp", four!(cmp_option_slice_str, l, r, oc)),
            ("coeq", four!(|a: Option<&[&str]>, b: Option<&[&str]>| const_eq!(a, b), l, r, bc)),
            ("cocmp", four!(|a: Option<&[&str]>, b: Option<&[&str]>| const_cmp!(a, b), l, r, oc)),
        ])
    });
    let e = s1(bc(l == r));
    let c = s1(oc(l.cmp(r)));
    let oe = four!(|a: Option<&[&str]>, b: Option<&[&str]>| a == b, l, r, bc);
    let oo = four!(|a: Option<&[&str]>, b: Option<&[&str]>| a.cmp(&b), l, r, oc);
    let sd = fields(&[
        ("eq", e.clone()), ("cmp", c.clone()), ("ceq", e.clone()), ("ccmp", c.clone()),
        ("feq", e.clone()), ("feqp", e.clone()), ("fcmp", c.clone()), ("fcmpp", c.clone()),
        ("oeq", oe.clone()), ("ocmp", oo.clone()), ("coeq", oe.clone()), ("cocmp", oo.clone()),
    ]);
    out.line("c16.sstr", &args, &imp, &sd, seq_tag(l, r));
}

fn sbytes_line(out: &mut Out, l: &[&[u8]], r: &[&[u8]]) {
    let args = format!("{} {}", show_list(l.iter(), |s| hex(s)), show_list(r.iter(), |s| hex(s)));
    let imp = catch(move || {
        fields(&[
            ("eq", s1(bc(eq_slice_bytes(l, r)))),
            ("cmp", s1(oc(cmp_slice_bytes(l, r)))),
            ("ceq", s1(bc(const_eq!(l, r)))),
            ("ccmp", s1(oc(const_cmp!(l, r)))),
            ("feq", s1(bc(const_eq_for!(slice; l, r)))),
            ("feqp", s1(bc(const_eq_for!(slice; l, r, konst::slice::eq_bytes)))),
            ("fcmp", s1(oc(const_cmp_for!(slice; l, r)))),
            ("fcmpp", s1(oc(const_cmp_for!(slice; l, r, konst::slice::cmp_bytes)))),
            ("oeq", four!(eq_option_slice_bytes, l, r, bc)),
            ("ocmp", four!(cmp_option_slice_bytes, l, r, oc)),
            ("coeq", four!(|a: Option<&[&[u8]]>, b: Option<&[&[u8]]>| const_eq!(a, b), l, r, bc)),
            ("cocmp", four!(|a: Option<&[&[u8]]>, b: Option<&[&[u8]]>| const_cmp!(a, b), l, r, oc)),
        ])
    });
    let e = s1(bc(l == r));
    let c = s1(oc(l.cmp(r)));
    let oe = four!(|a: Option<&[&[u8]]>, b: Option<&[&[u8]]>| a == b, l, r, bc);
    let oo = four!(|a: Option<&[&[u8]]>, b: Option<&[&[u8]]>| a.cmp(&b), l, r, oc);
    let sd = fields(&[
        ("eq", e.clone()), ("cmp", c.clone()), ("ceq", e.clone()), ("ccmp", c.clone()),
        ("feq", e.clone()), ("feqp", e.clone()), ("fcmp", c.clone()), ("fcmpp", c.clone()),
        ("oeq", oe.clone()), ("ocmp", oo.clone()), ("coeq", oe.clone()), ("cocmp", oo.clone()),
    ]);
    out.line("c16.sbytes", &args, &imp, &sd, seq_tag(l, r));
}

// ---------------------------------------------------------------- a user type (impl_cmp!, try_equal!, IsNotStdKind coercion)

#[derive(Debug, Clone, Copy, PartialEq, Eq, PartialOrd, Ord)]
pub struct Pt {
    x: i8,
    name: &'static str,
    tag: Option<u8>,
}
konst::impl_cmp! {
    impl Pt;

    pub const fn const_eq(&self, other: &Self) -> bool {
        const_eq!(self.x, other.x) && const_eq!(self.name, other.name) && const_eq!(self.tag, other.tag)
    }
    pub const fn const_cmp(&self, other: &Self) -> Ordering {
        konst::try_equal!(const_cmp!(self.x, other.x));
        konst::try_equal!(const_cmp!(self.name, other.name));
        konst::try_equal!(const_cmp!(self.tag, other.tag))
    }
}
fn show_pt(p: &Pt) -> String {
    format!("{} {} {}", p.x, hex(p.name.as_bytes()), show_list(p.tag.iter(), |t| t.to_string()))
}
fn user_line(out: &mut Out, p: Pt, q: Pt) {
    let args = format!("{} {}", show_pt(&p), show_pt(&q));
    let imp = catch(move || {
        let ls: &[Pt] = &[p, q];
        let rs: &[Pt] = &[p, p];
        fields(&[
            ("ceq", s1(bc(const_eq!(p, q)))),
            ("ccmp", s1(oc(const_cmp!(p, q)))),
            ("feq", s1(bc(const_eq_for!(slice; ls, rs)))),
            ("fcmp", s1(oc(const_cmp_for!(slice; ls, rs)))),
            ("fkeq", s1(bc(const_eq_for!(slice; ls, rs, |v| v.x)))),
            ("fkcmp", s1(oc(const_cmp_for!(slice; ls, rs, |v| v.x)))),
            ("foeq", four!(|a: Option<Pt>, b: Option<Pt>| const_eq_for!(option; a, b), p, q, bc)),
            ("focmp", four!(|a: Option<Pt>, b: Option<Pt>| const_cmp_for!(option; a, b), p, q, oc)),
            ("fokcmp", four!(|a: Option<Pt>, b: Option<Pt>| const_cmp_for!(option; a, b, |v| v.name), p, q, oc)),
        ])
    });
    let ls: &[Pt] = &[p, q];
    let rs: &[Pt] = &[p, p];
    let lk: Vec<i8> = ls.iter().map(|v| v.x).collect();
    let rk: Vec<i8> = rs.iter().map(|v| v.x).collect();
    let sd = fields(&[
        ("ceq", s1(bc(p == q))),
        ("ccmp", s1(oc(p.cmp(&q)))),
        ("feq", s1(bc(ls == rs))),
        ("fcmp", s1(oc(ls.cmp(rs)))),
        ("fkeq", s1(bc(lk == rk))),
        ("fkcmp", s1(oc(lk.cmp(&rk)))),
        ("foeq", four!(|a: Option<Pt>, b: Option<Pt>| a == b, p, q, bc)),
        ("focmp", four!(|a: Option<Pt>, b: Option<Pt>| a.cmp(&b), p, q, oc)),
        ("fokcmp", four!(|a: Option<Pt>, b: Option<Pt>| a.map(|v| v.name).cmp(&b.map(|v| v.name)), p, q, oc)),
    ]);
    let tag = if p == q { "eq" } else if p.x != q.x { "first-field" } else if p.name != q.name { "second-field" } else { "third-field" };
    out.line("c16.user", &args, &imp, &sd, tag);
}

fn ord_of(i: i8) -> Ordering {
    match i {
        -1 => Ordering::Less,
        0 => Ordering::Equal,
        _ => Ordering::Greater,
    }
}

pub fn run(cfg: &Cfg, out: &mut Out) {
    let mut rng = Rng::new(cfg.seed);

    // ---- strings
    for (l, r) in [("b", "aa"), ("aa", "b"), ("\u{e9}", "ab"), ("a\u{e9}", "aaa")] {
        str_line(out, l, r);
    }
    let strs = all_strings(&['a', 'b', '\u{e9}'], if cfg.thorough { 4 } else { 3 });
    for l in &strs {
        for r in &strs {
            str_line(out, l, r);
        }
    }
    let wide = ['\0', 'a', '\u{7f}', '\u{80}', '\u{7ff}', '\u{800}', '\u{ffff}', '\u{10000}', '\u{10ffff}'];
    let strs2 = all_strings(&wide, 2);
    for l in &strs2 {
        for r in &strs2 {
            str_line(out, l, r);
        }
    }
    for _ in 0..(if cfg.thorough { 5000 } else { 500 }) {
        let p = rng.below(12) as usize;
        let mut l: String = (0..p).map(|_| *rng.pick(&wide)).collect();
        let mut r = l.clone();
        for _ in 0..rng.below(4) {
            l.push(*rng.pick(&wide));
        }
        for _ in 0..rng.below(4) {
            r.push(*rng.pick(&wide));
        }
        str_line(out, &l, &r);
    }
    let show_s = |s: &String| hex(s.as_bytes());
    out.line("c16.laws", &format!("str str {}", strs.len()),
        &laws(&strs, |a, b| cmp_str(a, b), |a, b| eq_str(a, b), show_s),
        &laws(&strs, |a, b| a.cmp(b), |a, b| a == b, show_s), "triples");
    {
        let mut od: Vec<Option<&str>> = strs.iter().map(|s| Some(&s[..])).collect();
        od.push(None);
        let sh = |v: &Option<&str>| show_opt(*v, |s| hex(s.as_bytes()));
        out.line("c16.laws", &format!("str option_str {}", od.len()),
            &laws(&od, |a, b| cmp_option_str(*a, *b), |a, b| eq_option_str(*a, *b), sh),
            &laws(&od, |a, b| a.cmp(b), |a, b| a == b, sh), "triples");
    }

    // ---- slices of strings and of byte slices: 4-string alphabet, up to length 3
    let words: [&str; 4] = ["", "a", "ab", "b"];
    let wseqs = all_seqs(&words, if cfg.thorough { 4 } else { 3 });
    sstr_line(out, &["b"], &["a", "a"]);
    sstr_line(out, &["a", "a"], &["b"]);
    for l in &wseqs {
        for r in &wseqs {
            sstr_line(out, l, r);
        }
    }
    let bwords: [&[u8]; 4] = [b"", b"\x01", b"\x01\xff", b"\xff"];
    let bseqs = all_seqs(&bwords, if cfg.thorough { 4 } else { 3 });
    sbytes_line(out, &[b"\xff"], &[b"\x01", b"\x01"]);
    sbytes_line(out, &[b"\x01", b"\x01"], &[b"\xff"]);
    for l in &bseqs {
        for r in &bseqs {
            sbytes_line(out, l, r);
        }
    }
    {
        let dom = all_seqs(&words, 3);
        let sh = |v: &Vec<&str>| show_list(v.iter(), |s| hex(s.as_bytes()));
        out.line("c16.laws", &format!("str slice_str {}", dom.len()),
            &laws(&dom, |a, b| cmp_slice_str(a, b), |a, b| eq_slice_str(a, b), sh),
            &laws(&dom, |a, b| a.cmp(b), |a, b| a == b, sh), "triples");
        let domb = all_seqs(&bwords, 3);
        let shb = |v: &Vec<&[u8]>| show_list(v.iter(), |s| hex(s));
        out.line("c16.laws", &format!("u8 slice_bytes {}", domb.len()),
            &laws(&domb, |a, b| cmp_slice_bytes(a, b), |a, b| eq_slice_bytes(a, b), shb),
            &laws(&domb, |a, b| a.cmp(b), |a, b| a == b, shb), "triples");
    }

    // ---- slices of the 14 primitive types, scalars, Option of both
    prim_family!(u8, eq_bytes, cmp_bytes, eq_option_bytes, cmp_option_bytes, cmp_u8, eq_option_u8, cmp_option_u8; cfg, out, &mut rng);
    prim_family!(u16, eq_slice_u16, cmp_slice_u16, eq_option_slice_u16, cmp_option_slice_u16, cmp_u16, eq_option_u16, cmp_option_u16; cfg, out, &mut rng);
    prim_family!(u32, eq_slice_u32, cmp_slice_u32, eq_option_slice_u32, cmp_option_slice_u32, cmp_u32, eq_option_u32, cmp_option_u32; cfg, out, &mut rng);
    prim_family!(u64, eq_slice_u64, cmp_slice_u64, eq_option_slice_u64, cmp_option_slice_u64, cmp_u64, eq_option_u64, cmp_option_u64; cfg, out, &mut rng);
    prim_family!(u128, eq_slice_u128, cmp_slice_u128, eq_option_slice_u128, cmp_option_slice_u128, cmp_u128, eq_option_u128, cmp_option_u128; cfg, out, &mut rng);
    prim_family!(usize, eq_slice_usize, cmp_slice_usize, eq_option_slice_usize, cmp_option_slice_usize, cmp_usize, eq_option_usize, cmp_option_usize; cfg, out, &mut rng);
    prim_family!(i8, eq_slice_i8, cmp_slice_i8, eq_option_slice_i8, cmp_option_slice_i8, cmp_i8, eq_option_i8, cmp_option_i8; cfg, out, &mut rng);
    prim_family!(i16, eq_slice_i16, cmp_slice_i16, eq_option_slice_i16, cmp_option_slice_i16, cmp_i16, eq_option_i16, cmp_option_i16; cfg, out, &mut rng);
    prim_family!(i32, eq_slice_i32, cmp_slice_i32, eq_option_slice_i32, cmp_option_slice_i32, cmp_i32, eq_option_i32, cmp_option_i32; cfg, out, &mut rng);
    prim_family!(i64, eq_slice_i64, cmp_slice_i64, eq_option_slice_i64, cmp_option_slice_i64, cmp_i64, eq_option_i64, cmp_option_i64; cfg, out, &mut rng);
    prim_family!(i128, eq_slice_i128, cmp_slice_i128, eq_option_slice_i128, cmp_option_slice_i128, cmp_i128, eq_option_i128, cmp_option_i128; cfg, out, &mut rng);
    prim_family!(isize, eq_slice_isize, cmp_slice_isize, eq_option_slice_isize, cmp_option_slice_isize, cmp_isize, eq_option_isize, cmp_option_isize; cfg, out, &mut rng);
    prim_family!(bool, eq_slice_bool, cmp_slice_bool, eq_option_slice_bool, cmp_option_slice_bool, cmp_bool, eq_option_bool, cmp_option_bool; cfg, out, &mut rng);
    prim_family!(char, eq_slice_char, cmp_slice_char, eq_option_slice_char, cmp_option_slice_char, cmp_char, eq_option_char, cmp_option_char; cfg, out, &mut rng);

    // the u8 functions under their slice::cmp alias names
    {
        let seqs = all_seqs(&[0u8, 1, 255], 2);
        for l in &seqs {
            for r in &seqs {
                let (l, r): (&[u8], &[u8]) = (l, r);
                let args = format!("{} {}", show_list(l.iter(), |x| x.z()), show_list(r.iter(), |x| x.z()));
                let imp = fields(&[
                    ("eq", s1(bc(eq_slice_u8(l, r)))),
                    ("cmp", s1(oc(cmp_slice_u8(l, r)))),
                    ("oeq", four!(eq_option_slice_u8, l, r, bc)),
                    ("ocmp", four!(cmp_option_slice_u8, l, r, oc)),
                ]);
                let sd = fields(&[
                    ("eq", s1(bc(l == r))),
                    ("cmp", s1(oc(l.cmp(r)))),
                    ("oeq", four!(|a: Option<&[u8]>, b: Option<&[u8]>| a == b, l, r, bc)),
                    ("ocmp", four!(|a: Option<&[u8]>, b: Option<&[u8]>| a.cmp(&b), l, r, oc)),
                ]);
                out.line("c16.slice_u8_alias", &args, &imp, &sd, seq_tag(l, r));
            }
        }
    }

    // ---- a user type with impl_cmp! (field-wise, try_equal! chain)
    {
        let names: [&'static str; 3] = ["", "a", "ab"];
        let mut pts = Vec::new();
        for x in [-1i8, 0, 1] {
            for name in names {
                for tag in [None, Some(0u8), Some(255)] {
                    pts.push(Pt { x, name, tag });
                }
            }
        }
        for &p in &pts {
            for &q in &pts {
                user_line(out, p, q);
            }
        }
        out.line("c16.laws", &format!("Pt user {}", pts.len()),
            &laws(&pts, |a, b| const_cmp!(*a, *b), |a, b| const_eq!(*a, *b), show_pt),
            &laws(&pts, |a, b| a.cmp(b), |a, b| a == b, show_pt), "triples");
    }

    // ---- NonZero integers
    nonzero_family!(NonZeroU8, u8, eq_nonzerou8, cmp_nonzerou8, eq_option_nonzerou8, cmp_option_nonzerou8; out);
    nonzero_family!(NonZeroI8, i8, eq_nonzeroi8, cmp_nonzeroi8, eq_option_nonzeroi8, cmp_option_nonzeroi8; out);
    nonzero_family!(NonZeroU16, u16, eq_nonzerou16, cmp_nonzerou16, eq_option_nonzerou16, cmp_option_nonzerou16; out);
    nonzero_family!(NonZeroI16, i16, eq_nonzeroi16, cmp_nonzeroi16, eq_option_nonzeroi16, cmp_option_nonzeroi16; out);
    nonzero_family!(NonZeroU32, u32, eq_nonzerou32, cmp_nonzerou32, eq_option_nonzerou32, cmp_option_nonzerou32; out);
    nonzero_family!(NonZeroI32, i32, eq_nonzeroi32, cmp_nonzeroi32, eq_option_nonzeroi32, cmp_option_nonzeroi32; out);
    nonzero_family!(NonZeroU64, u64, eq_nonzerou64, cmp_nonzerou64, eq_option_nonzerou64, cmp_option_nonzerou64; out);
    nonzero_family!(NonZeroI64, i64, eq_nonzeroi64, cmp_nonzeroi64, eq_option_nonzeroi64, cmp_option_nonzeroi64; out);
    nonzero_family!(NonZeroU128, u128, eq_nonzerou128, cmp_nonzerou128, eq_option_nonzerou128, cmp_option_nonzerou128; out);
    nonzero_family!(NonZeroI128, i128, eq_nonzeroi128, cmp_nonzeroi128, eq_option_nonzeroi128, cmp_option_nonzeroi128; out);
    nonzero_family!(NonZeroUsize, usize, eq_nonzerousize, cmp_nonzerousize, eq_option_nonzerousize, cmp_option_nonzerousize; out);
    nonzero_family!(NonZeroIsize, isize, eq_nonzeroisize, cmp_nonzeroisize, eq_option_nonzeroisize, cmp_option_nonzeroisize; out);

    // ---- ranges
    range_family!(u8, eq_range_u8, eq_rangeinc_u8; out);
    range_family!(u16, eq_range_u16, eq_rangeinc_u16; out);
    range_family!(u32, eq_range_u32, eq_rangeinc_u32; out);
    range_family!(u64, eq_range_u64, eq_rangeinc_u64; out);
    range_family!(u128, eq_range_u128, eq_rangeinc_u128; out);
    range_family!(usize, eq_range_usize, eq_rangeinc_usize; out);
    range_family!(char, eq_range_char, eq_rangeinc_char; out);

    // ---- Ordering and Option<Ordering>
    for a in -1i8..=1 {
        for b in -1i8..=1 {
            let (x, y) = (ord_of(a), ord_of(b));
            let imp = catch(move || {
                fields(&[
                    ("eq", s1(bc(eq_ordering(x, y)))),
                    ("cmp", s1(oc(cmp_ordering(x, y)))),
                    ("ceq", s1(bc(const_eq!(x, y)))),
                    ("ccmp", s1(oc(const_cmp!(x, y)))),
                    ("oeq", four!(eq_option_ordering, x, y, bc)),
                    ("ocmp", four!(cmp_option_ordering, x, y, oc)),
                    ("coeq", four!(|p: Option<Ordering>, q: Option<Ordering>| const_eq!(p, q), x, y, bc)),
                    ("cocmp", four!(|p: Option<Ordering>, q: Option<Ordering>| const_cmp!(p, q), x, y, oc)),
                    ("foeq", four!(|p: Option<Ordering>, q: Option<Ordering>| const_eq_for!(option; p, q), x, y, bc)),
                    ("focmp", four!(|p: Option<Ordering>, q: Option<Ordering>| const_cmp_for!(option; p, q), x, y, oc)),
                ])
            });
            let e = s1(bc(x == y));
            let c = s1(oc(x.cmp(&y)));
            let oe = four!(|p: Option<Ordering>, q: Option<Ordering>| p == q, x, y, bc);
            let oo = four!(|p: Option<Ordering>, q: Option<Ordering>| p.cmp(&q), x, y, oc);
            let sd = fields(&[
                ("eq", e.clone()), ("cmp", c.clone()), ("ceq", e.clone()), ("ccmp", c.clone()),
                ("oeq", oe.clone()), ("ocmp", oo.clone()), ("coeq", oe.clone()), ("cocmp", oo.clone()),
                ("foeq", oe.clone()), ("focmp", oo.clone()),
            ]);
            out.line("c16.ordering", &format!("{} {}", a, b), &imp, &sd, if a == b { "eq" } else { "ne" });
        }
    }
    {
        let od = [None, Some(Ordering::Less), Some(Ordering::Equal), Some(Ordering::Greater)];
        let sh = |v: &Option<Ordering>| show_opt(*v, |o| s1(oc(o)));
        out.line("c16.laws", &format!("Ordering option_ordering {}", od.len()),
            &laws(&od, |a, b| cmp_option_ordering(*a, *b), |a, b| eq_option_ordering(*a, *b), sh),
            &laws(&od, |a, b| a.cmp(b), |a, b| a == b, sh), "triples");
    }

    // ---- marker types
    {
        use std::marker::{PhantomData, PhantomPinned};
        let p: PhantomData<u8> = PhantomData;
        let imp = format!("{}{}{}{}", bc(eq_phantomdata(p, p)), oc(cmp_phantomdata(p, p)), bc(eq_phantompinned(PhantomPinned, PhantomPinned)), oc(cmp_phantompinned(PhantomPinned, PhantomPinned)));
        let sd = format!("{}{}{}{}", bc(p == p), oc(p.cmp(&p)), bc(PhantomPinned == PhantomPinned), oc(PhantomPinned.cmp(&PhantomPinned)));
        out.line("c16.marker", "0", &imp, &sd, "-");
    }
}
