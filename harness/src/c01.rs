//! C01 — every string/slice a safe function returns lies inside its argument, is valid UTF-8
//! and starts/ends on char boundaries of the argument (observed on the real functions; the
//! model column recomputes the same facts from the model's result).
//!
//! `kv_harness c01 miri <seed>` runs a reduced case list (used under Miri in the thorough tier:
//! the same code paths, including every unsafe block they reach).
use crate::common::*;
use konst::parsing::Parser;
use konst::string as kstr;

/// offset:len view plus the three facts; `N` when the function returned None
fn facts(h: &str, r: Option<&str>) -> String {
    match r {
        None => "N".into(),
        Some(s) => {
            let v = view_str(h, s);
            let utf8 = std::str::from_utf8(s.as_bytes()).is_ok();
            let (bs, be) = if s.is_empty() {
                (true, true)
            } else {
                let off = s.as_ptr() as usize - h.as_ptr() as usize;
                (h.is_char_boundary(off), h.is_char_boundary(off + s.len()))
            };
            format!("{}|{}{}{}", v, show_bool(utf8), show_bool(bs), show_bool(be))
        }
    }
}

fn one_pat<'a, P: kstr::Pattern<'a> + Copy>(h: &str, p: P) -> Vec<(&'static str, String)> {
    vec![
        ("find_skip", facts(h, kstr::find_skip(h, p))),
        ("find_keep", facts(h, kstr::find_keep(h, p))),
        ("rfind_skip", facts(h, kstr::rfind_skip(h, p))),
        ("rfind_keep", facts(h, kstr::rfind_keep(h, p))),
        ("strip_prefix", facts(h, kstr::strip_prefix(h, p))),
        ("strip_suffix", facts(h, kstr::strip_suffix(h, p))),
        ("trim_start_matches", facts(h, Some(kstr::trim_start_matches(h, p)))),
        ("trim_end_matches", facts(h, Some(kstr::trim_end_matches(h, p)))),
        ("trim_matches", facts(h, Some(kstr::trim_matches(h, p)))),
        ("split_once_a", facts(h, kstr::split_once(h, p).map(|x| x.0))),
        ("split_once_b", facts(h, kstr::split_once(h, p).map(|x| x.1))),
        ("rsplit_once_a", facts(h, kstr::rsplit_once(h, p).map(|x| x.0))),
        ("rsplit_once_b", facts(h, kstr::rsplit_once(h, p).map(|x| x.1))),
    ]
}

fn emit_str(out: &mut Out, h: &str, n: &str) {
    let args = format!("{} {}", hex(h.as_bytes()), hex(n.as_bytes()));
    let imp = catch(|| fields(&one_pat(h, n)));
    let tag = if n.len() > 1 || n.bytes().any(|b| b >= 0x80) || h.bytes().any(|b| b >= 0x80) { "multibyte" } else { "-" };
    out.line("c01.str", &args, &imp, "-", tag);
}
fn emit_char(out: &mut Out, h: &str, c: char) {
    let args = format!("{} {}", hex(h.as_bytes()), c as u32);
    let imp = catch(|| fields(&one_pat(h, c)));
    out.line("c01.strchar", &args, &imp, "-", if c.len_utf8() > 1 { "multibyte" } else { "-" });
}
fn emit_ws(out: &mut Out, h: &str) {
    let args = hex(h.as_bytes());
    let imp = catch(|| {
        fields(&[
            ("trim", facts(h, Some(kstr::trim(h)))),
            ("trim_start", facts(h, Some(kstr::trim_start(h)))),
            ("trim_end", facts(h, Some(kstr::trim_end(h)))),
        ])
    });
    out.line("c01.ws", &args, &imp, "-", "ws");
}

/// the Parser's remainder after every step of a short operation sequence: inside the
/// original, valid UTF-8, both offsets on char boundaries
fn emit_parser(out: &mut Out, orig: &str, ops: &[crate::c13::Op]) {
    let d: Vec<String> = ops.iter().map(|o| o.desc()).collect();
    let args = format!("{} [{}]", hex(orig.as_bytes()), d.join(","));
    let imp = catch(|| {
        let mut v: Vec<String> = Vec::new();
        let mut p = Parser::new(orig);
        for &op in ops {
            match crate::c13::apply_pub(p, op) {
                Ok(q) => {
                    let s = q.start_offset();
                    let e = q.end_offset();
                    let ok = e >= s && e <= orig.len() && orig.is_char_boundary(s) && orig.is_char_boundary(e);
                    v.push(format!("{}|{}", facts(orig, Some(q.remainder())), show_bool(ok)));
                    p = q;
                }
                Err(_) => {
                    v.push("err".into());
                    break;
                }
            }
        }
        format!("[{}]", v.join(","))
    });
    out.line("c01.parser", &args, &imp, "-", "ops");
}

pub fn run(cfg: &Cfg, out: &mut Out) {
    // "miri": the reduced case list of the thorough tier; "miriq": the shorter one of the quick tier
    let mode = std::env::args().nth(2).unwrap_or_default();
    let miriq = mode == "miriq";
    let miri = mode == "miri" || miriq;
    let alpha = ['a', 'é', '锈', '🧠'];
    let hays = all_strings(&alpha, if miriq { 1 } else if miri { 2 } else if cfg.thorough { 5 } else { 4 });
    let pats = all_strings(&alpha, if miri { 1 } else { 2 });
    for h in &hays {
        for n in &pats {
            emit_str(out, h, n);
        }
        for c in alpha {
            emit_char(out, h, c);
        }
    }
    let wsalpha = [' ', '\t', '\u{c}', 'x', 'é', '\u{a0}', '\u{3000}'];
    for h in all_strings(&wsalpha, if miriq { 1 } else if miri { 2 } else { 4 }).iter() {
        emit_ws(out, h);
    }
    // Parser sequences over multi-byte text (depth 2 exhaustive over the C13 op set, incl. skip into
    // the middle of a char)
    let pstrs = all_strings(&['a', 'é', '-', ' ', '🧠'], if miri { 1 } else { 3 });
    for s in &pstrs {
        for (k, a) in crate::c13::OPS.into_iter().enumerate() {
            if miriq && (k + s.len()) % 4 != 0 {
                continue;
            }
            emit_parser(out, s, &[a]);
            if !miri {
                for b in crate::c13::OPS {
                    emit_parser(out, s, &[a, b]);
                }
            }
        }
    }
    // the thin wrappers of konst::maybe_uninit / manually_drop / ptr
    crate::c01w::run(cfg, out, miri);
    // other unsafe-backed functions, exercised for Miri's benefit (results compared in C02/C07/C08/C20)
    if miri {
        crate::c15::miri_cases(out, miriq);
        crate::c11::miri_cases(out);
        let arr = [1u16, 2, 3, 4, 5];
        let z = [(); 7];
        for i in [0usize, 2, 5, 9, usize::MAX] {
            let _ = konst::slice::slice_from(&arr, i);
            let _ = konst::slice::slice_up_to(&arr, i);
            let _ = konst::slice::get_range(&arr, i, 4);
            let _ = konst::slice::split_at(&z, i);
        }
        let _ = konst::slice::as_chunks::<u16, 2>(&arr);
        let _ = konst::slice::as_rchunks::<u16, 3>(&arr);
        let s = "aé锈🧠";
        let mut it = kstr::chars(s);
        while let Some((_, n)) = it.next() {
            it = n;
        }
        let mut ci = kstr::char_indices(s).rev();
        while let Some((_, n)) = ci.next() {
            ci = n;
        }
        let _ = konst::chr::encode_utf8('🧠').as_str().len();
        let _ = konst::chr::from_u32(0xD7FF);
        let m: [u32; 4] = konst::array::map!([1u32, 2, 3, 4], |x| x + 1);
        let f: [String; 3] = konst::array::from_fn_!(|i| i.to_string());
        let _ = (m, f);
        let c = konst::ffi::cstr::from_bytes_until_nul(b"ab\0c").unwrap();
        let _ = konst::ffi::cstr::to_bytes_with_nul(c).len();
        konst::destructure! {(a, b) = (String::from("x"), vec![1u8])}
        let _ = (a, b);
    }
}
