//! C01 — every string/slice a safe function returns lies inside its argument, is valid UTF-8
//! and starts/ends on char boundaries of the argument (observed on the real functions; the
//! model column recomputes the same facts from the model's result).
//!
//! `kv_harness c01 miri <seed>` runs a reduced case list (used under Miri in the thorough tier:
//! the same code paths, including every unsafe block they reach).
use crate::common::*;
use konst::parsing::Parser;
use konst::string as kstr;

/// offset:len view plus the three facts; `N` when the function returned None
fn facts(h: &str, r: Option<&str>) -> String {
    match r {
        None => "N".into(),
        Some(s) => {
            let v = view_str(h, s);
            let utf8 = std::str::from_utf8(s.as_bytes()).is_ok();
            let (bs, be) = if s.is_empty() {
                (true, true)
            } else {
                let off = s.as_ptr() as usize - h.as_ptr() as usize;
                (h.is_char_boundary(off), h.is_char_boundary(off + s.len()))
            };
            format!("{}|{}{}{}", v, show_bool(utf8), show_bool(bs), show_bool(be))
        }
    }
}

fn one_pat<'a, P: kstr::Pattern<'a> + Copy>(h: &str, p: P) -> Vec<(&'static str, String)> {
    vec![
        ("find_skip", facts(h, kstr::find_skip(h, p))),
        ("find_keep", facts(h, kstr::find_keep(h, p))),
        ("rfind_skip", facts(h, kstr::rfind_skip(h, p))),
        ("rfind_keep", facts(h, kstr::rfind_keep(h, p))),
        ("strip_prefix", facts(h, kstr::strip_prefix(h, p))),
        ("strip_suffix", facts(h, kstr::strip_suffix(h, p))),
        ("trim_start_matches", facts(h, Some(kstr::trim_start_matches(h, p)))),
        ("trim_end_matches", facts(h, Some(kstr::trim_end_matches(h, p)))),
        ("trim_matches", facts(h, Some(kstr::trim_matches(h, p)))),
        ("split_once_a", facts(h, kstr::split_once(h, p).map(|x| x.0))),
        ("split_once_b", facts(h, kstr::split_once(h, p).map(|x| x.1))),
        ("rsplit_once_a", facts(h, kstr::rsplit_once(h, p).map(|x| x.0))),
        ("rsplit_once_b", facts(h, kstr::rsplit_once(h, p).map(|x| x.1))),
    ]
}

fn emit_str(out: &mut Out, h: &str, n: &str) {
    let args = format!("{} {}", hex(h.as_bytes()), hex(n.as_bytes()));
    let imp = catch(|| fields(&one_pat(h, n)));
    let tag = if n.len() > 1 || n.bytes().any(|b| b >= 0x80) || h.bytes().any(|b| b >= 0x80) { "multibyte" } else { "-" };
    out.line("c01.str", &args, &imp, "-", tag);
}
fn emit_char(out: &mut Out, h: &str, c: char) {
    let args = format!("{} {}", hex(h.as_bytes()), c as u32);
    let imp = catch(|| fields(&one_pat(h, c)));
    out.line("c01.strchar", &args, &imp, "-", if c.len_utf8() > 1 { "multibyte" } else { "-" });
}
fn emit_ws(out: &mut Out, h: &str) {
    let args = hex(h.as_bytes());
    let imp = catch(|| {
        fields(&[
            ("trim", facts(h, Some(kstr::trim(h)))),
            ("trim_start", facts(h, Some(kstr::trim_start(h)))),
            ("trim_end", facts(h, Some(kstr::trim_end(h)))),
        ])
    });
    out.line("c01.ws", &args, &imp, "-", "ws");
}

/// the Parser's remainder after every step of a short operation sequence: inside the
/// original, valid UTF-8, both offsets on char boundaries
fn emit_parser(out: &mut Out, orig: &str, ops: &[crate::c13::Op]) {
    let d: Vec<String> = ops.iter().map(|o| o.desc()).collect();
    let args = format!("{} [{}]", hex(orig.as_bytes()), d.join(","));
    let imp = catch(|| {
        let mut v: Vec<String> = Vec::new();
        let mut p = Parser::new(orig);
        for &op in ops {
            match crate::c13::apply_pub(p, op) {
                Ok(q) => {
                    let s = q.start_offset();
                    let e = q.end_offset();
                    let ok = e >= s && e <= orig.len() && orig.is_char_boundary(s) && orig.is_char_boundary(e);
                    v.push(format!("{}|{}", facts(orig, Some(q.remainder())), show_bool(ok)));
                    p = q;
                }
                Err(_) => {
                    v.push("err".into());
                    break;
                }
            }
        }
        format!("[{}]", v.join(","))
    });
    out.line("c01.parser", &args, &imp, "-", "ops");
}

pub fn run(cfg: &Cfg, out: &mut Out) {
    // "miri": the reduced case list of the thorough tier; "miriq": the shorter one of the quick tier
    let mode = std::env::args().nth(2).unwrap_or_default();
    let miriq = mode == "miriq";
    let miri = mode == "miri" || miriq;
    // a Miri run may be restricted to sections (5th argument, comma-separated): each property runs
    // the part of the list that exercises its own code
    let sections: Option<Vec<String>> = std::env::args().nth(4).map(|a| a.split(',').map(|x| x.to_string()).collect());
    let want = |name: &str| sections.as_ref().map_or(true, |v| v.iter().any(|x| x == name));
    let alpha = ['a', 'é', '锈', '🧠'];
    let hays = all_strings(&alpha, if miriq { 1 } else if miri { 2 } else if cfg.thorough { 5 } else { 4 });
    let pats = all_strings(&alpha, if miri { 1 } else { 2 });
    let strs_wanted = !miri || want("str");
    for h in hays.iter().filter(|_| strs_wanted) {
        for n in &pats {
            emit_str(out, h, n);
        }
        for c in alpha {
            emit_char(out, h, c);
        }
    }
    let wsalpha = [' ', '\t', '\u{c}', 'x', 'é', '\u{a0}', '\u{3000}'];
    for h in all_strings(&wsalpha, if miriq { 1 } else if miri { 2 } else { 4 }).iter().filter(|_| strs_wanted) {
        emit_ws(out, h);
    }
    // Parser sequences over multi-byte text (depth 2 exhaustive over the C13 op set, incl. skip into
    // the middle of a char)
    let pstrs = all_strings(&['a', 'é', '-', ' ', '🧠'], if miri { 1 } else { 3 });
    for s in pstrs.iter().filter(|_| strs_wanted) {
        for (k, a) in crate::c13::OPS.into_iter().enumerate() {
            if miriq && (k + s.len()) % 4 != 0 {
                continue;
            }
            emit_parser(out, s, &[a]);
            if !miri {
                for b in crate::c13::OPS {
                    emit_parser(out, s, &[a, b]);
                }
            }
        }
    }
    // the thin wrappers of konst::maybe_uninit / manually_drop / ptr
    if !miri || want("wrap") {
        crate::c01w::run(cfg, out, miri);
    }
    // other unsafe-backed functions, exercised for Miri's benefit (results compared in C02/C07/C08/C20)
    if miri {
        if want("hist") {
            crate::c15::miri_cases(out, miriq);
        }
        if want("arr") {
            crate::c11::miri_cases(out);
        }
        if want("slice") {
        let arr = [1u16, 2, 3, 4, 5];
        let z = [(); 7];
        for i in [0usize, 2, 5, 9, usize::MAX] {
            let _ = konst::slice::slice_from(&arr, i);
            let _ = konst::slice::slice_up_to(&arr, i);
            let _ = konst::slice::get_range(&arr, i, 4);
            let _ = konst::slice::split_at(&z, i);
        }
        // results are USED (read / written through): under Miri's borrow tracking a reference built
        // from a pointer with the wrong provenance is only reported when it is created or used
            let (c, r) = konst::slice::as_chunks::<u16, 2>(&arr);
            let (r2, c2) = konst::slice::as_rchunks::<u16, 3>(&arr);
            let sum: u32 = c.iter().flatten().chain(r).chain(r2).chain(c2.iter().flatten()).map(|x| *x as u32).sum();
            out.line("c01.miri_use", "0", &sum.to_string(), "-", "-");
            let mut it = konst::slice::array_chunks::<u16, 2>(&arr);
            let mut acc = 0u32;
            while let Some((a, n)) = it.copy().next_back() {
                acc += a[0] as u32 + n.remainder().iter().map(|x| *x as u32).sum::<u32>();
                it = n;
            }
            out.line("c01.miri_use", "1", &acc.to_string(), "-", "-");
            // rev() of every multi-field iterator, taken part-way, then stepped from both ends
            // (the Miri build randomises struct layouts: a reversed twin is a distinct struct)
            let mut acc = 0u32;
            macro_rules! rev_both {
                ($it:expr, $val:expr) => {{
                    let it = $it;
                    if let Some((x, n)) = it.copy().next() {
                        acc = acc.wrapping_add($val(x));
                        let mut r = n.rev();
                        let mut front = true;
                        loop {
                            let o = if front { r.copy().next() } else { r.copy().next_back() };
                            match o {
                                Some((y, nr)) => {
                                    acc = acc.wrapping_mul(3).wrapping_add($val(y));
                                    r = nr;
                                    front = !front;
                                }
                                None => break,
                            }
                        }
                        let back = r.rev();
                        if let Some((z, _)) = back.next() {
                            acc = acc.wrapping_add($val(z));
                        }
                    }
                }};
            }
            let sl = |c: &[u16]| c.iter().map(|x| *x as u32).sum::<u32>() + c.len() as u32;
            rev_both!(konst::slice::iter(&arr), |x: &u16| *x as u32);
            rev_both!(konst::slice::iter_copied(&arr), |x: u16| x as u32);
            rev_both!(konst::slice::windows(&arr, 2), sl);
            rev_both!(konst::slice::chunks(&arr, 2), sl);
            rev_both!(konst::slice::rchunks(&arr, 2), sl);
            rev_both!(konst::slice::chunks_exact(&arr, 2), sl);
            rev_both!(konst::slice::rchunks_exact(&arr, 2), sl);
            rev_both!(konst::slice::array_chunks::<u16, 2>(&arr), |c: &[u16; 2]| c[0] as u32 + c[1] as u32);
            rev_both!(konst::slice::rchunks(&z, 3), |c: &[()]| c.len() as u32);
            out.line("c01.miri_use", "8", &acc.to_string(), "-", "-");
            let mut m = [1u16, 2, 3, 4, 5, 6];
            for i in [0usize, 1, 3, 6, 9, usize::MAX] {
                let (a, b) = konst::slice::split_at_mut(&mut m, i);
                if let Some(x) = a.first_mut() {
                    *x += 1;
                }
                if let Some(x) = b.last_mut() {
                    *x += 1;
                }
                let s = konst::slice::slice_from_mut(&mut m, i);
                if let Some(x) = s.first_mut() {
                    *x += 1;
                }
                let s = konst::slice::slice_up_to_mut(&mut m, i);
                if let Some(x) = s.last_mut() {
                    *x += 1;
                }
                let s = konst::slice::slice_range_mut(&mut m, 1, i);
                if let Some(x) = s.first_mut() {
                    *x += 1;
                }
                if let Some(s) = konst::slice::get_range_mut(&mut m, 1, i) {
                    if let Some(x) = s.last_mut() {
                        *x += 1;
                    }
                }
                if let Some(x) = konst::slice::get_mut(&mut m, i) {
                    *x += 1;
                }
            }
            if let Some((f, rest)) = konst::slice::split_first_mut(&mut m) {
                *f += rest.len() as u16;
            }
            if let Some((l, rest)) = konst::slice::split_last_mut(&mut m) {
                *l += rest[0];
            }
            if let Some(x) = konst::slice::first_mut(&mut m) {
                *x += 1;
            }
            if let Some(x) = konst::slice::last_mut(&mut m) {
                *x += 1;
            }
            if let Ok(a) = konst::slice::try_into_array_mut::<u16, 6>(&mut m) {
                a[2] += 1;
            }
            out.line("c01.miri_use", "2", &format!("{:?}", m), "-", "-");
        }
        if want("bc") {
            // as_mut_slice of builder / consumer: written through
            let mut b = konst::array::ArrayBuilder::<u32, 3>::new();
            b.push(1);
            b.push(2);
            b.as_mut_slice()[1] += 5;
            b.push(3);
            let built = b.build();
            let mut c = konst::array::ArrayConsumer::new([1u32, 2, 3]);
            let _ = c.next();
            c.as_mut_slice()[0] += 7;
            let rest: Vec<u32> = c.as_slice().to_vec();
            out.line("c01.miri_use", "3", &format!("{:?}{:?}", built, rest), "-", "-");
        }
        if want("range") {
            // ranges at the ends of every type (a step past the last item computes a value that is discarded)
            use konst::iter::into_iter;
            let mut n = 0u32;
            let mut it = into_iter!(char::MAX..=char::MAX);
            while let Some((x, ni)) = it.next() {
                n += x as u32;
                it = ni;
            }
            let mut it = into_iter!('\0'..='\u{1}').rev();
            while let Some((x, ni)) = it.next() {
                n += x as u32;
                it = ni;
            }
            let mut it = into_iter!('\u{d7ff}'..='\u{e000}');
            while let Some((x, ni)) = it.copy().next_back() {
                n += x as u32;
                it = ni;
            }
            let mut it = into_iter!(char::MAX..char::MAX);
            if let Some((x, _)) = it.copy().next() {
                n += x as u32;
            }
            let mut it = into_iter!(254u8..=255);
            while let Some((x, ni)) = it.next() {
                n += x as u32;
                it = ni;
            }
            let mut it = into_iter!(i8::MIN..=i8::MIN + 1).rev();
            while let Some((x, ni)) = it.next() {
                n = n.wrapping_add(x as u32);
                it = ni;
            }
            konst::iter::for_each! {x in u128::MAX - 1..=u128::MAX => n = n.wrapping_add(x as u32);}
            out.line("c01.miri_use", "4", &n.to_string(), "-", "-");
        }
        if want("chars") {
        let s = "aé锈🧠";
        let mut it = kstr::chars(s);
        while let Some((_, n)) = it.next() {
            it = n;
        }
        let mut ci = kstr::char_indices(s).rev();
        while let Some((_, n)) = ci.next() {
            ci = n;
        }
        let mut acc = 0usize;
        let mut it = kstr::chars(s);
        let mut front = true;
        loop {
            let r = if front { it.copy().next() } else { it.copy().next_back() };
            match r {
                Some((c, n)) => {
                    acc += c as usize + n.as_str().len();
                    it = n;
                    front = !front;
                }
                None => break,
            }
        }
        let mut it = kstr::char_indices(s);
        while let Some(((i, c), n)) = it.copy().next_back() {
            acc += i + c as usize + n.as_str().len() + n.copy().rev().rev().as_str().len();
            it = n;
        }
        for d in ["", "é", "-"] {
            let mut sp = kstr::split(s, d);
            while let Some((p, n)) = sp.copy().next() {
                acc += p.len() + n.remainder().len();
                sp = n;
            }
            let mut sp = kstr::rsplit(s, d);
            while let Some((p, n)) = sp.copy().next() {
                acc += p.len() + n.remainder().len();
                sp = n;
            }
        }
        out.line("c01.miri_use", "5", &acc.to_string(), "-", "-");
        }
        if want("strslice") {
            let s = "aé锈🧠-x";
            let mut acc = 0usize;
            for i in [0usize, 1, 3, 6, 10, 11, 12, 99, usize::MAX] {
                acc += kstr::str_from(s, i).len() + kstr::str_up_to(s, i).len() + kstr::str_range(s, 1, i).len();
                let (a, b) = kstr::split_at(s, i);
                acc += a.len() * 3 + b.len();
                acc += kstr::get_from(s, i).map_or(7, |x| x.len()) + kstr::get_up_to(s, i).map_or(7, |x| x.len()) + kstr::get_range(s, 1, i).map_or(7, |x| x.chars().count());
                acc += kstr::is_char_boundary(s, i) as usize;
            }
            out.line("c01.miri_use", "6", &acc.to_string(), "-", "-");
        }
        if want("parse") {
            let mut acc = 0u128;
            for s in ["0", "7", "255", "256", "123456789", "00000000123456789012", "18446744073709551615", "18446744073709551616",
                      "-128", "-170141183460469231731687303715884105728", "340282366920938463463374607431768211455", "12345678x", "x", ""] {
                acc += konst::primitive::parse_u8(s).map_or(1, |v| v as u128) + konst::primitive::parse_u32(s).map_or(2, |v| v as u128);
                acc += konst::primitive::parse_u64(s).map_or(3, |v| v as u128 % 1000) + konst::primitive::parse_i128(s).map_or(4, |v| (v % 1000).unsigned_abs());
                acc += konst::primitive::parse_u128(s).map_or(5, |v| v % 1000) + konst::primitive::parse_isize(s).map_or(6, |v| (v % 1000).unsigned_abs() as u128);
                let p = Parser::new(s);
                acc += p.parse_u16().map_or(7, |(v, q)| v as u128 + q.remainder().len() as u128) + p.parse_i64().map_or(8, |(v, q)| (v % 1000).unsigned_abs() as u128 + q.start_offset() as u128);
                acc += konst::primitive::parse_bool(s).map_or(9, |b| b as u128);
            }
            out.line("c01.miri_use", "7", &acc.to_string(), "-", "-");
        }
        if want("misc") {
        let _ = konst::chr::encode_utf8('🧠').as_str().len();
        let _ = konst::chr::from_u32(0xD7FF);
        let m: [u32; 4] = konst::array::map!([1u32, 2, 3, 4], |x| x + 1);
        let f: [String; 3] = konst::array::from_fn_!(|i| i.to_string());
        let _ = (m, f);
        let c = konst::ffi::cstr::from_bytes_until_nul(b"ab\0c").unwrap();
        let _ = konst::ffi::cstr::to_bytes_with_nul(c).len();
        konst::destructure! {(a, b) = (String::from("x"), vec![1u8])}
        let _ = (a, b);
        }
    }
}
